--------------------------------- MODULE Reuse ---------------------------------
(* C44 for element-wise / aggregate operators: ONE operator object (op, par) applied to NApps
   independent sources whose subscriptions interleave.  An operator object is a value;
   applying it to a source creates an independent instance: every application owns its own
   transducer state st[a] (the transducers are Ops1's, used through INSTANCE).  Application a
   is subscribed at instant start[a]; its j-th input event (the terminal is event Len+1)
   occurs at instant start[a] + j, so the offsets decide how the applications interleave:
   equal offsets = lockstep, offset 1 = alternating, large offset = one after the other.
   Events due at the same instant are delivered in application order (the outputs of one
   application do not depend on that order - see Independent - and the replayer drives both
   creation orders).

   Checked in the model: per application Ops1's own invariants (Grammar, Released, Causal,
   RefOK = transducer agrees with the list reference), and Independent: the output of every
   application in the interleaved run equals the run of that source alone.                 *)
EXTENDS Integers, Sequences, FiniteSets, TLC, Json

CONSTANTS NVals, MaxLen, Ops, Terms, Faults,
          NApps, SrcIds, TermRows, StartRows      \* rows of the tables below that are offered

VARIABLES op, par, srcs, terms, start, now, idx, st, out, done, unsub
vars == <<op, par, srcs, terms, start, now, idx, st, out, done, unsub>>

Apps == 1..NApps
NEVER == MaxLen + 5

O_S0 == [c |-> 0, q |-> <<>>, b |-> FALSE]
\* Ops1's pure operators (ParamsOf, Sub, Nx, Tm, Stamp); its variables are not used through O
O == INSTANCE Ops1 WITH Disposes <- FALSE, IdentSrc <- FALSE, src <- <<>>, term <- "C", dsp <- NEVER,
                        i <- 0, st <- O_S0, out <- <<>>, done <- FALSE, unsub <- NEVER, pick <- 0
\* Ops1 seen from application a: its invariants and its reference semantics apply per application
A(a) == INSTANCE Ops1 WITH Disposes <- FALSE, IdentSrc <- FALSE, src <- srcs[a], term <- terms[a], dsp <- NEVER,
                           i <- idx[a], st <- st[a], out <- out[a], done <- done[a], unsub <- unsub[a], pick <- 0

SrcTab == << <<0, 1>>, <<1, 1, 0>>, <<1>>, <<>>, <<0, 0, 1>>, <<1, 0, 1, 0>> >>
TermTab == << <<"C", "C", "C">>, <<"E", "C", "E">>, <<"C", "U", "C">>, <<"C", "E", "U">> >>
StartTab == << <<0, 0, 0>>, <<0, 1, 2>>, <<0, 4, 1>>, <<1, 0, 3>>, <<0, 2, 2>> >>

SrcLen(a) == Len(srcs[a]) + (IF terms[a] = "U" THEN 0 ELSE 1)

Init == /\ op \in Ops /\ par \in O!ParamsOf(op)
        /\ srcs \in {s \in [Apps -> {SrcTab[j] : j \in SrcIds}] : \A a \in Apps : Len(s[a]) <= MaxLen}
        /\ \E r \in TermRows : terms = [a \in Apps |-> TermTab[r][a]]
        /\ \A a \in Apps : terms[a] \in Terms
        /\ \E r \in StartRows : start = [a \in Apps |-> StartTab[r][a]]
        /\ now = 0 /\ idx = [a \in Apps |-> 0]
        /\ LET r == O!Sub(op, par) IN
           /\ st = [a \in Apps |-> r.st] /\ out = [a \in Apps |-> O!Stamp(r.em, 0)]
           /\ done = [a \in Apps |-> r.fin]
           /\ unsub = [a \in Apps |-> IF r.fin THEN 0 - 1 ELSE NEVER]

\* the next event: least instant, then least application index
Pending == {a \in Apps : ~done[a] /\ idx[a] < SrcLen(a)}
Due(a) == start[a] + idx[a] + 1
First == CHOOSE a \in Pending : \A b \in Pending : Due(a) < Due(b) \/ (Due(a) = Due(b) /\ a <= b)

Feed == /\ Pending # {}
        /\ LET a == First  j == idx[a] + 1
               r == IF j <= Len(srcs[a]) THEN O!Nx(op, par, st[a], srcs[a][j]) ELSE O!Tm(op, par, st[a], terms[a], 0) IN
           /\ now' = Due(a) /\ idx' = [idx EXCEPT ![a] = j]
           /\ st' = [st EXCEPT ![a] = r.st] /\ out' = [out EXCEPT ![a] = @ \o O!Stamp(r.em, j)]
           /\ done' = [done EXCEPT ![a] = r.fin]
           /\ unsub' = [unsub EXCEPT ![a] = IF r.fin THEN j ELSE @]
        /\ UNCHANGED <<op, par, srcs, terms, start>>
Next == Feed
Spec == Init /\ [][Next]_vars

AllDone == Pending = {}

(* ---- the property: applications are independent (C44) ------------------------------------ *)
RECURSIVE Fold1(_, _, _, _, _)
Fold1(a, j, s, o, fin) ==
  IF fin \/ j > SrcLen(a) THEN o
  ELSE LET r == IF j <= Len(srcs[a]) THEN O!Nx(op, par, s, srcs[a][j]) ELSE O!Tm(op, par, s, terms[a], 0)
       IN Fold1(a, j + 1, r.st, o \o O!Stamp(r.em, j), r.fin)
Single(a) == LET r == O!Sub(op, par) IN Fold1(a, 1, r.st, O!Stamp(r.em, 0), r.fin)
Independent == AllDone => \A a \in Apps : out[a] = Single(a)
\* global time never runs backwards (the interleaving is a schedule)
Monotone == [][now' >= now]_vars

PerApp == \A a \in Apps : A(a)!Grammar /\ A(a)!Released /\ A(a)!Causal /\ A(a)!RefOK

Export == AllDone => PrintT(ToJson([scn |-> [op |-> op, par |-> par, srcs |-> srcs, terms |-> terms, start |-> start],
                                    obs |-> [out |-> out, unsub |-> unsub]]))
================================================================================
