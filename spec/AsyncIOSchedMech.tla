--------------------------- MODULE AsyncIOSchedMech ---------------------------
(* Design-level trace matching for AsyncIOSched.tla (reported as MODEL DRIFT only, never as a violation).

   The same recorded executions that AsyncIOSchedTrace.tla judges against the monitor are matched here
   against monitor + MECHANISM: every logged event must be taken by the mechanism action that performs
   that monitor action (sc = SchedCall, sr = SchedRet, dc = DispCall, dr = DispRet, st = RunInterval,
   ls = LoopStart, lx = LoopStop, id = LoopIdle / LoopAsleepWithWork) at the logged clock reading, and all
   the other mechanism actions (queueing, stage 2, pop/cancel, marshalling, the loop's iteration
   steps, Tick) are silent steps TLC has to infer.  The scenario of each trace is part of the batch
   ([scn, own, busy, ev]); the variant is chosen in TInit from {"own", "caller"}, and the furthest position
   is tracked per variant, so the verdict also says WHICH cancellation decision explains the run:
       explained by "own"            the code behaves like the intended design on this run
       explained only by "caller"    the run needs the pinned decision (an un-marshalled foreign dispose)
       explained by neither          the code no longer has the shape of the model: drift               *)
EXTENDS AsyncIOSched, TLCExt, IOUtils

CONSTANTS NTraces, Unit        \* Unit: trace clock readings are in 1/Unit of a model tick

Traces == JsonDeserialize(IOEnv.TRACE_FILE)

VARIABLES tid, l

tvars == <<tid, l>>
Evs == Traces[tid].ev
Ev == Evs[l]
More == l <= Len(Evs)
Step == l' = l + 1 /\ UNCHANGED tid
Silent == UNCHANGED tvars
ToSet(s) == {s[j] : j \in 1..Len(s)}
At(t) == now * Unit = t
On(th, i) == th \in Threads /\ ex[th].i = i

TInit == /\ tid \in 1..NTraces /\ l = 1 /\ MonInit
         /\ \E v \in {"own", "caller"} : MechInitFor(v, Traces[tid].scn, ToSet(Traces[tid].own), Traces[tid].busy)

Logged == /\ More /\ At(Ev.t) /\ Step
          /\ CASE Ev.e = "sc" -> On(Ev.th, Ev.i) /\ SchedCall(Ev.th)
               [] Ev.e = "sr" -> On(Ev.th, Ev.i) /\ SchedRet(Ev.th)
               [] Ev.e = "dc" -> On(Ev.th, Ev.i) /\ DispCall(Ev.th)
               [] Ev.e = "dr" -> On(Ev.th, Ev.i) /\ DispRet(Ev.th)
               [] Ev.e = "st" -> Ev.th = LT /\ ex[LT].i = Ev.i /\ RunInterval
               [] Ev.e = "ls" -> Ev.th = LT /\ LoopStart
               [] Ev.e = "lx" -> Ev.th = LT /\ (LoopStop \/ LoopPause)
               [] Ev.e = "id" -> Ev.th = LT /\ (LoopIdle \/ LoopAsleepWithWork)
               [] OTHER -> FALSE

Inferred == /\ Silent
            /\ \/ \E th \in Threads : \/ NextOp(th) \/ SchedEnqueue(th) \/ SchedAssign(th) \/ CancelPop(th) \/ CancelSet(th)
                                      \/ DispMarshal(th) \/ DispAwait(th) \/ CancelDone(th) \/ PostDispose(th) \/ Wake(th)
               \/ Stage2Timer \/ Stage2Assign \/ Poll \/ RunOnce \/ Pop \/ IterEnd \/ Enter \/ CbEnd \/ Tick

TNext == Logged \/ Inferred

\* registers: tid = furthest position explained with variant "own", NTraces + tid = with variant "caller"
Bump(r) == TLCSet(r, IF TLCGet(r) < l THEN l ELSE TLCGet(r))
Track == Bump(IF variant = "own" THEN tid ELSE NTraces + tid)
ASSUME \A j \in 1..(2 * NTraces) : TLCSet(j, 0)

End(j) == Len(Traces[j].ev) + 1
Max(a, b) == IF a < b THEN b ELSE a
Post == \A j \in 1..NTraces :
          /\ (TLCGet(j) # End(j) /\ TLCGet(NTraces + j) # End(j)) => PrintT(<<"REJECTED", j, Max(TLCGet(j), TLCGet(NTraces + j))>>)
          /\ (TLCGet(j) # End(j) /\ TLCGet(NTraces + j) = End(j)) => PrintT(<<"ONLYCALLER", j>>)
          /\ (TLCGet(j) = End(j) /\ TLCGet(NTraces + j) # End(j)) => PrintT(<<"ONLYOWN", j>>)
================================================================================
