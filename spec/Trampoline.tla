------------------------------ MODULE Trampoline ------------------------------
(* L0: trampoline / current-thread scheduling (C30).
   TrampolineScheduler, CurrentThreadScheduler, CurrentThreadScheduler.singleton().

   The abstract object is a set of TRAMPOLINES.  A scheduler s in SharedS (a
   TrampolineScheduler instance) owns one trampoline <<s, 0>> whoever calls it; a scheduler
   in LocalS (CurrentThreadScheduler and its singleton) owns one trampoline <<s, th>> per
   calling thread.  Per trampoline: queue (pending items), runner (the thread whose schedule
   call found it idle and is draining it; 0 = idle), committed / running (item picked /
   item whose action is executing).

   Calls are specified in linearizability style, the thread's control state is an explicit
   call stack (frames "sched", "cancel", "act"):
     CallSched  - schedule / schedule_relative / schedule_absolute is invoked (item id = n+1)
     Lin        - silent: the item is enqueued atomically; if the trampoline is idle the
                  caller becomes its runner and OWES the drain (it may not return before the
                  queue is empty), otherwise it owes nothing
     Commit(x)  - silent, by the runner: x is picked.  Needs: nothing running or committed on
                  this trampoline (NoNesting), x not definitely preceded by another pending
                  item (order), clock >= due[x] (NotEarly), x not cancelled (a cancel that
                  linearized before Commit removed x from the queue)             DESIGN 3.3
     Start/End  - the action of the committed item runs on the runner's thread
     Release    - silent, by the runner: the queue is empty, the trampoline becomes idle
     Ret        - the call returns; a runner only after Release
     CallCancel / Lin / Ret - item.disposable.dispose()
     CallReq / LinReq / Ret - schedule_required(): TRUE iff the trampoline is idle at the linearization point
   Order is by due time, first-enqueued-first among equals.  The statement does not say how
   an ABSOLUTE due time that already lies in the past at the scheduling instant compares with
   items due between it and that instant ("due-time order" read on the raw due time, or on
   the effective one = Max(due, clock at scheduling)): y definitely precedes x only when it
   does under BOTH readings; behaviours in which more than one item could be committed are
   flagged amb.

   The same actions serve
     - Binding A: Threads = {1}, ClockMode = "jump": programs (trees of nested schedule /
       schedule_relative / schedule_absolute / cancel / sleep) are enumerated lazily and
       executed by the model with a discrete-event clock; the run log is exported;
     - design check: Threads = {1,2}, ClockMode = "tick": all interleavings of
       Call/Lin/Commit/Start/End/Ret with a freely ticking clock, property invariants;
     - TrampolineTrace.tla: the generator parts are replaced by recorded events.          *)
EXTENDS Integers, Sequences, FiniteSets, TLC, Json

CONSTANTS Threads,    \* thread ids (small positive integers)
          SharedS,    \* scheduler ids with ONE trampoline (TrampolineScheduler instances)
          LocalS,     \* scheduler ids with one trampoline PER THREAD (CurrentThreadScheduler, singleton)
          MaxItems,   \* at most this many schedule calls
          MaxCmds,    \* generator: global command budget
          MaxBody,    \* commands per action body
          RelD,       \* relative due times offered
          AbsT,       \* absolute due times offered
          SleepD,     \* sleep arguments offered (jump mode)
          NegRel,     \* TRUE: also offer schedule_relative(-1) (clamped to 0 by the schedulers)
          ClockMode,  \* "jump" (one thread, discrete-event clock) | "tick" (free clock) | "trace"
          MaxClock,   \* tick mode: the clock ticks freely up to here (and further only while something is pending)
          Record,     \* TRUE: keep the program history (top, body, tops) for export
          Req         \* TRUE: also offer schedule_required() (is the trampoline idle?)

VARIABLES clock,
          n,          \* items created so far (ids 1..n, in call order)
          isch, itr, iown,   \* item -> scheduler, trampoline, calling thread
          due, eff,   \* item -> due time, effective due time Max(due, clock at the call)
          enq, com,   \* item -> stamp of its Lin (0: not yet enqueued) / of its Commit (0: none)
          queue,      \* trampoline -> pending items
          ghost,      \* jump mode: trampoline -> cancelled timed items the runner may still wait for
          runner,     \* trampoline -> thread draining it, 0 = idle
          committed, running,   \* trampoline -> item, 0 = none
          stack,      \* thread -> sequence of frames
          stamp,      \* trampoline -> event counter for enq / com (independent trampolines do not order their steps)
          dead,       \* items whose cancellation took effect (linearized before their Commit)
          retd,       \* items whose schedule call has returned (their disposable is in the client's hands)
          ran,        \* run log: [id, th, clk, depth, nest]
          active,     \* items whose action is executing
          budget, top, body, tops, amb,
          reqs        \* results of the schedule_required() calls, in return order

vars == <<clock, n, isch, itr, iown, due, eff, enq, com, queue, ghost, runner, committed, running,
          stack, stamp, dead, retd, ran, active, budget, top, body, tops, amb, reqs>>

Scheds == SharedS \cup LocalS
TrampOf(s, th) == IF s \in SharedS THEN <<s, 0>> ELSE <<s, th>>
Tramps == {<<s, 0>> : s \in SharedS} \cup {<<s, t>> : s \in LocalS, t \in Threads}
Ids == 1..MaxItems
Max(a, b) == IF a >= b THEN a ELSE b
Frame(k, id, left) == [k |-> k, id |-> id, lin |-> FALSE, drain |-> FALSE, left |-> left, res |-> 2]
Cmd(c, s, a, b) == [c |-> c, s |-> s, a |-> a, b |-> b]

Init == /\ clock = 0 /\ n = 0
        /\ isch = [i \in Ids |-> 0] /\ itr = [i \in Ids |-> <<0, 0>>] /\ iown = [i \in Ids |-> 0]
        /\ due = [i \in Ids |-> 0] /\ eff = [i \in Ids |-> 0]
        /\ enq = [i \in Ids |-> 0] /\ com = [i \in Ids |-> 0]
        /\ queue = [t \in Tramps |-> {}] /\ ghost = [t \in Tramps |-> {}]
        /\ runner = [t \in Tramps |-> 0] /\ committed = [t \in Tramps |-> 0] /\ running = [t \in Tramps |-> 0]
        /\ stack = [t \in Threads |-> <<>>] /\ stamp = [t \in Tramps |-> 0] /\ dead = {} /\ retd = {}
        /\ ran = <<>> /\ active = {} /\ budget = MaxCmds
        /\ top = [t \in Threads |-> <<>>] /\ body = [i \in Ids |-> <<>>] /\ tops = [t \in Threads |-> <<>>]
        /\ amb = FALSE /\ reqs = <<>>

Top(th) == stack[th][Len(stack[th])]
Pop(th) == SubSeq(stack[th], 1, Len(stack[th]) - 1)
SetTop(th, f) == [stack EXCEPT ![th] = Append(Pop(th), f)]
\* a client command may be issued at top level or from inside a running action
CanIssue(th) == IF stack[th] = <<>> THEN TRUE ELSE Top(th).k = "act" /\ Top(th).left > 0
ActDepth(th) == Cardinality({i \in 1..Len(stack[th]) : stack[th][i].k = "act"})

\* the program history: top-level commands per thread, body per item (Record only)
Note(th, c) == IF ~Record THEN UNCHANGED <<top, body>>
               ELSE IF stack[th] = <<>>
                    THEN top' = [top EXCEPT ![th] = Append(@, c)] /\ UNCHANGED body
                    ELSE body' = [body EXCEPT ![Top(th).id] = Append(@, c)] /\ UNCHANGED top
\* issuing a command from inside an action uses up one of its MaxBody slots
Spend(th, fr) == IF stack[th] = <<>> THEN <<fr>>
                 ELSE Append(Append(Pop(th), [Top(th) EXCEPT !.left = @ - 1]), fr)
SpendOnly(th) == IF stack[th] = <<>> THEN <<>> ELSE Append(Pop(th), [Top(th) EXCEPT !.left = @ - 1])

(* ---- the order ------------------------------------------------------------------------ *)
RawBefore(y, x) == due[y] < due[x] \/ (due[y] = due[x] /\ enq[y] < enq[x])
EffBefore(y, x) == eff[y] < eff[x] \/ (eff[y] = eff[x] /\ enq[y] < enq[x])
Before(y, x) == RawBefore(y, x) /\ EffBefore(y, x)        \* y DEFINITELY precedes x
MinimalIn(x, S) == x \in S /\ \A y \in S \ {x} : ~Before(y, x)

(* ---- schedule ------------------------------------------------------------------------- *)
Kinds == {<<"imm", 0>>} \cup {<<"rel", d>> : d \in RelD} \cup (IF NegRel THEN {<<"reln", 1>>} ELSE {})
         \cup {<<"abs", t>> : t \in AbsT}
\* schedule_relative clamps a negative delay to zero ("reln")
DueOf(kind, d) == CASE kind = "imm" -> clock [] kind = "rel" -> clock + d [] kind = "reln" -> clock [] OTHER -> d

CallSched(th, s, kind, d) ==
    /\ CanIssue(th) /\ n < MaxItems /\ s \in Scheds
    /\ LET x == n + 1  dd == DueOf(kind, d) IN
       /\ n' = x
       /\ isch' = [isch EXCEPT ![x] = s] /\ itr' = [itr EXCEPT ![x] = TrampOf(s, th)]
       /\ iown' = [iown EXCEPT ![x] = th]
       /\ due' = [due EXCEPT ![x] = dd] /\ eff' = [eff EXCEPT ![x] = Max(dd, clock)]
       /\ stack' = [stack EXCEPT ![th] = Spend(th, Frame("sched", x, 0))]
       /\ Note(th, Cmd(kind, s, d, x))
    /\ budget' = budget - 1
    /\ UNCHANGED <<clock, enq, com, queue, ghost, runner, committed, running, stamp, dead, retd, ran, active, tops, amb>>
    /\ UNCHANGED reqs

CallCancel(th, j) ==
    /\ CanIssue(th) /\ j \in retd
    /\ stack' = [stack EXCEPT ![th] = Spend(th, Frame("cancel", j, 0))]
    /\ Note(th, Cmd("cancel", 0, j, 0))
    /\ budget' = budget - 1
    /\ UNCHANGED <<clock, n, isch, itr, iown, due, eff, enq, com, queue, ghost, runner, committed, running,
                   stamp, dead, retd, ran, active, tops, amb>>
    /\ UNCHANGED reqs

\* the linearization point of a pending call
Lin(th) ==
    /\ stack[th] # <<>> /\ Top(th).k \in {"sched", "cancel"} /\ ~Top(th).lin
    /\ UNCHANGED reqs
    /\ LET f == Top(th)  x == f.id  tr == itr[x] IN
       IF f.k = "sched"
       THEN /\ queue' = [queue EXCEPT ![tr] = @ \cup {x}]
            /\ enq' = [enq EXCEPT ![x] = stamp[tr] + 1] /\ stamp' = [stamp EXCEPT ![tr] = @ + 1]
            /\ IF runner[tr] = 0
               THEN /\ runner' = [runner EXCEPT ![tr] = th]
                    /\ stack' = SetTop(th, [f EXCEPT !.lin = TRUE, !.drain = TRUE])
               ELSE /\ UNCHANGED runner
                    /\ stack' = SetTop(th, [f EXCEPT !.lin = TRUE])
            /\ UNCHANGED <<dead, ghost>>
       ELSE /\ IF x \in queue[tr]      \* not yet committed: the cancellation takes effect
               THEN /\ queue' = [queue EXCEPT ![tr] = @ \ {x}] /\ dead' = dead \cup {x}
                    /\ ghost' = IF ClockMode = "jump" THEN [ghost EXCEPT ![tr] = @ \cup {x}] ELSE ghost
               ELSE UNCHANGED <<queue, dead, ghost>>
            /\ stack' = SetTop(th, [f EXCEPT !.lin = TRUE])
            /\ UNCHANGED <<enq, stamp, runner>>
    /\ UNCHANGED <<clock, n, isch, itr, iown, due, eff, com, committed, running, retd, ran, active,
                   budget, top, body, tops, amb>>

\* schedule_required(): "must the caller schedule?" = is the trampoline of (s, calling thread) idle
CallReq(th, s) ==
    /\ CanIssue(th) /\ s \in Scheds
    /\ stack' = [stack EXCEPT ![th] = Spend(th, Frame("req", s, 0))]
    /\ Note(th, Cmd("req", s, 0, 0))
    /\ budget' = budget - 1
    /\ UNCHANGED <<clock, n, isch, itr, iown, due, eff, enq, com, queue, ghost, runner, committed, running,
                   stamp, dead, retd, ran, active, tops, amb, reqs>>

LinReq(th) ==
    /\ stack[th] # <<>> /\ Top(th).k = "req" /\ ~Top(th).lin
    /\ stack' = SetTop(th, [Top(th) EXCEPT !.lin = TRUE,
                                           !.res = IF runner[TrampOf(Top(th).id, th)] = 0 THEN 1 ELSE 0])
    /\ UNCHANGED <<clock, n, isch, itr, iown, due, eff, enq, com, queue, ghost, runner, committed, running,
                   stamp, dead, retd, ran, active, budget, top, body, tops, amb, reqs>>

Draining(th) == stack[th] # <<>> /\ Top(th).k = "sched" /\ Top(th).lin /\ Top(th).drain
DrainTr(th) == itr[Top(th).id]

\* the runner picks the next item (silent; the scheduler's own decision point)
Commit(th, x) ==
    /\ Draining(th)
    /\ LET tr == DrainTr(th) IN
       /\ committed[tr] = 0 /\ running[tr] = 0
       /\ MinimalIn(x, queue[tr]) /\ due[x] <= clock
       /\ committed' = [committed EXCEPT ![tr] = x]
       /\ queue' = [queue EXCEPT ![tr] = @ \ {x}]
       /\ amb' = (amb \/ \E y \in queue[tr] \ {x} : MinimalIn(y, queue[tr]) /\ due[y] <= clock)
       /\ com' = [com EXCEPT ![x] = stamp[tr] + 1] /\ stamp' = [stamp EXCEPT ![tr] = @ + 1]
    /\ UNCHANGED <<clock, n, isch, itr, iown, due, eff, enq, ghost, runner, running, stack, dead, retd, ran, active,
                   budget, top, body, tops>>
    /\ UNCHANGED reqs

Start(th, x) ==
    /\ Draining(th)
    /\ LET tr == DrainTr(th) IN
       /\ committed[tr] = x /\ x # 0
       /\ committed' = [committed EXCEPT ![tr] = 0] /\ running' = [running EXCEPT ![tr] = x]
       /\ ran' = Append(ran, [id |-> x, th |-> th, clk |-> clock, depth |-> ActDepth(th),
                              nest |-> Cardinality({y \in active : itr[y] = tr})])
    /\ active' = active \cup {x}
    /\ stack' = [stack EXCEPT ![th] = Append(@, Frame("act", x, MaxBody))]
    /\ UNCHANGED <<clock, n, isch, itr, iown, due, eff, enq, com, queue, ghost, runner, stamp, dead, retd,
                   budget, top, body, tops, amb>>
    /\ UNCHANGED reqs

End(th) ==
    /\ stack[th] # <<>> /\ Top(th).k = "act"
    /\ running' = [running EXCEPT ![itr[Top(th).id]] = 0]
    /\ active' = active \ {Top(th).id}
    /\ stack' = [stack EXCEPT ![th] = Pop(th)]
    /\ UNCHANGED <<clock, n, isch, itr, iown, due, eff, enq, com, queue, ghost, runner, committed, stamp, dead, retd, ran,
                   budget, top, body, tops, amb>>
    /\ UNCHANGED reqs

\* the runner finds its trampoline drained and lets go of it (silent: the linearization point of
\* "the drain is over"; from here on the next schedule call finds the trampoline idle)
Release(th) ==
    /\ Draining(th)
    /\ LET tr == DrainTr(th) IN
       /\ queue[tr] = {} /\ committed[tr] = 0 /\ running[tr] = 0
       /\ (ClockMode = "jump" => ghost[tr] = {})
       /\ runner' = [runner EXCEPT ![tr] = 0]
    /\ stack' = SetTop(th, [Top(th) EXCEPT !.drain = FALSE])
    /\ UNCHANGED <<clock, n, isch, itr, iown, due, eff, enq, com, queue, ghost, committed, running, stamp, dead, retd, ran, active,
                   budget, top, body, tops, amb>>
    /\ UNCHANGED reqs

\* a call returns once it owes nothing: a runner only after it released its drained trampoline
Ret(th) ==
    /\ stack[th] # <<>> /\ Top(th).k \in {"sched", "cancel", "req"} /\ Top(th).lin /\ ~Top(th).drain
    /\ retd' = IF Top(th).k = "sched" THEN retd \cup {Top(th).id} ELSE retd
    /\ reqs' = IF Top(th).k = "req" THEN Append(reqs, Top(th).res) ELSE reqs
    /\ stack' = [stack EXCEPT ![th] = Pop(th)]
    /\ tops' = IF Record /\ Len(stack[th]) = 1 THEN [tops EXCEPT ![th] = Append(@, <<clock, Len(ran)>>)] ELSE tops
    /\ UNCHANGED <<clock, n, isch, itr, iown, due, eff, enq, com, queue, ghost, runner, committed, running, stamp, dead, ran, active,
                   budget, top, body, amb>>

(* ---- the clock ------------------------------------------------------------------------- *)
\* jump mode (one thread): a client may sleep ...
Sleep(th, d) ==
    /\ ClockMode = "jump" /\ CanIssue(th) /\ d > 0
    /\ clock' = clock + d
    /\ Note(th, Cmd("sleep", 0, d, 0))
    /\ stack' = [stack EXCEPT ![th] = SpendOnly(th)]
    /\ tops' = IF Record /\ stack[th] = <<>> THEN [tops EXCEPT ![th] = Append(@, <<clock + d, Len(ran)>>)] ELSE tops
    /\ budget' = budget - 1
    /\ UNCHANGED <<n, isch, itr, iown, due, eff, enq, com, queue, ghost, runner, committed, running, stamp, dead, retd, ran, active, amb>>
    /\ UNCHANGED reqs

\* ... and a runner with nothing due waits for the earliest pending item (discrete-event rule).
\* No pending item is due here, so raw and effective due times coincide and the order is total.
Jump(th) ==
    /\ ClockMode = "jump" /\ Draining(th)
    /\ LET tr == DrainTr(th)  all == queue[tr] \cup ghost[tr] IN
       /\ committed[tr] = 0 /\ running[tr] = 0 /\ queue[tr] # {}
       /\ \A y \in queue[tr] : due[y] > clock
       /\ \E m \in queue[tr] : /\ \A y \in all : due[y] >= due[m]
                               /\ clock' = due[m]
    /\ UNCHANGED <<n, isch, itr, iown, due, eff, enq, com, queue, ghost, runner, committed, running, stack, stamp, dead, retd,
                   ran, active, budget, top, body, tops, amb>>
    /\ UNCHANGED reqs

\* the statement is silent on whether the runner still waits for a cancelled timed item
Discard(th, x) ==
    /\ ClockMode = "jump" /\ Draining(th)
    /\ LET tr == DrainTr(th) IN
       /\ committed[tr] = 0 /\ running[tr] = 0 /\ x \in ghost[tr]
       /\ \A y \in queue[tr] \cup ghost[tr] : due[y] >= due[x] \/ due[x] <= clock
       /\ ghost' = [ghost EXCEPT ![tr] = @ \ {x}]
    /\ clock' \in {clock, Max(clock, due[x])}
    /\ amb' = (amb \/ due[x] > clock)
    /\ UNCHANGED <<n, isch, itr, iown, due, eff, enq, com, queue, runner, committed, running, stack, stamp, dead, retd,
                   ran, active, budget, top, body, tops>>
    /\ UNCHANGED reqs

Tick == /\ ClockMode = "tick"
        /\ clock < MaxClock \/ \E tr \in Tramps : \E x \in queue[tr] : due[x] > clock
        /\ clock' = clock + 1
        /\ UNCHANGED <<n, isch, itr, iown, due, eff, enq, com, queue, ghost, runner, committed, running, stack, stamp, dead, retd,
                       ran, active, budget, top, body, tops, amb, reqs>>

(* ---- the generator: what clients do ---------------------------------------------------------- *)
GenSched(th)  == budget > 0 /\ \E s \in Scheds : \E k \in Kinds : CallSched(th, s, k[1], k[2])
GenCancel(th) == budget > 0 /\ \E j \in retd : CallCancel(th, j)
GenSleep(th)  == budget > 0 /\ \E d \in SleepD : Sleep(th, d)
GenReq(th)    == Req /\ budget > 0 /\ \E s \in Scheds : CallReq(th, s)

Next == \/ \E th \in Threads : \/ GenSched(th) \/ GenCancel(th) \/ GenSleep(th) \/ GenReq(th)
                               \/ Lin(th) \/ LinReq(th) \/ Release(th) \/ Ret(th) \/ End(th) \/ Jump(th)
                               \/ \E x \in Ids : Commit(th, x) \/ Start(th, x) \/ Discard(th, x)
        \/ Tick

Spec == Init /\ [][Next]_vars

(* ---- the property (C30), as invariants over the run log ------------------------------------ *)
RanIds == {ran[i].id : i \in 1..Len(ran)}
Quiet == \A th \in Threads : stack[th] = <<>>

TypeOK == /\ clock \in Nat /\ n \in 0..MaxItems /\ \A tr \in Tramps : stamp[tr] \in Nat
          /\ \A tr \in Tramps : runner[tr] \in Threads \cup {0} /\ queue[tr] \subseteq 1..n

\* an action scheduled while another is running runs only after that action returns
NoNesting == \A i \in 1..Len(ran) : ran[i].nest = 0
\* one at a time, per trampoline
Serial == \A x, y \in active : x # y => itr[x] # itr[y]
\* actions run on the scheduling thread (current-thread schedulers; a shared TrampolineScheduler
\* instance is documented to run everything on the thread that found it idle)
SameThread == \A i \in 1..Len(ran) : isch[ran[i].id] \in LocalS => ran[i].th = iown[ran[i].id]
\* independence: the trampoline of (s, th) is only ever drained by th
OwnTrampoline == \A tr \in Tramps : (tr[2] # 0 /\ runner[tr] # 0) => runner[tr] = tr[2]
\* timed actions never run before their due time
NotEarly == \A i \in 1..Len(ran) : ran[i].clk >= due[ran[i].id]
\* a cancelled action never runs
CancelledNeverRuns == dead \cap RanIds = {}
RunOnce == \A i, j \in 1..Len(ran) : i # j => ran[i].id # ran[j].id
\* due-time order, first-scheduled-first among equals: if b ran after a although b definitely
\* precedes a, then b was enqueued only after a had been picked
Order == \A i, j \in 1..Len(ran) :
           (i < j /\ itr[ran[i].id] = itr[ran[j].id] /\ Before(ran[j].id, ran[i].id))
              => enq[ran[j].id] > com[ran[i].id]
\* every scheduled action that was not cancelled in time has run when all calls have returned
AllRun == Quiet => /\ \A i \in 1..n : i \in RanIds \/ i \in dead
                   /\ \A tr \in Tramps : queue[tr] = {} /\ runner[tr] = 0
Monotone == [][clock' >= clock]_vars

DesignView == <<clock, n, isch, itr, iown, due, eff, enq, com, queue, ghost, runner, committed, running,
                stack, stamp, dead, retd, ran, active, budget, reqs>>

(* ---- export (Binding A and program generation) ------------------------------------------------- *)
Proj(r) == [id |-> r.id, clk |-> r.clk, depth |-> r.depth]
Export == (Record /\ Quiet /\ budget = 0) =>
            PrintT(ToJson([scn |-> [top |-> top, body |-> body, n |-> n],
                           obs |-> [ran |-> [i \in 1..Len(ran) |-> Proj(ran[i])], tops |-> tops, reqs |-> reqs, amb |-> amb]]))
================================================================================
