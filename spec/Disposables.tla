------------------------------ MODULE Disposables ------------------------------
(* L0: the disposable classes as abstract atomic objects, in linearizability style.
   A call by thread th is three kinds of step: Call (the invocation), a silent Lin step that
   applies the operation atomically to the abstract object and computes what the call now
   OWES (items it must dispose before it may return, and its result), Effect steps
   (item.dispose() ran on th) that discharge what is owed, and Ret.
   The same actions serve three runs:
     - ConcSpec: a generator (threads pick calls from a menu): TLC explores every
       interleaving of Call/Lin/Effect/Ret and checks the property invariants  (design check);
     - the same with one thread: sequential call histories, exported stepwise  (Binding A);
     - DisposablesTrace.tla constrains Call/Effect/Ret by recorded events       (Binding B).
   Serves C25 (disposable, boolean), C26 (composite, serial, single, multiple), C27 (refcount). *)
EXTENDS Integers, Sequences, FiniteSets, TLC, Json

CONSTANTS Kind,       \* "disposable" "boolean" "composite" "serial" "single" "multiple" "refcount"
          Threads,    \* set of thread ids (small integers)
          Items,      \* item ids that may be added / assigned (each at most once)
          Handles,    \* dependent-handle ids of a refcount (each obtained at most once)
          MaxCalls    \* generator budget

U == 0                        \* the action of a Disposable / the underlying resource of a RefCountDisposable
AllItems == Items \cup {U}
NoCall == [op |-> "none", arg |-> 0, lin |-> FALSE, res |-> "-"]

VARIABLES disposed,  \* the object's is_disposed (refcount: the resource was released)
          held,      \* items currently held by a live container
          dropped,   \* items a MultipleAssignmentDisposable replaced (never disposed by it - not promised)
          rejected,  \* items whose assignment to a SingleAssignmentDisposable was refused
          given,     \* items ever passed to add / assign
          primary,   \* refcount: dispose() was called on the RefCountDisposable itself
          count,     \* refcount: live dependents
          hs,        \* refcount: handle -> "none" | "live" | "disposed" | "inert"
          got,       \* refcount: handles whose get call has returned
          pend,      \* thread -> pending call
          owed,      \* thread -> items it must still dispose before returning
          dcount,    \* item -> how many times its dispose() ran
          queued,    \* scheduled: dispose actions handed to the scheduler and not yet run
          calls,     \* number of calls made so far
          hist       \* sequential export: per returned call the projected state

obj  == <<disposed, held, dropped, rejected, given, primary, count, hs, got>>
vars == <<disposed, held, dropped, rejected, given, primary, count, hs, got, pend, owed, dcount, queued, calls, hist>>

Init == /\ disposed = FALSE /\ held = {} /\ dropped = {} /\ rejected = {} /\ given = {}
        /\ primary = FALSE /\ count = 0 /\ hs = [h \in Handles |-> "none"] /\ got = {}
        /\ pend = [t \in Threads |-> NoCall] /\ owed = [t \in Threads |-> {}]
        /\ dcount = [x \in AllItems |-> 0] /\ queued = 0 /\ calls = 0 /\ hist = <<>>

(* ---- which calls exist for which class ----------------------------------------------- *)
OpsOf == CASE Kind \in {"disposable", "boolean"} -> {"dispose", "read"}
           [] Kind = "composite" -> {"add", "remove", "clear", "dispose", "len"}
           [] Kind \in {"serial", "single", "multiple"} -> {"assign", "dispose", "read"}
           [] Kind = "refcount" -> {"get", "ddep", "dispose", "read"}
           [] Kind = "scheduled" -> {"dispose", "read", "run"}     \* run = the scheduler runs what it was handed

\* a call that is legal for a client to make now (fresh items; handles only once their get returned)
ArgsOf(op) == CASE op \in {"add", "assign"} -> Items \ given
                [] op = "remove" -> given
                [] op = "get" -> {h \in Handles : hs[h] = "none" /\ \A t \in Threads : ~(pend[t].op = "get" /\ pend[t].arg = h)}
                [] op = "ddep" -> got
                [] OTHER -> {0}

Call(th, op, arg) ==
    /\ pend[th] = NoCall
    /\ pend' = [pend EXCEPT ![th] = [op |-> op, arg |-> arg, lin |-> FALSE, res |-> "-"]]
    /\ given' = IF op \in {"add", "assign"} THEN given \cup {arg} ELSE given
    /\ calls' = calls + 1
    /\ UNCHANGED <<disposed, held, dropped, rejected, primary, count, hs, got, owed, dcount, queued, hist>>

(* ---- the linearization step: the sequential meaning of every operation ---------------- *)
Done(th, res, owe) == /\ pend' = [pend EXCEPT ![th].lin = TRUE, ![th].res = res]
                      /\ owed' = [owed EXCEPT ![th] = @ \cup owe]
B(b) == IF b THEN "T" ELSE "F"
Num(n) == ToString(n)
TakenBy(th) == "taken" \o ToString(th)     \* refcount handle state: thread th holds the handle between its two steps

Lin(th) ==
  /\ pend[th].op # "none" /\ ~pend[th].lin
  /\ LET p == pend[th]  x == pend[th].arg IN
     CASE p.op = "read" ->
            Done(th, B(disposed), {}) /\ UNCHANGED <<disposed, held, dropped, rejected, primary, count, hs>>
       [] p.op = "len" ->
            Done(th, Num(Cardinality(held)), {}) /\ UNCHANGED <<disposed, held, dropped, rejected, primary, count, hs>>
       [] p.op = "dispose" /\ Kind = "disposable" ->
            /\ disposed' = TRUE /\ Done(th, "ok", IF disposed THEN {} ELSE {U})
            /\ UNCHANGED <<held, dropped, rejected, primary, count, hs>>
       [] p.op = "dispose" /\ Kind = "boolean" ->
            /\ disposed' = TRUE /\ Done(th, "ok", {})
            /\ UNCHANGED <<held, dropped, rejected, primary, count, hs>>
       [] p.op = "dispose" /\ Kind \in {"composite", "serial", "single", "multiple"} ->
            /\ disposed' = TRUE /\ held' = {} /\ Done(th, "ok", held)
            /\ UNCHANGED <<dropped, rejected, primary, count, hs>>
       [] p.op = "add" ->
            (IF disposed THEN Done(th, "ok", {x}) /\ UNCHANGED held
                         ELSE Done(th, "ok", {}) /\ held' = held \cup {x})
            /\ UNCHANGED <<disposed, dropped, rejected, primary, count, hs>>
       [] p.op = "remove" ->
            (IF x \in held THEN Done(th, "T", {x}) /\ held' = held \ {x}
                           ELSE Done(th, "F", {}) /\ UNCHANGED held)
            /\ UNCHANGED <<disposed, dropped, rejected, primary, count, hs>>
       [] p.op = "clear" ->
            /\ held' = {} /\ Done(th, "ok", held)
            /\ UNCHANGED <<disposed, dropped, rejected, primary, count, hs>>
       [] p.op = "assign" /\ Kind = "serial" ->
            (IF disposed THEN Done(th, "ok", {x}) /\ UNCHANGED held
                         ELSE Done(th, "ok", held) /\ held' = {x})
            /\ UNCHANGED <<disposed, dropped, rejected, primary, count, hs>>
       [] p.op = "assign" /\ Kind = "multiple" ->
            (IF disposed THEN Done(th, "ok", {x}) /\ UNCHANGED <<held, dropped>>
                         ELSE Done(th, "ok", {}) /\ held' = {x} /\ dropped' = dropped \cup held)
            /\ UNCHANGED <<disposed, rejected, primary, count, hs>>
       [] p.op = "assign" /\ Kind = "single" ->
            (CASE disposed   -> Done(th, "ok", {x}) /\ UNCHANGED <<held, rejected>>
               [] held # {}  -> Done(th, "raise", {}) /\ rejected' = rejected \cup {x} /\ UNCHANGED held
               [] OTHER      -> Done(th, "ok", {}) /\ held' = {x} /\ UNCHANGED rejected)
            /\ UNCHANGED <<disposed, dropped, primary, count, hs>>
       [] p.op = "dispose" /\ Kind = "scheduled" ->     \* only hands a dispose action to the scheduler
            Done(th, "ok", {}) /\ UNCHANGED <<disposed, held, dropped, rejected, primary, count, hs>>
       [] p.op = "run" ->                               \* the scheduler runs them: the first one disposes the resource
            (IF queued > 0 /\ ~disposed THEN disposed' = TRUE /\ Done(th, "ok", {U})
                                        ELSE UNCHANGED disposed /\ Done(th, "ok", {}))
            /\ UNCHANGED <<held, dropped, rejected, primary, count, hs>>
       [] p.op = "dispose" /\ Kind = "refcount" ->
            (IF primary THEN Done(th, "ok", {}) /\ UNCHANGED <<primary, disposed>>
             ELSE /\ primary' = TRUE
                  /\ IF count = 0 /\ ~disposed THEN disposed' = TRUE /\ Done(th, "ok", {U})
                                               ELSE UNCHANGED disposed /\ Done(th, "ok", {}))
            /\ UNCHANGED <<held, dropped, rejected, count, hs>>
       [] p.op = "get" ->
            (IF disposed THEN hs' = [hs EXCEPT ![x] = "inert"] /\ UNCHANGED count
                         ELSE hs' = [hs EXCEPT ![x] = "live"] /\ count' = count + 1)
            /\ Done(th, "ok", {}) /\ UNCHANGED <<disposed, held, dropped, rejected, primary>>
       [] p.op = "ddep" ->
            \* two linearization points, as in the code (the handle's own lock, then the parent's): first the caller TAKES the
            \* handle - from then on any other dispose of the same handle is a no-op and may return at once - and only then
            \* does it RELEASE the reference (count - 1, and the resource if it was the last one after the primary dispose).
            \* (Found by the 3-thread thorough tier: two threads disposing the same handle while a third disposes the primary.)
            (CASE hs[x] = "live" ->
                    /\ hs' = [hs EXCEPT ![x] = TakenBy(th)]
                    /\ UNCHANGED <<count, disposed, pend, owed>>
               [] hs[x] = TakenBy(th) ->
                    /\ hs' = [hs EXCEPT ![x] = "disposed"] /\ count' = count - 1
                    /\ IF count - 1 = 0 /\ primary /\ ~disposed
                       THEN disposed' = TRUE /\ Done(th, "ok", {U})
                       ELSE UNCHANGED disposed /\ Done(th, "ok", {})
               [] OTHER -> Done(th, "ok", {}) /\ UNCHANGED <<hs, count, disposed>>)
            /\ UNCHANGED <<held, dropped, rejected, primary>>
  /\ queued' = CASE pend[th].op = "dispose" /\ Kind = "scheduled" -> queued + 1
                  [] pend[th].op = "run" -> 0
                  [] OTHER -> queued
  /\ UNCHANGED <<given, got, dcount, calls, hist>>

\* item.dispose() runs on the thread that owes it
Effect(th, x) == /\ pend[th].lin /\ x \in owed[th]
                 /\ owed' = [owed EXCEPT ![th] = @ \ {x}]
                 /\ dcount' = [dcount EXCEPT ![x] = @ + 1]
                 /\ UNCHANGED <<disposed, held, dropped, rejected, given, primary, count, hs, got, pend, queued, calls, hist>>

Snapshot(th) == [op |-> pend[th].op, arg |-> pend[th].arg, res |-> pend[th].res, disposed |-> disposed,
                 held |-> held, dc |-> dcount]

Ret(th) == /\ pend[th].lin /\ owed[th] = {}
           /\ pend' = [pend EXCEPT ![th] = NoCall]
           /\ got' = IF pend[th].op = "get" THEN got \cup {pend[th].arg} ELSE got
           /\ hist' = Append(hist, Snapshot(th))
           /\ UNCHANGED <<disposed, held, dropped, rejected, given, primary, count, hs, owed, dcount, queued, calls>>

GenCall(th) == /\ calls < MaxCalls
               /\ \E op \in OpsOf : \E a \in ArgsOf(op) : Call(th, op, a)

Next == \E th \in Threads : GenCall(th) \/ Lin(th) \/ Ret(th) \/ \E x \in AllItems : Effect(th, x)
ConcSpec == Init /\ [][Next]_vars

(* ---- the properties, as invariants of the abstract object ------------------------------- *)
Quiet == \A t \in Threads : pend[t] = NoCall

\* C25/C26/C27: nothing is disposed twice
AtMostOnce == \A x \in AllItems : dcount[x] <= 1
\* C26: never disposed while a live container still holds it
NeverWhileHeld == \A x \in held : dcount[x] = 0
\* C26: at quiescence every item ever given is held, or was dropped by a multiple-assignment
\* container / refused by a single-assignment one, or has been disposed exactly once
ExactlyOnce == Quiet => \A x \in given : (x \in held \/ x \in dropped \/ x \in rejected) # (dcount[x] = 1)
\* C26: a disposed container holds nothing; late items were disposed
LateItemsDisposed == (Quiet /\ disposed /\ Kind \in {"composite", "serial", "single", "multiple"}) => held = {}
\* C26: a single-assignment disposable holds at most one item
SingleHoldsOne == Kind \in {"serial", "single", "multiple"} => Cardinality(held) <= 1
\* C25: the action ran iff some dispose() linearized (at most once by AtMostOnce)
ActionIffDisposed == (Kind \in {"disposable", "scheduled"} /\ Quiet) => (dcount[U] = 1) = disposed
\* C25: a ScheduledDisposable disposes its resource only when the scheduler runs, never inside dispose()
OnlyOnScheduler == Kind = "scheduled" => \A t \in Threads : (pend[t].op = "dispose" => owed[t] = {})
\* C27: the resource is released only after the primary dispose and every live dependent
RefCountInv == Kind = "refcount" =>
                 /\ count = Cardinality({h \in Handles : hs[h] = "live" \/ \E t \in Threads : hs[h] = TakenBy(t)})
                 /\ disposed => (primary /\ count = 0)
                 /\ (dcount[U] = 1) => disposed
                 /\ (primary /\ count = 0) => disposed
                 /\ Quiet => ((dcount[U] = 1) = disposed)

DesignView == <<disposed, held, dropped, rejected, given, primary, count, hs, got, pend, owed, dcount, queued, calls>>

(* ---- sequential export (Binding A): Threads = {1} --------------------------------------- *)
Export == (calls = MaxCalls /\ Quiet) => PrintT(ToJson([scn |-> [kind |-> Kind, n |-> MaxCalls], obs |-> hist]))
================================================================================
