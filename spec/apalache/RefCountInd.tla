----------------------------- MODULE RefCountInd -----------------------------
(* Binding D (C27): RefCountDisposable over UNBOUNDED histories and an unbounded counter.
   Apalache discharges   Init => IndInv,   IndInv /\ Next => IndInv',   IndInv => Safety.
   Handle ids are drawn from an unbounded counter; only the number of SIMULTANEOUSLY live
   dependents is bounded (Gen(MaxLive) in IndInit).  The transition relation is the Lin step
   of Disposables.tla for Kind = "refcount", with effects folded in (runs = dcount[U]).      *)
EXTENDS Integers, FiniteSets, Apalache

VARIABLES
  \* @type: Int;
  count,
  \* @type: Bool;
  primary,
  \* @type: Bool;
  released,
  \* @type: Set(Int);
  live,
  \* @type: Int;
  next,
  \* @type: Int;
  runs

Init == count = 0 /\ primary = FALSE /\ released = FALSE /\ live = {} /\ next = 0 /\ runs = 0

\* get a dependent: inert once released
Get == /\ next' = next + 1
       /\ IF released THEN UNCHANGED <<count, live>>
                      ELSE count' = count + 1 /\ live' = live \union {next}
       /\ UNCHANGED <<primary, released, runs>>

\* dispose a live dependent (disposing it again, or an inert one, changes nothing: stuttering)
DDep == \E h \in live :
          /\ live' = live \ {h} /\ count' = count - 1
          /\ IF count - 1 = 0 /\ primary /\ ~released
             THEN released' = TRUE /\ runs' = runs + 1
             ELSE UNCHANGED <<released, runs>>
          /\ UNCHANGED <<primary, next>>

DisposePrimary == /\ ~primary /\ primary' = TRUE
                  /\ IF count = 0 /\ ~released THEN released' = TRUE /\ runs' = runs + 1
                                               ELSE UNCHANGED <<released, runs>>
                  /\ UNCHANGED <<count, live, next>>

Next == Get \/ DDep \/ DisposePrimary

IndInv == /\ count = Cardinality(live)
          /\ \A h \in live : 0 <= h /\ h < next
          /\ next >= 0
          /\ released => (primary /\ count = 0)
          /\ (primary /\ count = 0) => released
          /\ runs = (IF released THEN 1 ELSE 0)

\* the property: released exactly once, and only after the primary dispose and every dependent
Safety == /\ runs <= 1
          /\ (runs = 1) => (primary /\ live = {})

IndInit == /\ count \in Int /\ primary \in BOOLEAN /\ released \in BOOLEAN
           /\ live = Gen(6) /\ next \in Int /\ runs \in Int
           /\ IndInv
===============================================================================
