--------------------------------- MODULE Spin ---------------------------------
(* C29: the run loop of a virtual-time scheduler with many actions at one instant.
   The loop counts consecutive same-instant actions (spin) and nudges the clock when the
   count exceeds MaxSpin; the property is that the loop still runs every action, in
   FIFO order, and returns - and can be started again.  Scenario parameters are relative
   to MaxSpin so the same scenarios are replayed with the library's real constant (100)
   and with the constant patched to a small value.                                     *)
EXTENDS Integers, Sequences, TLC, Json
CONSTANTS MaxSpin, Mults, Deltas, Chains
VARIABLES n, chain, driver, restart, phase, pending, chainLeft, ranCount, clock, spin, round, lastDue
vars == <<n, chain, driver, restart, phase, pending, chainLeft, ranCount, clock, spin, round, lastDue>>

Init == /\ \E m \in Mults, d \in Deltas : n = m * MaxSpin + d /\ n >= 0
        /\ chain \in Chains /\ driver \in {"start", "advance_to"} /\ restart \in BOOLEAN
        /\ phase = "run" /\ pending = n /\ chainLeft = chain /\ ranCount = 0 /\ clock = 0
        /\ spin = 0 /\ round = 1 /\ lastDue = 0

\* one loop iteration: dequeue the head (all are due at or before the clock), maybe nudge, run it
RunOne == /\ phase = "run" /\ pending > 0
          /\ LET bump == spin > MaxSpin IN
             /\ clock' = IF bump THEN clock + 1 ELSE clock
             /\ spin' = (IF bump THEN 0 ELSE spin) + 1
          \* the last action of the batch re-schedules itself at the current time, chain times
          /\ IF pending = 1 /\ chainLeft > 0
             THEN pending' = 1 /\ chainLeft' = chainLeft - 1
             ELSE pending' = pending - 1 /\ UNCHANGED chainLeft
          /\ ranCount' = ranCount + 1
          /\ UNCHANGED <<n, chain, driver, restart, phase, round, lastDue>>

Return == /\ phase = "run" /\ pending = 0
          /\ IF restart /\ round = 1
             THEN \* the drained scheduler is loaded and started again
                  /\ phase' = "run" /\ round' = 2 /\ pending' = n /\ chainLeft' = chain /\ spin' = 0
             ELSE /\ phase' = "done" /\ UNCHANGED <<round, pending, chainLeft, spin>>
          /\ UNCHANGED <<n, chain, driver, restart, ranCount, clock, lastDue>>

Next == RunOne \/ Return
Spec == Init /\ [][Next]_vars /\ WF_vars(Next)

Expected == (IF restart THEN 2 ELSE 1) * (IF n = 0 THEN 0 ELSE n + chain)   \* nothing to chain from when n = 0
AllRan   == phase = "done" => ranCount = Expected
Monotone == [][clock' >= clock]_vars
Finishes == <>(phase = "done")
Export   == phase = "done" =>
              PrintT(ToJson([scn |-> [delta |-> n - (n \div MaxSpin) * MaxSpin, mult |-> n \div MaxSpin,
                                      chain |-> chain, driver |-> driver, restart |-> restart],
                             obs |-> [count |-> ranCount]]))
================================================================================
