------------------------------- MODULE TimeConv -------------------------------
(* L0: time value conversions (C36).

   A time value is a tagged quadruple [kind, base, k, q]:
     kind   "float" (seconds), "delta" (timedelta), "abs" (timezone-aware datetime)
     base   an opaque magnitude class, ordered by Rank; the codec makes it concrete
            (n1e9 = -10^9 s, m0 = just below zero, epoch, p1e9 = +10^9 s, y2106 = 2^32 s where the
            grain of a float is just under a microsecond, y9000 = year 9000 on a grid a float still
            resolves, y9000c = year 9000 at microsecond grain)
     k      a small offset in UNITS of that base (1 microsecond for the bases where a float
            resolves microseconds; for a Coarse base the unit is still 1 microsecond but a
            float there canNOT resolve it)
     q      quarter-units on top of k: 0 = aligned; 1,2,3 = a float strictly between two
            microseconds (only floats can be non-aligned; q = 2 is the rounding tie)
   to_seconds / to_datetime / to_timedelta change ONLY the kind.  What the statement promises:
     * a value already of the target kind is returned unchanged;
     * aligned values: the result is the same (base, k) in the new kind - hence every round trip
       is the identity and every conversion path gives the same result;
     * non-aligned floats end up on one of the two neighbouring microseconds (which one is not
       promised), but ORDER IS PRESERVED, non-strictly;
     * order of aligned values is preserved strictly;
     * on a Coarse base a conversion through float loses the offset, only (non-strict) order remains;
     * a scheduler's now is an aware datetime with zero UTC offset (scenario kind "now").
   One TLC state per case: Init picks (target, v, w) with v <= w of the same kind; the laws are
   INVARIANTs over the abstract conversion, Export prints the case with the allowed outcomes.   *)
EXTENDS Naturals, Sequences, FiniteSets, TLC, Json

CONSTANTS Bases,     \* magnitude classes, e.g. {"n1e9", "epoch", "p1e9", "y9000", "y9000c"}
          Coarse,    \* subset of Bases where float seconds cannot resolve one unit
          SubUs,     \* subset of Bases where floats strictly between two microseconds are offered
          Offs,      \* offsets k offered, e.g. 0..2
          Quarters   \* q offered, subset of 0..3

Kinds == {"float", "delta", "abs"}
Rank(b) == CASE b = "n1e9" -> 0 [] b = "m0" -> 1 [] b = "epoch" -> 2 [] b = "p1e9" -> 3 [] b = "y2106" -> 4 [] b = "y9000" -> 5
               [] b = "y9000c" -> 6 [] OTHER -> 7

V(kd, b, k, q) == [kind |-> kd, base |-> b, k |-> k, q |-> q]
Values == {V(kd, b, k, q) : kd \in Kinds, b \in Bases, k \in Offs, q \in Quarters}
WellFormed(v) == /\ (v.q # 0 => v.kind = "float" /\ v.base \in SubUs)       \* only floats can sit between two microseconds
                 /\ ~(v.kind = "float" /\ v.base \in Coarse)                 \* no float source on a coarse base
\* the order of the represented instants / durations
Less(v, w) == \/ Rank(v.base) < Rank(w.base)
              \/ (v.base = w.base /\ (v.k < w.k \/ (v.k = w.k /\ v.q < w.q)))
Same(v, w) == v.base = w.base /\ v.k = w.k /\ v.q = w.q
Leq(v, w)  == Less(v, w) \/ Same(v, w)

VARIABLES mode, target, v, w
vars == <<mode, target, v, w>>

Init == \/ /\ mode = "conv" /\ target \in Kinds
           /\ v \in {x \in Values : WellFormed(x)} /\ w \in {x \in Values : WellFormed(x)}
           /\ v.kind = w.kind /\ Leq(v, w)
           \* pairs: same base, or neighbouring magnitude classes
           /\ Rank(w.base) - Rank(v.base) <= 1
        \* `now` of a wall-clock scheduler, read in a process whose LOCAL time zone is zone number v.k
        \* (0 = UTC, 1 = east of it, 2 = west of it): the local zone must not matter
        \/ /\ mode = "now" /\ target = "abs" /\ v \in {V("abs", "epoch", z, 0) : z \in 0..2} /\ w = v
Next == UNCHANGED vars

(* ---- the abstract conversion ------------------------------------------------------------------- *)
\* does converting x to kind t keep (base, k) exactly?
Lossy(t, x) == x.base \in Coarse /\ t # x.kind /\ "float" \in {t, x.kind}
Exact(t, x) == t = x.kind \/ (x.q = 0 /\ ~Lossy(t, x))
\* the set of results the statement allows for one value
ConvSet(t, x) == IF t = x.kind THEN {x}
                 ELSE IF x.q # 0 THEN {V(t, x.base, x.k, 0), V(t, x.base, x.k + 1, 0)}
                 ELSE {V(t, x.base, x.k, 0)}        \* (for a Lossy case: the nominal result; only order is asserted)
\* the allowed outcomes for the pair: any allowed results that keep the order
PairSet(t) == {p \in ConvSet(t, v) \X ConvSet(t, w) : Leq(p[1], p[2]) /\ (Same(v, w) => p[1] = p[2])}
\* which order relations between the two results are allowed
Rels(t) == IF Same(v, w) THEN {"eq"}
           ELSE IF Lossy(t, v) \/ Lossy(t, w) THEN (IF v.base = w.base THEN {"lt", "eq"} ELSE {"lt"})
           ELSE {IF Less(p[1], p[2]) THEN "lt" ELSE "eq" : p \in PairSet(t)}

(* ---- the laws (checked by TLC on every case) ------------------------------------------------------ *)
TypeOK == mode \in {"conv", "now"} /\ target \in Kinds
\* returned unchanged when already of the target kind
Identity == mode = "conv" => ConvSet(v.kind, v) = {v}
\* round trips are identities on aligned values, through every intermediate kind
RoundTrip == mode = "conv" => \A t \in Kinds : Exact(t, v) =>
                 \A r \in ConvSet(t, v) : Exact(v.kind, r) => ConvSet(v.kind, r) = {v}
\* every path gives the same result on aligned values
PathIndependent == mode = "conv" => \A t1, t2 \in Kinds : (Exact(t1, v) /\ Exact(t2, v)) =>
                 \A r \in ConvSet(t1, v) : Exact(t2, r) => ConvSet(t2, r) = ConvSet(t2, v)
\* order is preserved: never inverted; strictly for distinct aligned values
OrderPreserved == mode = "conv" =>
                 /\ PairSet(target) # {}
                 /\ "gt" \notin Rels(target)
                 /\ (Less(v, w) /\ Exact(target, v) /\ Exact(target, w)) => Rels(target) = {"lt"}
                 /\ Same(v, w) => Rels(target) = {"eq"}
\* a non-aligned float lands on a neighbouring microsecond
Neighbour == mode = "conv" => \A r \in ConvSet(target, v) : r.base = v.base /\ r.k \in {v.k, v.k + 1}

\* the instant `now` denotes does not depend on the local zone of the process
NowSkew(zone) == 0
NowIndependentOfZone == mode = "now" => \A z \in 0..2 : NowSkew(z) = NowSkew(v.k)

(* ---- export ---------------------------------------------------------------------------------------- *)
Res(S) == {[base |-> r.base, k |-> r.k, q |-> r.q] : r \in S}
Export ==
    IF mode = "now"
    THEN PrintT(ToJson([scn |-> [mode |-> "now", zone |-> v.k],
                        \* an aware datetime with zero UTC offset that denotes the present instant (skew 0 against the
                        \* process clock) whatever the process's local zone is
                        obs |-> [aware |-> TRUE, utcoffset |-> 0, skew |-> NowSkew(v.k)]]))
    ELSE PrintT(ToJson([scn |-> [mode |-> "conv", kind |-> v.kind, target |-> target,
                                 v |-> [base |-> v.base, k |-> v.k, q |-> v.q], w |-> [base |-> w.base, k |-> w.k, q |-> w.q]],
                        obs |-> [rv |-> Res(ConvSet(target, v)), rw |-> Res(ConvSet(target, w)),
                                 exactv |-> Exact(target, v), exactw |-> Exact(target, w),
                                 rels |-> Rels(target),
                                 \* round trip back to the original kind asserted to be the identity?
                                 rtv |-> (Exact(target, v) /\ \A r \in ConvSet(target, v) : Exact(v.kind, r)),
                                 rtw |-> (Exact(target, w) /\ \A r \in ConvSet(target, w) : Exact(w.kind, r))]]))
================================================================================
