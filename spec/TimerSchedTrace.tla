--------------------------- MODULE TimerSchedTrace ---------------------------
(* Binding B for TimerSched.tla (C34): traces of the real TimeoutScheduler / NewThreadScheduler /
   ThreadPoolScheduler / EventLoopScheduler under controlled schedules and the controlled clock.
   Events as in EventLoopTrace.tla (cfg first, quiesce last); tstart/texit are skipped - the object has no
   thread structure.  Silent steps placed by TLC: Lin (one per call), Commit (one per started item), and
   the clock moving on to the time of the next event.                                                  *)
EXTENDS TimerSched, Json, TLCExt, IOUtils

CONSTANTS NTraces

Traces == JsonDeserialize(IOEnv.TRACE_FILE)

VARIABLES tid, l

tvars == <<tid, l>>
Ev    == Traces[tid][l]
More  == l <= Len(Traces[tid])
Step  == l' = l + 1 /\ UNCHANGED tid
At    == More /\ Ev.t = now

TInit == tid \in 1..NTraces /\ l = 2 /\ Init

TTick == /\ More /\ Ev.t > now /\ now' = Ev.t
         /\ UNCHANGED <<ist, due, pend, handle, runTh, startT, starts, per, stopped, limit, calls, tid, l>>

TCall   == At /\ Ev.e = "call" /\ Step /\ Call(Ev.th, Ev.op, Ev.item, Ev.d)
TRet    == At /\ Ev.e = "ret" /\ Step /\ pend[Ev.th].res = Ev.res /\ Ret(Ev.th)
TStartA == At /\ Ev.e = "start" /\ Step /\ Start(Ev.th, Ev.item)
TEndA   == At /\ Ev.e = "end" /\ Step /\ End(Ev.th, Ev.item)
TSkip   == At /\ Ev.e \in {"tstart", "texit"} /\ Step /\ UNCHANGED vars
TQuiesce == /\ At /\ Ev.e = "quiesce" /\ Step
            /\ Quiet /\ \A x \in Items : ist[x] \notin {"committed", "running"}
            /\ UNCHANGED vars

TSilent == /\ UNCHANGED tvars
           /\ \/ \E th \in Threads : Lin(th)
              \/ \E x \in Items : Commit(x)

TNext == TCall \/ TRet \/ TStartA \/ TEndA \/ TSkip \/ TQuiesce \/ TTick \/ TSilent

Track == TLCSet(tid, IF TLCGet(tid) < l THEN l ELSE TLCGet(tid))
ASSUME \A j \in 1..NTraces : TLCSet(j, 0)

Accepted(j) == TLCGet(j) = Len(Traces[j]) + 1
Post == \A j \in 1..NTraces : Accepted(j) \/ PrintT(<<"REJECTED", j, TLCGet(j)>>)
================================================================================
