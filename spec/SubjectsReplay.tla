--------------------------- MODULE SubjectsReplay ---------------------------
(* L2: ReplaySubject(buffer_size, window, scheduler) on a virtual-time scheduler (C22).

   The subject stamps every on_next with the scheduler's clock, retains a queue trimmed by
   count and by age, and feeds every subscriber through its own scheduled observer on the
   subject's scheduler: nothing is delivered inside subscribe()/on_next(); each subscriber
   has a queue `sq[o]` of notifications that the scheduler delivers one at a time when it
   runs (`drain` = run the scheduler at the current instant, `tick d` = advance_by(d)).
   Which subscriber's pending notification the scheduler delivers next is NOT determined by
   the statement (it speaks per subscriber): Deliver(o) is nondeterministic over the
   subscribers with pending items, so the accepted observations of a history are those of
   all delivery interleavings.

   Histories are enumerated lazily at top level (DESIGN 2.2).  What an observer does inside
   a callback is fixed when it subscribes (`plan`: on its r-th receipt unsubscribe itself /
   emit a value / complete the subject / subscribe a child) so that the script does not
   depend on the interleaving; ids and value tokens of callback-made calls are derived from
   the observer's id for the same reason (child of o = MaxSubs + o, value = 100 + o).

   Stated twice: the transducer keeps the trimmed queue `q` (count trim at the write, age
   trim by popping from the head at write and subscription - the shape of the code); the
   reference keeps every write (`writes`) and computes RetainedAt(n, t) = the last
   buffer_size of the first n writes whose age at t is within the window.  RetainedOK,
   FedOK, ReplayThenLive, Complete relate the two on every state.                         *)
EXTENDS Naturals, Sequences, FiniteSets, TLC, Json

CONSTANTS MaxCmds, MaxSubs,
          MaxNext, MaxTerm, MaxTick, MaxDrain, MaxUnsub,   \* caps per kind of top-level call (keeps the bounded space on interesting histories)
          Confs,      \* set of codes 100 * buffer_size + window; 99 (NoLimit) stands for None
          Ticks,      \* arguments offered to advance_by
          PlanCodes,  \* set of codes 10 * receipt index + reaction (1 unsub, 2 next, 3 completed, 4 sub) offered to a subscriber
          Eager,      \* TRUE: the subject's scheduler is the current-thread trampoline - every call is followed by
                      \* a run of the scheduler before it returns (no virtual time: windows None only, no drain/tick)
          TopCmds     \* subset of {"sub","unsub","next","error","completed","dispose","drain","tick"}

VARIABLES bs, win, now, q, writes,
          obs, stopped, term, exc, disposed,
          nsub, made, gone, plan, subT, subW, subLate, lenGone,
          sq, log, calls, mode, adv, budget, nnext, nerr, top, res, steps

vars == <<bs, win, now, q, writes, obs, stopped, term, exc, disposed, nsub, made, gone, plan, subT, subW,
          subLate, lenGone, sq, log, calls, mode, adv, budget, nnext, nerr, top, res, steps>>

NoLimit == 99
DisposedTok == 99
Ids == 1..(2 * MaxSubs)
NoPlan == <<0, "none">>
Reaction(k) == CASE k = 1 -> "unsub" [] k = 2 -> "next" [] k = 3 -> "completed" [] k = 4 -> "sub" [] OTHER -> "none"
Plans == {<<c \div 10, Reaction(c % 10)>> : c \in PlanCodes}
Range(s) == {s[i] : i \in 1..Len(s)}
Without(s, x) == SelectSeq(s, LAMBDA y : y # x)

Init == /\ \E c \in Confs : bs = c \div 100 /\ win = c % 100
        /\ now = 0 /\ q = <<>> /\ writes = <<>> /\ obs = <<>> /\ stopped = FALSE /\ term = "N" /\ exc = 0
        /\ disposed = FALSE /\ nsub = 0 /\ made = {} /\ gone = {} /\ plan = [i \in Ids |-> NoPlan]
        /\ subT = [i \in Ids |-> 0] /\ subW = [i \in Ids |-> 0] /\ subLate = [i \in Ids |-> FALSE]
        /\ lenGone = [i \in Ids |-> 0] /\ sq = [i \in Ids |-> <<>>] /\ log = [i \in Ids |-> <<>>]
        /\ calls = <<>> /\ mode = "top" /\ adv = 0 /\ budget = MaxCmds /\ nnext = 0 /\ nerr = 0
        /\ top = <<>> /\ res = <<>> /\ steps = <<>>

(* ---- the retained queue: transducer --------------------------------------------------- *)
CountTrim(qq) == IF bs = NoLimit \/ Len(qq) <= bs THEN qq ELSE SubSeq(qq, Len(qq) - bs + 1, Len(qq))
RECURSIVE PopOld(_, _)
PopOld(qq, t) == IF qq # <<>> /\ win # NoLimit /\ t - Head(qq)[1] > win THEN PopOld(Tail(qq), t) ELSE qq
Trim(qq, t) == PopOld(CountTrim(qq), t)
Vals(qq) == [i \in 1..Len(qq) |-> <<"N", qq[i][2]>>]

(* ---- the retained values: reference ---------------------------------------------------- *)
\* the last buffer_size of the first n writes whose age at t is within the window
LastOf(w) == IF bs = NoLimit \/ Len(w) <= bs THEN w ELSE SubSeq(w, Len(w) - bs + 1, Len(w))
RetainedAt(n, t) == Vals(SelectSeq(LastOf(SubSeq(writes, 1, n)), LAMBDA x : win = NoLimit \/ t - x[1] <= win))

(* ---- pieces shared by top-level calls and callback reactions ---------------------------- *)
\* effects are written as functions of the current state returning the new values of
\* <<q, writes, obs, stopped, term, exc, sq, calls, made, plan, subT, subW, subLate>>
FeedAll(s, members, item) == [i \in Ids |-> IF i \in members THEN Append(s[i], item) ELSE s[i]]

TermItem == <<term, exc>>

(* subscribe n (not disposed): trim, replay the retained values, then the terminal if any *)
SubSq(n) == LET qq == Trim(q, now) IN
            [sq EXCEPT ![n] = Vals(qq) \o (IF stopped THEN <<TermItem>> ELSE <<>>)]

(* ---- top-level calls ------------------------------------------------------------------- *)
AtTop == mode = "top"
Count(S) == Cardinality({i \in 1..Len(top) : top[i].c \in S})
Cap(c) == CASE c = "next" -> Count({"next"}) < MaxNext
            [] c \in {"error", "completed"} -> Count({"error", "completed"}) < MaxTerm
            [] c = "tick" -> Count({"tick"}) < MaxTick /\ writes # <<>>     \* time only matters as the age of a write
            [] c = "drain" -> Count({"drain"}) < MaxDrain
            [] c = "unsub" -> Count({"unsub"}) < MaxUnsub
            [] c = "dispose" -> budget <= 2                                \* dispose, then at most one more call
            [] OTHER -> TRUE
CanCall(c) == AtTop /\ budget > 0 /\ c \in TopCmds /\ Cap(c)
Pending == {o \in made \ gone : sq[o] # <<>>}
Lens == [i \in Ids |-> Len(log[i])]
\* a top-level call returns: at once (virtual time), or after the trampoline has run (Eager)
Returned == IF Eager THEN mode' = "drain" /\ adv' = 0 /\ UNCHANGED steps
                     ELSE steps' = Append(steps, Lens) /\ UNCHANGED <<mode, adv>>
Note(c, a, p, r) == /\ top' = Append(top, [c |-> c, a |-> a, p |-> p])
                    /\ res' = Append(res, [c |-> c, r |-> r, d |-> disposed])
                    /\ budget' = budget - 1

Sub == \E p \in Plans \cup {NoPlan} :
    LET n == nsub + 1 IN
    /\ CanCall("sub") /\ nsub < MaxSubs /\ nsub' = n
    /\ (disposed => p = NoPlan)
    /\ IF disposed
       THEN \E r \in {1, 2} :     \* raised to the caller, or handed to the subscriber's on_error (DESIGN D.8)
              /\ Note("sub", n, p, r)
              /\ log' = IF r = 2 THEN [log EXCEPT ![n] = << <<"E", DisposedTok>> >>] ELSE log
              /\ steps' = Append(steps, [Lens EXCEPT ![n] = IF r = 2 THEN 1 ELSE 0])
              /\ UNCHANGED <<q, obs, made, plan, subT, subW, subLate, sq, mode, adv>>
       ELSE /\ Note("sub", n, p, 0)
            /\ q' = Trim(q, now) /\ sq' = SubSq(n)
            /\ obs' = IF stopped THEN obs ELSE Append(obs, n)
            /\ made' = made \cup {n} /\ plan' = [plan EXCEPT ![n] = p]
            /\ subT' = [subT EXCEPT ![n] = now] /\ subW' = [subW EXCEPT ![n] = Len(writes)]
            /\ subLate' = [subLate EXCEPT ![n] = stopped]
            /\ Returned /\ UNCHANGED log
    /\ UNCHANGED <<bs, win, now, writes, stopped, term, exc, disposed, gone, lenGone, calls, nnext, nerr>>

Unsub == \E j \in made :
    /\ CanCall("unsub") /\ Note("unsub", j, NoPlan, 0)
    /\ gone' = gone \cup {j} /\ obs' = Without(obs, j) /\ sq' = [sq EXCEPT ![j] = <<>>]
    /\ lenGone' = IF j \in gone THEN lenGone ELSE [lenGone EXCEPT ![j] = Len(log[j])]
    /\ Returned
    /\ UNCHANGED <<bs, win, now, q, writes, stopped, term, exc, disposed, nsub, made, plan, subT, subW, subLate,
                   log, calls, nnext, nerr>>

\* the effect of an effective on_next(v), shared with the callback reaction
WriteQ(v) == Trim(Append(q, <<now, v>>), now)

OnNext ==
    LET v == nnext + 1 IN
    /\ CanCall("next") /\ nnext' = v
    /\ IF disposed THEN Note("next", v, NoPlan, 1) /\ UNCHANGED <<q, writes, sq, calls>>
       ELSE /\ Note("next", v, NoPlan, 0)
            /\ IF stopped THEN UNCHANGED <<q, writes, sq, calls>>
               ELSE /\ q' = WriteQ(v) /\ writes' = Append(writes, <<now, v>>)
                    /\ calls' = Append(calls, [k |-> "N", v |-> v, rc |-> Range(obs)])
                    /\ sq' = FeedAll(sq, Range(obs), <<"N", v>>)
    /\ Returned
    /\ UNCHANGED <<bs, win, now, obs, stopped, term, exc, disposed, nsub, made, gone, plan, subT, subW, subLate,
                   lenGone, log, nerr>>

Terminate(k) ==
    LET c == IF k = "E" THEN "error" ELSE "completed"
        v == IF k = "E" THEN nerr + 1 ELSE 0 IN
    /\ CanCall(c) /\ nerr' = IF k = "E" THEN v ELSE nerr
    /\ IF disposed THEN Note(c, v, NoPlan, 1) /\ UNCHANGED <<q, obs, stopped, term, exc, sq, calls>>
       ELSE /\ Note(c, v, NoPlan, 0)
            /\ IF stopped THEN UNCHANGED <<q, obs, stopped, term, exc, sq, calls>>
               ELSE /\ stopped' = TRUE /\ term' = k /\ exc' = v /\ obs' = <<>> /\ q' = Trim(q, now)
                    /\ calls' = Append(calls, [k |-> k, v |-> v, rc |-> Range(obs)])
                    /\ sq' = FeedAll(sq, Range(obs), <<k, v>>)
    /\ Returned
    /\ UNCHANGED <<bs, win, now, writes, disposed, nsub, made, gone, plan, subT, subW, subLate, lenGone, log,
                   nnext>>

\* dispose() while deliveries are pending is not driven: the statement does not say whether
\* they still arrive
Dispose ==
    /\ CanCall("dispose") /\ Pending = {} /\ Note("dispose", 0, NoPlan, 0)
    /\ disposed' = TRUE /\ obs' = <<>> /\ q' = <<>>
    /\ Returned
    /\ UNCHANGED <<bs, win, now, writes, stopped, term, exc, nsub, made, gone, plan, subT, subW, subLate, lenGone,
                   sq, log, calls, nnext, nerr>>

\* run the scheduler: at the current instant (drain), or up to now + d (tick)
StartDrain == /\ ~Eager /\ CanCall("drain") /\ Pending # {} /\ Note("drain", 0, NoPlan, 0)
              /\ mode' = "drain" /\ adv' = 0
              /\ UNCHANGED <<bs, win, now, q, writes, obs, stopped, term, exc, disposed, nsub, made, gone, plan,
                             subT, subW, subLate, lenGone, sq, log, calls, nnext, nerr, steps>>
StartTick == \E d \in Ticks :
              /\ ~Eager /\ CanCall("tick") /\ Note("tick", d, NoPlan, 0)
              /\ (Len(top) > 0 => top[Len(top)].c # "tick")      \* two ticks in a row are one longer tick
              /\ mode' = "drain" /\ adv' = d
              /\ UNCHANGED <<bs, win, now, q, writes, obs, stopped, term, exc, disposed, nsub, made, gone, plan,
                             subT, subW, subLate, lenGone, sq, log, calls, nnext, nerr, steps>>

(* ---- the scheduler delivers one pending notification to o; o's callback may react -------- *)
Deliver == \E o \in Pending :
    LET it == Head(sq[o])
        r  == Len(log[o]) + 1
        react == IF plan[o][1] = r THEN plan[o][2] ELSE "none"
        sq1 == [sq EXCEPT ![o] = Tail(@)]
        child == MaxSubs + o
        v == 100 + o IN
    /\ mode \in {"drain", "findrain"}
    /\ log' = [log EXCEPT ![o] = Append(@, it)]
    /\ CASE react = "unsub" ->
              /\ gone' = gone \cup {o} /\ obs' = Without(obs, o) /\ sq' = [sq1 EXCEPT ![o] = <<>>]
              /\ lenGone' = [lenGone EXCEPT ![o] = r]
              /\ UNCHANGED <<q, writes, stopped, term, exc, calls, made, subT, subW, subLate>>
         [] react = "next" /\ ~stopped ->
              /\ q' = WriteQ(v) /\ writes' = Append(writes, <<now, v>>)
              /\ calls' = Append(calls, [k |-> "N", v |-> v, rc |-> Range(obs)])
              /\ sq' = FeedAll(sq1, Range(obs), <<"N", v>>)
              /\ UNCHANGED <<gone, obs, lenGone, stopped, term, exc, made, subT, subW, subLate>>
         [] react = "completed" /\ ~stopped ->
              /\ stopped' = TRUE /\ term' = "C" /\ exc' = 0 /\ obs' = <<>> /\ q' = Trim(q, now)
              /\ calls' = Append(calls, [k |-> "C", v |-> 0, rc |-> Range(obs)])
              /\ sq' = FeedAll(sq1, Range(obs), <<"C", 0>>)
              /\ UNCHANGED <<gone, lenGone, writes, made, subT, subW, subLate>>
         [] react = "sub" ->
              /\ q' = Trim(q, now)
              /\ sq' = [sq1 EXCEPT ![child] = Vals(Trim(q, now)) \o (IF stopped THEN <<TermItem>> ELSE <<>>)]
              /\ obs' = IF stopped THEN obs ELSE Append(obs, child)
              /\ made' = made \cup {child}
              /\ subT' = [subT EXCEPT ![child] = now] /\ subW' = [subW EXCEPT ![child] = Len(writes)]
              /\ subLate' = [subLate EXCEPT ![child] = stopped]
              /\ UNCHANGED <<gone, lenGone, writes, stopped, term, exc, calls>>
         [] OTHER -> /\ sq' = sq1
                     /\ UNCHANGED <<gone, obs, lenGone, q, writes, stopped, term, exc, calls, made, subT, subW, subLate>>
    /\ UNCHANGED <<bs, win, now, disposed, nsub, plan, mode, adv, budget, nnext, nerr, top, res, steps>>

EndDrain == /\ mode = "drain" /\ Pending = {}
            /\ mode' = "top" /\ now' = now + adv /\ adv' = 0
            /\ steps' = Append(steps, Lens)
            /\ UNCHANGED <<bs, win, q, writes, obs, stopped, term, exc, disposed, nsub, made, gone, plan, subT, subW,
                           subLate, lenGone, sq, log, calls, budget, nnext, nerr, top, res>>

\* every history ends with the scheduler running once more, so that the final logs are complete
FinalDrain == /\ AtTop /\ budget = 0 /\ mode' = "findrain"
              /\ UNCHANGED <<bs, win, now, q, writes, obs, stopped, term, exc, disposed, nsub, made, gone, plan, subT,
                             subW, subLate, lenGone, sq, log, calls, adv, budget, nnext, nerr, top, res, steps>>
EndFinal == /\ mode = "findrain" /\ Pending = {} /\ mode' = "end"
            /\ UNCHANGED <<bs, win, now, q, writes, obs, stopped, term, exc, disposed, nsub, made, gone, plan, subT,
                           subW, subLate, lenGone, sq, log, calls, adv, budget, nnext, nerr, top, res, steps>>

Next == FinalDrain \/ EndFinal \/ Sub \/ Unsub \/ OnNext \/ Terminate("E") \/ Terminate("C") \/ Dispose \/ StartDrain \/ StartTick
        \/ Deliver \/ EndDrain

Spec == Init /\ [][Next]_vars

(* ---- the reference: what the statement entitles a subscriber to -------------------------- *)
IsPrefix(a, b) == Len(a) <= Len(b) /\ \A i \in 1..Len(a) : a[i] = b[i]
CallsFor(o) == LET F[i \in 0..Len(calls)] ==
                     IF i = 0 THEN <<>> ELSE IF o \in calls[i].rc THEN Append(F[i - 1], <<calls[i].k, calls[i].v>>) ELSE F[i - 1]
               IN F[Len(calls)]
\* retained values at the subscription, then the terminal if one had occurred, then every later notification
Expected(o) == RetainedAt(subW[o], subT[o]) \o (IF subLate[o] THEN <<TermItem>> ELSE CallsFor(o))

(* ---- invariants ------------------------------------------------------------------------- *)
TypeOK == /\ nsub \in 0..MaxSubs /\ budget \in 0..MaxCmds /\ gone \subseteq made /\ Range(obs) \subseteq made \ gone
          /\ (stopped => obs = <<>>) /\ Len(steps) = Len(top) - (IF mode = "drain" THEN 1 ELSE 0)
Grammar == \A o \in Ids : \A i \in 1..(Len(log[o]) - 1) : log[o][i][1] = "N"
\* the incrementally trimmed queue holds exactly the retained values of the statement
RetainedOK == ~disposed => Vals(PopOld(q, now)) = RetainedAt(Len(writes), now)
\* delivered + pending is exactly what the subscriber is entitled to (nothing duplicated, dropped or reordered)
FedOK == \A o \in made \ gone : log[o] \o sq[o] = Expected(o)
ReplayThenLive == \A o \in made : IsPrefix(log[o], Expected(o))
Complete == (mode \in {"top", "end"} /\ Pending = {}) => \A o \in made \ gone : log[o] = Expected(o)
Silenced == \A o \in gone : Len(log[o]) = lenGone[o] /\ sq[o] = <<>>
NoDuplicates == \A o \in Ids : \A i, j \in 1..Len(log[o]) : (i # j /\ log[o][i][1] = "N") => log[o][i] # log[o][j]
DisposedRaises == \A i \in 1..Len(res) :
                     /\ res[i].c \in {"next", "error", "completed", "sub"} => ((res[i].r # 0) <=> res[i].d)
                     /\ res[i].r = 2 => res[i].c = "sub"
\* buffer_size 0 replays nothing; a window shorter than every age replays nothing
ZeroBuffer == bs = 0 => \A o \in made : RetainedAt(subW[o], subT[o]) = <<>>

(* ---- export -------------------------------------------------------------------------------- *)
Export == (mode = "end") =>
            PrintT(ToJson([scn |-> [kind |-> "replay", eager |-> Eager, bs |-> bs, win |-> win, top |-> top, n |-> nsub, ms |-> MaxSubs],
                           obs |-> [res |-> [i \in 1..Len(res) |-> res[i].r], steps |-> steps, logs |-> log,
                                    \* reachability witnesses (required somewhere in the exhaustive part): a subscription at
                                    \* which a write is exactly as old as the window / older / at the same instant / beyond the count
                                    edge |-> (\E o \in made : \E i \in 1..subW[o] : win # NoLimit /\ subT[o] - writes[i][1] = win),
                                    aged |-> (\E o \in made : \E i \in 1..subW[o] : win # NoLimit /\ subT[o] - writes[i][1] > win),
                                    same |-> (\E o \in made : \E i \in 1..subW[o] : subT[o] = writes[i][1]),
                                    over |-> (\E o \in made : bs # NoLimit /\ subW[o] > bs),
                                    \* more than one accepted observation possible (a simulated behaviour shows one):
                                    \* a subscribe on the disposed subject, or two subscribers whose callbacks call
                                    \* into the subject (their relative order is the scheduler's choice)
                                    amb |-> (\/ \E i \in 1..Len(res) : res[i].c = "sub" /\ res[i].d
                                             \/ Cardinality({o \in Ids : plan[o][2] \in {"next", "completed", "sub"}}) >= 2)]]))
================================================================================
