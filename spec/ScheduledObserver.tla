--------------------------- MODULE ScheduledObserver ---------------------------
(* C32: observe_on / ScheduledObserver as an ABSTRACT OBJECT (DESIGN D.7), in linearizability style.

   A producer calls on_next / on_error / on_completed on the scheduled observer: Call(th, k, v), a silent
   Lin(th) step that appends the notification to `received` (unless a terminal was received before - the
   observer grammar of the Observer base class), Ret(th).
   The target scheduler delivers: DeliverStart(th, k, v) ... DeliverEnd(th, raised) around the downstream
   observer's callback.  The guards of DeliverStart ARE the property:
       exactly once, in order   : the notification delivered is received[ndeliv + 1]
       never two at once        : inDel = 0
       on the target scheduler  : th \in LoopThreads
       nothing after a fault    : ~faulted
   and Idle (the scheduler has nothing to do and no call is in progress) is only possible when
       nothing is left behind   : faulted \/ ndeliv = Len(received).
   The same actions serve the generator below (TLC explores every interleaving of producers and loop threads
   on the abstract object and checks the invariants; coverage shows no action is vacuous), and
   ScheduledObserverTrace.tla (Binding B: traces recorded from the real ObserveOnObserver / ReplaySubject
   under controlled schedules).  ScheduledObserverImpl.tla is the lock-granularity model of the
   queue / is_acquired / has_faulted handshake as the code implements it, checked against these guards.  *)
EXTENDS Integers, Sequences, FiniteSets, TLC

CONSTANTS Producers,    \* threads that call on_* (serially - the Rx contract; the generator uses one at a time)
          LoopThreads,  \* threads of the target scheduler
          MaxCalls      \* generator budget

Terminal == {"E", "C"}
NoCall == [k |-> "-", v |-> 0, lin |-> FALSE]

VARIABLES received,   \* sequence of [k, v] accepted so far
          rstopped,   \* a terminal has been received: later calls are ignored
          ndeliv,     \* number of completed deliveries (a prefix of received)
          inDel,      \* 0, or the index being delivered right now
          delTh,      \* the thread delivering (0 when none)
          faulted,    \* a delivery raised
          pend,       \* producer -> its call in progress
          ncalls,     \* generator: calls made
          idle        \* the Idle observation has been made (trace validation only)

vars == <<received, rstopped, ndeliv, inDel, delTh, faulted, pend, ncalls, idle>>

Init == /\ received = <<>> /\ rstopped = FALSE /\ ndeliv = 0 /\ inDel = 0 /\ delTh = 0 /\ faulted = FALSE
        /\ pend = [p \in Producers |-> NoCall] /\ ncalls = 0 /\ idle = FALSE

Call(th, k, v) == /\ pend[th] = NoCall
                  /\ \A q \in Producers : pend[q] = NoCall            \* calls on one observer are serial (Rx contract)
                  /\ pend' = [pend EXCEPT ![th] = [k |-> k, v |-> v, lin |-> FALSE]]
                  /\ ncalls' = ncalls + 1
                  /\ UNCHANGED <<received, rstopped, ndeliv, inDel, delTh, faulted, idle>>

Lin(th) == /\ pend[th] # NoCall /\ ~pend[th].lin
           /\ pend' = [pend EXCEPT ![th].lin = TRUE]
           /\ IF rstopped THEN UNCHANGED <<received, rstopped>>
              ELSE /\ received' = Append(received, [k |-> pend[th].k, v |-> pend[th].v])
                   /\ rstopped' = (pend[th].k \in Terminal)
           /\ UNCHANGED <<ndeliv, inDel, delTh, faulted, ncalls, idle>>

Ret(th) == /\ pend[th] # NoCall /\ pend[th].lin
           /\ pend' = [pend EXCEPT ![th] = NoCall]
           /\ UNCHANGED <<received, rstopped, ndeliv, inDel, delTh, faulted, ncalls, idle>>

DeliverStart(th, k, v) ==
    /\ th \in LoopThreads                                   \* on the target scheduler
    /\ inDel = 0                                            \* never two deliveries at once
    /\ ~faulted                                             \* nothing after a delivery raised
    /\ ndeliv < Len(received)
    /\ received[ndeliv + 1] = [k |-> k, v |-> v]            \* exactly once, in the order received
    /\ inDel' = ndeliv + 1 /\ delTh' = th
    /\ UNCHANGED <<received, rstopped, ndeliv, faulted, pend, ncalls, idle>>

DeliverEnd(th, raised) ==
    /\ inDel # 0 /\ delTh = th
    /\ ndeliv' = inDel /\ inDel' = 0 /\ delTh' = 0
    /\ faulted' = raised
    /\ UNCHANGED <<received, rstopped, pend, ncalls, idle>>

\* the scheduler is idle and no call is in progress: nothing received may be left undelivered
Idle == /\ \A p \in Producers : pend[p] = NoCall
        /\ inDel = 0
        /\ (faulted \/ ndeliv = Len(received))
        /\ idle' = TRUE
        /\ UNCHANGED <<received, rstopped, ndeliv, inDel, delTh, faulted, pend, ncalls>>

(* ---- generator: all interleavings on the abstract object ---- *)
GenCall(th) == /\ ncalls < MaxCalls /\ \E k \in {"N", "E", "C"} : Call(th, k, ncalls + 1)
GenIdle == ~idle /\ Idle
GenStart(th) == ndeliv < Len(received) /\ DeliverStart(th, received[ndeliv + 1].k, received[ndeliv + 1].v)
Next == \/ \E th \in Producers : GenCall(th) \/ Lin(th) \/ Ret(th)
        \/ \E th \in LoopThreads : GenStart(th) \/ \E r \in BOOLEAN : DeliverEnd(th, r)
        \/ GenIdle
Spec == Init /\ [][Next]_vars

(* ---- the property as invariants of the abstract object ---- *)
TypeOK == /\ ndeliv \in 0..Len(received) /\ inDel \in {0, ndeliv + 1}
          /\ (inDel = 0) = (delTh = 0)
Prefix == ndeliv <= Len(received)
\* at most one terminal, and it is the last notification received
OneTerminal == \A i \in DOMAIN received : received[i].k \in Terminal => i = Len(received)
\* after a fault nothing is in delivery (and DeliverStart is disabled for good: faulted never resets)
NothingAfterFault == faulted => inDel = 0
FaultSticky == [][faulted => faulted']_vars
\* deliveries only move forward, one at a time
Monotone == [][ndeliv' \in {ndeliv, ndeliv + 1}]_vars
================================================================================
