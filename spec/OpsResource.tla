----------------------------- MODULE OpsResource -----------------------------
(* L3: resources, finally-actions and side-effect taps (C40; serves C03 C04 C09 too).

   One cold/hot inner source, one operator, one or two subscriptions of the *same*
   observable object, each with its own dispose point.  Everything is chosen in Init; the
   behaviour then performs subscription 1 to its end, then subscription 2.  Per
   subscription the model keeps ONE ordered log of everything a user can see:

     w = "mk"    the resource factory was called                       (using)
     w = "of"    the observable factory was called; v = 1: with the resource just made
     w = "sink"  a notification reached the subscriber (k = "N" | "C" | "E")
     w = "cb"    a tap callback ran (k = which one; v = the element it was given)
     w = "fin"   the finally action ran                (finally_action, do_finally)
     w = "res"   the resource's dispose() ran                            (using)

   each stamped with the instant `at` (index of the source event that caused it, 0 = the
   subscription instant, or the dispose instant) and d = 1 when the subscriber's dispose()
   caused it.  Time is the index of the source event;
   the replayer maps indices to virtual times.

   A dispose point is  d = 2*i + b :  after i source events were delivered, b = 0: at the
   instant of event i, after it;  b = 1: at the instant of event i+1, before it (the two
   tie orders of "disposal at the instant of the terminal" are d = 2*n - 1 and d = 2*n for
   the terminal's index n).  NEVER = the subscriber never disposes.

   Faults (flt): resource factory raises, observable factory raises, resource factory
   returns None, the k-th call of a per-element callback raises, the terminal callbacks
   raise, the on_subscribe action raises; the inner source's own error is term = "E".

   Each operator is stated twice: the event-by-event transducer (SubStep / Fwd / Cleanup)
   and the reference RefSink / RefTap / RefClose computed from the scenario alone; RefOK
   says they agree at every final state.                                                *)
EXTENDS Integers, Sequences, FiniteSets, TLC, Json

CONSTANTS NVals,      \* value tokens 0..NVals-1
          MaxLen,     \* source timelines have 0..MaxLen elements
          Ops,        \* operators explored
          Terms,      \* subset of {"C", "E", "U"}  (U: the source never terminates)
          MaxSubs,    \* 1 or 2 subscriptions of the same observable object
          Disposes,   \* TRUE: dispose points range over every position, else NEVER only
          Faults,     \* TRUE: fault positions are enumerated
          Dsp2,       \* second subscription: "all" = every dispose point; "few" = never, or the same as the first
          SinkRaises, \* TRUE: also scenarios whose subscriber's on_error handler raises (what the default handler does)
          Canon       \* TRUE: timelines are <<0, 1, 0, ...>> only (these operators never look at the values)

Vals  == 0..(NVals - 1)
NEVER == 99

VARIABLES op, src, term, flt, ns, dsp, sraise,  \* the scenario (constant along a behaviour)
          cur, i, st, pend, log, unsub, calls   \* the run

vars == <<op, src, term, flt, ns, dsp, sraise, cur, i, st, pend, log, unsub, calls>>

Min2(a, b) == IF a <= b THEN a ELSE b
SrcLen == Len(src) + (IF term = "U" THEN 0 ELSE 1)
Ev(j)  == IF j <= Len(src) THEN [k |-> "N", v |-> src[j], e |-> ""]
          ELSE IF term = "C" THEN [k |-> "C", v |-> 0, e |-> ""] ELSE [k |-> "E", v |-> 0, e |-> "src"]

Ent(w, k, v, e) == [w |-> w, k |-> k, v |-> v, e |-> e]
Sink(ev)  == Ent("sink", ev.k, ev.v, ev.e)
SinkE(e)  == Ent("sink", "E", 0, e)
Cb(k, v)  == Ent("cb", k, v, "")
\* at = the instant; d = 1: caused by the subscriber's dispose() (its virtual time is the dispose call's)
Stamp(em, at, d) == [j \in 1..Len(em) |-> [w |-> em[j].w, k |-> em[j].k, v |-> em[j].v, e |-> em[j].e, at |-> at, d |-> d]]

\* do_action takes up to three callbacks; a missing one means "just forward":
\*   do_action: all three;  do_action_n: on_next only;  do_action_ec: on_error and on_completed only;  do_action_0: none
DoActions == {"do_action", "do_observer", "do_action_n", "do_action_ec", "do_action_0"}
Given(o) == CASE o \in {"do_action", "do_observer"} -> {"next", "error", "completed"}
              [] o = "do_action_n"  -> {"next"}
              [] o = "do_action_ec" -> {"error", "completed"}
              [] OTHER              -> {}
\* operators for which the raising-subscriber dimension is enumerated
RaiseOps == {"using", "finally_action", "do_finally", "do_action", "do_action_n", "do_action_ec", "do_action_0", "do_observer", "do_on_terminate"}
NoFault == [w |-> "none", k |-> 0]
PerElem == {"next", "after_next"}

FaultsOf(o) ==
  {NoFault} \cup
  (IF ~Faults THEN {} ELSE
   CASE o = "using"                      -> {[w |-> "resfac", k |-> 0], [w |-> "obsfac", k |-> 0], [w |-> "resnone", k |-> 0]}
     [] o \in DoActions                   -> {[w |-> "next", k |-> k] : k \in (IF "next" \in Given(o) THEN 1..MaxLen ELSE {})}
                                              \cup {[w |-> c, k |-> 0] : c \in Given(o) \ {"next"}}
     [] o = "do_after_next"              -> {[w |-> "after_next", k |-> k] : k \in 1..MaxLen}
     [] o = "do_on_subscribe"            -> {[w |-> "subscribe", k |-> 0]}
     [] o = "do_on_terminate"            -> {[w |-> "terminate", k |-> 0]}
     [] o = "do_after_terminate"         -> {[w |-> "after_terminate", k |-> 0]}
     [] OTHER                            -> {})

\* a fault that can never be reached on this timeline is the same scenario as "none"
Relevant(f, s, t) ==
  CASE f.w \in PerElem                      -> f.k <= Len(s)
    [] f.w = "error"                        -> t = "E"
    [] f.w = "completed"                    -> t = "C"
    [] f.w \in {"terminate", "after_terminate"} -> t # "U"
    [] f.w \in {"resfac", "obsfac", "subscribe"} -> Len(s) = 0      \* the source is never subscribed: one timeline is enough
    [] OTHER                                -> TRUE

(* ---- the transducer -------------------------------------------------------------------- *)
\* per-subscription operator state: resource live?  source subscribed?  terminated?  closed?
\* cnt = elements seen (index for the per-element fault)
S0 == [res |-> FALSE, open |-> FALSE, term |-> FALSE, closed |-> FALSE, cnt |-> 0]

\* what closing a subscription (termination or disposal, whichever is first) runs
Cleanup(o, s) ==
  CASE o = "using"                              -> IF s.res THEN <<Ent("res", "", 0, "")>> ELSE <<>>
    [] o \in {"finally_action", "do_finally"}   -> <<Ent("fin", "", 0, "")>>
    [] o = "do_on_dispose"                      -> <<Cb("dispose", 0)>>
    [] OTHER                                    -> <<>>

\* the subscribe call.  now = what happens inside the call; hop = a notification the operator
\* schedules for the same instant (a failed factory is reported through throw(), which emits
\* from a scheduled action: it races with a dispose at that very instant, DESIGN 3.2)
SubStep(o, f) ==
  CASE o = "using" /\ f.w = "resfac" ->
         [st |-> S0, now |-> <<Ent("mk", "", 0, "")>>, hop |-> <<SinkE("resfac")>>]
    [] o = "using" /\ f.w = "obsfac" ->
         [st |-> [S0 EXCEPT !.res = TRUE], now |-> <<Ent("mk", "", 0, ""), Ent("of", "", 1, "")>>, hop |-> <<SinkE("obsfac")>>]
    [] o = "using" ->
         [st |-> [S0 EXCEPT !.res = (f.w # "resnone"), !.open = TRUE],
          now |-> <<Ent("mk", "", 0, ""), Ent("of", "", 1, "")>>, hop |-> <<>>]
    [] o = "do_on_subscribe" /\ f.w = "subscribe" ->
         \* the action raised inside subscribe(): reported to the subscriber at once (C09)
         [st |-> [S0 EXCEPT !.term = TRUE, !.closed = TRUE], now |-> <<Cb("subscribe", 0), SinkE("fn")>>, hop |-> <<>>]
    [] o = "do_on_subscribe" ->
         [st |-> [S0 EXCEPT !.open = TRUE], now |-> <<Cb("subscribe", 0)>>, hop |-> <<>>]
    [] OTHER ->
         [st |-> [S0 EXCEPT !.open = TRUE], now |-> <<>>, hop |-> <<>>]

\* one source event through the operator: the entries it produces and whether the sink got a terminal
Fwd(o, f, s, ev) ==
  LET c  == s.cnt + 1
      T(em) == [em |-> em, fin |-> TRUE]
      G(em) == [em |-> em, fin |-> FALSE] IN
  CASE o \in DoActions ->
         (LET name == CASE ev.k = "N" -> "next" [] ev.k = "E" -> "error" [] OTHER -> "completed"
              tap  == IF name \in Given(o) THEN <<Cb(name, IF ev.k = "N" THEN ev.v ELSE 0)>> ELSE <<>>
              bad  == f.w = name /\ (ev.k # "N" \/ f.k = c) IN
          IF bad THEN T(tap \o <<SinkE("fn")>>)
          ELSE IF ev.k = "N" THEN G(tap \o <<Sink(ev)>>) ELSE T(tap \o <<Sink(ev)>>))
    [] o = "do_after_next" ->
         (IF ev.k = "N"
          THEN IF f.w = "after_next" /\ f.k = c THEN T(<<Sink(ev), Cb("after_next", ev.v), SinkE("fn")>>)
               ELSE G(<<Sink(ev), Cb("after_next", ev.v)>>)
          ELSE T(<<Sink(ev)>>))
    [] o = "do_on_terminate" ->
         (IF ev.k = "N" THEN G(<<Sink(ev)>>)
          ELSE IF f.w = "terminate" THEN T(<<Cb("terminate", 0), SinkE("fn")>>) ELSE T(<<Cb("terminate", 0), Sink(ev)>>))
    [] o = "do_after_terminate" ->
         \* the terminal was already delivered when the action runs: if it raises there is nothing
         \* left to tell the subscriber (grammar, C01); whether the exception surfaces is not stated
         (IF ev.k = "N" THEN G(<<Sink(ev)>>) ELSE T(<<Sink(ev), Cb("after_terminate", 0)>>))
    [] OTHER -> IF ev.k = "N" THEN G(<<Sink(ev)>>) ELSE T(<<Sink(ev)>>)

(* ---- scenarios ---------------------------------------------------------------------------- *)
Timelines == IF Canon THEN {[j \in 1..m |-> (j - 1) % NVals] : m \in 0..MaxLen} ELSE UNION {[1..m -> Vals] : m \in 0..MaxLen}
DspOf(s, t) == {NEVER} \cup (IF Disposes THEN 0..(2 * (Len(s) + (IF t = "U" THEN 0 ELSE 1))) ELSE {})

Init == /\ op \in Ops
        /\ src \in Timelines
        /\ term \in Terms
        /\ flt \in FaultsOf(op)
        /\ Relevant(flt, src, term)
        /\ ns \in 1..MaxSubs
        /\ dsp \in [1..ns -> DspOf(src, term)]
        /\ (ns = 2 /\ Dsp2 = "few") => dsp[2] \in {NEVER, dsp[1]}
        \* The subscriber's on_error may itself raise (no handler given: the default one re-raises).  The
        \* notification was delivered all the same - the subscription has terminated - and the exception
        \* travels back into whoever emitted it: out of subscribe() when the source fails while being
        \* subscribed (then no subscription handle ever exists), into the scheduler otherwise.  Nothing the
        \* property promises is waived by that: the log below is the same, the resource / the finally
        \* action is still owed exactly once; obs.esc says that an exception is expected to escape.
        /\ sraise \in (IF SinkRaises /\ term = "E" /\ flt.w = "none" /\ ns = 1 /\ dsp[1] = NEVER /\ op \in RaiseOps
                       THEN BOOLEAN ELSE {FALSE})
        /\ cur = 1 /\ i = 0
        /\ st = S0 /\ pend = <<>>
        /\ log = [s \in 1..ns |-> <<>>]
        /\ unsub = [s \in 1..ns |-> NEVER]
        /\ calls = 0          \* 0: subscribe() of `cur` not yet called

Idle == calls = 0
D == dsp[cur]
DAfter == D \div 2          \* events delivered before the dispose
DAt    == (D + 1) \div 2    \* instant of the dispose

\* subscribe() of subscription `cur`
Subscribe ==
  /\ Idle /\ cur <= ns
  /\ LET r == SubStep(op, flt) IN
     /\ st' = r.st /\ pend' = r.hop
     /\ log' = [log EXCEPT ![cur] = Stamp(r.now, 0, 0)]
     /\ unsub' = [unsub EXCEPT ![cur] = IF r.st.open THEN NEVER ELSE 0 - 1]   \* -1: the source is never subscribed
  /\ calls' = 1 /\ i' = 0
  /\ UNCHANGED <<op, src, term, flt, ns, dsp, sraise, cur>>

Close(s, at, d) == Stamp(Cleanup(op, s), at, d)

\* the notification scheduled by a failed factory arrives (instant 0); the subscription terminates
Hop ==
  /\ ~Idle /\ pend # <<>> /\ ~st.closed
  /\ log' = [log EXCEPT ![cur] = @ \o Stamp(pend, 0, 0) \o Close(st, 0, 0)]
  /\ st' = [st EXCEPT !.term = TRUE, !.closed = TRUE, !.res = FALSE]
  /\ pend' = <<>>
  /\ UNCHANGED <<op, src, term, flt, ns, dsp, sraise, cur, i, unsub, calls>>

\* the subscriber disposes: after DAfter source events; at instant 0 it races with a pending hop
Dispose ==
  /\ ~Idle /\ ~st.closed /\ D # NEVER /\ DAfter = i /\ (pend = <<>> \/ D = 0)
  /\ log' = [log EXCEPT ![cur] = @ \o Close(st, DAt, 1)]
  /\ st' = [st EXCEPT !.closed = TRUE, !.res = FALSE, !.open = FALSE]
  /\ unsub' = [unsub EXCEPT ![cur] = IF st.open THEN DAt ELSE @]
  /\ pend' = <<>>
  /\ UNCHANGED <<op, src, term, flt, ns, dsp, sraise, cur, i, calls>>

\* the next source event
Feed ==
  /\ ~Idle /\ ~st.closed /\ st.open /\ pend = <<>> /\ i < SrcLen /\ (D = NEVER \/ DAfter > i)
  /\ LET j == i + 1
         r == Fwd(op, flt, st, Ev(j))
         s2 == [st EXCEPT !.cnt = IF Ev(j).k = "N" THEN @ + 1 ELSE @] IN
     /\ i' = j
     /\ IF r.fin
        THEN /\ log' = [log EXCEPT ![cur] = @ \o Stamp(r.em, j, 0) \o Close(st, j, 0)]
             /\ st' = [s2 EXCEPT !.term = TRUE, !.closed = TRUE, !.res = FALSE, !.open = FALSE]
             /\ unsub' = [unsub EXCEPT ![cur] = j]
        ELSE /\ log' = [log EXCEPT ![cur] = @ \o Stamp(r.em, j, 0)]
             /\ st' = s2 /\ UNCHANGED unsub
  /\ UNCHANGED <<op, src, term, flt, ns, dsp, sraise, cur, pend, calls>>

\* this subscription can do nothing more: closed, or the source ran dry without a dispose pending
SubFinal == ~Idle /\ pend = <<>> /\ (st.closed \/ ~st.open \/ (i = SrcLen /\ (D = NEVER \/ DAfter > i)))
\* a dispose after the subscription closed by itself is a no-op; the next subscription starts
NextSub ==
  /\ SubFinal /\ cur <= ns
  /\ cur' = cur + 1 /\ calls' = 0 /\ i' = 0 /\ st' = S0 /\ pend' = <<>>
  /\ UNCHANGED <<op, src, term, flt, ns, dsp, sraise, log, unsub>>

Next == Subscribe \/ Hop \/ Dispose \/ Feed \/ NextSub
Spec == Init /\ [][Next]_vars

Final == cur = ns + 1

(* ---- the property, as invariants --------------------------------------------------------- *)
Proj(l, w)  == SelectSeq(l, LAMBDA x : x.w = w)
Count(l, w) == Len(Proj(l, w))
Pos(l, P(_)) == LET hits == {j \in 1..Len(l) : P(l[j])} IN IF hits = {} THEN 0 ELSE CHOOSE j \in hits : \A h \in hits : j <= h
IsTerminal(x) == x.w = "sink" /\ x.k # "N"
SubsDone(s) == s < cur          \* subscription s has reached its end
D0(s) == dsp[s]
TerminatedLog(s) == Pos(log[s], IsTerminal) # 0

\* C01 on the subscriber's view
Grammar == \A s \in 1..ns : LET o == Proj(log[s], "sink") IN \A j \in 1..Len(o) : o[j].k # "N" => j = Len(o)

\* using(): the resource made for a subscription is disposed exactly once - never twice in any
\* state, and exactly once when the subscription is over (also when the observable factory
\* raised); a subscription for which no resource was made disposes none
ResourceDisposedExactlyOnce ==
  \A s \in 1..ns :
     /\ Count(log[s], "res") <= 1
     /\ (op = "using" /\ SubsDone(s) /\ (D0(s) # NEVER \/ TerminatedLog(s))) =>
            Count(log[s], "res") = (IF flt.w \in {"resfac", "resnone"} THEN 0 ELSE 1)
     /\ op # "using" => Count(log[s], "res") = 0

\* ... at the earlier of termination and disposal
ResourceDisposedAtClose ==
  \A s \in 1..ns : \A j \in 1..Len(log[s]) :
     log[s][j].w = "res" =>
        LET tp == Pos(log[s], IsTerminal) IN
        IF tp # 0 THEN tp < j /\ log[s][j].at = log[s][tp].at
        ELSE dsp[s] # NEVER /\ log[s][j].at = (dsp[s] + 1) \div 2

\* one resource per subscription, made by that subscription's own subscribe call (C04)
OneResourcePerSubscription ==
  \A s \in 1..ns : (op = "using" /\ (s < cur \/ (s = cur /\ ~Idle))) => Count(log[s], "mk") = 1

\* finally_action / do_finally: exactly once per subscription, after the terminal was delivered
\* or at the disposal
FinallyExactlyOnce ==
  \A s \in 1..ns :
     /\ Count(log[s], "fin") <= 1
     /\ (op \in {"finally_action", "do_finally"} /\ SubsDone(s) /\ (D0(s) # NEVER \/ TerminatedLog(s))) => Count(log[s], "fin") = 1
     /\ op \notin {"finally_action", "do_finally"} => Count(log[s], "fin") = 0

FinallyAfterTerminal ==
  \A s \in 1..ns : \A j \in 1..Len(log[s]) :
     log[s][j].w = "fin" =>
        LET tp == Pos(log[s], IsTerminal) IN
        /\ \A h \in (j + 1)..Len(log[s]) : log[s][h].w # "sink"      \* nothing reaches the subscriber afterwards
        /\ IF tp # 0 THEN tp < j /\ log[s][j].at = log[s][tp].at
           ELSE dsp[s] # NEVER /\ log[s][j].at = (dsp[s] + 1) \div 2

\* nothing at all after the dispose instant, and after the close only no-ops (C03)
Silent == \A s \in 1..ns : \A j \in 1..Len(log[s]) : dsp[s] # NEVER => log[s][j].at <= (dsp[s] + 1) \div 2
\* C02/C03: a closed subscription has released the source
Released == \A s \in 1..ns : (SubsDone(s) /\ (D0(s) # NEVER \/ TerminatedLog(s))) => unsub[s] # NEVER
Causal == \A s \in 1..ns : \A j \in 1..(Len(log[s]) - 1) : log[s][j].at <= log[s][j + 1].at

(* ---- reference semantics ------------------------------------------------------------------ *)
\* number of source events that reach the operator for subscription s
Delivered(s) == IF dsp[s] = NEVER THEN SrcLen ELSE Min2(dsp[s] \div 2, SrcLen)
SinkOf(ev) == [k |-> ev.k, v |-> ev.v, e |-> ev.e]
EFn == [k |-> "E", v |-> 0, e |-> "fn"]
Prefix(n) == [j \in 1..n |-> SinkOf(Ev(j))]
\* index of the source event at which a callback raises (0: none reached), and whether the
\* element itself is still forwarded before the error
FaultAt(s) ==
  LET n == Delivered(s) IN
  CASE flt.w \in PerElem /\ flt.k <= Min2(n, Len(src))        -> flt.k
    [] flt.w \in {"error", "completed", "terminate"} /\ n = SrcLen /\ term # "U" -> SrcLen
    [] OTHER -> 0
\* the subscriber's stream as the property states it: the source's notifications up to the
\* dispose point, unless a callback raised - then that error, and nothing more
RefSink(s) ==
  CASE flt.w \in {"resfac", "obsfac"} -> <<[k |-> "E", v |-> 0, e |-> flt.w]>>
    [] flt.w = "subscribe" -> <<EFn>>
    [] FaultAt(s) # 0 /\ flt.w = "after_next" -> Append(Prefix(FaultAt(s)), EFn)
    [] FaultAt(s) # 0 -> Append(Prefix(FaultAt(s) - 1), EFn)
    [] OTHER -> Prefix(Delivered(s))
\* what the tap callbacks observed: every notification that reached the operator
RefTap(s) ==
  LET n == IF FaultAt(s) # 0 THEN FaultAt(s) ELSE Delivered(s)
      evs == [j \in 1..n |-> Ev(j)] IN
  CASE op \in DoActions ->
         \* every notification that reached the operator and for whose kind a callback was given
         LET all == [j \in 1..n |-> IF evs[j].k = "N" THEN Cb("next", evs[j].v) ELSE IF evs[j].k = "E" THEN Cb("error", 0) ELSE Cb("completed", 0)] IN
         SelectSeq(all, LAMBDA x : x.k \in Given(op))
    [] op = "do_after_next" -> LET m == Min2(n, Len(src)) IN [j \in 1..m |-> Cb("after_next", src[j])]
    [] op = "do_on_terminate" -> IF n = SrcLen /\ term # "U" THEN <<Cb("terminate", 0)>> ELSE <<>>
    [] op = "do_after_terminate" -> IF n = SrcLen /\ term # "U" THEN <<Cb("after_terminate", 0)>> ELSE <<>>
    [] op = "do_on_subscribe" -> <<Cb("subscribe", 0)>>
    [] op = "do_on_dispose" -> IF dsp[s] # NEVER \/ (Delivered(s) = SrcLen /\ term # "U") THEN <<Cb("dispose", 0)>> ELSE <<>>
    [] OTHER -> <<>>
\* the instant at which the subscription closes: the terminal's (or the fault's) instant, or the
\* dispose instant, whichever is first; NEVER if neither happens
RefClose(s) ==
  LET sk == RefSink(s)
      terminated == Len(sk) > 0 /\ sk[Len(sk)].k # "N" IN
  IF flt.w \in {"resfac", "obsfac", "subscribe"} THEN 0
  ELSE IF terminated THEN (IF FaultAt(s) # 0 THEN FaultAt(s) ELSE SrcLen)
  ELSE IF dsp[s] # NEVER THEN (dsp[s] + 1) \div 2 ELSE NEVER

StripW(l, w) == LET p == Proj(l, w) IN [j \in 1..Len(p) |-> [k |-> p[j].k, v |-> p[j].v, e |-> p[j].e]]
TapOf(l) == LET p == Proj(l, "cb") IN [j \in 1..Len(p) |-> Cb(p[j].k, p[j].v)]
\* a dispose at instant 0 may overtake the error a failed factory schedules for that instant
HopRace(s) == flt.w \in {"resfac", "obsfac"} /\ dsp[s] = 0

RefOK == Final => \A s \in 1..ns :
            /\ (StripW(log[s], "sink") = RefSink(s) \/ (HopRace(s) /\ StripW(log[s], "sink") = <<>>))
            /\ TapOf(log[s]) = RefTap(s)
            /\ \A j \in 1..Len(log[s]) : log[s][j].w \in {"res", "fin"} => log[s][j].at = RefClose(s)
            /\ (unsub[s] \notin {NEVER, 0 - 1}) => unsub[s] = RefClose(s)
\* DoIsTransparent: without a raising callback the taps forward exactly what the source sent
DoIsTransparent == (Final /\ flt.w \in {"none", "after_terminate", "resnone"}) =>
                      \A s \in 1..ns : StripW(log[s], "sink") = Prefix(Delivered(s))
\* C04: equal dispose points => equal observations
Resub == (Final /\ ns = 2 /\ dsp[1] = dsp[2] /\ ~HopRace(1)) => (log[1] = log[2] /\ unsub[1] = unsub[2])

(* ---- export ----------------------------------------------------------------------------------- *)
\* the exactly-once obligations do not depend on how the subscriber's handler behaves
OwedDespiteRaisingSubscriber ==
  (Final /\ sraise) => \A s \in 1..ns :
      /\ op = "using" => Count(log[s], "res") = 1
      /\ op \in {"finally_action", "do_finally"} => Count(log[s], "fin") = 1
      /\ TerminatedLog(s)
Export == Final => PrintT(ToJson([scn |-> [op |-> op, src |-> src, term |-> term, flt |-> flt, ns |-> ns, dsp |-> dsp, sraise |-> sraise],
                                  obs |-> [log |-> log, unsub |-> unsub, esc |-> sraise]]))
================================================================================
