------------------------------ MODULE Subscribe ------------------------------
(* L1: the Observable.subscribe protocol as a frame-stack small-step interpreter.

   One TLC step executes the frame on top of an explicit call stack and replaces it by the
   frames it calls.  Modelled objects (reactivex/observable/observable.py, observer/
   autodetachobserver.py, scheduler/currentthreadscheduler.py + trampoline.py):

     edge e        one call of Observable.subscribe on a node: its AutoDetachObserver
                   (stopped[e]) and the observer's SingleAssignmentDisposable slot[e] in
                   {unset,set,disposed} which receives what _subscribe_core returned
     hold[e]       the SingleAssignment/Serial slot in which the *parent* combinator keeps the
                   disposable that subscribe(e) returned ("na": kept as a plain reference)
     pd[e]         the disposable returned by node e's subscribe function has been disposed
                   (producer: its `disposed` flag / MultipleAssignmentDisposable / scheduled
                   item;  combinator: its CompositeDisposable / Serial / is_disposed flag)
     tq, active    trampolines: "S" the thread-singleton CurrentThreadScheduler that
                   Observable.subscribe itself uses, "X" an explicit CurrentThreadScheduler()
                   instance; "I" = ImmediateScheduler has no queue (the action runs nested)

   A pipeline is a table of nodes (nd).  Producers: loop (from_iterable over an infinite
   iterator: `while not disposed` inside ONE scheduled action), resched (range / generate:
   one element per scheduled action), concatinf (concat_with_iterable over an infinite
   generator = repeat), one, empty, never, sync (emits inside its own subscribe function).  Consumers: take(n) (= first, take_while,
   element_at: complete downstream at the n-th element and rely on the downstream
   auto-detach observer to dispose).  Combinators are modelled ONLY by when they subscribe
   to which child and what they dispose on termination.

   The work budget of the binding is part of the model: the counting iterator raises a
   private BaseException at pull Budget+1, which unwinds everything (Exhaust).  So every
   behaviour is finite and the verdict of a scenario is read at its terminal state:
   returned (stack empty) or exhausted.  C14 says: returned, for every listed shape.

   Second part (bottom): the auto-detach grammar core of C01 - a non-conforming source and
   raising user callbacks against one AutoDetachObserver.                               *)
EXTENDS Integers, Sequences, FiniteSets, TLC, Json

CONSTANTS PlanName, \* which set of scenario blocks Init enumerates (see Plan); "custom" = the one block given by the next six
          Budget,   \* pulls allowed before the counting iterator raises
          Cfgs,     \* scheduler configurations explored: "default","cts","imm","src_cts","src_imm","vts","sing","src_sing","imm_src_sing"
          Ctxs,     \* "top": subscribe() called with the trampoline idle; "act": from inside a running trampoline action
          Fams,     \* families of shapes explored (see Fam)
          TakeNs,   \* counts for the early-terminating consumer
          Oth,      \* finite / companion sources offered next to the infinite one
          Dsps,     \* set of k: the user disposes the subscription inside the k-th on_next (0: never) - needs subscribe() to have returned
          GLen,     \* C01 core: the non-conforming source makes up to GLen calls inside its subscribe function ...
          GPost,    \* ... and up to GPost calls after subscribe() returned
          GRaise    \* set of k: the k-th invocation of a user callback raises (0: none)

VARIABLES blk, nd, cfg, ctx, g, fix, open, s
vars == <<blk, nd, cfg, ctx, g, fix, open, s>>

(* ---- shapes ---------------------------------------------------------------------------- *)
Nd(k, a, b, n) == [k |-> k, a |-> a, b |-> b, n |-> n]
Sh(t, d) == [i \in 1..Len(t) |-> [t[i] EXCEPT !.a = IF @ = 0 THEN 0 ELSE @ + d,
                                              !.b = IF @ = 0 THEN 0 ELSE @ + d]]
Leaf(k)      == <<Nd(k, 0, 0, 0)>>
Un(k, n, t)  == <<Nd(k, 2, 0, n)>> \o Sh(t, 1)
Bin(k, t, u) == <<Nd(k, 2, 2 + Len(t), 0)>> \o Sh(t, 1) \o Sh(u, 1 + Len(t))

Inf   == {"loop", "resched"}
Comb2 == {"merge", "concat", "amb", "cl", "wlf", "takeuntil"}
Comb3 == {"zip", "skipuntil"}                       \* not named by C14: same questions, same machinery
HO    == {"flatmap", "switchmap"}
Rep(t) == Un("defer", 0, Un("concatinf", 0, t))     \* ops.repeat() = defer(concat_with_iterable(t for _ in infinite()))

Fam(f, NS, OT) ==
  CASE f = "direct" -> {Un("take", n, Leaf(p)) : n \in NS, p \in Inf}
    [] f = "elem"   -> {Un("take", n, Un("map", 0, Leaf(p))) : n \in NS, p \in Inf}
                       \cup {Un("map", 0, Un("take", n, Leaf(p))) : n \in NS, p \in Inf}
                       \cup {Un("map", 0, Un("take", n, Un("map", 0, Leaf(p)))) : n \in NS, p \in Inf}
    [] f = "comb"   -> {Un("take", n, Bin(c, Leaf(p), Leaf(q))) : n \in NS, c \in Comb2, p \in Inf, q \in OT}
                       \cup {Un("take", n, Bin(c, Leaf(q), Leaf(p))) : n \in NS, c \in Comb2, p \in Inf, q \in OT}
    [] f = "comb3"  -> {Un("take", n, Bin(c, Leaf(p), Leaf(q))) : n \in NS, c \in Comb3, p \in Inf, q \in OT}
                       \cup {Un("take", n, Bin(c, Leaf(q), Leaf(p))) : n \in NS, c \in Comb3, p \in Inf, q \in OT}
                       \cup {Un("take", n, Bin(c, Leaf(p), Leaf(q))) : n \in NS, c \in Comb3, p \in Inf, q \in Inf}
    [] f = "comb2"  -> {Un("take", n, Bin(c, Leaf(p), Leaf(q))) : n \in NS, c \in Comb2, p \in Inf, q \in Inf}
    [] f = "inner"  -> {Bin(c, Un("take", n, Leaf(p)), Leaf(q)) : n \in NS, c \in Comb2, p \in Inf, q \in OT}
                       \cup {Bin(c, Leaf(q), Un("take", n, Leaf(p))) : n \in NS, c \in Comb2, p \in Inf, q \in OT}
    [] f = "tu"     -> {Bin("takeuntil", Leaf(p), Leaf(q)) : p \in Inf, q \in OT}
                       \cup {Bin("takeuntil", Un("map", 0, Leaf(p)), Leaf(q)) : p \in Inf, q \in OT}
    [] f = "ho"     -> {Un("take", n, Bin(h, Leaf(p), Leaf(q))) : n \in NS, h \in HO, p \in Inf, q \in OT}
                       \cup {Un("take", n, Bin(h, Leaf(q), Leaf(p))) : n \in NS, h \in HO, p \in Inf, q \in OT \ {"never", "empty"}}
    [] f = "ho2"    -> {Un("take", n, Bin(h, Leaf(p), Leaf(q))) : n \in NS, h \in HO, p \in Inf, q \in Inf}
    [] f = "share"  -> {Un("take", n, Un("share", 0, Leaf(p))) : n \in NS, p \in Inf}
                       \cup {Un("share", 0, Un("take", n, Leaf(p))) : n \in NS, p \in Inf}
    [] f = "repeat" -> {Un("take", n, Rep(Leaf("one"))) : n \in NS}
                       \cup {Un("take", n, Rep(Un("take", 1, Leaf(p)))) : n \in NS, p \in Inf}
                       \cup {Un("take", n, Un("map", 0, Rep(Leaf("one")))) : n \in NS}
    [] f = "deep"   -> {Un("take", n, Bin(c, Un("map", 0, Leaf(p)), Bin(c2, Leaf(q), Leaf(q)))) :
                            n \in NS, c \in Comb2, c2 \in {"merge", "concat"}, p \in Inf, q \in OT}
                       \cup {Un("take", n, Bin(h, Leaf(p), Un("take", 1, Leaf(p2)))) : n \in NS, h \in HO, p \in Inf, p2 \in Inf}
    [] f = "bare"   -> {Leaf(p) : p \in Inf} \cup {Un("map", 0, Leaf(p)) : p \in Inf} \cup {Un("share", 0, Leaf(p)) : p \in Inf}
                       \cup {Rep(Leaf("one"))}
                       \cup {Bin(c, Leaf(p), Leaf(q)) : c \in Comb2 \cup Comb3 \cup HO, p \in Inf, q \in OT}
                       \cup {Bin(c, Leaf(q), Leaf(p)) : c \in Comb2 \cup Comb3 \cup HO, p \in Inf, q \in OT}
    [] f = "rand"   -> {<<Nd("take", 0, 0, n)>> : n \in NS}      \* only the root: the rest is grown by Build steps (for -simulate)
    \* history: subscribe a pipeline over two interleaved re-scheduling sources whose on_next raises at the g.ur-th element;
    \* the caller catches it; then subscribe a healthy pipeline on the same thread ("pair": a = first, b = second pipeline)
    [] f = "crash"  -> {Bin("pair", Un("take", 5, Bin(c, Leaf("resched"), Leaf("resched"))), Un("take", n, Leaf(r))) :
                            c \in {"merge", "cl", "wlf", "zip"}, n \in NS, r \in Inf}
    [] f = "chaos"  -> {Leaf("chaos")}
    [] f = "chaos2" -> {Un("map", 0, Leaf("chaos")), Un("take", 2, Leaf("chaos")), Un("map", 0, Un("take", 1, Leaf("chaos")))}
    [] OTHER        -> {}
ShapesOf(b) == UNION {Fam(f, b.ns, b.oth) : f \in b.fams}

\* a block = one product  shapes(fams, ns, oth) x cfgs x ctxs  explored under one work budget; a plan = a set of blocks,
\* so that one TLC run covers a whole tier
BlkU(bud, cfgs, ctxs, fams, ns, oth, dsps, urs) ==
  [bud |-> bud, cfgs |-> cfgs, ctxs |-> ctxs, fams |-> fams, ns |-> ns, oth |-> oth, dsps |-> dsps, urs |-> urs]
BlkD(bud, cfgs, ctxs, fams, ns, oth, dsps) == BlkU(bud, cfgs, ctxs, fams, ns, oth, dsps, {0})
Blk(bud, cfgs, ctxs, fams, ns, oth) == BlkD(bud, cfgs, ctxs, fams, ns, oth, {0})
Plan(p) ==
  CASE p = "quick" ->
         { Blk(8, {"default", "cts", "imm", "sing"}, {"top"}, {"direct", "elem", "tu", "share", "repeat"}, {1, 2}, {"one"}),
           Blk(6, {"default", "imm", "sing"}, {"top"}, {"comb", "ho", "comb3"}, {2}, {"one", "sync"}),
           Blk(6, {"src_sing", "imm_src_sing"}, {"top"}, {"direct", "elem", "comb"}, {2}, {"one"}),
           Blk(6, {"default", "cts", "src_cts", "src_imm"}, {"act"}, {"direct", "comb", "ho", "tu"}, {2}, {"one"}),
           Blk(6, {"default"}, {"top"}, {"inner", "comb2", "ho2", "tu"}, {2}, {"one", "sync"}),
           Blk(6, {"vts"}, {"top"}, {"direct", "comb", "ho", "tu"}, {2}, {"one"}),
           BlkD(6, {"default", "vts"}, {"act"}, {"bare"}, {1}, {"one"}, {2}),
           BlkU(12, {"default", "sing"}, {"top"}, {"crash"}, {2}, {"one"}, {0}, {0, 2, 3, 4}) }
    [] p = "thorough" ->
         { Blk(24, {"default", "cts", "imm", "src_cts", "src_imm", "sing", "src_sing", "imm_src_sing"}, {"top", "act"},
               {"direct", "elem", "tu", "share", "repeat"},
               {1, 2, 3, 5}, {"one", "never", "empty", "sync"}),
           Blk(16, {"default", "cts", "imm", "sing"}, {"top", "act"}, {"comb", "ho", "comb3"}, {1, 3}, {"one", "never", "empty", "sync"}),
           Blk(12, {"src_sing", "imm_src_sing"}, {"top", "act"}, {"comb", "ho", "comb3", "inner"}, {2}, {"one", "sync"}),
           Blk(16, {"src_cts", "src_imm"}, {"top", "act"}, {"comb", "ho", "inner"}, {2}, {"one"}),
           Blk(16, {"default", "cts", "imm"}, {"top"}, {"inner", "comb2", "ho2"}, {1, 3}, {"one", "empty", "sync"}),
           Blk(12, {"default", "imm"}, {"top", "act"}, {"deep"}, {2}, {"one", "sync"}),
           Blk(16, {"vts"}, {"top", "act"}, {"direct", "elem", "comb", "comb3", "ho", "tu", "share", "repeat", "inner"}, {1, 3},
               {"one", "sync", "empty"}),
           BlkD(16, {"default", "vts", "cts", "imm"}, {"act", "top"}, {"bare", "direct", "tu"}, {3}, {"one", "sync"}, {1, 3}),
           BlkU(20, {"default", "sing", "src_sing", "cts"}, {"top", "act"}, {"crash"}, {1, 3}, {"one"}, {0}, {0, 1, 2, 3, 4, 5}) }
    [] OTHER -> { BlkU(Budget, Cfgs, Ctxs, Fams, TakeNs, Oth, Dsps, GRaise) }

HasKind(t, k) == \E i \in 1..Len(t) : t[i].k = k

\* queues: S singleton trampoline, X explicit trampoline scheduler instance, V a virtual-time scheduler
\* (VirtualTimeScheduler / TestScheduler / HistoricalScheduler) passed to subscribe(): it only collects work until the
\* driver calls start() after subscribe() has returned
Tramps == {"S", "X", "V"}

(* ---- machine state ---------------------------------------------------------------------- *)
F(k, e, x) == [k |-> k, e |-> e, x |-> x]

S0 == [stack |-> <<>>, enode |-> <<>>, epar |-> <<>>, erole |-> <<>>, slot |-> <<>>, stopped |-> <<>>,
       pd |-> <<>>, hold |-> <<>>, v1 |-> <<>>, v2 |-> <<>>, v3 |-> <<>>, kids |-> <<>>, pulls |-> <<>>,
       tq |-> [t \in Tramps |-> <<>>], active |-> [t \in Tramps |-> FALSE],
       pulled |-> 0, emitted |-> 0, sinkdone |-> FALSE, exhausted |-> FALSE, late |-> 0,
       raising |-> FALSE, escaped |-> 0, down |-> <<>>, ucalls |-> 0, subret |-> FALSE, udisp |-> FALSE,
       e2 |-> 0, emitted2 |-> 0, done2 |-> FALSE, stale |-> 0, latepull |-> 0]

\* a new edge: subscribe() about to be called on `node` by edge `par` in `role`, parent slot state h
Alloc(st, node, par, role, h) ==
  LET c == Len(st.enode) + 1
      s1 == [st EXCEPT !.enode = Append(@, node), !.epar = Append(@, par), !.erole = Append(@, role),
                       !.slot = Append(@, "unset"), !.stopped = Append(@, FALSE), !.pd = Append(@, FALSE),
                       !.hold = Append(@, h), !.v1 = Append(@, 0), !.v2 = Append(@, 0), !.v3 = Append(@, 0),
                       !.kids = Append(@, <<>>), !.pulls = Append(@, 0)] IN
  IF par = 0 THEN s1 ELSE [s1 EXCEPT !.kids[par] = Append(@, c)]

Pop(st)      == [st EXCEPT !.stack = Tail(@)]
Push(st, fs) == [st EXCEPT !.stack = fs \o Tail(@)]      \* replace the running frame by what it calls
Exhaust(st)  == [st EXCEPT !.exhausted = TRUE, !.stack = <<>>]

\* role 3 = the from_iterable([a, b]) that reactivex.merge builds internally
Kind(st, e) == IF st.erole[e] = 3 THEN "list" ELSE nd[st.enode[e]].k
ChildNode(st, p, role) == IF role = 1 THEN nd[st.enode[p]].a ELSE IF role = 2 THEN nd[st.enode[p]].b ELSE st.enode[p]
Edges(st) == 1..Len(st.enode)
\* latest child edge of p in the given role (0: none yet)
KidOf(st, p, role) == LET cs == {c \in Edges(st) : st.epar[c] = p /\ st.erole[c] = role} IN
                      IF cs = {} THEN 0 ELSE CHOOSE c \in cs : \A d \in cs : d <= c
LastKid(st, p) == IF st.kids[p] = <<>> THEN 0 ELSE st.kids[p][Len(st.kids[p])]

\* the sink edge (1, or e2 for the second pipeline of a "pair") an edge delivers to
RECURSIVE RootEdge(_, _)
RootEdge(st, e) == IF st.epar[e] = 0 THEN e ELSE RootEdge(st, st.epar[e])
\* one pull of a counted never-ending source by edge e: work; stale = on behalf of a pipeline the caller has abandoned
\* (its subscribe() raised and another subscribe() has begun); latepull = after that pipeline's subscriber was done with it
Pull(st, e) ==
  LET r == RootEdge(st, e)
      ended == IF r = 1 THEN st.sinkdone \/ st.udisp ELSE st.done2 IN
  [st EXCEPT !.pulled = @ + 1, !.pulls[e] = @ + 1,
             !.stale = IF r = 1 /\ st.e2 # 0 THEN @ + 1 ELSE @,
             !.latepull = IF ended THEN @ + 1 ELSE @]

\* which scheduler a producer ends up with: `scheduler or scheduler_ or CurrentThreadScheduler.singleton()`
SchedOf(k) == CASE cfg = "default" -> "S"
                [] cfg = "cts"     -> "X"
                [] cfg = "imm"     -> "I"
                [] cfg = "vts"     -> "V"
                \* the thread-singleton CurrentThreadScheduler passed explicitly (to subscribe / to the source factory) is
                \* the very scheduler everything defaults to: these configurations must behave exactly like "default"
                [] cfg \in {"sing", "src_sing"} -> "S"
                \* ... also when everything else is told to use the ImmediateScheduler
                [] cfg = "imm_src_sing" -> IF k \in Inf THEN "S" ELSE "I"
                [] cfg = "src_cts" -> IF k \in Inf THEN "X" ELSE "S"
                [] cfg = "src_imm" -> IF k \in Inf THEN "I" ELSE "S"
                [] OTHER           -> "S"
TId(t) == IF t = "S" THEN 1 ELSE IF t = "X" THEN 2 ELSE 3
TName(x) == IF x = 1 THEN "S" ELSE IF x = 2 THEN "X" ELSE "V"

\* scheduler.schedule(act) called by the running frame, which then continues with `rest`
Sched(st, t, act, rest) ==
  IF t = "I" THEN Push(st, <<act>> \o rest)                                   \* ImmediateScheduler: invoke now
  ELSE IF st.active[t] THEN Push([st EXCEPT !.tq[t] = Append(@, act)], rest)   \* Trampoline.run, not idle: enqueue
  ELSE Push([st EXCEPT !.active[t] = TRUE], <<act, F("drain", 0, TId(t))>> \o rest)  \* idle: run it and drain

\* ScheduledItem.is_cancelled() at dequeue: the item's disposable hangs on the producer's returned disposable
ActionKinds == {"loopiter", "ract", "oneact", "emptyact", "listact", "cact"}
Cancelled(st, f) == f.k \in ActionKinds /\ st.pd[f.e]

HoldInit(st, p, role) ==
  LET k == Kind(st, p) IN
  CASE k \in {"take", "map", "defer", "takeuntil", "share"} -> "na"
    [] k \in {"switchmap", "skipuntil"} /\ role = 1 -> "na"
    [] k = "amb" -> IF (role = 1 /\ st.v3[p] \in {1, 3}) \/ (role = 2 /\ st.v3[p] \in {2, 3}) THEN "disposed" ELSE "unset"
    [] OTHER -> IF st.pd[p] THEN "disposed" ELSE "unset"      \* CompositeDisposable.add / Serial set after dispose

(* ---- _subscribe_core of each node kind ----------------------------------------------- *)
Core(st, e) ==
  LET k == Kind(st, e)  t == SchedOf(k) IN
  CASE k = "loop"    -> Sched(st, t, F("loopiter", e, 0), <<>>)
    [] k = "resched" -> Sched(st, t, F("ract", e, 0), <<>>)
    [] k = "one"     -> Sched(st, t, F("oneact", e, 0), <<>>)
    [] k = "empty"   -> Sched(st, IF cfg = "cts" THEN "X" ELSE IF cfg = "vts" THEN "V" ELSE IF cfg = "sing" THEN "S" ELSE "I", F("emptyact", e, 0), <<>>)  \* empty() defaults to ImmediateScheduler
    [] k = "never"   -> Pop(st)
    [] k = "sync"    -> Push(st, <<F("next", e, 0), F("done", e, 0)>>)       \* emits inside its subscribe function, no scheduler
    [] k = "chaos"   -> Push(st, <<F("chaos", e, 1)>>)
    [] k = "list"    -> Sched(st, t, F("listact", e, 1), <<>>)
    [] k = "take"    -> Push([st EXCEPT !.v1[e] = nd[st.enode[e]].n], <<F("subkid", e, 1)>>)
    [] k = "share"   -> Push([st EXCEPT !.v1[e] = 1], <<F("subkid", e, 1)>>)   \* subject.subscribe, then connect()
    [] k \in {"map", "defer", "flatmap", "switchmap"} -> Push(st, <<F("subkid", e, 1)>>)
    [] k = "merge"   -> Push(st, <<F("subkid", e, 3)>>)
    [] k \in {"takeuntil", "cl", "amb", "zip", "skipuntil"} -> Push(st, <<F("subkid", e, 1), F("subkid", e, 2)>>)
    [] k = "wlf"     -> Push(st, <<F("subkid", e, 2), F("subkid", e, 1)>>)     \* children first, then the parent
    [] k \in {"concat", "concatinf"} -> Sched(st, t, F("cact", e, 0), <<>>)
    [] OTHER -> Pop(st)

(* ---- on_next / on_completed arriving at the callbacks that edge c's subscriber passed -------- *)
Other(r) == 3 - r
Bit(r) == r      \* roles 1,2 as bits of a 0..3 mask
Has(mask, r) == (r = 1 /\ mask \in {1, 3}) \/ (r = 2 /\ mask \in {2, 3})
With(mask, r) == IF Has(mask, r) THEN mask ELSE mask + Bit(r)

\* a callback the user passed to subscribe() is invoked; the g.ur-th invocation raises
\* the g.dsp-th on_next disposes the subscription - if subscribe() has already handed it out
UserCall(st, what) ==
  LET s1 == [st EXCEPT !.down = Append(@, what), !.ucalls = @ + 1,
                       !.late = IF st.sinkdone \/ st.udisp THEN @ + 1 ELSE @,
                       !.sinkdone = (@ \/ what # "N")] IN
  IF g.ur = s1.ucalls THEN Pop([s1 EXCEPT !.raising = TRUE])
  ELSE IF what = "N" /\ g.dsp # 0 /\ g.dsp = s1.emitted /\ st.subret THEN Push([s1 EXCEPT !.udisp = TRUE], <<F("adodisp", 1, 0)>>)
  ELSE Pop(s1)

\* merge_all / switch_latest receive an inner observable: subscribe to a new instance of it
SubInner(st, p, role) == Push(st, <<F("subkid", p, role)>>)

HNext(st, c, x) ==
  LET p == st.epar[c]  r == st.erole[c] IN
  IF p = 0 THEN (IF c = 1 THEN UserCall([st EXCEPT !.emitted = @ + 1], "N") ELSE Pop([st EXCEPT !.emitted2 = @ + 1]))
  ELSE LET k == Kind(st, p)  up == <<F("next", p, 0)>> IN
  CASE k \in {"map", "defer", "concat", "concatinf"} -> Push(st, up)
    [] k = "take" -> IF st.v1[p] > 0
                     THEN Push([st EXCEPT !.v1[p] = @ - 1], IF st.v1[p] = 1 THEN up \o <<F("done", p, 0)>> ELSE up)
                     ELSE Pop(st)
    [] k = "share" -> IF st.v1[p] = 1 THEN Push(st, up) ELSE Pop(st)
    [] k = "takeuntil" -> IF r = 1 THEN Push(st, up) ELSE Push(st, <<F("done", p, 0)>>)
    [] k = "merge" -> IF r = 3 THEN SubInner([st EXCEPT !.v1[p] = @ + 1], p, x) ELSE Push(st, up)
    [] k = "flatmap" -> IF r = 1 THEN SubInner([st EXCEPT !.v1[p] = @ + 1], p, 2) ELSE Push(st, up)
    [] k = "switchmap" ->
         IF r = 1 THEN LET old == KidOf(st, p, 2) IN
                       Push([st EXCEPT !.v2[p] = 1],       \* has_latest; Serial.disposable = d disposes the previous d
                            (IF old # 0 THEN <<F("holddisp", old, 0)>> ELSE <<>>) \o <<F("subkid", p, 2)>>)
         ELSE IF c = KidOf(st, p, 2) THEN Push(st, up) ELSE Pop(st)
    [] k = "cl" -> LET m == With(st.v1[p], r)  s1 == [st EXCEPT !.v1[p] = m] IN
                   IF m = 3 THEN Push(s1, up)
                   ELSE IF Has(st.v2[p], Other(r)) THEN Push(s1, <<F("done", p, 0)>>) ELSE Pop(s1)
    [] k = "wlf" -> IF r = 2 THEN Pop([st EXCEPT !.v1[p] = 1])
                    ELSE IF st.v1[p] = 1 THEN Push(st, up) ELSE Pop(st)
    [] k = "zip" ->              \* v1, v2: queue lengths; v3: completed sides
         LET qa == st.v1[p] + (IF r = 1 THEN 1 ELSE 0)  qb == st.v2[p] + (IF r = 2 THEN 1 ELSE 0) IN
         IF qa > 0 /\ qb > 0
         THEN LET s1 == [st EXCEPT !.v1[p] = qa - 1, !.v2[p] = qb - 1] IN
              Push(s1, IF (Has(st.v3[p], 1) /\ qa = 1) \/ (Has(st.v3[p], 2) /\ qb = 1) THEN up \o <<F("done", p, 0)>> ELSE up)
         ELSE Pop([st EXCEPT !.v1[p] = qa, !.v2[p] = qb])
    [] k = "skipuntil" -> IF r = 1 THEN (IF st.v1[p] = 1 THEN Push(st, up) ELSE Pop(st))
                          ELSE Push([st EXCEPT !.v1[p] = 1], <<F("holddisp", c, 0)>>)     \* opens; right_subscription.dispose()
    [] k = "amb" -> IF st.v1[p] = 0
                    THEN LET oc == KidOf(st, p, Other(r)) IN
                         IF oc = 0 THEN Push([st EXCEPT !.v1[p] = r, !.v3[p] = With(@, Other(r))], up)
                         ELSE Push([st EXCEPT !.v1[p] = r], <<F("holddisp", oc, 0)>> \o up)
                    ELSE IF st.v1[p] = r THEN Push(st, up) ELSE Pop(st)
    [] OTHER -> Pop(st)

HDone(st, c) ==
  LET p == st.epar[c]  r == st.erole[c] IN
  IF p = 0 THEN (IF c = 1 THEN UserCall(st, "C") ELSE Pop([st EXCEPT !.done2 = TRUE]))
  ELSE LET k == Kind(st, p)  fin == <<F("done", p, 0)>> IN
  CASE k \in {"map", "defer", "take"} -> Push(st, fin)
    [] k = "share" -> IF st.v1[p] = 1 THEN Push(st, fin) ELSE Pop(st)
    [] k = "takeuntil" -> IF r = 1 THEN Push(st, fin) ELSE Pop(st)
    [] k \in {"merge", "flatmap"} ->
         IF (k = "merge" /\ r = 3) \/ (k = "flatmap" /\ r = 1)
         THEN LET s1 == [st EXCEPT !.v2[p] = 1] IN IF st.v1[p] = 0 THEN Push(s1, fin) ELSE Pop(s1)
         ELSE LET s1 == [st EXCEPT !.v1[p] = @ - 1] IN          \* group.remove(inner_subscription) disposes it
              Push(s1, <<F("holddisp", c, 0)>> \o (IF st.v2[p] = 1 /\ s1.v1[p] = 0 THEN fin ELSE <<>>))
    [] k = "switchmap" ->
         IF r = 1 THEN LET s1 == [st EXCEPT !.v1[p] = 1] IN IF st.v2[p] = 0 THEN Push(s1, fin) ELSE Pop(s1)
         ELSE IF c = KidOf(st, p, 2)
              THEN LET s1 == [st EXCEPT !.v2[p] = 0] IN IF st.v1[p] = 1 THEN Push(s1, fin) ELSE Pop(s1)
              ELSE Pop(st)
    [] k \in {"concat", "concatinf"} -> Sched(st, SchedOf(k), F("cact", p, 0), <<>>)   \* cancelable.disposable = schedule(action)
    [] k = "cl" -> LET m == With(st.v2[p], r)  s1 == [st EXCEPT !.v2[p] = m] IN
                   IF m = 3 THEN Push(s1, fin) ELSE Pop(s1)
    [] k = "wlf" -> IF r = 1 THEN Push(st, fin) ELSE Pop(st)
    [] k = "zip" -> LET s1 == [st EXCEPT !.v3[p] = With(@, r)] IN
                    IF (IF r = 1 THEN st.v1[p] ELSE st.v2[p]) = 0 THEN Push(s1, fin) ELSE Pop(s1)
    [] k = "skipuntil" -> IF r = 1 THEN (IF st.v1[p] = 1 THEN Push(st, fin) ELSE Pop(st))
                          ELSE Push(st, <<F("holddisp", c, 0)>>)
    [] k = "amb" -> IF st.v1[p] = 0
                    THEN LET oc == KidOf(st, p, Other(r)) IN
                         IF oc = 0 THEN Push([st EXCEPT !.v1[p] = r, !.v3[p] = With(@, Other(r))], fin)
                         ELSE Push([st EXCEPT !.v1[p] = r], <<F("holddisp", oc, 0)>> \o fin)
                    ELSE IF st.v1[p] = r THEN Push(st, fin) ELSE Pop(st)
    [] OTHER -> Pop(st)

\* on_error: every modelled operator passes observer.on_error straight through (amb / switch_latest guard it)
HErr(st, c) ==
  LET p == st.epar[c]  r == st.erole[c] IN
  IF p = 0 THEN (IF c = 1 THEN UserCall(st, "E") ELSE Pop([st EXCEPT !.done2 = TRUE]))
  ELSE LET k == Kind(st, p)  fwd == <<F("err", p, 0)>> IN
  CASE k = "share" -> IF st.v1[p] = 1 THEN Push(st, fwd) ELSE Pop(st)
    [] k = "switchmap" /\ r = 2 -> IF c = KidOf(st, p, 2) THEN Push(st, fwd) ELSE Pop(st)
    [] k = "amb" -> IF st.v1[p] = 0
                    THEN LET oc == KidOf(st, p, Other(r)) IN
                         IF oc = 0 THEN Push([st EXCEPT !.v1[p] = r, !.v3[p] = With(@, Other(r))], fwd)
                         ELSE Push([st EXCEPT !.v1[p] = r], <<F("holddisp", oc, 0)>> \o fwd)
                    ELSE IF st.v1[p] = r THEN Push(st, fwd) ELSE Pop(st)
    [] OTHER -> Push(st, fwd)

(* ---- dispose() of what node e's subscribe function returned ---------------------------------- *)
DispVal(st, e) ==
  LET k == Kind(st, e)  s1 == [st EXCEPT !.pd[e] = TRUE] IN
  IF k \in {"loop", "resched", "one", "empty", "never", "sync", "list", "chaos"} THEN Pop(s1)
  ELSE Push(IF k = "share" THEN [s1 EXCEPT !.v1[e] = 0] ELSE s1,
            [i \in 1..Len(st.kids[e]) |-> F("holddisp", st.kids[e][i], 0)])

(* ---- one step ----------------------------------------------------------------------------- *)
CallFrame(e, what) == IF what = "N" THEN F("next", e, 0) ELSE IF what = "E" THEN F("err", e, 0) ELSE F("done", e, 0)
ChaosEdge(st) == CHOOSE c \in Edges(st) : Kind(st, c) = "chaos"

\* an exception is propagating: unwind one frame
Unwind(st) ==
  LET f == Head(st.stack)  e == f.e IN
  CASE f.k = "adodisp" /\ f.x = 1 ->        \* `finally: self.dispose()` of on_error / on_completed, then the exception goes on
         Push([st EXCEPT !.raising = FALSE], <<F("adodisp", e, 0), F("reraise", 0, 0)>>)
    [] f.k = "catch" ->                     \* set_disposable: except Exception as ex: if not auto_detach_observer.fail(ex): raise
         IF st.stopped[e] THEN Pop(st)
         ELSE Push([st EXCEPT !.raising = FALSE, !.stopped[e] = TRUE], <<F("herr", e, 0)>>)   \* fail(): no dispose
    [] f.k = "drain" ->                     \* Trampoline.run: finally: idle = True; queue.clear()
         LET t == TName(f.x) IN Pop([st EXCEPT !.active[t] = FALSE, !.tq[t] = <<>>])
    [] f.k = "apiend" -> Pop([st EXCEPT !.raising = FALSE, !.escaped = @ + 1])    \* the exception reaches the caller
    [] OTHER -> Pop(st)

Run(st) ==
  LET f == Head(st.stack)  e == f.e IN
  CASE f.k = "subscribe" ->          \* Observable.subscribe: ensure the singleton trampoline is running
         \* (fix = the repaired subscribe: also the trampoline of an explicit trampoline scheduler passed to it)
         LET viaX == fix /\ cfg = "cts" /\ ~st.active["X"]
             body == IF viaX THEN <<F("setdisp", e, 0), F("drain", 0, 2)>> ELSE <<F("setdisp", e, 0)>>
             s1 == IF viaX THEN [st EXCEPT !.active["X"] = TRUE] ELSE st IN
         IF st.active["S"] THEN Push(s1, body)
         ELSE Push([s1 EXCEPT !.active["S"] = TRUE], body \o <<F("drain", 0, 1)>>)
    [] f.k = "setdisp" -> Push(st, <<F("core", e, 0), F("assign", e, 0), F("catch", e, 0)>>)
    [] f.k = "core"    -> Core(st, e)
    [] f.k = "assign"  ->            \* auto_detach_observer.subscription = ...  (SingleAssignmentDisposable)
         IF st.slot[e] = "disposed" THEN Push(st, <<F("dispval", e, 0)>>)
         ELSE Pop([st EXCEPT !.slot[e] = "set"])
    [] f.k = "adodisp" ->            \* AutoDetachObserver.dispose
         LET s1 == [st EXCEPT !.stopped[e] = TRUE] IN
         IF st.slot[e] = "set" THEN Push([s1 EXCEPT !.slot[e] = "disposed"], <<F("dispval", e, 0)>>)
         ELSE Pop([s1 EXCEPT !.slot[e] = "disposed"])
    [] f.k = "dispval" -> DispVal(st, e)
    [] f.k = "holdassign" ->
         IF st.hold[e] = "disposed" THEN Push(st, <<F("adodisp", e, 0)>>)
         ELSE Pop([st EXCEPT !.hold[e] = IF @ = "na" THEN "na" ELSE "set"])
    [] f.k = "holddisp" ->
         IF st.hold[e] \in {"set", "na"} THEN Push([st EXCEPT !.hold[e] = IF @ = "na" THEN "na" ELSE "disposed"], <<F("adodisp", e, 0)>>)
         ELSE Pop([st EXCEPT !.hold[e] = "disposed"])
    [] f.k = "subkid" ->
         LET c == Len(st.enode) + 1  h == HoldInit(st, e, f.x)
             s1 == Alloc(st, ChildNode(st, e, f.x), e, f.x, h) IN
         Push(s1, <<F("subscribe", c, 0), F("holdassign", c, 0)>>)
    [] f.k = "next" -> IF st.stopped[e] THEN Pop(st) ELSE HNext(st, e, f.x)
    [] f.k = "done" -> IF st.stopped[e] THEN Pop(st)
                       ELSE Push([st EXCEPT !.stopped[e] = TRUE], <<F("hdone", e, 0), F("adodisp", e, 1)>>)
    [] f.k = "hdone" -> HDone(st, e)
    [] f.k = "err" -> IF st.stopped[e] THEN Pop(st)
                      ELSE Push([st EXCEPT !.stopped[e] = TRUE], <<F("herr", e, 0), F("adodisp", e, 1)>>)
    [] f.k = "herr" -> HErr(st, e)
    [] f.k = "reraise" -> Pop([st EXCEPT !.raising = TRUE])
    [] f.k = "sub2" ->               \* the caller (having caught whatever the first subscribe() raised) subscribes again
         LET c == Len(st.enode) + 1  s1 == Alloc(st, nd[1].b, 0, 0, "na") IN
         Push([s1 EXCEPT !.e2 = c], <<F("subscribe", c, 0), F("apiend", 0, 0)>>)
    [] f.k = "subret" -> Pop([st EXCEPT !.subret = TRUE])       \* subscribe() has returned its disposable to the user
    [] f.k = "chaos" ->              \* the non-conforming source's subscribe function: scripted calls, then return or raise
         IF f.x > Len(g.scr) THEN (IF g.fin = "raise" THEN Pop([st EXCEPT !.raising = TRUE]) ELSE Pop(st))
         ELSE Push(st, <<CallFrame(e, g.scr[f.x]), F("chaos", e, f.x + 1)>>)
    [] f.k = "post" ->               \* ... and keeps calling the observer it was given after subscribe() returned
         IF f.x > Len(g.post) THEN Pop(st)
         ELSE Push(st, <<CallFrame(ChaosEdge(st), g.post[f.x]), F("apiend", 0, 0), F("post", 0, f.x + 1)>>)
    [] f.k = "loopiter" ->           \* while not disposed: value = next(iterator); observer.on_next(value)
         IF st.pd[e] THEN Pop(st)
         ELSE IF st.pulled = blk.bud THEN Exhaust(st)
         ELSE Push(Pull(st, e), <<F("next", e, 0), f>>)
    [] f.k = "ract" ->               \* observer.on_next(next(it)); sd.disposable = scheduler.schedule(action)
         IF st.pulled = blk.bud THEN Exhaust(st)
         ELSE Push(Pull(st, e), <<F("next", e, 0), F("rsched", e, 0)>>)
    [] f.k = "rsched" -> Sched(st, SchedOf("resched"), F("ract", e, 0), <<>>)
    [] f.k = "oneact" -> Push(st, <<F("next", e, 0), F("done", e, 0)>>)
    [] f.k = "emptyact" -> Push(st, <<F("done", e, 0)>>)
    [] f.k = "listact" ->
         IF st.pd[e] THEN Pop(st)
         ELSE IF f.x > 2 THEN Push(st, <<F("done", e, 0)>>)
         ELSE Push(st, <<F("next", e, f.x), F("listact", e, f.x + 1)>>)
    [] f.k = "cact" ->               \* concat_with_iterable's action
         LET k == Kind(st, e)  i == st.v1[e] + 1  prev == LastKid(st, e) IN
         IF st.pd[e] THEN Pop(st)
         ELSE IF k = "concat" /\ i > 2 THEN Push(st, <<F("done", e, 0)>>)
         ELSE IF k = "concatinf" /\ st.pulled = blk.bud THEN Exhaust(st)
         ELSE LET s1 == IF k = "concatinf" THEN [Pull(st, e) EXCEPT !.v1[e] = i]
                        ELSE [st EXCEPT !.v1[e] = i] IN
              Push(s1, (IF prev # 0 THEN <<F("holddisp", prev, 0)>> ELSE <<>>)
                       \o <<F("subkid", e, IF k = "concat" THEN i ELSE 1)>>)
    [] f.k = "drain" ->              \* Trampoline._run, then idle again
         LET t == TName(f.x) IN
         IF st.tq[t] = <<>> THEN Pop([st EXCEPT !.active[t] = FALSE])
         ELSE LET h == Head(st.tq[t])  s1 == [st EXCEPT !.tq[t] = Tail(@)] IN
              IF Cancelled(st, h) THEN s1 ELSE Push(s1, <<h, f>>)
    [] OTHER -> Pop(st)          \* catch / apiend reached without an exception: nothing to do

Exec(st) == IF st.raising THEN Unwind(st) ELSE Run(st)

Terminal == s.stack = <<>>

Calls == {"N", "E", "C"}
SeqsUpTo(n) == UNION {[1..m -> Calls] : m \in 0..n}
G0 == [scr |-> <<>>, fin |-> "ret", post |-> <<>>, ur |-> 0, dsp |-> 0]
GChoices(t) == IF HasKind(t, "chaos")
               THEN [scr : SeqsUpTo(GLen), fin : {"ret", "raise"}, post : SeqsUpTo(GPost), ur : GRaise, dsp : {0}]
               ELSE {[G0 EXCEPT !.dsp = d, !.ur = u] : d \in blk.dsps, u \in (IF t[1].k = "pair" THEN blk.urs ELSE {0})}

Init == /\ blk \in Plan(PlanName) /\ nd \in ShapesOf(blk) /\ cfg \in blk.cfgs /\ ctx \in blk.ctxs /\ g \in GChoices(nd)
        /\ fix \in (IF cfg = "cts" THEN BOOLEAN ELSE {FALSE})
        /\ open = IF nd[1].k = "take" /\ nd[1].a = 0 THEN <<[p |-> 1, r |-> 1, d |-> 1]>> ELSE <<>>
        /\ s = LET a == Alloc(S0, IF nd[1].k = "pair" THEN nd[1].a ELSE 1, 0, 0, "na")
                   tail == <<F("apiend", 0, 0)>> \o (IF g.post # <<>> THEN <<F("post", 0, 1)>> ELSE <<>>)
                           \o (IF nd[1].k = "pair" THEN <<F("sub2", 0, 0)>> ELSE <<>>)     \* the caller subscribes again
                           \o (IF cfg = "vts" THEN <<F("drain", 0, 3)>> ELSE <<>>)        \* scheduler.start()
                   b == IF cfg = "vts" THEN [a EXCEPT !.active["V"] = TRUE] ELSE a IN       \* V never runs work inside schedule()
               IF ctx = "top" THEN [b EXCEPT !.stack = <<F("subscribe", 1, 0), F("subret", 0, 0)>> \o tail]
               ELSE [b EXCEPT !.stack = <<F("subscribe", 1, 0), F("subret", 0, 0), F("drain", 0, 1)>> \o tail, !.active["S"] = TRUE]

\* -simulate only: grow a random pipeline below the root consumer, one node per step, before anything runs.
\* open = the argument positions still to be filled (parent node, role, depth)
MaxDepth == 3
AllC == Comb2 \cup Comb3 \cup HO
Build == /\ open # <<>>
         /\ LET o == Head(open)  i == Len(nd) + 1
                ks == IF o.d >= MaxDepth THEN Inf \cup blk.oth ELSE Inf \cup blk.oth \cup {"map", "take"} \cup AllC IN
            \E k \in ks : \E n \in (IF k = "take" THEN blk.ns ELSE {0}) :
               /\ nd' = Append(IF o.r = 1 THEN [nd EXCEPT ![o.p].a = i] ELSE [nd EXCEPT ![o.p].b = i], Nd(k, 0, 0, n))
               /\ open' = Tail(open) \o (IF k \in {"map", "take"} THEN <<[p |-> i, r |-> 1, d |-> o.d + 1]>>
                                         ELSE IF k \in AllC THEN <<[p |-> i, r |-> 1, d |-> o.d + 1], [p |-> i, r |-> 2, d |-> o.d + 1]>>
                                         ELSE <<>>)
         /\ UNCHANGED <<blk, cfg, ctx, g, fix, s>>
\* (a grown pipeline without a never-ending source is of no interest: the behaviour just ends there)
Step == /\ ~Terminal /\ open = <<>> /\ (\E i \in 1..Len(nd) : nd[i].k \in Inf \cup {"concatinf", "chaos"}) /\ s' = Exec(s) /\ UNCHANGED <<blk, nd, cfg, ctx, g, fix, open>>
Next == Step \/ Build
Spec == Init /\ [][Next]_vars /\ WF_vars(Next)

(* ---- invariants of the model --------------------------------------------------------------- *)
States3 == {"unset", "set", "disposed"}
TypeOK == /\ s.pulled \in 0..blk.bud /\ s.emitted \in Nat
          /\ \A e \in Edges(s) : s.slot[e] \in States3 /\ s.hold[e] \in States3 \cup {"na"}
          /\ \A t \in Tramps : (s.tq[t] # <<>> => s.active[t])

\* single assignment: a slot only moves unset -> set -> disposed / unset -> disposed
Rank(x) == CASE x = "unset" -> 0 [] x = "set" -> 1 [] x = "disposed" -> 2 [] OTHER -> 0
SlotMono == [][\A e \in Edges(s) : Rank(s'.slot[e]) >= Rank(s.slot[e]) /\ Rank(s'.hold[e]) >= Rank(s.hold[e])
                                   /\ (s.stopped[e] => s'.stopped[e]) /\ (s.pd[e] => s'.pd[e])]_vars
\* the sink sees N* C? : nothing after its on_completed (C01 seen through the auto-detach observer of the root edge)
SinkGrammar == s.late = 0
\* C01: what reached the user's callbacks is N* (E|C)?  -  whatever the source did and wherever a callback raised
Grammar == \A i \in 1..Len(s.down) : s.down[i] # "N" => i = Len(s.down)
\* reference for the auto-detach observer alone, no raising callback: the upstream calls cut after the first
\* terminal; a subscribe function that raises before any terminal is reported through on_error (fail)
Cut(q) == LET ts == {i \in 1..Len(q) : q[i] # "N"} IN
          IF ts = {} THEN q ELSE SubSeq(q, 1, CHOOSE i \in ts : \A j \in ts : i <= j)
HasTerm(q) == \E i \in 1..Len(q) : q[i] # "N"
RefDown == LET c == Cut(g.scr) IN
           IF HasTerm(c) THEN c ELSE IF g.fin = "raise" THEN Append(c, "E") ELSE Cut(g.scr \o g.post)
GrammarRefOK == (Terminal /\ g.ur = 0 /\ HasKind(nd, "chaos") /\ ~HasKind(nd, "take")) =>
                   /\ s.down = RefDown
                   /\ s.escaped = (IF g.fin = "raise" /\ HasTerm(Cut(g.scr)) THEN 1 ELSE 0)
\* an exception never stays in flight, and without a raising callback / subscribe function none escapes
NoStrayException == /\ (Terminal => ~s.raising)
                    /\ (g.ur = 0 /\ g.fin = "ret") => (s.escaped = 0 /\ ~s.raising)

\* a producer whose returned disposable was disposed never pulls again ("the source stops producing")
DisposedStops == [][\A e \in Edges(s) : s.pd[e] => s'.pulls[e] = s.pulls[e]]_vars
\* subscribe() returned normally: the trampolines are idle and empty, and if the consumer terminated
\* every infinite producer has been told to stop
InfKinds == {"loop", "resched", "concatinf"}
ReturnedClean == (Terminal /\ ~s.exhausted) =>
                    /\ \A t \in Tramps : ~s.active[t] /\ s.tq[t] = <<>>
                    /\ (s.sinkdone \/ s.udisp) => \A e \in Edges(s) : Kind(s, e) \in InfKinds => (s.pd[e] \/ s.stopped[e])
\* "the source stops producing": once a pipeline's subscriber is done with it (terminal delivered, or it disposed) its
\* counted sources are not advanced again - not even once; and a pipeline whose subscribe() raised leaves no work behind
\* that a later subscribe() on the same thread would run (Trampoline.run clears its queue when an action raises)
NoPullAfterEnd == (Terminal /\ ~s.exhausted) => s.latepull = 0
NoStaleWork == Terminal => s.stale = 0
\* a disposed auto-detach observer is stopped; a disposed slot never holds a live value
DisposedIsStopped == \A e \in Edges(s) : s.slot[e] = "disposed" => s.stopped[e]

(* ---- scope of C14: can the pipeline terminate at all?  (ideal semantics of the shape, no scheduling) ------ *)
\* Out(i): the possible outcomes <<c, m>> of node i when every source gets to run: it delivers at least c elements
\* (INF = without bound) and then completes (m) or stays silent for ever (~m).  Only amb has more than one
\* outcome (whichever side speaks first).  C14 speaks about pipelines whose root completes in every outcome
\* (an early-terminating operator CAN terminate); e.g. combine_latest(range, never()) never emits, nothing can
\* end it, and C14 is silent.
INF == 99
Mn(a, b) == IF a <= b THEN a ELSE b
Mx(a, b) == IF a >= b THEN a ELSE b
Sat(x) == IF x >= INF THEN INF ELSE x
Speaks(o) == o[1] > 0 \/ o[2]
\* Hops(i): scheduling steps between subscribing to node i and its first element (a rough count that errs upwards)
RECURSIVE Hops(_)
Hops(i) ==
  LET n == nd[i]  k == n.k IN
  CASE k = "sync" -> 0
    [] k \in {"loop", "resched", "one", "empty"} -> 1
    [] k \in {"map", "defer", "share", "take", "takeuntil"} -> Hops(n.a)
    [] k = "merge" -> 1 + Mn(Hops(n.a), Hops(n.b))
    [] k \in {"concat", "concatinf"} -> 1 + Hops(n.a)
    [] k = "amb" -> Mn(Hops(n.a), Hops(n.b))
    [] k \in {"cl", "zip", "wlf"} -> Mx(Hops(n.a), Hops(n.b))
    [] k = "skipuntil" -> Hops(n.b) + 1
    [] k \in {"flatmap", "switchmap"} -> Hops(n.a) + Hops(n.b)
    [] OTHER -> INF
\* Rate(i): elements per scheduling round node i may deliver when every source reschedules per element (errs upwards)
RECURSIVE Rate(_)
Rate(i) ==
  LET n == nd[i]  k == n.k IN
  CASE k \in {"loop", "resched", "one", "sync", "concatinf", "empty", "never"} -> 1
    [] k \in {"map", "defer", "share", "take", "takeuntil", "skipuntil", "wlf"} -> Rate(n.a)
    [] k \in {"merge", "cl"} -> Sat(Rate(n.a) + Rate(n.b))
    [] k \in {"amb", "concat"} -> Mx(Rate(n.a), Rate(n.b))
    [] k = "zip" -> Mn(Rate(n.a), Rate(n.b))
    [] OTHER -> INF                          \* flat_map, switch_map: not bounded by a constant
RECURSIVE Out(_)
Out(i) ==
  LET n == nd[i]  k == n.k IN
  CASE k \in {"loop", "resched"} -> {<<INF, FALSE>>}
    [] k \in {"one", "sync"} -> {<<1, TRUE>>}
    [] k = "empty" -> {<<0, TRUE>>}
    [] k \in {"map", "defer", "share"} -> Out(n.a)
    [] k = "pair" -> Out(n.b)                 \* what is asserted is the second, healthy pipeline
    [] k = "take" -> {<<Mn(n.n, o[1]), o[1] >= n.n \/ o[2]>> : o \in Out(n.a)}
    [] k = "concatinf" -> {IF o[1] = 0 THEN <<0, FALSE>> ELSE IF o[2] THEN <<INF, FALSE>> ELSE <<o[1], FALSE>> : o \in Out(n.a)}
    [] k = "merge" -> {<<Sat(o[1] + q[1]), o[2] /\ q[2]>> : o \in Out(n.a), q \in Out(n.b)}
    [] k = "concat" -> {IF o[2] THEN <<Sat(o[1] + q[1]), q[2]>> ELSE <<o[1], FALSE>> : o \in Out(n.a), q \in Out(n.b)}
    [] k = "amb" -> UNION {(IF Speaks(o) THEN {o} ELSE {}) \cup (IF Speaks(q) THEN {q} ELSE {})
                           \cup (IF ~Speaks(o) /\ ~Speaks(q) THEN {<<0, FALSE>>} ELSE {}) : o \in Out(n.a), q \in Out(n.b)}
    [] k = "cl" -> {IF o[1] > 0 /\ q[1] > 0 THEN <<Mx(o[1], q[1]), o[2] /\ q[2]>>
                    ELSE <<0, (o[2] /\ q[2]) \/ (o[2] /\ o[1] = 0 /\ q[1] > 0) \/ (q[2] /\ q[1] = 0 /\ o[1] > 0)>> :
                    o \in Out(n.a), q \in Out(n.b)}
    [] k = "wlf" -> {<<IF q[1] > 0 /\ o[1] = INF THEN INF ELSE 0, o[2]>> : o \in Out(n.a), q \in Out(n.b)}
    [] k = "takeuntil" -> {IF q[1] > 0 THEN <<0, TRUE>> ELSE o : o \in Out(n.a), q \in Out(n.b)}
    [] k = "zip" -> {<<Mn(o[1], q[1]), (o[2] /\ o[1] <= q[1]) \/ (q[2] /\ q[1] <= o[1])>> : o \in Out(n.a), q \in Out(n.b)}
    [] k = "skipuntil" -> {<<IF q[1] > 0 /\ o[1] = INF THEN INF ELSE 0, FALSE>> : o \in Out(n.a), q \in Out(n.b)}
    [] k \in {"flatmap", "switchmap"} ->
         \* a never-ending outer source switches away from every inner source that needs more than one scheduling step
         \* to speak (e.g. one that subscribes its own sources from a scheduled action): inherent in switching, C14 is silent
         \* (so the inner source must speak within one step, and the outer one deliver at most one element per round)
         {IF k = "switchmap" /\ o[1] = INF /\ (Hops(n.b) > 1 \/ Rate(n.a) > 1) THEN <<0, FALSE>>
          ELSE <<IF o[1] = 0 \/ q[1] = 0 THEN 0 ELSE IF o[1] = INF \/ q[1] = INF THEN INF ELSE o[1] * q[1],
                 o[2] /\ (o[1] = 0 \/ q[2])>> : o \in Out(n.a), q \in Out(n.b)}
    [] OTHER -> {<<0, FALSE>>}                \* never, chaos
\* with a user who disposes inside the k-th on_next: the pipeline ends if it delivers k elements (or completes before)
\* (which presupposes that subscribe() hands the subscription out before the elements flow: called from inside a
\* trampoline action, or on a virtual-time scheduler that is started afterwards)
Applicable == \A o \in Out(1) : o[2] \/ (g.dsp # 0 /\ o[1] >= g.dsp /\ (ctx = "act" \/ cfg = "vts"))

(* ---- reference verdict: which shapes the wiring lets terminate (stated independently of Exec) ---- *)
\* Under the default configuration the trampoline runs producer actions in the order in which the
\* combinators subscribe; a loop producer keeps the trampoline until it is disposed, so everything the
\* consumer still needs must either come from that loop or have run before it.
Root == nd[1]
Under(i) == nd[i]           \* node record
IsLeaf(i, k) == nd[i].k = k
\* skip element-wise layers
RECURSIVE Strip(_)
Strip(i) == IF nd[i].k \in {"map", "defer"} THEN Strip(nd[i].a) ELSE i
\* r = the node that terminates the pipeline early, c = what it consumes (element-wise layers skipped)
TwoLeaves(c) == nd[Strip(nd[c].a)].k \in Inf \cup blk.oth /\ nd[Strip(nd[c].b)].k \in Inf \cup blk.oth
RefKnown ==   \* shapes for which the reference below is stated
  /\ cfg \in {"default", "vts", "sing", "src_sing"} /\ ctx = "top" /\ g.dsp = 0      \* a virtual-time scheduler runs the same queue order, later
  /\ LET r == Strip(1) IN
       \/ nd[r].k = "takeuntil" /\ TwoLeaves(r)
       \/ nd[r].k = "take" /\ LET c == Strip(nd[r].a) IN
                                 nd[c].k \in Inf \/ (nd[c].k \in Comb2 \cup Comb3 \cup HO /\ TwoLeaves(c))
RefBounded ==
  LET r == Strip(1) IN
  IF nd[r].k = "takeuntil"                                      \* `other` is subscribed after, hence queued behind, the source
  THEN nd[Strip(nd[r].a)].k # "loop" \/ nd[Strip(nd[r].b)].k = "sync"   \* (unless it fires inside its own subscribe call)
  ELSE LET c == Strip(nd[r].a)  k == nd[c].k IN
  IF k \in Inf THEN TRUE
  ELSE LET ka == nd[Strip(nd[c].a)].k  kb == nd[Strip(nd[c].b)].k IN
  CASE k \in {"merge", "concat", "amb", "takeuntil"} -> TRUE   \* the loop's own elements reach the consumer
    [] k \in {"cl", "skipuntil"} -> ka # "loop" \/ kb = "sync"  \* needs both; the second source is queued behind the first
    [] k = "zip" -> (CASE ka = "loop" -> kb = "sync"             \* needs both again and again: whatever the other side still
                       [] kb = "loop" -> ka \in {"one", "sync"} \/ (ka = "resched" /\ nd[r].n = 1)   \* has to deliver must
                                                                \* have been delivered before the loop starts
                       [] OTHER -> TRUE)
    [] k = "wlf" -> kb # "loop" \/ ka = "sync"                   \* children are subscribed before the parent (a parent that
                                                                \* completes inside its subscribe call ends the pipeline first)
    [] k \in HO  -> ka # "loop" \/ kb = "sync"                   \* inner sources are scheduled behind the running outer loop
    [] OTHER -> TRUE
RefOK == (Terminal /\ RefKnown /\ Applicable /\ blk.oth \subseteq {"one", "resched", "loop", "sync"}) => (~s.exhausted <=> RefBounded)

\* C14 itself, for the part of the design where the wiring does deliver it: one element per scheduled
\* action always yields to the trampoline, so without loop producers every listed shape returns
BoundedResched == (Terminal /\ cfg \in {"default", "vts", "sing", "src_sing"} /\ ~HasKind(nd, "loop") /\ Applicable) => ~s.exhausted
\* C14 for everything (violated by the design for the shapes exported with returned = FALSE;
\* used with one scenario at a time to print the missing cancellation path)
Bounded == (Terminal /\ Applicable) => ~s.exhausted
Returns == <>Terminal

(* ---- export ---------------------------------------------------------------------------------- *)
Cause == IF ~s.exhausted THEN "none" ELSE IF s.sinkdone THEN "no_cancel_path" ELSE "starved"
Export == Terminal =>
            PrintT(ToJson([scn |-> [nd |-> nd, cfg |-> cfg, ctx |-> ctx, budget |-> blk.bud, dsp |-> g.dsp, ur |-> g.ur],
                           obs |-> [returned |-> ~s.exhausted, pulled |-> s.pulled, emitted |-> s.emitted,
                                    done |-> s.sinkdone, cause |-> Cause, edges |-> Len(s.enode),
                                    applicable |-> Applicable, fix |-> fix, udisp |-> s.udisp, latepull |-> s.latepull,
                                    stale |-> s.stale, emitted2 |-> s.emitted2, done2 |-> s.done2, escaped |-> s.escaped]]))
GExport == Terminal =>
            PrintT(ToJson([scn |-> [nd |-> nd, cfg |-> cfg, ctx |-> ctx, g |-> g],
                           obs |-> [down |-> s.down, escaped |-> s.escaped]]))
================================================================================
