------------------------------- MODULE Expand -------------------------------
(* Growth beyond the listed properties: the operator `expand(mapper)` (reactivex/operators/_expand.py),
   a recursive flat_map driven through a work queue on the subscription's scheduler.

   A scenario (variable scn, chosen in Init, never changed): the source timeline; the mapper as a table
   value -> inner timeline (or "raises"); the instant after which the subscriber disposes.  Values are
   1..K and the inner timeline of v only carries values > v, so every expansion is finite.  All sources are
   cold (events relative to the instant of subscription).

   The operator is stated twice.
   (1) Implementation shaped: the work queue, active_count, is_acquired and the scheduled drain action of
       the code; every subscription to a timeline is a LANE; the drain action is one more item due at the
       instant at which it was scheduled.  Items due at the same instant fire in any order (DESIGN 3.2),
       a lane born from an event comes after that event.
   (2) As a closed statement over the expansion TREE of the scenario (RefOK): the output is the source's elements
       and, for every element v that came out, the elements of mapper(v) shifted to v's instant - each
       timeline's elements in their own order; the first error (of any timeline, or a raising mapper, which
       comes right after the element it was applied to) ends the output; completion comes exactly when every
       timeline of the tree completed, at the last of their completion instants; every subscription is
       closed at its own completion or at the end of the whole, whichever comes first (Released).
   TLC checks (1) against (2) in every final state and exports every scenario with all outcomes the tie policy allows. *)
EXTENDS Integers, Sequences, FiniteSets, TLC, Json

CONSTANTS K,         \* values 1..K
          MaxLen,    \* at most this many events per timeline
          Times,     \* relative ticks of events
          Faults,    \* TRUE: the mapper may raise for a value
          DspTicks,  \* the subscriber disposes half a tick after one of these ({} = never)
          Emit       \* TRUE: print one JSON line per final state

INF   == 1000
NEVER == 999

Sorted(s)   == \A j \in 1..(Len(s) - 1) : s[j].t <= s[j + 1].t
TermLast(s) == \A j \in 1..Len(s) : s[j].k # "N" => j = Len(s)
Ev(lo)      == [t : Times, k : {"N"}, v : lo..K] \cup [t : Times, k : {"C", "E"}, v : {0}]
TLs(lo)     == {s \in UNION {[1..n -> Ev(lo)] : n \in 0..MaxLen} : Sorted(s) /\ TermLast(s)}
Maps        == {f \in [1..K -> [raise : BOOLEAN, tl : TLs(1)]] :
                  \A v \in 1..K : IF f[v].raise THEN Faults /\ f[v].tl = <<>> ELSE f[v].tl \in TLs(v + 1)}
Scenarios   == [src : TLs(1), fmap : Maps, dsp : DspTicks \cup {NEVER}]

VARIABLES scn,       \* the scenario
          lanes,     \* subscriptions made so far, in the order they were made: [tl, base, pos, open, close, val] (val: the element the timeline was mapped from, 0 = the source)
          queue,     \* timelines waiting to be subscribed (the code's `queue`): [tl, val]
          ac,        \* active_count
          acq,       \* is_acquired
          act,       \* instant at which the scheduled drain action is due (INF = none scheduled)
          now,       \* current instant
          out,       \* what the subscriber saw: [t, k, v, lane]
          done       \* "" | "C" | "E" | "D" (disposed by the subscriber)
vars == <<scn, lanes, queue, ac, acq, act, now, out, done>>

LaneDue(i) == IF lanes[i].open /\ lanes[i].pos <= Len(lanes[i].tl) THEN lanes[i].base + lanes[i].tl[lanes[i].pos].t ELSE INF
DueTimes   == {LaneDue(i) : i \in 1..Len(lanes)} \cup {act}
MinDue     == CHOOSE d \in DueTimes : \A e \in DueTimes : d <= e
CloseAllOf(ln, t) == [i \in 1..Len(ln) |-> IF ln[i].open THEN [ln[i] EXCEPT !.open = FALSE, !.close = t] ELSE ln[i]]
CloseAll(t) == CloseAllOf(lanes, t)

Init == /\ scn \in Scenarios
        /\ lanes = <<>>
        /\ queue = <<[tl |-> scn.src, val |-> 0]>>
        /\ ac = 1 /\ acq = TRUE /\ act = 0 /\ now = 0
        /\ out = <<>> /\ done = ""

(* the drain action: subscribe the head of the queue and reschedule itself, or release ownership *)
Drain ==
  /\ done = "" /\ act = MinDue /\ act < INF /\ act <= scn.dsp
  /\ now' = act
  /\ IF queue # <<>>
       THEN /\ lanes' = Append(lanes, [tl |-> Head(queue).tl, base |-> act, pos |-> 1, open |-> TRUE, close |-> NEVER, val |-> Head(queue).val])
            /\ queue' = Tail(queue)
            /\ UNCHANGED <<acq, act>>
       ELSE /\ acq' = FALSE /\ act' = INF
            /\ UNCHANGED <<lanes, queue>>
  /\ UNCHANGED <<scn, ac, out, done>>

(* one notification of one subscription *)
LaneEvent(i) ==
  /\ done = "" /\ LaneDue(i) = MinDue /\ MinDue < INF /\ MinDue <= scn.dsp
  /\ LET t  == LaneDue(i)
         e  == lanes[i].tl[lanes[i].pos]
         ln == [lanes EXCEPT ![i].pos = @ + 1]
     IN /\ now' = t
        /\ CASE e.k = "N" ->
                  (LET o == Append(out, [t |-> t, k |-> "N", v |-> e.v, lane |-> i]) IN
                   IF scn.fmap[e.v].raise
                     THEN /\ out' = Append(o, [t |-> t, k |-> "E", v |-> e.v, lane |-> i])
                          /\ done' = "E" /\ lanes' = CloseAllOf(ln, t)
                          /\ UNCHANGED <<queue, ac, acq, act>>
                     ELSE /\ out' = o /\ lanes' = ln
                          /\ queue' = Append(queue, [tl |-> scn.fmap[e.v].tl, val |-> e.v])
                          /\ ac' = ac + 1
                          /\ IF acq THEN UNCHANGED <<acq, act>> ELSE acq' = TRUE /\ act' = t
                          /\ UNCHANGED done)
             [] e.k = "C" ->
                  (IF ac = 1
                     THEN /\ out' = Append(out, [t |-> t, k |-> "C", v |-> 0, lane |-> i])
                          /\ done' = "C"
                          /\ lanes' = CloseAllOf(ln, t)
                     ELSE /\ lanes' = [ln EXCEPT ![i].open = FALSE, ![i].close = t]
                          /\ UNCHANGED <<out, done>>)
                  /\ ac' = ac - 1 /\ UNCHANGED <<queue, acq, act>>
             [] e.k = "E" ->
                  /\ out' = Append(out, [t |-> t, k |-> "E", v |-> 0, lane |-> i])
                  /\ done' = "E"
                  /\ lanes' = CloseAllOf(ln, t)
                  /\ UNCHANGED <<queue, ac, acq, act>>
  /\ UNCHANGED scn

(* the subscriber disposes strictly after instant scn.dsp and before the next one *)
Dispose ==
  /\ done = "" /\ scn.dsp # NEVER /\ MinDue > scn.dsp
  /\ done' = "D" /\ lanes' = CloseAll(scn.dsp) /\ now' = scn.dsp
  /\ UNCHANGED <<scn, queue, ac, acq, act, out>>

Next == Drain \/ (\E i \in 1..Len(lanes) : LaneEvent(i)) \/ Dispose
Spec == Init /\ [][Next]_vars

Final == done # "" \/ (MinDue = INF /\ scn.dsp = NEVER)

(* ---- state invariants of the implementation-shaped statement ------------------------------------------ *)
Grammar   == \A j \in 1..Len(out) : out[j].k # "N" => j = Len(out) /\ done = (IF out[j].k = "C" THEN "C" ELSE "E")
Released  == done # "" => \A i \in 1..Len(lanes) : ~lanes[i].open
Counted   == done = "" => ac = Len(queue) + Cardinality({i \in 1..Len(lanes) : lanes[i].open})
Owned     == done = "" /\ queue # <<>> => acq /\ act < INF      \* queued work always has a drain action coming
Monotone  == \A j \in 1..(Len(out) - 1) : out[j].t <= out[j + 1].t

(* ---- the closed statement over the expansion tree ----------------------------------------------------- *)
\* nodes of the tree as a sequence of [tl, base]; finite because values grow along every path
RECURSIVE Tree(_, _)
Tree(tl, base) ==
  LET RECURSIVE Kids(_)
      Kids(j) == IF j > Len(tl) THEN <<>>
                 ELSE (IF tl[j].k = "N" /\ ~scn.fmap[tl[j].v].raise THEN Tree(scn.fmap[tl[j].v].tl, base + tl[j].t) ELSE <<>>) \o Kids(j + 1)
  IN <<[tl |-> tl, base |-> base]>> \o Kids(1)
OutN     == {j \in 1..Len(out) : out[j].k = "N"}
Last(S)  == CHOOSE t \in S : \A u \in S : t >= u
First(S) == CHOOSE t \in S : \A u \in S : t <= u
RefOK ==
  Final =>
    LET nodes == Tree(scn.src, 0)
        evs   == UNION {{[t |-> nodes[n].base + nodes[n].tl[j].t, k |-> nodes[n].tl[j].k, v |-> nodes[n].tl[j].v, n |-> n, j |-> j]
                          : j \in 1..Len(nodes[n].tl)} : n \in 1..Len(nodes)}
        errs  == {e.t : e \in {x \in evs : x.k = "E" \/ (x.k = "N" /\ scn.fmap[x.v].raise)}}
        te    == IF errs = {} THEN INF ELSE First(errs)
        alld  == \A n \in 1..Len(nodes) : nodes[n].tl # <<>> /\ nodes[n].tl[Len(nodes[n].tl)].k = "C"
        tc    == IF alld THEN Last({nodes[n].base + nodes[n].tl[Len(nodes[n].tl)].t : n \in 1..Len(nodes)}) ELSE INF
        tend  == IF te <= tc THEN te ELSE tc                      \* instant of the terminal notification (INF: none)
        lim   == IF scn.dsp < tend THEN scn.dsp + 1 ELSE tend     \* elements strictly before lim must all be there
        nEvs  == {e \in evs : e.k = "N"}
        has(t, v)  == Cardinality({j \in OutN : out[j].t = t /\ out[j].v = v})
        want(t, v) == Cardinality({e \in nEvs : e.t = t /\ e.v = v})
    IN \* exactly the elements of the tree that are due before the end, each (instant, value) as often as the tree has it
       /\ \A e \in nEvs : IF e.t < lim THEN has(e.t, e.v) = want(e.t, e.v) ELSE (e.t = lim /\ lim = tend) \/ has(e.t, e.v) = 0
       /\ \A j \in OutN : has(out[j].t, out[j].v) <= want(out[j].t, out[j].v) /\ out[j].t <= lim /\ (out[j].t = lim => lim = tend)
       \* the terminal notification
       /\ (tend <= scn.dsp /\ tend < INF) =>
            /\ done \in {"C", "E"} /\ out[Len(out)].t = tend
            /\ (te < tc => done = "E") /\ (tc < te => done = "C")
       /\ (tend > scn.dsp \/ tend = INF) => done \in {"", "D"} /\ OutN = 1..Len(out)
       \* each subscription's elements in their own order
       /\ \A i \in 1..Len(lanes) : \A a, b \in OutN : a < b /\ out[a].lane = i /\ out[b].lane = i => out[a].t <= out[b].t
       \* at most one subscription per tree node, none left open after the end
       /\ Len(lanes) <= Len(nodes)
       /\ \A i \in 1..Len(lanes) : lanes[i].close <= (IF done = "D" THEN scn.dsp ELSE IF done = "" THEN NEVER ELSE out[Len(out)].t)

(* ---- export --------------------------------------------------------------------------------------------- *)
Obs == [out  |-> [j \in 1..Len(out) |-> [t |-> out[j].t, k |-> out[j].k, v |-> out[j].v]],
        subs |-> [i \in 1..Len(lanes) |-> [open |-> lanes[i].base, close |-> lanes[i].close, val |-> lanes[i].val]],
        done |-> done]
Export == (Final /\ Emit) => PrintT(ToJson([scn |-> scn, obs |-> Obs]))
=============================================================================
