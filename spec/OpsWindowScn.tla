---------------------------- MODULE OpsWindowScn ----------------------------
(* OpsWindow.tla with the scenarios read from a JSON file instead of being enumerated by Init:
   used for instances whose Init set is too large to enumerate (thorough tier).  The file holds a
   list of scenario records in the shape of Export's `scn`; everything else (all tie orders, the
   model's free choices, every invariant, the export) is OpsWindow's.                           *)
EXTENDS OpsWindow, IOUtils

Scns == JsonDeserialize(IOEnv.SCN_FILE)

NonDec(s) == \A j \in 1..(Len(s) - 1) : s[j] <= s[j + 1]
TimesOK(s, n) == Len(s) <= n /\ NonDec(s) /\ \A j \in 1..Len(s) : s[j] \in 1..MaxT
\* a sampled scenario lies in the domain Init would have enumerated
ScnOK(sc) == /\ sc.op \in Ops
             /\ TimesOK(sc.src, IF sc.op = "count" THEN CountLen ELSE MaxLen) /\ sc.term \in TermsOf(sc.src, Terms)
             /\ TimesOK(sc.aux, MaxAux) /\ (sc.op \notin {"bound", "toggle"} => sc.aux = <<>>)
             /\ sc.auxterm \in (IF sc.op \in {"bound", "toggle"} THEN TermsOf(sc.aux, AuxTerms) ELSE {[k |-> "U", t |-> INF]})
             /\ sc.par \in ParamsOf(sc.op, sc.aux)
             /\ sc.dsp \in (IF Disposes THEN 0..MaxT ELSE {}) \cup {INF}
             /\ sc.dmode \in {"all"} \cup (IF sc.dsp # INF /\ sc.op \in OuterOps THEN {"outer"} ELSE {})
\* (the file is parsed every time Scns is evaluated: bind it once with LET)
ASSUME LET all == Scns IN \A n \in 1..Len(all) : ScnOK(all[n])

InitFrom == /\ LET all == Scns IN \E n \in 1..Len(all) : LET sc == all[n] IN
                 /\ op = sc.op /\ par = sc.par /\ src = sc.src /\ term = sc.term
                 /\ aux = sc.aux /\ auxterm = sc.auxterm /\ dsp = sc.dsp /\ dmode = sc.dmode
            /\ lazy \in (IF op = "count" THEN BOOLEAN ELSE {FALSE})
            /\ abandon \in (IF auxterm.k = "E" \/ (op \in {"when", "toggle"} /\ (par.fr # 0 \/ par.ck = "E")) THEN BOOLEAN ELSE {FALSE})
            /\ i = 1 /\ a = 1 /\ now = 0 /\ step = 0 /\ arr = <<>>
            /\ S = InitS
=============================================================================
