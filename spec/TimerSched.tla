------------------------------ MODULE TimerSched ------------------------------
(* L0: the thread-per-action real-time schedulers as ONE abstract object (C34):
       TimeoutScheduler (a threading.Timer per action), NewThreadScheduler (a one-shot event loop per
       action), ThreadPoolScheduler (the same on pool threads); EventLoopScheduler traces are also judged
       by this weaker object in C34 (its full object is EventLoop.tla, C31).
   C34: an action never starts before its due time (relative or absolute, on the scheduler clock) and an
   action whose disposable was disposed before its due time never starts.

   Linearizability style:  Call(th) -> silent Lin(th) -> Ret(th)  for schedule / schedule_relative /
   schedule_absolute / cancel, and for the executing side a silent Commit(x) - the scheduler's last look at
   the cancellation flag (Timer.finished, ScheduledItem.is_cancelled) - followed by Start / End.
   Commit(x) needs now >= due[x]: a cancel that RETURNED before the due time has linearized before any
   possible Commit and is therefore effective; a cancel at or after the due time races the timer thread
   and may lose (the statement says "disposed before its due time").
   No order, no seriality, no thread identity: the statement gives none for these schedulers.

   schedule_periodic (NewThread / ThreadPool dedicated thread, EventLoop / Timeout self-rescheduling) is the same object with
   End re-arming the item one period after the start of the run just finished, until a cancel linearizes.
   The guards are the property; NotEarly / CancelledBeforeDueNeverRuns / AtMostOnce restate it over history
   variables and TLC checks the agreement on every interleaving of the generator.
   Time is an integer in an unspecified unit (the traces use microseconds; the scenario scripts are replayed under two scale
   profiles, 1 tick = 1 s and 1 tick = 0.4 ms): the guard now >= due[x] is the same for a delay of 400 us as for one of 2 s -
   no delay is "small enough to count as zero" and no start is "close enough to the due time".
   (ImmediateScheduler - synchronous, WouldBlockException for a positive delay - is ImmediateSched.tla.) *)
EXTENDS Integers, Sequences, FiniteSets, TLC

CONSTANTS Threads,     \* every thread id that may call the API or run an action
          Clients,     \* generator: the threads that make calls
          Workers,     \* generator: the threads that run actions
          Items, MaxT, MaxCalls, RelD, AbsT

NoCall == [op |-> "none", item |-> 0, d |-> 0, t0 |-> 0, lin |-> FALSE, res |-> "-"]

VARIABLES now, ist,    \* item -> "new" | "pending" | "cancelled" | "committed" | "running" | "done"
          due, pend, handle,
          runTh, startT, starts,   \* history: who started it, when, how often
          per,                     \* item -> period of a periodic item (0 = one-shot)
          stopped,                 \* periodic items whose cancel has linearized: the current run is the last
          limit,                   \* item -> number of starts allowed once a cancel of it has RETURNED (NoLimit before)
          calls

vars == <<now, ist, due, pend, handle, runTh, startT, starts, per, stopped, limit, calls>>
NoLimit == 1000000

Init == /\ now = 0 /\ ist = [x \in Items |-> "new"] /\ due = [x \in Items |-> 0]
        /\ pend = [t \in Threads |-> NoCall] /\ handle = {}
        /\ runTh = [x \in Items |-> 0] /\ startT = [x \in Items |-> 0] /\ starts = [x \in Items |-> 0]
        /\ per = [x \in Items |-> 0] /\ stopped = {} /\ limit = [x \in Items |-> NoLimit] /\ calls = 0

IsSched(op) == op \in {"imm", "rel", "abs", "per"}
Picked(x)   == ist[x] \in {"committed", "running", "done"}

Call(th, op, x, d) ==
    /\ pend[th] = NoCall
    /\ pend' = [pend EXCEPT ![th] = [op |-> op, item |-> x, d |-> d, t0 |-> now, lin |-> FALSE, res |-> "-"]]
    /\ calls' = calls + 1
    /\ UNCHANGED <<now, ist, due, handle, runTh, startT, starts, per, stopped, limit>>

\* the due time the statement speaks of: relative to the clock when the call was made, or absolute
DueOf(p) == CASE p.op = "imm" -> p.t0
              [] p.op = "rel" -> p.t0 + (IF p.d > 0 THEN p.d ELSE 0)
              [] p.op = "abs" -> p.d
              [] p.op = "per" -> p.t0 + p.d          \* schedule_periodic(period): the first run is due one period after the call

LinSched(th) ==
    /\ IsSched(pend[th].op) /\ ~pend[th].lin
    /\ pend' = [pend EXCEPT ![th].lin = TRUE, ![th].res = "ok"]
    /\ ist' = [ist EXCEPT ![pend[th].item] = "pending"]
    /\ due' = [due EXCEPT ![pend[th].item] = DueOf(pend[th])]
    /\ per' = [per EXCEPT ![pend[th].item] = IF pend[th].op = "per" THEN pend[th].d ELSE 0]
    /\ UNCHANGED <<now, handle, runTh, startT, starts, stopped, limit, calls>>

\* dispose of the returned disposable: a pending (run of an) item is removed; a periodic item gets no further run
LinCancel(th) ==
    /\ pend[th].op = "cancel" /\ ~pend[th].lin
    /\ pend' = [pend EXCEPT ![th].lin = TRUE, ![th].res = "ok"]
    /\ ist' = [ist EXCEPT ![pend[th].item] = IF @ = "pending" THEN "cancelled" ELSE @]
    /\ stopped' = stopped \cup {pend[th].item}
    /\ UNCHANGED <<now, due, handle, runTh, startT, starts, per, limit, calls>>

Lin(th) == LinSched(th) \/ LinCancel(th)

Ret(th) ==
    /\ pend[th].lin
    /\ pend' = [pend EXCEPT ![th] = NoCall]
    /\ handle' = IF IsSched(pend[th].op) THEN handle \cup {pend[th].item} ELSE handle
    \* history: once a cancel has returned, the item starts at most as often as it already has (one more if it is committed)
    /\ limit' = IF pend[th].op = "cancel" /\ limit[pend[th].item] = NoLimit
                 THEN [limit EXCEPT ![pend[th].item] = starts[pend[th].item] + (IF ist[pend[th].item] = "committed" THEN 1 ELSE 0)]
                 ELSE limit
    /\ UNCHANGED <<now, ist, due, runTh, startT, starts, per, stopped, calls>>

\* the executing thread's last look at the cancellation flag
Commit(x) ==
    /\ ist[x] = "pending" /\ now >= due[x]
    /\ ist' = [ist EXCEPT ![x] = "committed"]
    /\ UNCHANGED <<now, due, pend, handle, runTh, startT, starts, per, stopped, limit, calls>>

Start(th, x) ==
    /\ ist[x] = "committed"
    /\ ist' = [ist EXCEPT ![x] = "running"]
    /\ runTh' = [runTh EXCEPT ![x] = th] /\ startT' = [startT EXCEPT ![x] = now]
    /\ starts' = [starts EXCEPT ![x] = @ + 1]
    /\ UNCHANGED <<now, due, pend, handle, per, stopped, limit, calls>>

\* a one-shot item is done; a periodic item that was not cancelled is pending again, due one period after the START of this run
\* (both periodic implementations correct for the time the run took; a run that overran its period makes the next one due at once)
End(th, x) ==
    /\ ist[x] = "running" /\ runTh[x] = th
    /\ IF per[x] > 0 /\ x \notin stopped
       THEN ist' = [ist EXCEPT ![x] = "pending"] /\ due' = [due EXCEPT ![x] = startT[x] + per[x]]
       ELSE ist' = [ist EXCEPT ![x] = "done"] /\ UNCHANGED due
    /\ UNCHANGED <<now, pend, handle, runTh, startT, starts, per, stopped, limit, calls>>

Tick == /\ now < MaxT /\ now' = now + 1
        /\ UNCHANGED <<ist, due, pend, handle, runTh, startT, starts, per, stopped, limit, calls>>

(* ---- generator ------------------------------------------------------------------------------------------ *)
Fresh == {x \in Items : ist[x] = "new" /\ \A t \in Threads : pend[t].item # x}
NextFresh == IF Fresh = {} THEN {} ELSE {CHOOSE x \in Fresh : \A y \in Fresh : x <= y}

GenCall(th) ==
    /\ calls < MaxCalls /\ th \in Clients
    /\ \/ \E x \in NextFresh : Call(th, "imm", x, 0)
       \/ \E x \in NextFresh : \E d \in RelD : Call(th, "rel", x, d)
       \/ \E x \in NextFresh : \E t \in AbsT : Call(th, "abs", x, t)
       \/ \E x \in NextFresh : \E d \in RelD : d > 0 /\ Call(th, "per", x, d)
       \/ \E x \in handle : /\ \A t \in Threads : ~(pend[t].op = "cancel" /\ pend[t].item = x)
                            /\ Call(th, "cancel", x, 0)

Next == \/ \E th \in Threads : GenCall(th) \/ Lin(th) \/ Ret(th)
        \/ \E x \in Items : Commit(x) \/ \E w \in Workers : Start(w, x) \/ End(w, x)
        \/ Tick

(* ---- the property, declaratively --------------------------------------------------------------------------- *)
TypeOK == now \in 0..MaxT /\ \A x \in Items : ist[x] \in {"new", "pending", "cancelled", "committed", "running", "done"}
\* every run starts no earlier than its due time (for a periodic item: one period after the start of the previous run)
NotEarly == \A x \in Items : ist[x] = "running" => startT[x] >= due[x]
\* once a cancel has returned no further run starts; a cancel that returned before the due time means no run at all
\* (Commit needs now >= due, so the item was still pending when the cancel linearized)
CancelledBeforeDueNeverRuns == \A x \in Items : starts[x] <= limit[x]
AtMostOnce == \A x \in Items : per[x] = 0 => starts[x] <= 1
Quiet == \A t \in Threads : pend[t] = NoCall
================================================================================
