------------------------------ MODULE TimerSched ------------------------------
(* L0: the thread-per-action real-time schedulers as ONE abstract object (C34):
       TimeoutScheduler (a threading.Timer per action), NewThreadScheduler (a one-shot event loop per
       action), ThreadPoolScheduler (the same on pool threads); EventLoopScheduler traces are also judged
       by this weaker object in C34 (its full object is EventLoop.tla, C31).
   C34: an action never starts before its due time (relative or absolute, on the scheduler clock) and an
   action whose disposable was disposed before its due time never starts.

   Linearizability style:  Call(th) -> silent Lin(th) -> Ret(th)  for schedule / schedule_relative /
   schedule_absolute / cancel, and for the executing side a silent Commit(x) - the scheduler's last look at
   the cancellation flag (Timer.finished, ScheduledItem.is_cancelled) - followed by Start / End.
   Commit(x) needs now >= due[x]: a cancel that RETURNED before the due time has linearized before any
   possible Commit and is therefore effective; a cancel at or after the due time races the timer thread
   and may lose (the statement says "disposed before its due time").
   No order, no seriality, no thread identity: the statement gives none for these schedulers.

   The guards are the property; NotEarly / CancelledBeforeDueNeverRuns / AtMostOnce restate it over history
   variables and TLC checks the agreement on every interleaving of the generator.
   (ImmediateScheduler - synchronous, WouldBlockException for a positive delay - is ImmediateSched.tla.) *)
EXTENDS Integers, Sequences, FiniteSets, TLC

CONSTANTS Threads,     \* every thread id that may call the API or run an action
          Clients,     \* generator: the threads that make calls
          Workers,     \* generator: the threads that run actions
          Items, MaxT, MaxCalls, RelD, AbsT

NoCall == [op |-> "none", item |-> 0, d |-> 0, t0 |-> 0, lin |-> FALSE, res |-> "-"]

VARIABLES now, ist,    \* item -> "new" | "pending" | "cancelled" | "committed" | "running" | "done"
          due, pend, handle,
          runTh, startT, starts,   \* history: who started it, when, how often
          early,                   \* items a cancel of which returned strictly before the due time
          calls

vars == <<now, ist, due, pend, handle, runTh, startT, starts, early, calls>>

Init == /\ now = 0 /\ ist = [x \in Items |-> "new"] /\ due = [x \in Items |-> 0]
        /\ pend = [t \in Threads |-> NoCall] /\ handle = {}
        /\ runTh = [x \in Items |-> 0] /\ startT = [x \in Items |-> 0] /\ starts = [x \in Items |-> 0]
        /\ early = {} /\ calls = 0

IsSched(op) == op \in {"imm", "rel", "abs"}
Picked(x)   == ist[x] \in {"committed", "running", "done"}

Call(th, op, x, d) ==
    /\ pend[th] = NoCall
    /\ pend' = [pend EXCEPT ![th] = [op |-> op, item |-> x, d |-> d, t0 |-> now, lin |-> FALSE, res |-> "-"]]
    /\ calls' = calls + 1
    /\ UNCHANGED <<now, ist, due, handle, runTh, startT, starts, early>>

\* the due time the statement speaks of: relative to the clock when the call was made, or absolute
DueOf(p) == CASE p.op = "imm" -> p.t0
              [] p.op = "rel" -> p.t0 + (IF p.d > 0 THEN p.d ELSE 0)
              [] p.op = "abs" -> p.d

LinSched(th) ==
    /\ IsSched(pend[th].op) /\ ~pend[th].lin
    /\ pend' = [pend EXCEPT ![th].lin = TRUE, ![th].res = "ok"]
    /\ ist' = [ist EXCEPT ![pend[th].item] = "pending"]
    /\ due' = [due EXCEPT ![pend[th].item] = DueOf(pend[th])]
    /\ UNCHANGED <<now, handle, runTh, startT, starts, early, calls>>

LinCancel(th) ==
    /\ pend[th].op = "cancel" /\ ~pend[th].lin
    /\ pend' = [pend EXCEPT ![th].lin = TRUE, ![th].res = "ok"]
    /\ ist' = [ist EXCEPT ![pend[th].item] = IF @ = "pending" THEN "cancelled" ELSE @]
    /\ UNCHANGED <<now, due, handle, runTh, startT, starts, early, calls>>

Lin(th) == LinSched(th) \/ LinCancel(th)

Ret(th) ==
    /\ pend[th].lin
    /\ pend' = [pend EXCEPT ![th] = NoCall]
    /\ handle' = IF IsSched(pend[th].op) THEN handle \cup {pend[th].item} ELSE handle
    /\ early' = IF pend[th].op = "cancel" /\ now < due[pend[th].item] THEN early \cup {pend[th].item} ELSE early
    /\ UNCHANGED <<now, ist, due, runTh, startT, starts, calls>>

\* the executing thread's last look at the cancellation flag
Commit(x) ==
    /\ ist[x] = "pending" /\ now >= due[x]
    /\ ist' = [ist EXCEPT ![x] = "committed"]
    /\ UNCHANGED <<now, due, pend, handle, runTh, startT, starts, early, calls>>

Start(th, x) ==
    /\ ist[x] = "committed"
    /\ ist' = [ist EXCEPT ![x] = "running"]
    /\ runTh' = [runTh EXCEPT ![x] = th] /\ startT' = [startT EXCEPT ![x] = now]
    /\ starts' = [starts EXCEPT ![x] = @ + 1]
    /\ UNCHANGED <<now, due, pend, handle, early, calls>>

End(th, x) ==
    /\ ist[x] = "running" /\ runTh[x] = th
    /\ ist' = [ist EXCEPT ![x] = "done"]
    /\ UNCHANGED <<now, due, pend, handle, runTh, startT, starts, early, calls>>

Tick == /\ now < MaxT /\ now' = now + 1
        /\ UNCHANGED <<ist, due, pend, handle, runTh, startT, starts, early, calls>>

(* ---- generator ------------------------------------------------------------------------------------------ *)
Fresh == {x \in Items : ist[x] = "new" /\ \A t \in Threads : pend[t].item # x}
NextFresh == IF Fresh = {} THEN {} ELSE {CHOOSE x \in Fresh : \A y \in Fresh : x <= y}

GenCall(th) ==
    /\ calls < MaxCalls /\ th \in Clients
    /\ \/ \E x \in NextFresh : Call(th, "imm", x, 0)
       \/ \E x \in NextFresh : \E d \in RelD : Call(th, "rel", x, d)
       \/ \E x \in NextFresh : \E t \in AbsT : Call(th, "abs", x, t)
       \/ \E x \in handle : /\ \A t \in Threads : ~(pend[t].op = "cancel" /\ pend[t].item = x)
                            /\ Call(th, "cancel", x, 0)

Next == \/ \E th \in Threads : GenCall(th) \/ Lin(th) \/ Ret(th)
        \/ \E x \in Items : Commit(x) \/ \E w \in Workers : Start(w, x) \/ End(w, x)
        \/ Tick

(* ---- the property, declaratively --------------------------------------------------------------------------- *)
TypeOK == now \in 0..MaxT /\ \A x \in Items : ist[x] \in {"new", "pending", "cancelled", "committed", "running", "done"}
NotEarly == \A x \in Items : starts[x] > 0 => startT[x] >= due[x]
CancelledBeforeDueNeverRuns == \A x \in early : ~Picked(x) /\ starts[x] = 0
AtMostOnce == \A x \in Items : starts[x] <= 1
Quiet == \A t \in Threads : pend[t] = NoCall
================================================================================
