------------------------------ MODULE OpsWindow ------------------------------
(* L3, runner "RunHO" for operators that EMIT observables: windows (C18).
   window_with_count / window_with_time / window_with_time_or_count / window(boundaries) /
   window_when(closing selector) / window_toggle(openings, closing mapper) and, in the same run,
   the corresponding buffer_* operator (buffer = list of the contents of a window, emitted when
   the window completes).

   Virtual time is integer ticks; the subscription instant is 0.  The agenda has LANES
   (DESIGN 3.2): the source subscription, the boundary/openings subscription ("aux"), and one
   lane per pending timer / closing observable.  Order inside a lane is fixed; lanes whose heads
   are due at the same instant fire in ANY order (a tie the property does not resolve), so a
   scenario may have several allowed observations.  The operator, its parameters and all
   timelines are chosen in Init; one step fires one lane head.

   Emitted windows are ids (hand-out order); the observation is, per id, the opening instant and
   the timed stream seen by a subscriber that subscribes at hand-out, plus the outer terminal
   and the buffer stream.

   Every operator is stated twice: the event handlers below (implementation-shaped transducer
   with a `live` list) and reference predicates Ref* over the finished observation (interval /
   index arithmetic the property states).  A logical clock (3 ticks per fired event: before /
   at / after the delivery of the element) lets DeliveredOK say "each element is delivered to
   exactly the windows open when it arrives" independently of `live`.                       *)
EXTENDS Integers, Sequences, FiniteSets, TLC, Json

CONSTANTS Ops,      \* subset of {"count","time","toc","bound","when","toggle"}
          MaxLen,   \* source elements 0..MaxLen
          CountLen, \* ... 0..CountLen for "count" (whose rule does not look at instants: element j arrives
                    \*     at instant min(j, MaxT), so longer sources are affordable)
          MaxT,     \* source / aux events at instants 1..MaxT
          H,        \* horizon: every lane event due at or before H is fired (MaxT <= H)
          MaxAux,   \* boundary / opening events 0..MaxAux
          Terms,    \* subset of {"C","E","U"}   (U: the source does not terminate before H)
          Counts, Spans, Shifts, Durs,   \* parameter ranges (positive integers)
          CKinds,   \* first notification of a closing observable: subset of {"N","C","E"}
          AuxTerms, \* terminal of the boundary / openings lane: subset of {"U","E"}
          ZeroDur,  \* TRUE: window_when's closing observables may also notify SYNCHRONOUSLY, inside subscribe (duration
                    \*       0: BehaviorSubject, create()-based ...): the window closes at the instant it opened, before
                    \*       anything else, and the next one opens; never two such windows in a row
          Faults,   \* TRUE: the closing mapper may raise at its k-th call (C09 dimension)
          Disposes, \* TRUE: the subscriber may dispose the result and every window subscription half a tick
                    \*       after instant dsp \in 0..MaxT (C03 dimension)
          OuterOps  \* families for which (with Disposes) the subscriber may also dispose ONLY the subscription to the
                    \*       sequence of windows (dmode = "outer": take(1) on the windows, ...) and keep its window
                    \*       subscriptions: no further window is handed out and the result is silent, but every window
                    \*       handed out before goes on exactly as its rule dictates (elements, closing instant / count,
                    \*       source terminal); the source is released when the last of them has ended

INF == H + 1
Min2(x, y) == IF x <= y THEN x ELSE y
Max2(x, y) == IF x >= y THEN x ELSE y
MinOf(X) == CHOOSE m \in X : \A y \in X : m <= y

NDSeqs(n) == {s \in [1..n -> 1..MaxT] : \A j \in 1..(n - 1) : s[j] <= s[j + 1]}
LastT(s)  == IF Len(s) = 0 THEN 1 ELSE s[Len(s)]
TermsOf(s, TT) == {[k |-> kk, t |-> tt] : kk \in TT \ {"U"}, tt \in LastT(s)..MaxT}
                  \cup (IF "U" \in TT THEN {[k |-> "U", t |-> INF]} ELSE {})

VARIABLES op, par, src, term, aux, auxterm, dsp, dmode,  \* the scenario (dsp = INF: the subscriber never disposes)
          lazy, abandon,                              \* free choices of the model (not part of the scenario)
          i, a, now, step,                            \* agenda position, clock, fired events
          S,                                          \* operator state + observation (a record)
          arr                                         \* ghost: logical arrival instant of each delivered element
vars == <<op, par, src, term, aux, auxterm, dsp, dmode, lazy, abandon, i, a, now, step, S, arr>>

(* ---- parameters ------------------------------------------------------------------------- *)
FaultCalls(n) == IF Faults THEN 0..n ELSE {0}
ParamsOf(o, ax) ==
  CASE o = "count"  -> [count : Counts, skip : Counts]
    [] o = "time"   -> [span : Spans, shift : Shifts]
    [] o = "toc"    -> [span : Spans, count : Counts]
    [] o = "bound"  -> {[z |-> 0]}
    [] o = "when"   -> {p \in [durs : UNION {[1..n -> Durs \cup (IF ZeroDur THEN {0} ELSE {})] : n \in 1..2}, ck : CKinds,
                                fr : FaultCalls(2)] : /\ (Len(p.durs) = 1 => p.durs[1] # 0)
                                                     /\ ~(Len(p.durs) = 2 /\ p.durs[1] = 0 /\ p.durs[2] = 0)}
    [] o = "toggle" -> [durs : [1..Len(ax) -> Durs], ck : CKinds, fr : FaultCalls(Len(ax))]

\* duration of the closing observable created for window w (window_when: cyclic pattern)
DurWhen(w) == par.durs[((w - 1) % Len(par.durs)) + 1]

(* ---- observation helpers --------------------------------------------------------------- *)
Ev(t, k, v, e) == [t |-> t, k |-> k, v |-> v, e |-> e]
NewWin(t, lt)  == [open |-> t, os |-> lt, cs |-> 0, why |-> "", out |-> <<>>]
Items(out) == LET ns == SelectSeq(out, LAMBDA x : x.k = "N") IN [q \in 1..Len(ns) |-> ns[q].v]
InLive(Z, w) == \E n \in 1..Len(Z.live) : Z.live[n] = w
\* buffer_with_count never emits an empty buffer (list-partition semantics; see notes)
EmitBuf(items) == ~(op = "count" /\ Len(items) = 0)

Open(Z, t, lt) == [Z EXCEPT !.wins = Append(Z.wins, NewWin(t, lt)), !.live = Append(Z.live, Len(Z.wins) + 1)]

Deliver(Z, v, t) ==
  [Z EXCEPT !.wins = [w \in 1..Len(Z.wins) |->
       IF InLive(Z, w) THEN [Z.wins[w] EXCEPT !.out = Append(@, Ev(t, "N", v, ""))] ELSE Z.wins[w]]]

\* window w completes because its own rule says so
Close(Z, w, t, lt) ==
  LET W == Z.wins[w] IN
  [Z EXCEPT !.wins[w] = [W EXCEPT !.out = Append(W.out, Ev(t, "C", 0, "")), !.cs = lt, !.why = "rule"],
            !.live = SelectSeq(Z.live, LAMBDA x : x # w),
            !.timers = {x \in Z.timers : x.id # w},
            !.bufs = IF EmitBuf(Items(W.out)) THEN Append(Z.bufs, [t |-> t, items |-> Items(W.out)]) ELSE Z.bufs]

\* everything ends: the source's terminal (why = "src") or a failure of a closing / boundary
\* observable or of the closing mapper (why = "fail"); open windows end in opening order
EndAll(Z, k, e, why, t, lt) ==
  LET ws == Z.live
      bs == [n \in 1..Len(ws) |-> [t |-> t, items |-> Items(Z.wins[ws[n]].out)]] IN
  [Z EXCEPT !.wins = [w \in 1..Len(Z.wins) |->
                 IF InLive(Z, w) THEN [Z.wins[w] EXCEPT !.out = Append(@, Ev(t, k, 0, e)), !.cs = lt, !.why = why]
                 ELSE Z.wins[w]],
            !.live = <<>>, !.timers = {},
            !.bufs = IF k = "C" THEN Z.bufs \o SelectSeq(bs, LAMBDA b : EmitBuf(b.items)) ELSE Z.bufs,
            !.outer = Append(Z.outer, Ev(t, k, 0, e)),
            !.done = TRUE]

\* A failure that is not the source's: a closing / boundary / openings observable errors, or the
\* closing mapper raises (C09).  The result errors at that instant.  C18 does not say what the
\* windows still open see: they either get the error too, or are abandoned (nothing more, ever).
AbandonAll(Z, e, t, lt) ==
  [Z EXCEPT !.wins = [w \in 1..Len(Z.wins) |->
                 IF InLive(Z, w) THEN [Z.wins[w] EXCEPT !.cs = lt, !.why = "abandon"] ELSE Z.wins[w]],
            !.live = <<>>, !.timers = {},
            !.outer = Append(Z.outer, Ev(t, "E", 0, e)),
            !.done = TRUE]
Fail(Z, e, t, lt) == IF abandon THEN AbandonAll(Z, e, t, lt) ELSE EndAll(Z, "E", e, "fail", t, lt)
\* the closing mapper raises when called: the call is a reaction hop at the same instant (own lane)
FailHop(w, t) == [id |-> w, due |-> t, fail |-> TRUE]
Tm(w, due) == [id |-> w, due |-> due, fail |-> FALSE]

(* ---- the transducers ---------------------------------------------------------------------- *)
\* window_when: a window was just opened (the last one); the closing mapper is called for it and its result
\* subscribed.  A closing observable with duration 0 notifies inside that subscribe call: the window is closed on
\* the spot, the next one opened and the mapper called again (its duration is not 0).
ArmWhen(Z, t) == LET w == Len(Z.wins)  Zc == [Z EXCEPT !.calls = Z.calls + 1] IN
                 [Zc EXCEPT !.timers = {IF par.fr = Zc.calls THEN FailHop(w, t) ELSE Tm(w, t + DurWhen(w))}]
StartWhen(Z, t, lt) ==
  LET w == Len(Z.wins) IN
  IF par.fr = Z.calls + 1 \/ DurWhen(w) > 0 THEN ArmWhen(Z, t)
  ELSE IF par.ck = "E" THEN Fail([Z EXCEPT !.calls = Z.calls + 1], "close", t, lt)
  ELSE ArmWhen(Open(Close([Z EXCEPT !.calls = Z.calls + 1], w, t, lt), t, lt), t)

NextTimeDue(no, nc) == Min2(no * par.shift, nc * par.shift + par.span)

S0 == [wins |-> <<>>, live |-> <<>>, timers |-> {}, c |-> 0, no |-> 1, nc |-> 0, calls |-> 0,
       outer |-> <<>>, bufs |-> <<>>, done |-> FALSE, disp |-> FALSE,
       odisp |-> FALSE, vis |-> 0]      \* odisp: only the outer subscription was disposed; windows 1..vis were handed out before

\* at the subscription instant
InitS ==
  LET Z1 == Open(S0, 0, 0) IN
  CASE op = "toggle" -> S0
    [] op = "time"   -> [Z1 EXCEPT !.timers = {Tm(0, NextTimeDue(1, 0))}]
    [] op = "toc"    -> [Z1 EXCEPT !.timers = {Tm(1, par.span)}]
    [] op = "when"   -> StartWhen(Z1, 0, 1)
    [] OTHER         -> Z1

\* source element v arrives at instant t; n = number of this event (logical instants 3n, 3n+1, 3n+2)
OnNext(Z, v, t, n) ==
  CASE op = "count" ->
         (LET c  == Z.c
              Z1 == IF lazy /\ c > 0 /\ c % par.skip = 0 THEN Open(Z, t, 3 * n) ELSE Z
              Z2 == Deliver(Z1, v, t)
              Z3 == IF c + 1 >= par.count /\ (c + 1 - par.count) % par.skip = 0
                    THEN Close(Z2, Head(Z2.live), t, 3 * n + 2) ELSE Z2
              Z4 == IF ~lazy /\ (c + 1) % par.skip = 0 THEN Open(Z3, t, 3 * n + 2) ELSE Z3 IN
          [Z4 EXCEPT !.c = c + 1])
    [] op = "toc" ->
         (LET Z1 == Deliver(Z, v, t) IN
          IF Z.c + 1 = par.count
          THEN LET Z2 == Open(Close(Z1, Head(Z1.live), t, 3 * n + 2), t, 3 * n + 2) IN
               [Z2 EXCEPT !.c = 0, !.timers = {Tm(Len(Z2.wins), t + par.span)}]
          ELSE [Z1 EXCEPT !.c = Z.c + 1])
    [] OTHER -> Deliver(Z, v, t)

\* a boundary (j-th) / an opening (j-th) arrives
OnAux(Z, j, t, n) ==
  CASE op = "bound" -> Open(Close(Z, Head(Z.live), t, 3 * n), t, 3 * n)
    [] op = "toggle" ->
         (LET Z1 == Open(Z, t, 3 * n)  w == Len(Z1.wins) IN
          [Z1 EXCEPT !.timers = Z.timers \cup {IF par.fr = j THEN FailHop(w, t) ELSE Tm(w, t + par.durs[j])}])
    [] OTHER -> Z

\* a timer / the first notification of a closing observable fires
OnTimer(Z, x, t, n) ==
  IF x.fail THEN Fail(Z, "fn", t, 3 * n) ELSE
  CASE op = "time" ->
         (LET Z1 == IF Z.no * par.shift = t THEN Open(Z, t, 3 * n) ELSE Z
              Z2 == IF Z.nc * par.shift + par.span = t THEN Close(Z1, Z.nc + 1, t, 3 * n) ELSE Z1
              no2 == IF Z.no * par.shift = t THEN Z.no + 1 ELSE Z.no
              nc2 == IF Z.nc * par.shift + par.span = t THEN Z.nc + 1 ELSE Z.nc IN
          [Z2 EXCEPT !.no = no2, !.nc = nc2, !.timers = {Tm(0, NextTimeDue(no2, nc2))}])
    [] op = "toc" ->
         (LET Z2 == Open(Close(Z, Head(Z.live), t, 3 * n), t, 3 * n) IN
          [Z2 EXCEPT !.c = 0, !.timers = {Tm(Len(Z2.wins), t + par.span)}])
    [] op = "when" ->
         IF par.ck = "E" THEN Fail(Z, "close", t, 3 * n)
         ELSE StartWhen(Open(Close(Z, x.id, t, 3 * n), t, 3 * n), t, 3 * n)
    [] op = "toggle" ->
         IF par.ck = "E" THEN Fail(Z, "close", t, 3 * n) ELSE Close(Z, x.id, t, 3 * n)
    [] OTHER -> Z

(* ---- the runner --------------------------------------------------------------------------- *)
Init == /\ op \in Ops
        /\ src \in (IF op = "count" THEN {[j \in 1..n |-> Min2(j, MaxT)] : n \in 0..CountLen}
                    ELSE UNION {NDSeqs(n) : n \in 0..MaxLen})
        /\ term \in TermsOf(src, Terms)
        /\ aux \in (IF op \in {"bound", "toggle"} THEN UNION {NDSeqs(n) : n \in 0..MaxAux} ELSE {<<>>})
        /\ auxterm \in (IF op \in {"bound", "toggle"} THEN TermsOf(aux, AuxTerms) ELSE {[k |-> "U", t |-> INF]})
        /\ par \in ParamsOf(op, aux)
        /\ dsp \in (IF Disposes THEN 0..MaxT ELSE {}) \cup {INF}
        /\ dmode \in (IF dsp # INF /\ op \in OuterOps THEN {"all", "outer"} ELSE {"all"})
        /\ lazy \in (IF op = "count" THEN BOOLEAN ELSE {FALSE})
        /\ abandon \in (IF auxterm.k = "E" \/ (op \in {"when", "toggle"} /\ (par.fr # 0 \/ par.ck = "E")) THEN BOOLEAN ELSE {FALSE})
        /\ i = 1 /\ a = 1 /\ now = 0 /\ step = 0 /\ arr = <<>>
        /\ S = InitS

SrcDue == IF i <= Len(src) THEN src[i] ELSE IF i = Len(src) + 1 THEN term.t ELSE INF
AuxDue == IF a <= Len(aux) THEN aux[a] ELSE IF a = Len(aux) + 1 THEN auxterm.t ELSE INF
MinDue == MinOf({SrcDue, AuxDue} \cup {x.due : x \in S.timers})
\* after an outer-only dispose: is one of the windows the subscriber holds still open ?
HeldLive(Z) == \E n \in 1..Len(Z.live) : Z.live[n] <= Z.vis
\* ... if none is, the last reference is gone and the source is released: nothing more can be observed
Final  == S.done \/ MinDue > H \/ (S.odisp /\ ~HeldLive(S))

\* the subscriber disposes everything after the events of instant dsp: nothing due later is delivered
\* ... or only the subscription to the sequence of windows: the operator itself goes on (timers included) for the
\* windows the subscriber holds
CanFire == ~Final /\ (MinDue <= dsp \/ S.odisp)
Dispose == /\ ~Final /\ dsp < MinDue /\ ~S.odisp
           /\ S' = IF dmode = "all" THEN [S EXCEPT !.done = TRUE, !.disp = TRUE, !.timers = {}]
                    ELSE [S EXCEPT !.odisp = TRUE, !.vis = Len(S.wins)]
           /\ step' = step + 1
           /\ UNCHANGED <<op, par, src, term, aux, auxterm, dsp, dmode, lazy, abandon, i, a, now, arr>>

FireSrc == /\ CanFire /\ SrcDue = MinDue
           /\ now' = MinDue /\ step' = step + 1 /\ i' = i + 1
           /\ IF i <= Len(src)
              THEN /\ S' = OnNext(S, i - 1, MinDue, step + 1)
                   /\ arr' = Append(arr, 3 * (step + 1) + 1)
              ELSE /\ S' = EndAll(S, term.k, IF term.k = "E" THEN "src" ELSE "", "src", MinDue, 3 * (step + 1))
                   /\ arr' = arr
           /\ UNCHANGED <<op, par, src, term, aux, auxterm, dsp, dmode, lazy, abandon, a>>

FireAux == /\ CanFire /\ AuxDue = MinDue
           /\ now' = MinDue /\ step' = step + 1 /\ a' = a + 1
           /\ IF a <= Len(aux) THEN S' = OnAux(S, a, MinDue, step + 1)
              ELSE S' = Fail(S, "aux", MinDue, 3 * (step + 1))   \* the aux lane fails
           /\ UNCHANGED <<op, par, src, term, aux, auxterm, dsp, dmode, lazy, abandon, i, arr>>

FireTimer == /\ CanFire
             /\ \E x \in S.timers :
                  /\ x.due = MinDue
                  /\ S' = OnTimer(S, x, MinDue, step + 1)
             /\ now' = MinDue /\ step' = step + 1
             /\ UNCHANGED <<op, par, src, term, aux, auxterm, dsp, dmode, lazy, abandon, i, a, arr>>

Next == FireSrc \/ FireAux \/ FireTimer \/ Dispose
Spec == Init /\ [][Next]_vars

(* ---- properties of the model (INVARIANTs of the design/export run) ----------------------- *)
NW == Len(S.wins)
ItemsOf(w) == Items(S.wins[w].out)
LastEv(w)  == S.wins[w].out[Len(S.wins[w].out)]
Has(its, v) == \E q \in 1..Len(its) : its[q] = v
SrcTerminated == i > Len(src) + 1

\* per window: elements, then at most one terminal; instants non-decreasing and not before the opening
WinGrammar == \A w \in 1..NW : LET o == S.wins[w].out IN
                /\ \A q \in 1..Len(o) : (o[q].k # "N" => q = Len(o)) /\ o[q].t >= S.wins[w].open
                /\ \A q \in 1..(Len(o) - 1) : o[q].t <= o[q + 1].t
                /\ (S.wins[w].cs # 0 /\ S.wins[w].why # "abandon") <=> (Len(o) > 0 /\ LastEv(w).k # "N")
                /\ (S.wins[w].cs = 0) <=> InLive(S, w)

\* C18: every source element is delivered to exactly the windows open when it arrives, in arrival order
DeliveredOK == \A w \in 1..NW : LET W == S.wins[w]  its == ItemsOf(w) IN
                 /\ \A j \in 1..Len(arr) : Has(its, j - 1) <=> (W.os < arr[j] /\ (W.cs = 0 \/ arr[j] < W.cs))
                 /\ \A q \in 1..(Len(its) - 1) : its[q] < its[q + 1]

\* C18: all open windows end with the source's terminal kind (at its instant), and so does the result
TermOK == /\ (S.done /\ ~S.disp) => (S.live = <<>> /\ S.timers = {} /\ Len(S.outer) = 1 /\ \A w \in 1..NW : S.wins[w].why # "")
          /\ ~S.done => S.outer = <<>>
          /\ \A w \in 1..NW :
               /\ S.wins[w].why = "src"  => (SrcTerminated /\ LastEv(w).k = term.k /\ LastEv(w).t = term.t)
               /\ S.wins[w].why = "rule" => LastEv(w).k = "C"
               /\ S.wins[w].why = "fail" => (LastEv(w).k = "E" /\ ~abandon)
               /\ S.wins[w].why = "abandon" => (abandon /\ S.outer[1].k = "E")
          /\ SrcTerminated => (S.done /\ S.outer[1].k = term.k /\ S.outer[1].t = term.t)

\* C18: window k holds exactly elements k*skip .. k*skip+count-1
RefCount == op = "count" =>
   LET n == Len(arr) IN
   /\ NW = (IF lazy THEN Max2(1, (n + par.skip - 1) \div par.skip) ELSE n \div par.skip + 1)
   /\ \A w \in 1..NW :
        LET m == Max2(0, Min2(par.count, n - (w - 1) * par.skip)) IN
        /\ ItemsOf(w) = [q \in 1..m |-> (w - 1) * par.skip + q - 1]
        /\ (m = par.count) <=> (S.wins[w].why = "rule")

\* time windows: window k is open during [k*shift, k*shift+span]; an element strictly inside is in
\* it, one outside is not, one exactly on an end may go either way (tie)
RefTime == op = "time" =>
   /\ \A w \in 1..NW : LET W == S.wins[w]  o == (w - 1) * par.shift IN
        /\ W.open = o
        /\ \A j \in 1..Len(arr) : /\ (src[j] > o /\ src[j] < o + par.span) => Has(ItemsOf(w), j - 1)
                                  /\ Has(ItemsOf(w), j - 1) => (src[j] >= o /\ src[j] <= o + par.span)
        /\ W.why = "rule" => LastEv(w).t = o + par.span
        /\ (o + par.span < now /\ ~S.done) => W.why = "rule"
   /\ \A k \in 0..H : (k * par.shift < now /\ ~S.done) => NW >= k + 1
   /\ NW >= 1 /\ (NW - 1) * par.shift <= now

\* windows that follow one another without gap or overlap partition the source
Consecutive == op \in {"toc", "bound", "when"} \/ (op = "count" /\ par.skip = par.count /\ ~lazy)
Cat[w \in 0..NW] == IF w = 0 THEN <<>> ELSE Cat[w - 1] \o ItemsOf(w)
Partition == Consecutive =>
   /\ Cat[NW] = [q \in 1..Len(arr) |-> q - 1]
   /\ \A w \in 2..NW : S.wins[w - 1].why = "rule" /\ S.wins[w].open = LastEv(w - 1).t
   /\ Len(S.live) = (IF S.done /\ ~S.disp THEN 0 ELSE 1)

RefToc == op = "toc" => \A w \in 1..NW : LET W == S.wins[w]  n == Len(ItemsOf(w)) IN
   /\ W.why = "rule" => \/ (n = par.count /\ LastEv(w).t <= W.open + par.span)
                        \/ (n < par.count /\ LastEv(w).t = W.open + par.span)
   /\ W.cs = 0 => (n < par.count /\ now <= W.open + par.span)

RefBound == op = "bound" =>
   /\ NW = Min2(a, Len(aux) + 1)
   /\ \A w \in 2..NW : S.wins[w].open = aux[w - 1]

RefWhen == op = "when" => \A w \in 1..NW : LET W == S.wins[w] IN
   /\ W.why = "rule" => LastEv(w).t = W.open + DurWhen(w)
   /\ W.cs = 0 => now <= W.open + DurWhen(w)

RefToggle == op = "toggle" =>
   /\ NW = Min2(a - 1, Len(aux))
   /\ \A w \in 1..NW : LET W == S.wins[w] IN
        /\ W.open = aux[w]
        /\ W.why = "rule" => LastEv(w).t = W.open + par.durs[w]
        /\ W.cs = 0 => now <= W.open + par.durs[w]

\* each buffer equals the contents of its window, emitted when the window completes
CountSeq(s, x) == Cardinality({q \in 1..Len(s) : s[q] = x})
WB == LET all == [w \in 1..NW |-> [t |-> IF Len(S.wins[w].out) = 0 THEN 0 ELSE LastEv(w).t, items |-> ItemsOf(w),
                                   c |-> (S.wins[w].cs # 0 /\ Len(S.wins[w].out) > 0 /\ LastEv(w).k = "C")]]
          sel == SelectSeq(all, LAMBDA b : b.c /\ EmitBuf(b.items)) IN
      [q \in 1..Len(sel) |-> [t |-> sel[q].t, items |-> sel[q].items]]
BufOK == /\ Len(WB) = Len(S.bufs)
         /\ \A q \in 1..Len(S.bufs) : CountSeq(WB, S.bufs[q]) = CountSeq(S.bufs, S.bufs[q])
         /\ \A q \in 1..(Len(S.bufs) - 1) : S.bufs[q].t <= S.bufs[q + 1].t

\* C03 flavour: nothing is handed out or delivered after the dispose instant
SilentOK == /\ S.disp => (dsp # INF /\ now <= dsp)
            /\ ~S.odisp => /\ \A w \in 1..NW : S.wins[w].open <= dsp /\ \A q \in 1..Len(S.wins[w].out) : S.wins[w].out[q].t <= dsp
                           /\ \A q \in 1..Len(S.outer) : S.outer[q].t <= dsp
            \* outer-only dispose: the windows handed out are exactly those opened up to dsp; the result itself is silent
            /\ S.odisp => /\ dmode = "outer" /\ ~S.disp
                          /\ \A w \in 1..NW : (w <= S.vis) <=> (S.wins[w].open <= dsp)
                          /\ \A q \in 1..Len(S.outer) : S.outer[q].t > dsp

\* C18 under an outer-only dispose: a window the subscriber holds is not affected by it - it gets every element that
\* arrives while it is open (DeliveredOK quantifies over all windows, held ones included) and it is still closed by
\* its rule: a timed window (time, time-or-count, closing observable) never stays open beyond its closing instant
HeldOK == S.odisp => \A w \in 1..S.vis : LET W == S.wins[w] IN
   /\ (op = "toc"  /\ W.cs = 0) => (now <= W.open + par.span /\ Len(ItemsOf(w)) < par.count)
   /\ (op = "time" /\ W.cs = 0) => now <= W.open + par.span
   /\ (op = "when" /\ W.cs = 0) => now <= W.open + DurWhen(w)
   /\ (op = "toggle" /\ W.cs = 0) => now <= W.open + par.durs[w]
   /\ (W.cs # 0 /\ W.why = "rule" /\ op \in {"toc", "time"}) => LastEv(w).t <= W.open + par.span
\* windows the subscriber can see, and the instant by which the source subscription must be closed after an
\* outer-only dispose (Neg1: not within the horizon, or the source ended by itself)
NVis == IF S.odisp THEN S.vis ELSE NW
Neg1 == 0 - 1
Unsub == IF S.odisp /\ ~S.done /\ ~HeldLive(S) THEN (IF now > dsp THEN now ELSE dsp) ELSE Neg1

(* ---- export -------------------------------------------------------------------------------- *)
Export == Final => PrintT(ToJson(
   [scn |-> [op |-> op, par |-> par, src |-> src, term |-> term, aux |-> aux, auxterm |-> auxterm, dsp |-> dsp,
             dmode |-> dmode],
    obs |-> [wins |-> [w \in 1..NVis |-> [open |-> S.wins[w].open, out |-> S.wins[w].out]],
             outer |-> IF S.odisp THEN <<>> ELSE S.outer, bufs |-> S.bufs, disp |-> S.disp, odisp |-> S.odisp,
             unsub |-> Unsub]]))
================================================================================
