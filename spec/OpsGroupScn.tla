----------------------------- MODULE OpsGroupScn -----------------------------
(* OpsGroup.tla with the scenarios read from a JSON file instead of being enumerated by Init
   (instances whose Init set is too large to enumerate; thorough tier).                       *)
EXTENDS OpsGroup, IOUtils

Scns == JsonDeserialize(IOEnv.SCN_FILE)

\* functions arrive from JSON as records keyed by the stringified argument: table "f" as a function on Vals
Tab(r) == [v \in Vals |-> r[ToString(v)]]
Norm(o, p) ==
  CASE o = "group_by" -> [kf |-> Tab(p.kf), em |-> p.em, ef |-> Tab(p.ef)]
    [] o = "group_by_until" -> [kf |-> Tab(p.kf), em |-> p.em, ef |-> Tab(p.ef), durs |-> p.durs, dk |-> p.dk, fr |-> p.fr, dn |-> p.dn]
    [] OTHER -> [p |-> Tab(p.p)]

ScnOK(sc) == /\ sc.op \in Ops
             /\ Len(sc.src) <= (IF sc.op = "group_by_until" THEN MaxLen ELSE LongLen)
             /\ \A j \in 1..Len(sc.src) : sc.src[j].t \in 1..MaxT /\ sc.src[j].v \in Vals
             /\ \A j \in 1..(Len(sc.src) - 1) : sc.src[j].t <= sc.src[j + 1].t
             /\ sc.term \in TermsOf(sc.src)
             /\ sc.dsp \in (IF Disposes THEN 0..MaxT ELSE {}) \cup {INF}
             /\ sc.dmode \in {"all"} \cup (IF sc.dsp # INF /\ OuterOnly /\ sc.op \in {"group_by", "group_by_until"} THEN {"outer"} ELSE {})
             /\ sc.rx.g \in RxG /\ sc.rx.v \in Vals /\ (sc.rx.g # 0 => (sc.op = "group_by_until" /\ sc.par.dn = 0))
             /\ LET p == Norm(sc.op, sc.par) IN
                CASE sc.op \in {"partition", "partition_indexed"} -> \A v \in Vals : p.p[v] \in 0..2
                  [] OTHER -> /\ \A v \in Vals : p.kf[v] \in Keys \cup {RAISE} /\ p.ef[v] \in Vals \cup {RAISE}
                              /\ (~p.em => p.ef = IdTab)
\* (the file is parsed every time Scns is evaluated: bind it once with LET)
ASSUME LET all == Scns IN \A n \in 1..Len(all) : ScnOK(all[n])

InitFrom == /\ LET all == Scns IN \E n \in 1..Len(all) : LET sc == all[n] IN
                 /\ op = sc.op /\ par = Norm(sc.op, sc.par) /\ src = sc.src /\ term = sc.term /\ dsp = sc.dsp /\ dmode = sc.dmode /\ rx = sc.rx
            /\ abandon \in (IF HasFault THEN BOOLEAN ELSE {FALSE})
            /\ i = 1 /\ now = 0 /\ step = 0 /\ arr = <<>> /\ seen = <<>>
            /\ S = InitS
=============================================================================
