------------------------- MODULE ScheduledObserverImpl -------------------------
(* C32, design model at LOCK GRANULARITY of the handshake as reactivex/observer/scheduledobserver.py and
   observeonobserver.py implement it (PlusCal, translated with pcal -nocfg; the translation is committed):

     producer   Observer.on_*        : ignored after a terminal (is_stopped)
                _on_*_core           : self.queue.append(action)            - unlocked, atomic (label pa)
                ensure_active        : with self.lock: if not has_faulted and queue: is_owner = not is_acquired;
                                                       is_acquired = True     (labels pl, pe)
                                       if is_owner: scheduler.schedule(self.run)               (label ps)
     scheduler  run                  : with self.lock: if queue: work = queue.pop(0)
                                                       else: is_acquired = False; return        (labels dl, dc)
                                       work()   - the downstream callback                       (labels dw, de)
                                       on exception: with self.lock: queue = []; has_faulted = True; re-raise (df, dg)
                                       else: scheduler.schedule(self.run)                       (label dr)

   The scheduler is abstracted to a counter of scheduled run() items (`runs`) executed by the threads in Drains:
   one thread = an event loop (LoopDies: an exception escaping run() kills the loop thread), two = a pool that may
   run scheduled items concurrently - then only the is_acquired handshake keeps deliveries serial.
   History variables received / ndeliv / inDel / faulted are those of the abstract object (ScheduledObserver.tla);
   the invariants below are the guards of its DeliverStart and Idle actions, checked over ALL interleavings.
   A mismatch between recorded executions and THIS model would be model drift, never a violation.            *)
EXTENDS Integers, Sequences, FiniteSets, TLC

CONSTANTS MaxNotes,   \* the producer makes at most MaxNotes calls
          Drains,     \* scheduler threads, e.g. {1} or {1, 2}
          LoopDies,   \* TRUE: an exception escaping run() ends the (single) loop thread
          Bug         \* "none" = the code as pinned; "keep_acquired" = negative control: run() returns on an empty
                      \* queue WITHOUT resetting is_acquired (the design check must then fail NothingLeftBehind)

Terminal == {"E", "C"}
P == 100
Scripts == UNION {[1..n -> {"N", "E", "C"}] : n \in 0..MaxNotes}

(* --algorithm SOImpl {
  variables script \in Scripts,            \* what the producer calls: script[i] is the kind of call i
            poison \in 0..MaxNotes,        \* the delivery of call `poison` raises (0: none does)
            queue = <<>>, acquired = FALSE, hasFaulted = FALSE, obsStopped = FALSE,
            lock = 0, runs = 0, loopDead = FALSE,
            received = <<>>, ndeliv = 0, inDel = {}, faulted = FALSE;

  fair process (Prod = 100)
    variables i = 1, isOwner = FALSE;
  {
   p0: while (i <= Len(script)) {
         if (~obsStopped) {
           if (script[i] \in Terminal) { obsStopped := TRUE };
   pa:     queue := Append(queue, i); received := Append(received, i);
   pl:     await lock = 0; lock := 100;
   pe:     if (~hasFaulted /\ queue # <<>>) { isOwner := ~acquired; acquired := TRUE } else { isOwner := FALSE };
           lock := 0;
   ps:     if (isOwner) { runs := runs + 1 };
         };
   pi:   i := i + 1;
       }
  }

  fair process (Drain \in Drains)
    variables work = 0, raised = FALSE;
  {
   d0: while (TRUE) {
         await runs > 0 /\ ~loopDead;
         runs := runs - 1;
   dl:   await lock = 0; lock := self;
   dc:   if (queue # <<>>) { work := Head(queue); queue := Tail(queue); lock := 0 }
         else { if (Bug # "keep_acquired") { acquired := FALSE }; lock := 0; goto d0 };
   dw:   inDel := inDel \cup {work};
   de:   raised := (work = poison);
         inDel := inDel \ {work}; ndeliv := ndeliv + 1; faulted := raised;
         if (raised) {
   df:     await lock = 0; lock := self;
   dg:     queue := <<>>; hasFaulted := TRUE; lock := 0;
           if (LoopDies) { loopDead := TRUE };
         } else {
   dr:     runs := runs + 1;
         }
       }
  }
} *)
 

\* BEGIN TRANSLATION
VARIABLES pc, script, poison, queue, acquired, hasFaulted, obsStopped, lock, 
          runs, loopDead, received, ndeliv, inDel, faulted, i, isOwner, work, 
          raised

vars == << pc, script, poison, queue, acquired, hasFaulted, obsStopped, lock, 
           runs, loopDead, received, ndeliv, inDel, faulted, i, isOwner, work, 
           raised >>

ProcSet == {100} \cup (Drains)

Init == (* Global variables *)
        /\ script \in Scripts
        /\ poison \in 0..MaxNotes
        /\ queue = <<>>
        /\ acquired = FALSE
        /\ hasFaulted = FALSE
        /\ obsStopped = FALSE
        /\ lock = 0
        /\ runs = 0
        /\ loopDead = FALSE
        /\ received = <<>>
        /\ ndeliv = 0
        /\ inDel = {}
        /\ faulted = FALSE
        (* Process Prod *)
        /\ i = 1
        /\ isOwner = FALSE
        (* Process Drain *)
        /\ work = [self \in Drains |-> 0]
        /\ raised = [self \in Drains |-> FALSE]
        /\ pc = [self \in ProcSet |-> CASE self = 100 -> "p0"
                                        [] self \in Drains -> "d0"]

p0 == /\ pc[100] = "p0"
      /\ IF i <= Len(script)
            THEN /\ IF ~obsStopped
                       THEN /\ IF script[i] \in Terminal
                                  THEN /\ obsStopped' = TRUE
                                  ELSE /\ TRUE
                                       /\ UNCHANGED obsStopped
                            /\ pc' = [pc EXCEPT ![100] = "pa"]
                       ELSE /\ pc' = [pc EXCEPT ![100] = "pi"]
                            /\ UNCHANGED obsStopped
            ELSE /\ pc' = [pc EXCEPT ![100] = "Done"]
                 /\ UNCHANGED obsStopped
      /\ UNCHANGED << script, poison, queue, acquired, hasFaulted, lock, runs, 
                      loopDead, received, ndeliv, inDel, faulted, i, isOwner, 
                      work, raised >>

pi == /\ pc[100] = "pi"
      /\ i' = i + 1
      /\ pc' = [pc EXCEPT ![100] = "p0"]
      /\ UNCHANGED << script, poison, queue, acquired, hasFaulted, obsStopped, 
                      lock, runs, loopDead, received, ndeliv, inDel, faulted, 
                      isOwner, work, raised >>

pa == /\ pc[100] = "pa"
      /\ queue' = Append(queue, i)
      /\ received' = Append(received, i)
      /\ pc' = [pc EXCEPT ![100] = "pl"]
      /\ UNCHANGED << script, poison, acquired, hasFaulted, obsStopped, lock, 
                      runs, loopDead, ndeliv, inDel, faulted, i, isOwner, work, 
                      raised >>

pl == /\ pc[100] = "pl"
      /\ lock = 0
      /\ lock' = 100
      /\ pc' = [pc EXCEPT ![100] = "pe"]
      /\ UNCHANGED << script, poison, queue, acquired, hasFaulted, obsStopped, 
                      runs, loopDead, received, ndeliv, inDel, faulted, i, 
                      isOwner, work, raised >>

pe == /\ pc[100] = "pe"
      /\ IF ~hasFaulted /\ queue # <<>>
            THEN /\ isOwner' = ~acquired
                 /\ acquired' = TRUE
            ELSE /\ isOwner' = FALSE
                 /\ UNCHANGED acquired
      /\ lock' = 0
      /\ pc' = [pc EXCEPT ![100] = "ps"]
      /\ UNCHANGED << script, poison, queue, hasFaulted, obsStopped, runs, 
                      loopDead, received, ndeliv, inDel, faulted, i, work, 
                      raised >>

ps == /\ pc[100] = "ps"
      /\ IF isOwner
            THEN /\ runs' = runs + 1
            ELSE /\ TRUE
                 /\ runs' = runs
      /\ pc' = [pc EXCEPT ![100] = "pi"]
      /\ UNCHANGED << script, poison, queue, acquired, hasFaulted, obsStopped, 
                      lock, loopDead, received, ndeliv, inDel, faulted, i, 
                      isOwner, work, raised >>

Prod == p0 \/ pi \/ pa \/ pl \/ pe \/ ps

d0(self) == /\ pc[self] = "d0"
            /\ runs > 0 /\ ~loopDead
            /\ runs' = runs - 1
            /\ pc' = [pc EXCEPT ![self] = "dl"]
            /\ UNCHANGED << script, poison, queue, acquired, hasFaulted, 
                            obsStopped, lock, loopDead, received, ndeliv, 
                            inDel, faulted, i, isOwner, work, raised >>

dl(self) == /\ pc[self] = "dl"
            /\ lock = 0
            /\ lock' = self
            /\ pc' = [pc EXCEPT ![self] = "dc"]
            /\ UNCHANGED << script, poison, queue, acquired, hasFaulted, 
                            obsStopped, runs, loopDead, received, ndeliv, 
                            inDel, faulted, i, isOwner, work, raised >>

dc(self) == /\ pc[self] = "dc"
            /\ IF queue # <<>>
                  THEN /\ work' = [work EXCEPT ![self] = Head(queue)]
                       /\ queue' = Tail(queue)
                       /\ lock' = 0
                       /\ pc' = [pc EXCEPT ![self] = "dw"]
                       /\ UNCHANGED acquired
                  ELSE /\ IF Bug # "keep_acquired"
                             THEN /\ acquired' = FALSE
                             ELSE /\ TRUE
                                  /\ UNCHANGED acquired
                       /\ lock' = 0
                       /\ pc' = [pc EXCEPT ![self] = "d0"]
                       /\ UNCHANGED << queue, work >>
            /\ UNCHANGED << script, poison, hasFaulted, obsStopped, runs, 
                            loopDead, received, ndeliv, inDel, faulted, i, 
                            isOwner, raised >>

dw(self) == /\ pc[self] = "dw"
            /\ inDel' = (inDel \cup {work[self]})
            /\ pc' = [pc EXCEPT ![self] = "de"]
            /\ UNCHANGED << script, poison, queue, acquired, hasFaulted, 
                            obsStopped, lock, runs, loopDead, received, ndeliv, 
                            faulted, i, isOwner, work, raised >>

de(self) == /\ pc[self] = "de"
            /\ raised' = [raised EXCEPT ![self] = (work[self] = poison)]
            /\ inDel' = inDel \ {work[self]}
            /\ ndeliv' = ndeliv + 1
            /\ faulted' = raised'[self]
            /\ IF raised'[self]
                  THEN /\ pc' = [pc EXCEPT ![self] = "df"]
                  ELSE /\ pc' = [pc EXCEPT ![self] = "dr"]
            /\ UNCHANGED << script, poison, queue, acquired, hasFaulted, 
                            obsStopped, lock, runs, loopDead, received, i, 
                            isOwner, work >>

df(self) == /\ pc[self] = "df"
            /\ lock = 0
            /\ lock' = self
            /\ pc' = [pc EXCEPT ![self] = "dg"]
            /\ UNCHANGED << script, poison, queue, acquired, hasFaulted, 
                            obsStopped, runs, loopDead, received, ndeliv, 
                            inDel, faulted, i, isOwner, work, raised >>

dg(self) == /\ pc[self] = "dg"
            /\ queue' = <<>>
            /\ hasFaulted' = TRUE
            /\ lock' = 0
            /\ IF LoopDies
                  THEN /\ loopDead' = TRUE
                  ELSE /\ TRUE
                       /\ UNCHANGED loopDead
            /\ pc' = [pc EXCEPT ![self] = "d0"]
            /\ UNCHANGED << script, poison, acquired, obsStopped, runs, 
                            received, ndeliv, inDel, faulted, i, isOwner, work, 
                            raised >>

dr(self) == /\ pc[self] = "dr"
            /\ runs' = runs + 1
            /\ pc' = [pc EXCEPT ![self] = "d0"]
            /\ UNCHANGED << script, poison, queue, acquired, hasFaulted, 
                            obsStopped, lock, loopDead, received, ndeliv, 
                            inDel, faulted, i, isOwner, work, raised >>

Drain(self) == d0(self) \/ dl(self) \/ dc(self) \/ dw(self) \/ de(self)
                  \/ df(self) \/ dg(self) \/ dr(self)

Next == Prod
           \/ (\E self \in Drains: Drain(self))

Spec == /\ Init /\ [][Next]_vars
        /\ WF_vars(Prod)
        /\ \A self \in Drains : WF_vars(Drain(self))

\* END TRANSLATION

(* ---- the guards of the abstract object's DeliverStart / Idle, as invariants of the implementation model ---- *)
Delivering == {d \in Drains : pc[d] \in {"dw", "de"}}
\* never two deliveries at once
Serial == Cardinality(Delivering) <= 1 /\ Cardinality(inDel) <= 1
\* a delivery that is about to start delivers the next undelivered notification, and none starts after a fault
OrderOK == \A d \in Drains : pc[d] = "dw" => /\ ~faulted /\ inDel = {}
                                              /\ ndeliv < Len(received) /\ work[d] = received[ndeliv + 1]
\* the scheduler has nothing to do and the producer is not inside a call: nothing received is left behind
SchedulerIdle == (runs = 0 \/ loopDead) /\ \A d \in Drains : pc[d] = "d0"
ProducerOutside == pc[P] \in {"p0", "pi", "Done"}
NothingLeftBehind == (SchedulerIdle /\ ProducerOutside) => (faulted \/ ndeliv = Len(received))
\* at most one run() item is scheduled or executing at any time (what makes a pool safe)
OneRunner == runs + Cardinality({d \in Drains : pc[d] # "d0"}) <= 1
\* the lock is a mutex
LockOK == \A p \in ProcSet : pc[p] \in {"pe", "dc", "dg"} => lock = p
\* every notification received is eventually delivered unless a delivery raised (fair scheduling of every process)
EventuallyDelivered == <>[](faulted \/ ndeliv = Len(received))
\* negative controls (must be VIOLATED): a fault happens; two notifications wait in the queue at once
NeverFaulted == ~faulted
NeverTwoQueued == Len(queue) < 2
================================================================================
