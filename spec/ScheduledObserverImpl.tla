------------------------- MODULE ScheduledObserverImpl -------------------------
(* C32, design model at LOCK GRANULARITY of the handshake as reactivex/observer/scheduledobserver.py and
   observeonobserver.py implement it (PlusCal, translated with pcal -nocfg; the translation is committed):

     subscriber (optional, Subs) ReplaySubject._subscribe_core: the replay was queued under the subject's lock (initial
                                       queue), then ensure_active() - a SECOND caller racing the producer's (st, sl, se, ss)
     producer   Observer.on_*        : ignored after a terminal (is_stopped)
                _on_*_core           : self.queue.append(action)            - unlocked, atomic (label pa)
                ensure_active        : with self.lock: if not has_faulted and queue: is_owner = not is_acquired;
                                                       is_acquired = True     (labels pl, pe)
                                       if is_owner: scheduler.schedule(self.run)               (label ps)
     scheduler  run                  : with self.lock: if queue: work = queue.pop(0)
                                                       else: is_acquired = False; return        (labels dl, dc)
                                       work()   - the downstream callback                       (labels dw, de)
                                       on exception: with self.lock: queue = []; has_faulted = True; re-raise (df, dg)
                                       else: scheduler.schedule(self.run)                       (label dr)

   The scheduler is abstracted to a counter of scheduled run() items (`runs`) executed by the threads in Drains:
   one thread = an event loop (LoopDies: an exception escaping run() kills the loop thread), two = a pool that may
   run scheduled items concurrently - then only the is_acquired handshake keeps deliveries serial.
   History variables received / ndeliv / inDel / faulted are those of the abstract object (ScheduledObserver.tla);
   the invariants below are the guards of its DeliverStart and Idle actions, checked over ALL interleavings.
   A mismatch between recorded executions and THIS model would be model drift, never a violation.            *)
EXTENDS Integers, Sequences, FiniteSets, TLC

CONSTANTS MaxNotes,   \* the producer makes at most MaxNotes calls
          Drains,     \* scheduler threads, e.g. {1} or {1, 2}
          LoopDies,   \* TRUE: an exception escaping run() ends the (single) loop thread
          Bug,        \* "none" = the code as pinned; negative controls: "keep_acquired" = run() returns on an empty queue
                      \* WITHOUT resetting is_acquired (must fail NothingLeftBehind); "unlocked_test" = ensure_active tests
                      \* is_acquired / has_faulted BEFORE taking the lock and sets is_acquired unconditionally inside it
                      \* (must fail OneRunner / Serial as soon as there are two callers and two scheduler threads)
          Subs,       \* {} or {200}: a second caller of ensure_active - the tail call of ReplaySubject._subscribe_core on the
                      \* subscribing thread, made outside the subject's lock after the replay was queued
          Replay      \* number of buffered elements that subscriber's replay put into the queue (ids 101, 102, ...)

Terminal == {"E", "C"}
P == 100
Scripts == UNION {[1..n -> {"N", "E", "C"}] : n \in 0..MaxNotes}

(* --algorithm SOImpl {
  variables script \in Scripts,            \* what the producer calls: script[i] is the kind of call i
            poison \in 0..MaxNotes,        \* the delivery of call `poison` raises (0: none does)
            queue = IF Subs = {} THEN <<>> ELSE [j \in 1..Replay |-> 100 + j],
            acquired = FALSE, hasFaulted = FALSE, obsStopped = FALSE,
            lock = 0, runs = 0, loopDead = FALSE,
            received = IF Subs = {} THEN <<>> ELSE [j \in 1..Replay |-> 100 + j],
            ndeliv = 0, inDel = {}, faulted = FALSE;

  fair process (Prod = 100)
    variables i = 1, isOwner = FALSE;
  {
   p0: while (i <= Len(script)) {
         if (~obsStopped) {
           if (script[i] \in Terminal) { obsStopped := TRUE };
   pa:     queue := Append(queue, i); received := Append(received, i);
   pt:     if (Bug = "unlocked_test" /\ (acquired \/ hasFaulted)) { goto pi };
   pl:     await lock = 0; lock := 100;
   pe:     if (Bug = "unlocked_test") {
             if (queue # <<>>) { isOwner := TRUE; acquired := TRUE } else { isOwner := FALSE }
           } else {
             if (~hasFaulted /\ queue # <<>>) { isOwner := ~acquired; acquired := TRUE } else { isOwner := FALSE }
           };
           lock := 0;
   ps:     if (isOwner) { runs := runs + 1 };
         };
   pi:   i := i + 1;
       }
  }

  fair process (Sub \in Subs)
    variables sOwner = FALSE;
  {
   st: if (Bug = "unlocked_test" /\ (acquired \/ hasFaulted)) { goto sd };
   sl: await lock = 0; lock := self;
   se: if (Bug = "unlocked_test") {
         if (queue # <<>>) { sOwner := TRUE; acquired := TRUE } else { sOwner := FALSE }
       } else {
         if (~hasFaulted /\ queue # <<>>) { sOwner := ~acquired; acquired := TRUE } else { sOwner := FALSE }
       };
       lock := 0;
   ss: if (sOwner) { runs := runs + 1 };
   sd: skip;
  }

  fair process (Drain \in Drains)
    variables work = 0, raised = FALSE;
  {
   d0: while (TRUE) {
         await runs > 0 /\ ~loopDead;
         runs := runs - 1;
   dl:   await lock = 0; lock := self;
   dc:   if (queue # <<>>) { work := Head(queue); queue := Tail(queue); lock := 0 }
         else { if (Bug # "keep_acquired") { acquired := FALSE }; lock := 0; goto d0 };
   dw:   inDel := inDel \cup {work};
   de:   raised := (work = poison);
         inDel := inDel \ {work}; ndeliv := ndeliv + 1; faulted := raised;
         if (raised) {
   df:     await lock = 0; lock := self;
   dg:     queue := <<>>; hasFaulted := TRUE; lock := 0;
           if (LoopDies) { loopDead := TRUE };
         } else {
   dr:     runs := runs + 1;
         }
       }
  }
} *)
 

\* BEGIN TRANSLATION
VARIABLES pc, script, poison, queue, acquired, hasFaulted, obsStopped, lock, 
          runs, loopDead, received, ndeliv, inDel, faulted, i, isOwner, 
          sOwner, work, raised

vars == << pc, script, poison, queue, acquired, hasFaulted, obsStopped, lock, 
           runs, loopDead, received, ndeliv, inDel, faulted, i, isOwner, 
           sOwner, work, raised >>

ProcSet == {100} \cup (Subs) \cup (Drains)

Init == (* Global variables *)
        /\ script \in Scripts
        /\ poison \in 0..MaxNotes
        /\ queue = (IF Subs = {} THEN <<>> ELSE [j \in 1..Replay |-> 100 + j])
        /\ acquired = FALSE
        /\ hasFaulted = FALSE
        /\ obsStopped = FALSE
        /\ lock = 0
        /\ runs = 0
        /\ loopDead = FALSE
        /\ received = (IF Subs = {} THEN <<>> ELSE [j \in 1..Replay |-> 100 + j])
        /\ ndeliv = 0
        /\ inDel = {}
        /\ faulted = FALSE
        (* Process Prod *)
        /\ i = 1
        /\ isOwner = FALSE
        (* Process Sub *)
        /\ sOwner = [self \in Subs |-> FALSE]
        (* Process Drain *)
        /\ work = [self \in Drains |-> 0]
        /\ raised = [self \in Drains |-> FALSE]
        /\ pc = [self \in ProcSet |-> CASE self = 100 -> "p0"
                                        [] self \in Subs -> "st"
                                        [] self \in Drains -> "d0"]

p0 == /\ pc[100] = "p0"
      /\ IF i <= Len(script)
            THEN /\ IF ~obsStopped
                       THEN /\ IF script[i] \in Terminal
                                  THEN /\ obsStopped' = TRUE
                                  ELSE /\ TRUE
                                       /\ UNCHANGED obsStopped
                            /\ pc' = [pc EXCEPT ![100] = "pa"]
                       ELSE /\ pc' = [pc EXCEPT ![100] = "pi"]
                            /\ UNCHANGED obsStopped
            ELSE /\ pc' = [pc EXCEPT ![100] = "Done"]
                 /\ UNCHANGED obsStopped
      /\ UNCHANGED << script, poison, queue, acquired, hasFaulted, lock, runs, 
                      loopDead, received, ndeliv, inDel, faulted, i, isOwner, 
                      sOwner, work, raised >>

pi == /\ pc[100] = "pi"
      /\ i' = i + 1
      /\ pc' = [pc EXCEPT ![100] = "p0"]
      /\ UNCHANGED << script, poison, queue, acquired, hasFaulted, obsStopped, 
                      lock, runs, loopDead, received, ndeliv, inDel, faulted, 
                      isOwner, sOwner, work, raised >>

pa == /\ pc[100] = "pa"
      /\ queue' = Append(queue, i)
      /\ received' = Append(received, i)
      /\ pc' = [pc EXCEPT ![100] = "pt"]
      /\ UNCHANGED << script, poison, acquired, hasFaulted, obsStopped, lock, 
                      runs, loopDead, ndeliv, inDel, faulted, i, isOwner, 
                      sOwner, work, raised >>

pt == /\ pc[100] = "pt"
      /\ IF Bug = "unlocked_test" /\ (acquired \/ hasFaulted)
            THEN /\ pc' = [pc EXCEPT ![100] = "pi"]
            ELSE /\ pc' = [pc EXCEPT ![100] = "pl"]
      /\ UNCHANGED << script, poison, queue, acquired, hasFaulted, obsStopped, 
                      lock, runs, loopDead, received, ndeliv, inDel, faulted, 
                      i, isOwner, sOwner, work, raised >>

pl == /\ pc[100] = "pl"
      /\ lock = 0
      /\ lock' = 100
      /\ pc' = [pc EXCEPT ![100] = "pe"]
      /\ UNCHANGED << script, poison, queue, acquired, hasFaulted, obsStopped, 
                      runs, loopDead, received, ndeliv, inDel, faulted, i, 
                      isOwner, sOwner, work, raised >>

pe == /\ pc[100] = "pe"
      /\ IF Bug = "unlocked_test"
            THEN /\ IF queue # <<>>
                       THEN /\ isOwner' = TRUE
                            /\ acquired' = TRUE
                       ELSE /\ isOwner' = FALSE
                            /\ UNCHANGED acquired
            ELSE /\ IF ~hasFaulted /\ queue # <<>>
                       THEN /\ isOwner' = ~acquired
                            /\ acquired' = TRUE
                       ELSE /\ isOwner' = FALSE
                            /\ UNCHANGED acquired
      /\ lock' = 0
      /\ pc' = [pc EXCEPT ![100] = "ps"]
      /\ UNCHANGED << script, poison, queue, hasFaulted, obsStopped, runs, 
                      loopDead, received, ndeliv, inDel, faulted, i, sOwner, 
                      work, raised >>

ps == /\ pc[100] = "ps"
      /\ IF isOwner
            THEN /\ runs' = runs + 1
            ELSE /\ TRUE
                 /\ runs' = runs
      /\ pc' = [pc EXCEPT ![100] = "pi"]
      /\ UNCHANGED << script, poison, queue, acquired, hasFaulted, obsStopped, 
                      lock, loopDead, received, ndeliv, inDel, faulted, i, 
                      isOwner, sOwner, work, raised >>

Prod == p0 \/ pi \/ pa \/ pt \/ pl \/ pe \/ ps

st(self) == /\ pc[self] = "st"
            /\ IF Bug = "unlocked_test" /\ (acquired \/ hasFaulted)
                  THEN /\ pc' = [pc EXCEPT ![self] = "sd"]
                  ELSE /\ pc' = [pc EXCEPT ![self] = "sl"]
            /\ UNCHANGED << script, poison, queue, acquired, hasFaulted, 
                            obsStopped, lock, runs, loopDead, received, ndeliv, 
                            inDel, faulted, i, isOwner, sOwner, work, raised >>

sl(self) == /\ pc[self] = "sl"
            /\ lock = 0
            /\ lock' = self
            /\ pc' = [pc EXCEPT ![self] = "se"]
            /\ UNCHANGED << script, poison, queue, acquired, hasFaulted, 
                            obsStopped, runs, loopDead, received, ndeliv, 
                            inDel, faulted, i, isOwner, sOwner, work, raised >>

se(self) == /\ pc[self] = "se"
            /\ IF Bug = "unlocked_test"
                  THEN /\ IF queue # <<>>
                             THEN /\ sOwner' = [sOwner EXCEPT ![self] = TRUE]
                                  /\ acquired' = TRUE
                             ELSE /\ sOwner' = [sOwner EXCEPT ![self] = FALSE]
                                  /\ UNCHANGED acquired
                  ELSE /\ IF ~hasFaulted /\ queue # <<>>
                             THEN /\ sOwner' = [sOwner EXCEPT ![self] = ~acquired]
                                  /\ acquired' = TRUE
                             ELSE /\ sOwner' = [sOwner EXCEPT ![self] = FALSE]
                                  /\ UNCHANGED acquired
            /\ lock' = 0
            /\ pc' = [pc EXCEPT ![self] = "ss"]
            /\ UNCHANGED << script, poison, queue, hasFaulted, obsStopped, 
                            runs, loopDead, received, ndeliv, inDel, faulted, 
                            i, isOwner, work, raised >>

ss(self) == /\ pc[self] = "ss"
            /\ IF sOwner[self]
                  THEN /\ runs' = runs + 1
                  ELSE /\ TRUE
                       /\ runs' = runs
            /\ pc' = [pc EXCEPT ![self] = "sd"]
            /\ UNCHANGED << script, poison, queue, acquired, hasFaulted, 
                            obsStopped, lock, loopDead, received, ndeliv, 
                            inDel, faulted, i, isOwner, sOwner, work, raised >>

sd(self) == /\ pc[self] = "sd"
            /\ TRUE
            /\ pc' = [pc EXCEPT ![self] = "Done"]
            /\ UNCHANGED << script, poison, queue, acquired, hasFaulted, 
                            obsStopped, lock, runs, loopDead, received, ndeliv, 
                            inDel, faulted, i, isOwner, sOwner, work, raised >>

Sub(self) == st(self) \/ sl(self) \/ se(self) \/ ss(self) \/ sd(self)

d0(self) == /\ pc[self] = "d0"
            /\ runs > 0 /\ ~loopDead
            /\ runs' = runs - 1
            /\ pc' = [pc EXCEPT ![self] = "dl"]
            /\ UNCHANGED << script, poison, queue, acquired, hasFaulted, 
                            obsStopped, lock, loopDead, received, ndeliv, 
                            inDel, faulted, i, isOwner, sOwner, work, raised >>

dl(self) == /\ pc[self] = "dl"
            /\ lock = 0
            /\ lock' = self
            /\ pc' = [pc EXCEPT ![self] = "dc"]
            /\ UNCHANGED << script, poison, queue, acquired, hasFaulted, 
                            obsStopped, runs, loopDead, received, ndeliv, 
                            inDel, faulted, i, isOwner, sOwner, work, raised >>

dc(self) == /\ pc[self] = "dc"
            /\ IF queue # <<>>
                  THEN /\ work' = [work EXCEPT ![self] = Head(queue)]
                       /\ queue' = Tail(queue)
                       /\ lock' = 0
                       /\ pc' = [pc EXCEPT ![self] = "dw"]
                       /\ UNCHANGED acquired
                  ELSE /\ IF Bug # "keep_acquired"
                             THEN /\ acquired' = FALSE
                             ELSE /\ TRUE
                                  /\ UNCHANGED acquired
                       /\ lock' = 0
                       /\ pc' = [pc EXCEPT ![self] = "d0"]
                       /\ UNCHANGED << queue, work >>
            /\ UNCHANGED << script, poison, hasFaulted, obsStopped, runs, 
                            loopDead, received, ndeliv, inDel, faulted, i, 
                            isOwner, sOwner, raised >>

dw(self) == /\ pc[self] = "dw"
            /\ inDel' = (inDel \cup {work[self]})
            /\ pc' = [pc EXCEPT ![self] = "de"]
            /\ UNCHANGED << script, poison, queue, acquired, hasFaulted, 
                            obsStopped, lock, runs, loopDead, received, ndeliv, 
                            faulted, i, isOwner, sOwner, work, raised >>

de(self) == /\ pc[self] = "de"
            /\ raised' = [raised EXCEPT ![self] = (work[self] = poison)]
            /\ inDel' = inDel \ {work[self]}
            /\ ndeliv' = ndeliv + 1
            /\ faulted' = raised'[self]
            /\ IF raised'[self]
                  THEN /\ pc' = [pc EXCEPT ![self] = "df"]
                  ELSE /\ pc' = [pc EXCEPT ![self] = "dr"]
            /\ UNCHANGED << script, poison, queue, acquired, hasFaulted, 
                            obsStopped, lock, runs, loopDead, received, i, 
                            isOwner, sOwner, work >>

df(self) == /\ pc[self] = "df"
            /\ lock = 0
            /\ lock' = self
            /\ pc' = [pc EXCEPT ![self] = "dg"]
            /\ UNCHANGED << script, poison, queue, acquired, hasFaulted, 
                            obsStopped, runs, loopDead, received, ndeliv, 
                            inDel, faulted, i, isOwner, sOwner, work, raised >>

dg(self) == /\ pc[self] = "dg"
            /\ queue' = <<>>
            /\ hasFaulted' = TRUE
            /\ lock' = 0
            /\ IF LoopDies
                  THEN /\ loopDead' = TRUE
                  ELSE /\ TRUE
                       /\ UNCHANGED loopDead
            /\ pc' = [pc EXCEPT ![self] = "d0"]
            /\ UNCHANGED << script, poison, acquired, obsStopped, runs, 
                            received, ndeliv, inDel, faulted, i, isOwner, 
                            sOwner, work, raised >>

dr(self) == /\ pc[self] = "dr"
            /\ runs' = runs + 1
            /\ pc' = [pc EXCEPT ![self] = "d0"]
            /\ UNCHANGED << script, poison, queue, acquired, hasFaulted, 
                            obsStopped, lock, loopDead, received, ndeliv, 
                            inDel, faulted, i, isOwner, sOwner, work, raised >>

Drain(self) == d0(self) \/ dl(self) \/ dc(self) \/ dw(self) \/ de(self)
                  \/ df(self) \/ dg(self) \/ dr(self)

Next == Prod
           \/ (\E self \in Subs: Sub(self))
           \/ (\E self \in Drains: Drain(self))

Spec == /\ Init /\ [][Next]_vars
        /\ WF_vars(Prod)
        /\ \A self \in Subs : WF_vars(Sub(self))
        /\ \A self \in Drains : WF_vars(Drain(self))

\* END TRANSLATION

(* ---- the guards of the abstract object's DeliverStart / Idle, as invariants of the implementation model ---- *)
Delivering == {d \in Drains : pc[d] \in {"dw", "de"}}
\* never two deliveries at once
Serial == Cardinality(Delivering) <= 1 /\ Cardinality(inDel) <= 1
\* a delivery that is about to start delivers the next undelivered notification, and none starts after a fault
OrderOK == \A d \in Drains : pc[d] = "dw" => /\ ~faulted /\ inDel = {}
                                              /\ ndeliv < Len(received) /\ work[d] = received[ndeliv + 1]
\* the scheduler has nothing to do and the producer is not inside a call: nothing received is left behind
SchedulerIdle == (runs = 0 \/ loopDead) /\ \A d \in Drains : pc[d] = "d0"
ProducerOutside == pc[P] \in {"p0", "pi", "Done"} /\ \A sb \in Subs : pc[sb] = "Done"
NothingLeftBehind == (SchedulerIdle /\ ProducerOutside) => (faulted \/ ndeliv = Len(received))
\* at most one run() item is scheduled or executing at any time (what makes a pool safe)
OneRunner == runs + Cardinality({d \in Drains : pc[d] # "d0"}) <= 1
\* the lock is a mutex
LockOK == \A p \in ProcSet : pc[p] \in {"pe", "se", "dc", "dg"} => lock = p
\* every notification received is eventually delivered unless a delivery raised (fair scheduling of every process)
EventuallyDelivered == <>[](faulted \/ ndeliv = Len(received))
\* negative controls (must be VIOLATED): a fault happens; two notifications wait in the queue at once
NeverFaulted == ~faulted
NeverTwoQueued == Len(queue) < 2
================================================================================
