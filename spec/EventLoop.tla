------------------------------ MODULE EventLoop ------------------------------
(* L0: EventLoopScheduler as an abstract concurrent object (C31; instance for C34).

   Linearizability style, as Disposables.tla: an API call by thread th is
       Call(th, ..)  ->  a silent Lin step (at most one per call)  ->  Ret(th)
   and the dedicated loop thread w is described by
       TStart(w)  ->  { silent Commit(w, x)  ->  Start(w, x)  ->  End(w, x) }*  ->  silent ExitL(w)  ->  TExit(w)
   Commit(w, x) is the scheduler's decision point (DESIGN 3.3): the "is it cancelled?" test
   immediately before the action is invoked.  It is constrained to lie after the previous action
   ended and not before the due time; a cancel that linearizes after Commit may be ineffective, one
   whose Lin step came first removes the item for good.

   The guards of the actions ARE the property (C31): one loop thread at a time, actions serial,
   immediately-due items in submission (Lin) order, timed items not before their due time and in
   due order, cancelled-before-commit never runs, a schedule call that began after a dispose()
   returned is refused and its item never runs, exit_if_empty: the thread leaves only with nothing
   pending and a later schedule starts a new one.  The same property is stated a second time,
   declaratively, as state invariants over history variables (Serial, OneThread, Fifo, DueOrder,
   NotEarly, CancelledNeverRuns, NoRunAfterDisposeReturned, ThreadForPending); TLC checks
   that the two formulations agree on every interleaving of the generator below, and the same
   invariants are evaluated on every state of every validated trace of the real scheduler
   (EventLoopTrace.tla), and on the lock-granularity PlusCal model of run() (EventLoopImpl.tla).

   Classification (judgement call, notes/evloop.md): an item is IMMEDIATE when its due time is not
   after the clock at which it is submitted, i.e. at Lin(schedule) (schedule(), schedule_relative(d <= 0),
   schedule_absolute(t <= now)), TIMED otherwise.  In recorded traces the clock cannot move during a
   call (controlled clock), so this is also the clock of the call event.  Order: FIFO among immediate items,
   due order among timed items, and due order ACROSS the classes (see OrderOK); equal due times among
   timed items and across the classes are not constrained (the statement is silent).                 *)
EXTENDS Integers, Sequences, FiniteSets, TLC

CONSTANTS Clients,      \* client thread ids (1..9)
          Loops,        \* loop-thread ids (11..)
          Items,        \* item ids (1..); each is scheduled at most once
          ExitModes,    \* subset of BOOLEAN: values of exit_if_empty the generator tries
          MaxT,         \* generator: the clock runs 0..MaxT
          MaxCalls,     \* generator: total number of API calls
          RelD,         \* generator: delays offered to schedule_relative
          AbsT,         \* generator: due times offered to schedule_absolute
          InnerCalls    \* generator: TRUE = a running action may call the API too (on the loop thread)

None     == 0           \* no loop thread designated
Starting == 10          \* a loop thread was started by a schedule call and has not begun to run yet
Threads  == Clients \cup Loops
NoCall   == [op |-> "none", item |-> 0, d |-> 0, t0 |-> 0, lin |-> FALSE, res |-> "-", after |-> FALSE]

VARIABLES now,        \* the scheduler clock
          xie,        \* exit_if_empty
          ist,        \* item -> "new" | "pending" | "refused" | "cancelled" | "committed" | "running" | "done"
          due,        \* item -> due time
          imm,        \* item -> immediately due when scheduled
          eff,        \* item -> clock at which it was submitted (Lin(schedule))
          seq,        \* item -> stamp of Lin(schedule)        (0 = none)
          cseq,       \* item -> stamp of Commit               (0 = none)
          stamp,      \* common counter for seq and cseq
          loopT,      \* None | Starting | the designated loop thread
          alive,      \* loop threads between TStart and TExit
          ever,       \* loop threads ever started
          disposed,   \* Lin(dispose) happened
          dispRet,    \* some dispose() call has returned
          pend,       \* thread -> pending call
          handle,     \* items whose schedule call returned a disposable
          \* ---- history, for the declarative statement of the property
          runTh,      \* item -> thread that started it (0 = none)
          startT,     \* item -> clock at start
          gen,        \* item -> number of loop threads started so far when it ran
          early,      \* items some cancel of which RETURNED while the item was not committed
          late,       \* items whose schedule call began after a dispose() had returned
          calls

vars == <<now, xie, ist, due, imm, eff, seq, cseq, stamp, loopT, alive, ever, disposed, dispRet, pend, handle,
          runTh, startT, gen, early, late, calls>>

Init == /\ now = 0 /\ xie \in ExitModes
        /\ ist = [x \in Items |-> "new"] /\ due = [x \in Items |-> 0] /\ imm = [x \in Items |-> FALSE] /\ eff = [x \in Items |-> 0]
        /\ seq = [x \in Items |-> 0] /\ cseq = [x \in Items |-> 0] /\ stamp = 0
        /\ loopT = None /\ alive = {} /\ ever = {} /\ disposed = FALSE /\ dispRet = FALSE
        /\ pend = [t \in Threads |-> NoCall] /\ handle = {}
        /\ runTh = [x \in Items |-> 0] /\ startT = [x \in Items |-> 0] /\ gen = [x \in Items |-> 0]
        /\ early = {} /\ late = {} /\ calls = 0

IsSched(op) == op \in {"imm", "rel", "abs"}
Pending   == {x \in Items : ist[x] = "pending"}
Committed == {x \in Items : ist[x] = "committed"}
Running   == {x \in Items : ist[x] = "running"}
Picked(x) == ist[x] \in {"committed", "running", "done"}

(* ---- API calls ------------------------------------------------------------------------------- *)
Call(th, op, x, d) ==
    /\ pend[th] = NoCall
    /\ pend' = [pend EXCEPT ![th] = [op |-> op, item |-> x, d |-> d, t0 |-> now, lin |-> FALSE, res |-> "-", after |-> dispRet]]
    /\ late' = IF IsSched(op) /\ dispRet THEN late \cup {x} ELSE late
    /\ calls' = calls + 1
    /\ UNCHANGED <<now, xie, ist, due, imm, eff, seq, cseq, stamp, loopT, alive, ever, disposed, dispRet, handle,
                   runTh, startT, gen, early>>

DueOf(p) == CASE p.op = "imm" -> p.t0
              [] p.op = "rel" -> p.t0 + (IF p.d > 0 THEN p.d ELSE 0)
              [] p.op = "abs" -> p.d

\* schedule / schedule_relative / schedule_absolute
LinSched(th) ==
    /\ IsSched(pend[th].op) /\ ~pend[th].lin
    /\ LET p == pend[th]  x == pend[th].item IN
       \/ /\ disposed                            \* refused: DisposedException
          /\ pend' = [pend EXCEPT ![th].lin = TRUE, ![th].res = "disposed"]
          /\ ist' = [ist EXCEPT ![x] = "refused"]
          /\ UNCHANGED <<due, imm, eff, seq, stamp, loopT>>
       \/ /\ ~p.after                            \* accepted; never for a call that began after dispose() returned
          /\ pend' = [pend EXCEPT ![th].lin = TRUE, ![th].res = "ok"]
          /\ ist' = [ist EXCEPT ![x] = "pending"]
          /\ due' = [due EXCEPT ![x] = DueOf(p)]
          /\ eff' = [eff EXCEPT ![x] = now]
          /\ imm' = [imm EXCEPT ![x] = (DueOf(p) <= now)]       \* due when submitted (= at the call, see the header)
          /\ seq' = [seq EXCEPT ![x] = stamp + 1] /\ stamp' = stamp + 1
          /\ loopT' = IF loopT = None THEN Starting ELSE loopT      \* no thread: this call starts one
    /\ UNCHANGED <<now, xie, cseq, alive, ever, disposed, dispRet, handle, runTh, startT, gen, early, late, calls>>

\* dispose() of the disposable a schedule call returned
LinCancel(th) ==
    /\ pend[th].op = "cancel" /\ ~pend[th].lin
    /\ pend' = [pend EXCEPT ![th].lin = TRUE, ![th].res = "ok"]
    /\ ist' = [ist EXCEPT ![pend[th].item] = IF @ = "pending" THEN "cancelled" ELSE @]
    /\ UNCHANGED <<now, xie, due, imm, eff, seq, cseq, stamp, loopT, alive, ever, disposed, dispRet, handle,
                   runTh, startT, gen, early, late, calls>>

\* scheduler.dispose()
LinDispose(th) ==
    /\ pend[th].op = "dispose" /\ ~pend[th].lin
    /\ pend' = [pend EXCEPT ![th].lin = TRUE, ![th].res = "ok"]
    /\ disposed' = TRUE
    /\ UNCHANGED <<now, xie, ist, due, imm, eff, seq, cseq, stamp, loopT, alive, ever, dispRet, handle,
                   runTh, startT, gen, early, late, calls>>

Lin(th) == LinSched(th) \/ LinCancel(th) \/ LinDispose(th)

Ret(th) ==
    /\ pend[th].lin
    /\ pend' = [pend EXCEPT ![th] = NoCall]
    /\ dispRet' = (dispRet \/ pend[th].op = "dispose")
    /\ handle' = IF IsSched(pend[th].op) /\ pend[th].res = "ok" THEN handle \cup {pend[th].item} ELSE handle
    /\ early' = IF pend[th].op = "cancel" /\ ~Picked(pend[th].item) THEN early \cup {pend[th].item} ELSE early
    /\ UNCHANGED <<now, xie, ist, due, imm, eff, seq, cseq, stamp, loopT, alive, ever, disposed,
                   runTh, startT, gen, late, calls>>

(* ---- the loop thread -------------------------------------------------------------------------- *)
TStart(w) ==
    /\ loopT = Starting /\ w \notin ever
    /\ loopT' = w /\ alive' = alive \cup {w} /\ ever' = ever \cup {w}
    /\ UNCHANGED <<now, xie, ist, due, imm, eff, seq, cseq, stamp, disposed, dispRet, pend, handle,
                   runTh, startT, gen, early, late, calls>>

\* what the statement says about order: FIFO among immediate items, due order among timed ones, and - "timed actions
\* in due-time order" read across the two classes -
\*   a timed item y does not overtake an immediate item that was submitted (at clock eff) before y's due time,
\*   an immediate item x does not overtake a timed item that is due before x.
\* (An immediate item with a due time in the past - schedule_absolute(t < now) - is compared by its submission clock in the
\*  first rule: it may arrive after the loop has already picked up everything due; equal times across the classes are free.)
OrderOK(x) == IF imm[x] THEN /\ \A y \in Pending : imm[y] => seq[y] >= seq[x]
                             /\ \A y \in Pending : ~imm[y] => due[y] >= due[x]
                        ELSE /\ \A y \in Pending : ~imm[y] => due[y] >= due[x]
                             /\ \A y \in Pending : imm[y] => eff[y] >= due[x]

Commit(w, x) ==
    /\ loopT = w /\ w \in alive
    /\ Committed = {} /\ Running = {}          \* after the previous action ended
    /\ ist[x] = "pending"                      \* scheduled, not cancelled
    /\ now >= due[x]                           \* not before the due time
    /\ OrderOK(x)
    /\ ist' = [ist EXCEPT ![x] = "committed"]
    /\ cseq' = [cseq EXCEPT ![x] = stamp + 1] /\ stamp' = stamp + 1
    /\ UNCHANGED <<now, xie, due, imm, eff, seq, loopT, alive, ever, disposed, dispRet, pend, handle,
                   runTh, startT, gen, early, late, calls>>

Start(w, x) ==
    /\ ist[x] = "committed" /\ loopT = w /\ w \in alive
    /\ ist' = [ist EXCEPT ![x] = "running"]
    /\ runTh' = [runTh EXCEPT ![x] = w] /\ startT' = [startT EXCEPT ![x] = now]
    /\ gen' = [gen EXCEPT ![x] = Cardinality(ever)]
    /\ UNCHANGED <<now, xie, due, imm, eff, seq, cseq, stamp, loopT, alive, ever, disposed, dispRet, pend, handle,
                   early, late, calls>>

End(w, x) ==
    /\ ist[x] = "running" /\ runTh[x] = w /\ pend[w] = NoCall
    /\ ist' = [ist EXCEPT ![x] = "done"]
    /\ UNCHANGED <<now, xie, due, imm, eff, seq, cseq, stamp, loopT, alive, ever, disposed, dispRet, pend, handle,
                   runTh, startT, gen, early, late, calls>>

\* exit_if_empty: the silent decision to leave (under the scheduler's lock in the code)
ExitL(w) ==
    /\ xie /\ loopT = w /\ w \in alive
    /\ Committed = {} /\ Running = {}
    /\ Pending = {}                            \* only with nothing pending
    /\ loopT' = None
    /\ UNCHANGED <<now, xie, ist, due, imm, eff, seq, cseq, stamp, alive, ever, disposed, dispRet, pend, handle,
                   runTh, startT, gen, early, late, calls>>

\* the thread function returns: after ExitL, or because the scheduler is disposed
TExit(w) ==
    /\ w \in alive /\ pend[w] = NoCall
    /\ loopT # w \/ (disposed /\ Committed = {} /\ Running = {})
    /\ alive' = alive \ {w}
    /\ UNCHANGED <<now, xie, ist, due, imm, eff, seq, cseq, stamp, loopT, ever, disposed, dispRet, pend, handle,
                   runTh, startT, gen, early, late, calls>>

Tick == /\ now < MaxT /\ now' = now + 1
        /\ UNCHANGED <<xie, ist, due, imm, eff, seq, cseq, stamp, loopT, alive, ever, disposed, dispRet, pend, handle,
                       runTh, startT, gen, early, late, calls>>

(* ---- generator: clients pick calls from a menu -------------------------------------------------- *)
Fresh == {x \in Items : ist[x] = "new" /\ \A t \in Threads : pend[t].item # x}
NextFresh == IF Fresh = {} THEN {} ELSE {CHOOSE x \in Fresh : \A y \in Fresh : x <= y}

GenTStart(w) == w = 11 + Cardinality(ever) /\ TStart(w)      \* thread ids are handed out in order

CanCall(th) == th \in Clients \/ (InnerCalls /\ \E x \in Running : runTh[x] = th)

GenCall(th) ==
    /\ calls < MaxCalls /\ CanCall(th)
    /\ \/ \E x \in NextFresh : Call(th, "imm", x, 0)
       \/ \E x \in NextFresh : \E d \in RelD : Call(th, "rel", x, d)
       \/ \E x \in NextFresh : \E t \in AbsT : Call(th, "abs", x, t)
       \/ \E x \in handle : /\ ist[x] \in {"pending", "committed", "running"}     \* (a cancel of a finished item is a no-op)
                              /\ \A t \in Threads : ~(pend[t].op = "cancel" /\ pend[t].item = x)
                              /\ Call(th, "cancel", x, 0)
       \/ (~dispRet /\ \A t \in Threads : pend[t].op # "dispose") /\ Call(th, "dispose", 0, 0)

Next == \/ \E th \in Threads : GenCall(th) \/ Lin(th) \/ Ret(th)
        \/ \E w \in Loops : \/ GenTStart(w)
                            \/ ExitL(w) \/ TExit(w)
                            \/ \E x \in Items : Commit(w, x) \/ Start(w, x) \/ End(w, x)
        \/ Tick

ClientSym == Permutations(Clients)      \* design run: client ids are model values

Spec == Init /\ [][Next]_vars
LoopStep == \E w \in Loops : TStart(w) \/ ExitL(w) \/ TExit(w) \/ \E x \in Items : Commit(w, x) \/ Start(w, x) \/ End(w, x)
FairSpec == Spec /\ WF_vars(LoopStep) /\ WF_vars(Tick) /\ WF_vars(\E th \in Threads : Lin(th) \/ Ret(th))

(* ---- the property, declaratively ------------------------------------------------------------------ *)
TypeOK == /\ now \in 0..MaxT /\ loopT \in {None, Starting} \cup Loops /\ alive \subseteq ever
          /\ \A x \in Items : ist[x] \in {"new", "pending", "refused", "cancelled", "committed", "running", "done"}

\* never two actions at once
Serial == Cardinality(Running) <= 1 /\ Cardinality(Committed \cup Running) <= 1
\* all actions of one thread generation run on that generation's thread; without exit_if_empty there is one thread ever
OneThread == /\ \A x, y \in Items : (runTh[x] # 0 /\ runTh[y] # 0 /\ gen[x] = gen[y]) => runTh[x] = runTh[y]
             /\ \A x \in Items : runTh[x] # 0 => runTh[x] \in Loops
             /\ ~xie => Cardinality(ever) <= 1
\* immediately-due items run in submission order
Fifo == \A x, y \in Items : (imm[x] /\ imm[y] /\ seq[x] # 0 /\ seq[x] < seq[y] /\ Picked(y)) => ist[x] # "pending"
\* timed items in due order (among items that were pending together)
DueOrder == \A x, y \in Items : (~imm[x] /\ ~imm[y] /\ seq[x] # 0 /\ Picked(y) /\ seq[x] < cseq[y] /\ due[x] < due[y])
                                   => ist[x] # "pending"
\* a timed item does not overtake an immediate item submitted before the timed item's due time ...
CrossOrderTI == \A x, y \in Items : (imm[x] /\ ~imm[y] /\ seq[x] # 0 /\ Picked(y) /\ seq[x] < cseq[y] /\ eff[x] < due[y])
                                   => ist[x] # "pending"
\* ... and an immediate item does not overtake a timed item that is due earlier
CrossOrderIT == \A x, y \in Items : (imm[x] /\ ~imm[y] /\ seq[y] # 0 /\ Picked(x) /\ seq[y] < cseq[x] /\ due[y] < due[x])
                                   => ist[y] # "pending"
\* no action before its due time
NotEarly == \A x \in Items : runTh[x] # 0 => startT[x] >= due[x]
\* an item one of whose cancels returned before the loop picked it never runs
CancelledNeverRuns == \A x \in early : ~Picked(x)
\* once dispose() returned, scheduling raises and the item never runs
NoRunAfterDisposeReturned == \A x \in late : ist[x] \in {"new", "refused"}
RefusedOnlyDisposed == \A x \in Items : ist[x] = "refused" => disposed
\* the thread exits only with nothing pending; something pending always has a (starting) thread unless disposed
ThreadForPending == (Pending # {} /\ ~disposed) => loopT # None
Quiet == \A t \in Threads : pend[t] = NoCall

\* liveness of the abstract object (FairSpec): nothing pending and due is left behind unless disposed
NoLostWakeup == \A x \in Items : (ist[x] = "pending" /\ due[x] <= MaxT) ~> (ist[x] # "pending" \/ disposed)

DesignInvs == TypeOK /\ Serial /\ OneThread /\ Fifo /\ DueOrder /\ CrossOrderTI /\ CrossOrderIT /\ NotEarly /\ CancelledNeverRuns
              /\ NoRunAfterDisposeReturned /\ RefusedOnlyDisposed /\ ThreadForPending
================================================================================
