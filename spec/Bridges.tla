------------------------------- MODULE Bridges -------------------------------
(* L3: bridges between observables and futures / callbacks / blocking calls (C41).

   Four small machines share one module; `part` (chosen in Init) says which one a behaviour
   exercises:

   "ff"  from_future / start_async.  A future is  pending -> (running ->) result(v) |
         exception | cancelled  with a list of done-callbacks.  Two flavours: "cf"
         (concurrent.futures: callbacks run synchronously inside set_result / set_exception /
         cancel, and inside add_done_callback when the future is already done) and "aio"
         (asyncio: callbacks are queued on the loop and run at the next `step`) and "task"
         (an asyncio Task awaiting an inner future: resolution and cancellation are only
         *requested* by resolve / fail / cancel / dispose and take effect when the loop runs;
         a cancellation requested before that wins; `step` runs the loop until quiescent).  The
         history - subscribe / resolve / fail / cancel / set_running / dispose(k) / step - is
         enumerated lazily, one command per step, up to CmdsFF.
   "st"  start / to_async: every call of the asynchronous function schedules ONE invocation
         of the function on the scheduler and hands out an AsyncSubject-backed observable;
         history: call / run (the scheduler runs what is queued) / subscribe(c) / dispose(k).
   "cb"  from_callback: subscribe calls the wrapped function with the original arguments plus
         one callback; the callback's first invocation yields exactly one element (the
         argument list, the single argument, or the mapper's result) and completion; a
         raising mapper yields on_error.  History: subscribe / fire(k) / dispose(k).
   "tf"  to_future / await / run(): fold of a timeline to  last element | the error |
         no-elements;  a future-returning form may be cancelled after j events.

   After every command a snapshot of everything observable is appended to `snaps`; the
   replayer performs the history on the real objects and compares snapshot by snapshot.
   Each part has a reference (RefOut.. / RefFold) computed from the history alone, by
   positions, next to the incremental machine; the ..RefOK invariants say they agree in
   every reachable state.                                                              *)
EXTENDS Integers, Sequences, FiniteSets, TLC, Json

CONSTANTS Parts,      \* subset of {"ff", "st", "cb", "tf"}
          Flavors,    \* ff: subset of {"cf", "aio", "task"}
          CmdsFF, CmdsST, CmdsCB,    \* history length per lazily enumerated part
          MaxSubs,    \* subscribers per history
          MaxCalls,   \* st: invocations of the asynchronous function
          NVals,      \* value tokens
          MaxLen      \* tf: timeline length; cb: at most MaxLen + 1 callback arguments

Vals  == 0..(NVals - 1)
NEVER == 99
Subs  == 1..MaxSubs

VARIABLES part, cfg, hist, budget, snaps,
          sub,      \* subscriber -> "none" | "live" | "done" | "disposed"
          out,      \* subscriber -> notifications received
          fut,      \* ff: the future
          calls,    \* st: invocations
          att,      \* st: subscriber -> invocation
          fold,     \* tf: the fold
          fired     \* cb: subscriber -> number of callback invocations

vars == <<part, cfg, hist, budget, snaps, sub, out, fut, calls, att, fold, fired>>

Cmd(c, a) == [c |-> c, a |-> a]
\* a notification; values are always sequences so that every `v` has one type:
\*   vk = "tok": <<token>>; "ret": the function's result for these arguments; "one": the single
\*   callback argument; "list": the argument list; "empty": []; "none": None; "mapped": mapper(args)
N(vk, v) == [k |-> "N", vk |-> vk, v |-> v, e |-> ""]
C        == [k |-> "C", vk |-> "", v |-> <<>>, e |-> ""]
E(e)     == [k |-> "E", vk |-> "", v |-> <<>>, e |-> e]

NSub == Cardinality({k \in Subs : sub[k] # "none"})
InSeq(x, s) == \E j \in 1..Len(s) : s[j] = x
Max2(a, b) == IF a >= b THEN a ELSE b
NoSubs == [k \in Subs |-> "none"]
NoOut  == [k \in Subs |-> <<>>]
\* inner / must: task flavour only - what the awaited inner future holds, and a pending cancel request
Fut0   == [st |-> "pending", v |-> 0, cbs |-> <<>>, ready |-> <<>>, inner |-> "none", must |-> FALSE]
Fold0  == [i |-> 0, has |-> FALSE, last |-> 0, fs |-> "pending", v |-> 0, e |-> "", unsub |-> NEVER]
ArgChoices == <<<<>>, <<0>>, <<NVals - 1, 0>>>>
\* callback argument lists: none, one, two, three (values do not matter to the bridge)
CArgChoices == {s \in {<<>>, <<0>>, <<NVals - 1>>, <<NVals - 1, 0>>, <<0, NVals - 1, 0>>} : Len(s) <= MaxLen + 1}
SeqsUpTo(n) == UNION {[1..m -> Vals] : m \in 0..n}

(* ======================================================================================== *)
(*  ff - from_future, start_async                                                          *)
(* ======================================================================================== *)
FFCfgs == [flavor : Flavors, mode : {"from_future", "start_async", "start_async_raises"}]
FutDone(f) == f.st \in {"result", "exception", "cancelled"}
Outcome(f) == CASE f.st = "result"    -> <<N("tok", <<f.v>>), C>>
                [] f.st = "exception" -> <<E("fut")>>
                [] OTHER              -> <<E("cancelled")>>

\* the future becomes done: its callbacks run now (cf) or are queued on the loop (aio)
Resolved(f, s, o, newst, v) ==
  LET f1 == [f EXCEPT !.st = newst, !.v = v] IN
  IF cfg.flavor = "cf"
  THEN [fut |-> [f1 EXCEPT !.cbs = <<>>],
        sub |-> [k \in Subs |-> IF InSeq(k, f.cbs) /\ s[k] = "live" THEN "done" ELSE s[k]],
        out |-> [k \in Subs |-> IF InSeq(k, f.cbs) /\ s[k] = "live" THEN Outcome(f1) ELSE o[k]]]
  ELSE [fut |-> [f1 EXCEPT !.cbs = <<>>, !.ready = f.ready \o f.cbs], sub |-> s, out |-> o]

FFSnap(f, s, o) == [fst |-> f.st, sub |-> s, out |-> o]
FFStep(c, a, r) ==
  /\ fut' = r.fut /\ sub' = r.sub /\ out' = r.out
  /\ hist' = Append(hist, Cmd(c, a)) /\ budget' = budget - 1
  /\ snaps' = Append(snaps, FFSnap(r.fut, r.sub, r.out))
  /\ UNCHANGED <<part, cfg, calls, att, fold, fired>>
Same == [fut |-> fut, sub |-> sub, out |-> out]
HasFuture == cfg.mode # "start_async_raises"

FFSubscribe ==
  /\ NSub < MaxSubs
  /\ LET k == NSub + 1 IN
     FFStep("subscribe", k,
       IF ~HasFuture
       THEN \* function_async raised: the sequence is throw(that exception)
            [Same EXCEPT !.sub[k] = "done", !.out[k] = <<E("fa")>>]
       ELSE IF ~FutDone(fut)
       THEN [Same EXCEPT !.fut.cbs = Append(@, k), !.sub[k] = "live"]
       ELSE IF cfg.flavor = "cf"
       THEN [Same EXCEPT !.sub[k] = "done", !.out[k] = Outcome(fut)]   \* (aio, task: queued on the loop)
       ELSE [Same EXCEPT !.fut.ready = Append(@, k), !.sub[k] = "live"])

IsTask == cfg.flavor = "task"
\* task flavour: a cancel request cancels the inner future if that is still open, else it is remembered
CancelRequest(f) == IF f.st # "pending" THEN f
                    ELSE IF f.inner = "none" THEN [f EXCEPT !.inner = "cancelled"] ELSE [f EXCEPT !.must = TRUE]

FFResolve == \E v \in Vals :
  /\ HasFuture /\ ~FutDone(fut) /\ fut.inner = "none"
  /\ FFStep("resolve", v, IF IsTask THEN [Same EXCEPT !.fut.inner = "result", !.fut.v = v]
                           ELSE Resolved(fut, sub, out, "result", v))

FFFail ==
  /\ HasFuture /\ ~FutDone(fut) /\ fut.inner = "none"
  /\ FFStep("fail", 0, IF IsTask THEN [Same EXCEPT !.fut.inner = "exception"]
                        ELSE Resolved(fut, sub, out, "exception", 0))

\* somebody else cancels the future: only a pending future can be cancelled
FFCancel ==
  /\ HasFuture
  /\ FFStep("cancel", 0, IF IsTask THEN [Same EXCEPT !.fut = CancelRequest(fut)]
                          ELSE IF fut.st = "pending" THEN Resolved(fut, sub, out, "cancelled", 0) ELSE Same)

FFSetRunning ==
  /\ HasFuture /\ cfg.flavor = "cf" /\ fut.st = "pending"
  /\ FFStep("set_running", 0, [Same EXCEPT !.fut.st = "running"])

\* unsubscribing first cancels the future (the property); a second dispose, or one after the
\* subscriber was served, changes nothing
FFDispose == \E k \in Subs :
  /\ sub[k] # "none"
  /\ FFStep("dispose", k,
       IF sub[k] # "live" THEN Same
       ELSE LET s1 == [sub EXCEPT ![k] = "disposed"] IN
            IF HasFuture /\ IsTask THEN [Same EXCEPT !.sub = s1, !.fut = CancelRequest(fut)]
            ELSE IF HasFuture /\ fut.st = "pending" THEN Resolved(fut, s1, out, "cancelled", 0)
            ELSE [Same EXCEPT !.sub = s1])

\* aio: one iteration of the loop - every queued callback runs.
\* task: the loop runs until quiescent - a requested resolution / cancellation takes effect (a
\* cancel request wins over a result that was not yet consumed), then every callback runs
Settle(f) == IF f.st = "pending" /\ (f.inner # "none" \/ f.must)
             THEN [f EXCEPT !.st = IF f.must THEN "cancelled" ELSE f.inner, !.ready = f.ready \o f.cbs, !.cbs = <<>>]
             ELSE f
FFLoopStep ==
  /\ HasFuture /\ cfg.flavor \in {"aio", "task"}
  /\ LET f == IF IsTask THEN Settle(fut) ELSE fut IN
     FFStep("step", 0,
       [fut |-> [f EXCEPT !.ready = <<>>],
        sub |-> [k \in Subs |-> IF InSeq(k, f.ready) /\ sub[k] = "live" THEN "done" ELSE sub[k]],
        out |-> [k \in Subs |-> IF InSeq(k, f.ready) /\ sub[k] = "live" THEN Outcome(f) ELSE out[k]]])

FFNext == part = "ff" /\ budget > 0 /\ (FFSubscribe \/ FFResolve \/ FFFail \/ FFCancel \/ FFSetRunning \/ FFDispose \/ FFLoopStep)

(* ---- ff: the property ---- *)
FFOutcomes == {<<>>, <<E("fut")>>, <<E("cancelled")>>, <<E("fa")>>} \cup {<<N("tok", <<v>>), C>> : v \in Vals}
\* a subscriber gets nothing, or the result then completion, or the exception / cancellation as error
FFGrammar == part = "ff" => \A k \in Subs : out[k] \in FFOutcomes
\* ... and only what the future actually holds, never before it is done
FFMatchesFuture == (part = "ff" /\ HasFuture) => \A k \in Subs : out[k] # <<>> => (FutDone(fut) /\ out[k] = Outcome(fut))
\* unsubscribing while the future is pending cancels it
FFDisposeCancels ==
  part = "ff" => \A p \in 1..Len(hist) :
     LET before == IF p = 1 THEN FFSnap(Fut0, NoSubs, NoOut) ELSE snaps[p - 1] IN
     (hist[p].c = "dispose" /\ HasFuture /\ before.fst = "pending" /\ before.sub[hist[p].a] = "live") =>
        IF IsTask THEN \A q \in (p + 1)..Len(hist) : hist[q].c = "step" => snaps[q].fst = "cancelled"   \* as soon as the loop has run
        ELSE snaps[p].fst = "cancelled"
\* a future that is done never changes again
FFStable == part = "ff" => \A p \in 1..(Len(snaps) - 1) :
     snaps[p].fst \in {"result", "exception", "cancelled"} => snaps[p + 1].fst = snaps[p].fst
\* nothing reaches a subscriber after it unsubscribed or after its terminal
Quiet == part \in {"ff", "st", "cb"} => \A p \in 1..(Len(snaps) - 1) : \A k \in Subs :
     snaps[p].sub[k] \in {"disposed", "done"} => snaps[p + 1].out[k] = snaps[p].out[k]

(* ---- ff: reference, by positions in the history ---- *)
PosOf(P(_)) == LET hits == {p \in 1..Len(hist) : P(p)} IN IF hits = {} THEN 0 ELSE CHOOSE p \in hits : \A q \in hits : p <= q
PosSub(k)  == PosOf(LAMBDA p : hist[p].c = "subscribe" /\ hist[p].a = k)
PosDisp(k) == PosOf(LAMBDA p : hist[p].c = "dispose" /\ hist[p].a = k)
RunningBefore(p) == \E q \in 1..(p - 1) : hist[q].c = "set_running"
\* commands that ask the future to settle: a result, an exception, or a cancellation (by anybody,
\* or by the first dispose of a subscriber) - a running concurrent future cannot be cancelled
CancelIntent(p) == /\ ~RunningBefore(p)
                   /\ \/ hist[p].c = "cancel"
                      \/ hist[p].c = "dispose" /\ PosDisp(hist[p].a) = p
Intent(p) == hist[p].c \in {"resolve", "fail"} \/ CancelIntent(p)
FirstIntent == PosOf(Intent)
\* the position at which the future is done: the first intent itself, or (task) the first loop run after it
DonePos == IF FirstIntent = 0 THEN 0
           ELSE IF ~IsTask THEN FirstIntent
           ELSE PosOf(LAMBDA p : p > FirstIntent /\ hist[p].c = "step")
\* for cf / aio only an intent on a still-open future counts, i.e. the first; for a task every cancel
\* intent before the loop runs counts, and wins
RefOutcome == LET c == hist[FirstIntent]
                  cancelled == IF IsTask THEN \E p \in 1..(DonePos - 1) : CancelIntent(p) ELSE CancelIntent(FirstIntent) IN
              IF cancelled THEN <<E("cancelled")>>
              ELSE IF c.c = "resolve" THEN <<N("tok", <<c.a>>), C>> ELSE <<E("fut")>>
RefOutFF(k) ==
  LET ps == PosSub(k)  pd == PosDisp(k) IN
  IF ps = 0 THEN <<>>
  ELSE IF ~HasFuture THEN <<E("fa")>>
  ELSE IF DonePos = 0 THEN <<>>
  ELSE LET rdy == Max2(DonePos, ps)
           dlv == IF cfg.flavor = "cf" \/ (IsTask /\ rdy = DonePos) THEN rdy ELSE PosOf(LAMBDA p : p > rdy /\ hist[p].c = "step") IN
       IF dlv = 0 \/ (pd # 0 /\ pd <= dlv) THEN <<>> ELSE RefOutcome
FFRefOK == part = "ff" => \A k \in Subs : out[k] = RefOutFF(k)

(* ======================================================================================== *)
(*  st - start, to_async                                                                    *)
(* ======================================================================================== *)
STCfgs == [api : {"start", "to_async"}, fn : {"ret", "raise"}, sched : {"virtual", "immediate"}]
STOutcome(c) == IF c.st = "done" THEN <<N("ret", c.args), C>> ELSE <<E("fn")>>
STSnap(cs, s, o) == [ran |-> [j \in 1..Len(cs) |-> cs[j].ran], sub |-> s, out |-> o]
STStep(c, a, cs, at2, s, o) ==
  /\ calls' = cs /\ att' = at2 /\ sub' = s /\ out' = o
  /\ hist' = Append(hist, Cmd(c, a)) /\ budget' = budget - 1
  /\ snaps' = Append(snaps, STSnap(cs, s, o))
  /\ UNCHANGED <<part, cfg, fut, fold, fired>>
Ran(c) == [c EXCEPT !.st = IF cfg.fn = "ret" THEN "done" ELSE "failed", !.ran = @ + 1]

\* calling the asynchronous function (start(): the one call that makes the observable)
STCall == \E ai \in 1..Len(ArgChoices) :
  /\ Len(calls) < MaxCalls
  /\ cfg.api = "start" => (ai = 1 /\ Len(calls) = 0)
  /\ LET c0 == [args |-> ArgChoices[ai], st |-> "queued", ran |-> 0] IN
     STStep("call", ai, Append(calls, IF cfg.sched = "immediate" THEN Ran(c0) ELSE c0), att, sub, out)

\* the scheduler runs everything queued: each queued invocation calls the function once and
\* tells its subscribers
STRun ==
  /\ cfg.sched = "virtual"
  /\ LET cs == [j \in 1..Len(calls) |-> IF calls[j].st = "queued" THEN Ran(calls[j]) ELSE calls[j]]
         hit(k) == sub[k] = "live" /\ calls[att[k]].st = "queued" IN
     STStep("run", 0, cs, att,
            [k \in Subs |-> IF hit(k) THEN "done" ELSE sub[k]],
            [k \in Subs |-> IF hit(k) THEN STOutcome(cs[att[k]]) ELSE out[k]])

STSubscribe == \E c \in 1..Len(calls) :
  /\ NSub < MaxSubs
  /\ LET k == NSub + 1 IN
     IF calls[c].st = "queued"
     THEN STStep("subscribe", c, calls, [att EXCEPT ![k] = c], [sub EXCEPT ![k] = "live"], out)
     ELSE STStep("subscribe", c, calls, [att EXCEPT ![k] = c], [sub EXCEPT ![k] = "done"], [out EXCEPT ![k] = STOutcome(calls[c])])

STDispose == \E k \in Subs :
  /\ sub[k] # "none"
  /\ STStep("dispose", k, calls, att, [sub EXCEPT ![k] = IF @ = "live" THEN "disposed" ELSE @], out)

STNext == part = "st" /\ budget > 0 /\ (STCall \/ STRun \/ STSubscribe \/ STDispose)

(* ---- st: the property ---- *)
\* every call of the asynchronous function runs the function at most once, and exactly once as
\* soon as the scheduler has run; subscribing does not run it
STOncePerCall == part = "st" => \A j \in 1..Len(calls) : calls[j].ran = (IF calls[j].st = "queued" THEN 0 ELSE 1)
\* the single result, then completion - or the exception; nothing before the function ran
STGrammar == part = "st" => \A k \in Subs : out[k] # <<>> =>
                (att[k] # 0 /\ calls[att[k]].st # "queued" /\ out[k] = STOutcome(calls[att[k]]))
\* reference by positions: subscriber k of invocation c is served once both the subscription and
\* the function's run have happened, unless it unsubscribed before that
PosCall(c) == LET hits == {p \in 1..Len(hist) : hist[p].c = "call"} IN
              CHOOSE p \in hits : Cardinality({q \in hits : q <= p}) = c
PosKthSub(k) == LET hits == {p \in 1..Len(hist) : hist[p].c = "subscribe"} IN
                IF Cardinality(hits) < k THEN 0 ELSE CHOOSE p \in hits : Cardinality({q \in hits : q <= p}) = k
RefOutST(k) ==
  LET ps == PosKthSub(k) IN
  IF ps = 0 THEN <<>>
  ELSE LET c == hist[ps].a
           pc == PosCall(c)
           pr == IF cfg.sched = "immediate" THEN pc ELSE PosOf(LAMBDA p : p > pc /\ hist[p].c = "run")
           pd == PosDisp(k) IN
       IF pr = 0 \/ (pd # 0 /\ pd <= Max2(pr, ps)) THEN <<>>
       ELSE IF cfg.fn = "ret" THEN <<N("ret", ArgChoices[hist[pc].a]), C>> ELSE <<E("fn")>>
STRefOK == part = "st" => \A k \in Subs : out[k] = RefOutST(k)

(* ======================================================================================== *)
(*  cb - from_callback                                                                      *)
(* ======================================================================================== *)
CBCfgs == [args : {ArgChoices[j] : j \in 1..Len(ArgChoices)}, cargs : CArgChoices, mapper : {"none", "map", "raises"},
           when : {"sync", "later"}, fnraises : BOOLEAN, twice : BOOLEAN]
\* what the callback's first invocation yields.  For zero callback arguments without a mapper the
\* statement ("the callback arguments") admits the empty list; None - what the single-argument
\* rule degenerates to - is accepted as well
Emissions ==
  CASE cfg.mapper = "raises"  -> {<<E("fn")>>}
    [] cfg.mapper = "map"     -> {<<N("mapped", cfg.cargs), C>>}
    [] Len(cfg.cargs) = 0     -> {<<N("empty", <<>>), C>>, <<N("none", <<>>), C>>}
    [] Len(cfg.cargs) = 1     -> {<<N("one", cfg.cargs), C>>}
    [] OTHER                  -> {<<N("list", cfg.cargs), C>>}
CBSnap(s, o, f) == [sub |-> s, out |-> o, fired |-> f, fargs |-> [k \in Subs |-> IF s[k] = "none" THEN <<>> ELSE cfg.args]]
CBStep(c, a, s, o, f) ==
  /\ sub' = s /\ out' = o /\ fired' = f
  /\ hist' = Append(hist, Cmd(c, a)) /\ budget' = budget - 1
  /\ snaps' = Append(snaps, CBSnap(s, o, f))
  /\ UNCHANGED <<part, cfg, fut, calls, att, fold>>

\* subscribe() calls the wrapped function with the original arguments and ONE callback
CBSubscribe ==
  /\ NSub < MaxSubs
  /\ LET k == NSub + 1 IN
     IF cfg.fnraises
     THEN CBStep("subscribe", k, [sub EXCEPT ![k] = "done"], [out EXCEPT ![k] = <<E("func")>>], fired)
     ELSE IF cfg.when = "later"
     THEN CBStep("subscribe", k, [sub EXCEPT ![k] = "live"], out, fired)
     ELSE \E em \in Emissions :
            CBStep("subscribe", k, [sub EXCEPT ![k] = "done"], [out EXCEPT ![k] = em],
                   [fired EXCEPT ![k] = IF cfg.twice THEN 2 ELSE 1])

\* the wrapped function's machinery invokes the callback it was given
CBFire == \E k \in Subs :
  /\ cfg.when = "later" /\ ~cfg.fnraises /\ sub[k] # "none" /\ fired[k] < (IF cfg.twice THEN 2 ELSE 1)
  /\ IF sub[k] = "live"
     THEN \E em \in Emissions : CBStep("fire", k, [sub EXCEPT ![k] = "done"], [out EXCEPT ![k] = em], [fired EXCEPT ![k] = @ + 1])
     ELSE CBStep("fire", k, sub, out, [fired EXCEPT ![k] = @ + 1])

CBDispose == \E k \in Subs :
  /\ sub[k] # "none"
  /\ CBStep("dispose", k, [sub EXCEPT ![k] = IF @ = "live" THEN "disposed" ELSE @], out, fired)

CBNext == part = "cb" /\ budget > 0 /\ (CBSubscribe \/ CBFire \/ CBDispose)

(* ---- cb: the property ---- *)
\* exactly one element and then completion (or the mapper's / function's exception), never more
CBExactlyOne == part = "cb" => \A k \in Subs :
    \/ out[k] = <<>>
    \/ out[k] = <<E("fn")>> /\ cfg.mapper = "raises"
    \/ out[k] = <<E("func")>> /\ cfg.fnraises
    \/ Len(out[k]) = 2 /\ out[k][1].k = "N" /\ out[k][2] = C
\* a subscriber whose callback fired while it was subscribed has received its element
CBServed == part = "cb" => \A k \in Subs : (sub[k] = "done") = (out[k] # <<>>)
\* reference by positions: the first firing after (or inside) the subscription, unless disposed before
RefOutCB(k) ==
  LET ps == PosSub(k)  pd == PosDisp(k)
      pf == IF cfg.when = "sync" THEN ps ELSE PosOf(LAMBDA p : hist[p].c = "fire" /\ hist[p].a = k) IN
  IF ps = 0 THEN {<<>>}
  ELSE IF cfg.fnraises THEN {<<E("func")>>}
  ELSE IF pf = 0 \/ (pd # 0 /\ pd < pf) THEN {<<>>}
  ELSE Emissions
CBRefOK == part = "cb" => \A k \in Subs : out[k] \in RefOutCB(k)

(* ======================================================================================== *)
(*  tf - to_future, await, run()                                                            *)
(* ======================================================================================== *)
TFCfgs == {c \in [src : SeqsUpTo(MaxLen), term : {"C", "E", "U"}, form : {"future", "blocking"}, cancel : (0..MaxLen) \cup {NEVER}] :
             /\ c.cancel # NEVER => (c.cancel <= Len(c.src) /\ c.form = "future")
             /\ c.form = "blocking" => c.term # "U"}
TFLen == Len(cfg.src) + (IF cfg.term = "U" THEN 0 ELSE 1)
TFSnap(f) == [fs |-> f.fs, v |-> f.v, e |-> f.e, unsub |-> f.unsub]

\* the holder of the future cancels it: the source is unsubscribed, the future stays cancelled
TFCancel ==
  /\ part = "tf" /\ cfg.cancel = fold.i /\ fold.fs = "pending"
  /\ LET f == [fold EXCEPT !.fs = "cancelled", !.unsub = fold.i] IN
     /\ fold' = f /\ snaps' = Append(snaps, TFSnap(f)) /\ hist' = Append(hist, Cmd("cancel", fold.i))
  /\ UNCHANGED <<part, cfg, budget, sub, out, fut, calls, att, fired>>

TFFeed ==
  /\ part = "tf" /\ fold.i < TFLen /\ fold.fs = "pending" /\ cfg.cancel # fold.i
  /\ LET j == fold.i + 1
         f == IF j <= Len(cfg.src) THEN [fold EXCEPT !.i = j, !.has = TRUE, !.last = cfg.src[j]]
              ELSE IF cfg.term = "E" THEN [fold EXCEPT !.i = j, !.fs = "exception", !.e = "src", !.unsub = j]
              ELSE IF fold.has THEN [fold EXCEPT !.i = j, !.fs = "result", !.v = fold.last, !.unsub = j]
              ELSE [fold EXCEPT !.i = j, !.fs = "exception", !.e = "empty", !.unsub = j] IN
     /\ fold' = f /\ snaps' = Append(snaps, TFSnap(f)) /\ hist' = Append(hist, Cmd("event", j))
  /\ UNCHANGED <<part, cfg, budget, sub, out, fut, calls, att, fired>>

TFNext == TFCancel \/ TFFeed
TFFinal == part = "tf" /\ (fold.fs # "pending" \/ (fold.i = TFLen /\ cfg.cancel # fold.i))

\* the property: last element | the sequence's error | no-elements error; pending while the source
\* is silent; a cancelled future is never resolved afterwards
RefFold == IF cfg.cancel # NEVER THEN [fs |-> "cancelled", v |-> 0, e |-> ""]
           ELSE IF cfg.term = "U" THEN [fs |-> "pending", v |-> 0, e |-> ""]
           ELSE IF cfg.term = "E" THEN [fs |-> "exception", v |-> 0, e |-> "src"]
           ELSE IF Len(cfg.src) = 0 THEN [fs |-> "exception", v |-> 0, e |-> "empty"]
           ELSE [fs |-> "result", v |-> cfg.src[Len(cfg.src)], e |-> ""]
TFRefOK == TFFinal => (fold.fs = RefFold.fs /\ fold.v = RefFold.v /\ fold.e = RefFold.e)
TFPendingUntilTerminal == part = "tf" => \A p \in 1..Len(snaps) :
     (hist[p].c = "event" /\ hist[p].a <= Len(cfg.src)) => snaps[p].fs = "pending"
TFReleased == TFFinal => (fold.fs = "pending") = (fold.unsub = NEVER)

(* ======================================================================================== *)
Init ==
  /\ part \in Parts
  /\ cfg \in (CASE part = "ff" -> FFCfgs [] part = "st" -> STCfgs [] part = "cb" -> CBCfgs [] OTHER -> TFCfgs)
  \* a raising wrapped function never gets to its callback: one representative is enough
  /\ (part = "cb" /\ cfg.fnraises) => (cfg.cargs = <<>> /\ cfg.mapper = "none" /\ ~cfg.twice /\ cfg.when = "sync")
  /\ hist = <<>> /\ snaps = <<>>
  /\ budget = (CASE part = "ff" -> CmdsFF [] part = "st" -> CmdsST [] part = "cb" -> CmdsCB [] OTHER -> 0)
  /\ sub = NoSubs /\ out = NoOut
  /\ fut = Fut0 /\ calls = <<>> /\ att = [k \in Subs |-> 0] /\ fold = Fold0 /\ fired = [k \in Subs |-> 0]

Next == FFNext \/ STNext \/ CBNext \/ TFNext
Spec == Init /\ [][Next]_vars

Final == IF part = "tf" THEN TFFinal ELSE budget = 0
Export == Final => PrintT(ToJson([scn |-> [part |-> part, cfg |-> cfg, hist |-> hist], obs |-> [snaps |-> snaps]]))
================================================================================
