------------------------------- MODULE Lifecycle -------------------------------
(* L1: operator-agnostic monitor of one subscription to an arbitrary pipeline, seen from outside:
   what the subscriber's callbacks receive, which source subscriptions the pipeline holds, which
   group / window observables it handed out, which user functions it invokes, when the subscriber
   disposes, and the passing of virtual time.  The properties are the GUARDS of the actions:

     C01  Sink(k)      only while the subscriber has seen no terminal notification
     C03  Sink(k), GroupOut, UserCb   never after dispose() returned (UserCb: unless a group/window is still live)
     C02  Tick(t)      time cannot pass while a terminated pipeline without live groups still holds a source
     C03  Tick(t)      ... nor while a disposed one does
     C09  Escape       an exception raised by a user function of the pipeline and propagating into the
                       emitter / scheduler has no action at all; after a fault no user function runs again
                       (unless the pipeline contains an operator that resubscribes on error)

   so a recorded execution is accepted by LifecycleTrace.tla iff it satisfies all of them.  The
   generator below (Next) lets TLC enumerate every event sequence of a bounded instance: that run
   shows each guard both enabling and blocking (no vacuity) and checks the bookkeeping invariants. *)
EXTENDS Integers, Sequences, FiniteSets, TLC

CONSTANTS Subs,      \* source-subscription ids
          Groups,    \* ids of group / window observables handed to the subscriber
          MaxT,      \* generator: horizon of virtual time
          MaxEv      \* generator: number of events

VARIABLES now,       \* virtual time
          open,      \* source subscriptions currently open
          ever,      \* source subscriptions ever opened (each id opens once)
          stopped,   \* the subscriber received on_error / on_completed
          disposed,  \* dispose() on the subscription has returned
          live,      \* groups / windows handed out, subscribed by the sink, not yet terminated or unsubscribed
          gone,      \* groups / windows that terminated or were unsubscribed
          faulted,   \* a user function raised (and the pipeline has no resubscribe-on-error operator)
          settled,   \* virtual time has passed since the pipeline became quiet (disposed/terminated, no live group)
          fsettled,  \* virtual time has passed since a user function raised
          strict,    \* this pipeline has no operator that resubscribes after an error
          nev        \* generator: events so far

vars == <<now, open, ever, stopped, disposed, live, gone, faulted, settled, fsettled, strict, nev>>

Init == /\ now = 0 /\ open = {} /\ ever = {} /\ stopped = FALSE /\ disposed = FALSE
        /\ live = {} /\ gone = {} /\ faulted = FALSE /\ settled = FALSE /\ fsettled = FALSE /\ strict \in BOOLEAN /\ nev = 0

Quiet == (stopped \/ disposed) /\ live = {}       \* nothing is entitled to hold a source any more

SubOpen(i) == /\ i \notin ever /\ open' = open \cup {i} /\ ever' = ever \cup {i}
              /\ UNCHANGED <<now, stopped, disposed, live, gone, faulted, settled, fsettled, strict>>
SubClose(i) == /\ i \in open /\ open' = open \ {i}
               /\ UNCHANGED <<now, ever, stopped, disposed, live, gone, faulted, settled, fsettled, strict>>

\* the subscriber's own callbacks
Sink(k) == /\ ~stopped /\ ~disposed                                        \* C01, C03
           /\ stopped' = (k # "N")
           /\ UNCHANGED <<now, open, ever, disposed, live, gone, faulted, settled, fsettled, strict>>
\* an on_next whose value is an observable (window / group); the recording sink subscribes to it at once
GroupOut(g) == /\ ~stopped /\ ~disposed /\ g \notin live /\ g \notin gone
               /\ live' = live \cup {g}
               /\ UNCHANGED <<now, open, ever, stopped, disposed, gone, faulted, settled, fsettled, strict>>
GroupNext(g) == /\ g \in live                                              \* C01 for the handed-out observable
                /\ UNCHANGED <<now, open, ever, stopped, disposed, live, gone, faulted, settled, fsettled, strict>>
GroupEnd(g) == /\ g \in live /\ live' = live \ {g} /\ gone' = gone \cup {g}
               /\ UNCHANGED <<now, open, ever, stopped, disposed, faulted, settled, fsettled, strict>>

Dispose == /\ disposed' = TRUE
           /\ UNCHANGED <<now, open, ever, stopped, live, gone, faulted, settled, fsettled, strict>>

\* a user function of the pipeline is invoked (raises: it raises; obs: it is an observer of the notifications
\* themselves - a do_action callback or a finally action - which legitimately sees the error pass by).
\* After dispose() returned none may run; when windows/groups were handed out the pipeline may finish the
\* reactions of the instant in which its last window/group ended, but not run anything once time has passed.
\* Likewise a failed pipeline may finish the subscribe / dispatch in progress in that instant, no more.
UserCb(raises, obs) ==
    /\ ~(disposed /\ live = {} /\ (gone = {} \/ settled))                   \* C03
    /\ obs \/ ~fsettled \/ live # {}                                        \* C09 (a window/group handed out earlier
                                                                            \*      is a live subscription of its own)
    /\ faulted' = (faulted \/ (raises /\ strict))
    /\ UNCHANGED <<now, open, ever, stopped, disposed, live, gone, settled, fsettled, strict>>

Tick(t) == /\ t > now
           /\ Quiet => open = {}                                            \* C02, C03
           /\ now' = t
           /\ settled' = (settled \/ Quiet) /\ fsettled' = (fsettled \/ (faulted /\ live = {}))   \* a live window/group keeps the pipeline running
           /\ UNCHANGED <<open, ever, stopped, disposed, live, gone, faulted, strict>>

\* the end of the observed run is judged like a passing of time
End == Quiet => open = {}

\* C09 for an operator that hands out windows/groups and whose OWN function raised (own: the pipeline is that single
\* operator): the failure stops the pipeline, so once the subscriber has its on_error and time passes no window/group
\* it handed out may still be waiting for a terminal notification.
\* C09 for a pipeline that is ONE operator (solo; nothing downstream that may still hold queued elements): after one of
\* its functions raised, the only notification the subscriber may still be given is the error.
FaultThenError(solo, k) == (solo /\ faulted) => k = "E"
FaultEndsGroups(own) == (own /\ faulted /\ stopped) => live = {}

Ev == nev' = nev + 1
Next == /\ nev < MaxEv /\ Ev
        /\ \/ \E i \in Subs : SubOpen(i) \/ SubClose(i)
           \/ \E k \in {"N", "E", "C"} : Sink(k)
           \/ \E g \in Groups : GroupOut(g) \/ GroupNext(g) \/ GroupEnd(g)
           \/ Dispose
           \/ \E r, o \in BOOLEAN : UserCb(r, o)
           \/ \E t \in 1..MaxT : Tick(t)

Spec == Init /\ [][Next]_vars

(* ---- what the guards guarantee, as invariants of every behaviour the monitor accepts ------------ *)
TypeOK == /\ open \subseteq ever /\ live \cap gone = {} /\ now \in 0..MaxT
\* a leak freezes time: in a state where a quiet pipeline holds a source, no Tick is enabled
LeakFreezesTime == (Quiet /\ open # {}) => \A t \in 1..MaxT : ~ENABLED Tick(t)
\* once stopped, no sink event is enabled; once disposed neither
SinkSilent == (stopped \/ disposed) => \A k \in {"N", "E", "C"} : ~ENABLED Sink(k)
\* reachability witnesses (negated invariants must be VIOLATED; checked by the harness)
SomeLeakState == ~(Quiet /\ open # {})
SomeTickAfterRelease == ~(Quiet /\ open = {} /\ ever # {} /\ now > 0)
================================================================================
