------------------------------- MODULE OpsGroup -------------------------------
(* L3, runner "RunHO" for operators that EMIT observables: groups (C19).
   group_by(key, element) / group_by_until(key, element, duration) / partition / partition_indexed.

   Same agenda as OpsWindow.tla: integer virtual time, subscription at 0, lanes = the source
   subscription + one lane per pending duration observable; lanes due at the same instant fire in
   any order (an element of key k arriving at the very instant the group of k expires may go to
   the old group or open a new one - the statement does not say).

   Values are tokens 0..NVals-1, keys tokens 0..NKeys-1; the key mapper, the element mapper and
   the partition predicate are finite tables chosen in Init; RAISE in a table = "the user function
   raises on this argument" (C09 dimension).  The duration selector is called once per created
   group; the g-th call returns an observable whose first notification (kind par.dk) comes
   durs[g] ticks after the call (cyclic pattern; DNever = no notification); with Faults the
   par.fr-th call raises instead.

   Emitted groups are ids in hand-out order; the observation is, per id, the key, the opening
   instant and the timed stream seen by a subscriber that subscribes at hand-out, plus the outer
   terminal.  partition is modelled as two groups (key 1 = predicate true, key 0 = false) that
   exist from the subscription instant.

   Stated twice: handlers with a `live` list (the implementation's `writers` map) and reference
   predicates over the finished observation (RouteOK, NewGroupOK, ExpiryOK, TermOK).         *)
EXTENDS Integers, Sequences, FiniteSets, TLC, Json

CONSTANTS Ops, NVals, NKeys, MaxLen, MaxT, H, Terms,
          LongLen,   \* source length bound for the operators without timers (group_by, partition*): their rules do
                     \* not look at instants, element j arrives at instant min(j, MaxT)
          Durs,      \* durations offered (non-negative integers); DNever is always offered too
          DKinds,    \* first notification of a duration observable: subset of {"N","C","E"}
          DCounts,   \* content-dependent durations: for n \in DCounts the selector returns "the group itself after
                     \* skipping n-1 elements", i.e. a group expires right after its n-th element (set of positive ints)
          KeyMode,   \* "all": every key table; "some" / "some3": two / three representative ones
          ElemMode,  \* "none": no element mapper; "some": none + rotate (+ a raising one); "all": every table
          Faults,
          RxG,       \* re-entrant feedback: for g \in RxG, g > 0, a subscriber of the g-th emitted group reacts to that
                     \* group's EXPIRY (its duration observable notified) by synchronously pushing one more element
                     \* (value rx.v) into the source: an element that arrives right after the expiry, at the same
                     \* instant, causally after it.  {0} = no feedback.  (timed durations only)
          OuterOnly, \* TRUE (with Disposes): the subscriber may also dispose ONLY the subscription to the sequence of groups
                     \*       (dmode = "outer") and keep its group subscriptions: no further group is handed out, but the
                     \*       groups it holds stay live - the source is kept until the last of them ends
          Disposes   \* TRUE: the subscriber may dispose the result and every group subscription half a tick after
                     \*       instant dsp \in 0..MaxT (C03 dimension)

Vals   == 0..(NVals - 1)
Keys   == 0..(NKeys - 1)
RAISE  == 90
DNever == 99
INF    == H + 1
ASSUME H < 50 /\ NVals < 50 /\ NKeys < 50

Min2(x, y) == IF x <= y THEN x ELSE y
MinOf(X) == CHOOSE m \in X : \A y \in X : m <= y
NDSeqs(n) == {s \in [1..n -> 1..MaxT] : \A j \in 1..(n - 1) : s[j] <= s[j + 1]}
\* (parameterised on purpose: TLC evaluates zero-arity constant definitions eagerly, and these sets are huge for the
\*  instances whose scenarios are read from a file - OpsGroupScn - where they are never needed)
Timelines(m) == UNION {{[j \in 1..n |-> [t |-> ts[j], v |-> vs[j]]] : ts \in NDSeqs(n), vs \in [1..n -> Vals]} : n \in 0..m}
Untimed(m) == UNION {{[j \in 1..n |-> [t |-> Min2(j, MaxT), v |-> vs[j]]] : vs \in [1..n -> Vals]} : n \in 0..m}
LastT(s)  == IF Len(s) = 0 THEN 1 ELSE s[Len(s)].t
TermsOf(s) == {[k |-> kk, t |-> tt] : kk \in Terms \ {"U"}, tt \in LastT(s)..MaxT}
              \cup (IF "U" \in Terms THEN {[k |-> "U", t |-> INF]} ELSE {})

VARIABLES op, par, src, term, dsp, dmode, rx, \* the scenario (dsp = INF: the subscriber never disposes; rx.g = 0: no feedback)
          abandon,                 \* free choice of the model (not part of the scenario)
          i, now, step, S, arr,
          seen                     \* ghost: the elements that reached the operator, in arrival order (source + feedback)
vars == <<op, par, src, term, dsp, dmode, rx, abandon, i, now, step, S, arr, seen>>

(* ---- user functions ------------------------------------------------------------------------ *)
IdTab   == [v \in Vals |-> v]
RotTab  == [v \in Vals |-> (v + 1) % NVals]
ModTab  == [v \in Vals |-> v % NKeys]
RevTab  == [v \in Vals |-> (NKeys - 1) - (v % NKeys)]
ZeroTab == [v \in Vals |-> 0]
LastRaises(f) == [v \in Vals |-> IF v = NVals - 1 THEN RAISE ELSE f[v]]
KTables(z) == IF KeyMode = "all" THEN [Vals -> Keys \cup (IF Faults THEN {RAISE} ELSE {})]
           ELSE {ModTab, ZeroTab} \cup (IF KeyMode = "some3" THEN {RevTab} ELSE {}) \cup (IF Faults THEN {LastRaises(ModTab)} ELSE {})
ETables(z) == CASE ElemMode = "none" -> {}
             [] ElemMode = "some" -> {RotTab} \cup (IF Faults THEN {LastRaises(RotTab)} ELSE {})
             [] OTHER -> [Vals -> Vals \cup (IF Faults THEN {RAISE} ELSE {})]
\* em = FALSE: no element mapper is passed at all (ef is then the identity)
ElemChoices(z) == {[em |-> FALSE, ef |-> IdTab]} \cup {[em |-> TRUE, ef |-> f] : f \in ETables(z)}
PTables(z) == [Vals -> (IF Faults THEN {0, 1, 2} ELSE {0, 1})]      \* 2 = the predicate raises
PIdx(p, v, idx) == IF p[v] = 2 THEN 2 ELSE (p[v] + idx) % 2      \* verdict flips with the parity of the index
DurSeqs == UNION {[1..n -> Durs \cup {DNever}] : n \in 1..2}
FaultCalls == IF Faults THEN 0..2 ELSE {0}

ParamsOf(o) ==
  CASE o = "group_by" -> {[kf |-> k, em |-> e.em, ef |-> e.ef] : k \in KTables(0), e \in ElemChoices(0)}
    [] o = "group_by_until" ->
         {[kf |-> k, em |-> e.em, ef |-> e.ef, durs |-> d, dk |-> dk, fr |-> fr, dn |-> 0] :
            k \in KTables(0), e \in ElemChoices(0), d \in DurSeqs, dk \in DKinds, fr \in FaultCalls}
         \cup {[kf |-> k, em |-> e.em, ef |-> e.ef, durs |-> <<DNever>>, dk |-> "N", fr |-> 0, dn |-> n] :
            k \in KTables(0), e \in ElemChoices(0), n \in DCounts}
    [] OTHER -> [p : PTables(0)]

IsPart == op \in {"partition", "partition_indexed"}
DurOf(g) == IF op = "group_by_until" THEN par.durs[((g - 1) % Len(par.durs)) + 1] ELSE DNever
\* key / emitted value of an element with value v arriving as the (idx+1)-th element, per the property
KeyV(v, idx) == CASE op = "partition" -> par.p[v]
                  [] op = "partition_indexed" -> PIdx(par.p, v, idx)
                  [] OTHER -> par.kf[v]
ValV(v) == IF IsPart THEN v ELSE par.ef[v]
\* ... of the j-th element that arrived (1-based)
KeyOf(j) == KeyV(seen[j].v, j - 1)
ValOf(j) == ValV(seen[j].v)

(* ---- observation helpers ---------------------------------------------------------------------- *)
Ev(t, k, v, e, j) == [t |-> t, k |-> k, v |-> v, e |-> e, j |-> j]
NewGrp(key, t, lt) == [key |-> key, open |-> t, os |-> lt, cs |-> 0, why |-> "", out |-> <<>>]
InLive(Z, g) == \E n \in 1..Len(Z.live) : Z.live[n] = g
LiveWithKey(Z, k) == {g \in 1..Len(Z.grps) : InLive(Z, g) /\ Z.grps[g].key = k}

Open(Z, key, t, lt) == [Z EXCEPT !.grps = Append(Z.grps, NewGrp(key, t, lt)), !.live = Append(Z.live, Len(Z.grps) + 1)]
Put(Z, g, ev) == [Z EXCEPT !.grps[g].out = Append(@, ev)]
Close(Z, g, t, lt) ==
  [Z EXCEPT !.grps[g] = [Z.grps[g] EXCEPT !.out = Append(@, Ev(t, "C", 0, "", 0)), !.cs = lt, !.why = "rule"],
            !.live = SelectSeq(Z.live, LAMBDA x : x # g),
            !.timers = {x \in Z.timers : x.id # g}]
\* deliver into group g; with a content-dependent duration the group expires right after its dn-th element
NItems(o) == Len(SelectSeq(o, LAMBDA x : x.k = "N"))
PutN(Z, g, ev, t, lt) == LET Z1 == Put(Z, g, ev) IN
   IF op = "group_by_until" /\ par.dn > 0 /\ NItems(Z1.grps[g].out) = par.dn THEN Close(Z1, g, t, lt) ELSE Z1
EndAll(Z, k, e, why, t, lt, bad) ==
  [Z EXCEPT !.grps = [g \in 1..Len(Z.grps) |->
                 IF InLive(Z, g) THEN [Z.grps[g] EXCEPT !.out = Append(@, Ev(t, k, 0, e, 0)), !.cs = lt, !.why = why]
                 ELSE Z.grps[g]],
            !.live = <<>>, !.timers = {},
            !.outer = Append(Z.outer, Ev(t, k, 0, e, 0)),
            !.done = TRUE, !.bad = bad]

\* A failure that is not the source's (a user function raises - C09 -, a duration observable errors):
\* the result errors at that instant.  C19 does not say what the groups still open see: they either
\* get the error too, or are abandoned (nothing more, ever).
AbandonAll(Z, e, t, lt, bad) ==
  [Z EXCEPT !.grps = [g \in 1..Len(Z.grps) |->
                 IF InLive(Z, g) THEN [Z.grps[g] EXCEPT !.cs = lt, !.why = "abandon"] ELSE Z.grps[g]],
            !.live = <<>>, !.timers = {},
            !.outer = Append(Z.outer, Ev(t, "E", 0, e, 0)),
            !.done = TRUE, !.bad = bad]
Fail(Z, e, t, lt, bad) == IF abandon THEN AbandonAll(Z, e, t, lt, bad) ELSE EndAll(Z, "E", e, "fail", t, lt, bad)

S0 == [grps |-> <<>>, live |-> <<>>, timers |-> {}, calls |-> 0, outer |-> <<>>, done |-> FALSE, bad |-> 0, disp |-> FALSE,
       odisp |-> FALSE, vis |-> 0]       \* odisp: only the outer subscription was disposed; groups 1..vis were handed out before
InitS == IF IsPart THEN Open(Open(S0, 1, 0, 0), 0, 0, 0) ELSE S0

(* ---- the transducer: the SET of allowed successor states ------------------------------------- *)
\* j-th source element (value v) arrives at instant t; n = number of this event
OnNext(Z, j, v, t, n) ==
  LET k == KeyV(v, j - 1)  e == ValV(v) IN
  IF IsPart THEN
     (IF k = 2 THEN {Fail(Z, "fn", t, 3 * n, j)}
      ELSE {Put(Z, IF k = 1 THEN 1 ELSE 2, Ev(t, "N", e, "", j))})
  ELSE IF k = RAISE THEN {Fail(Z, "fn", t, 3 * n, j)}
  ELSE IF LiveWithKey(Z, k) # {} THEN
     (LET g == CHOOSE x \in LiveWithKey(Z, k) : TRUE IN
      IF e = RAISE THEN {Fail(Z, "fn", t, 3 * n + 2, j)}
      ELSE {PutN(Z, g, Ev(t, "N", e, "", j), t, 3 * n + 2)})
  ELSE \* first element of this key, or first after the key's group expired: a NEW group
     (LET g  == Len(Z.grps) + 1
          Zc == [Z EXCEPT !.calls = Z.calls + 1]
          Zo == Open(Zc, k, t, 3 * n)
          Zt == IF DurOf(g) = DNever THEN Zo ELSE [Zo EXCEPT !.timers = Zo.timers \cup {[id |-> g, due |-> t + DurOf(g)]}] IN
      IF op = "group_by_until" /\ par.fr = Z.calls + 1
      THEN \* the duration selector raises: whether the group was handed out first is not stated
           {Fail(Zc, "fn", t, 3 * n + 2, j), Fail(Zo, "fn", t, 3 * n + 2, j)}
      ELSE IF e = RAISE
      THEN {Fail(Zc, "fn", t, 3 * n + 2, j), Fail(Zt, "fn", t, 3 * n + 2, j)}
      ELSE {PutN(Zt, g, Ev(t, "N", e, "", j), t, 3 * n + 2)})

OnTimer(Z, x, t, n) ==
  IF par.dk = "E" THEN Fail(Z, "dur", t, 3 * n, 0) ELSE Close(Z, x.id, t, 3 * n)

\* (partition: the two outputs ARE the subscribers of the pipeline - they must get the error)
HasFault == IF IsPart THEN FALSE
            ELSE \/ \E v \in Vals : par.kf[v] = RAISE \/ par.ef[v] = RAISE
                 \/ (op = "group_by_until" /\ (par.fr # 0 \/ par.dk = "E"))

(* ---- the runner -------------------------------------------------------------------------------- *)
Init == /\ op \in Ops
        /\ src \in (IF op = "group_by_until" THEN Timelines(MaxLen) ELSE Untimed(LongLen))
        /\ term \in TermsOf(src)
        /\ par \in ParamsOf(op)
        /\ dsp \in (IF Disposes THEN 0..MaxT ELSE {}) \cup {INF}
        /\ dmode \in (IF dsp # INF /\ OuterOnly /\ ~IsPart THEN {"all", "outer"} ELSE {"all"})
        /\ rx \in (IF op = "group_by_until" /\ par.dn = 0 THEN {[g |-> g, v |-> IF g = 0 THEN 0 ELSE v] : g \in RxG, v \in Vals}
                   ELSE {[g |-> 0, v |-> 0]})
        /\ abandon \in (IF HasFault THEN BOOLEAN ELSE {FALSE})
        /\ i = 1 /\ now = 0 /\ step = 0 /\ arr = <<>> /\ seen = <<>>
        /\ S = InitS

SrcDue == IF i <= Len(src) THEN src[i].t ELSE IF i = Len(src) + 1 THEN term.t ELSE INF
MinDue == MinOf({SrcDue} \cup {x.due : x \in S.timers})
\* after an outer-only dispose: is one of the groups the subscriber holds still live ?
HeldLive(Z) == \E n \in 1..Len(Z.live) : Z.live[n] <= Z.vis
\* ... if none is, the last reference is gone and the source is released: nothing more can be observed
Final  == S.done \/ MinDue > H \/ (S.odisp /\ ~HeldLive(S))

CanFire == ~Final /\ (MinDue <= dsp \/ S.odisp)
Dispose == /\ ~Final /\ dsp < MinDue /\ ~S.odisp
           /\ S' = IF dmode = "all" THEN [S EXCEPT !.done = TRUE, !.disp = TRUE, !.timers = {}]
                    ELSE [S EXCEPT !.odisp = TRUE, !.vis = Len(S.grps)]
           /\ step' = step + 1
           /\ UNCHANGED <<op, par, src, term, dsp, dmode, rx, abandon, i, now, arr, seen>>

FireSrc == /\ CanFire /\ SrcDue = MinDue
           /\ now' = MinDue /\ step' = step + 1 /\ i' = i + 1
           /\ IF i <= Len(src)
              THEN /\ S' \in OnNext(S, Len(seen) + 1, src[i].v, MinDue, step + 1)
                   /\ arr' = Append(arr, 3 * (step + 1) + 1)
                   /\ seen' = Append(seen, [t |-> MinDue, v |-> src[i].v])
              ELSE /\ S' = EndAll(S, term.k, IF term.k = "E" THEN "src" ELSE "", "src", MinDue, 3 * (step + 1), 0)
                   /\ arr' = arr /\ seen' = seen
           /\ UNCHANGED <<op, par, src, term, dsp, dmode, rx, abandon>>

FireTimer == /\ CanFire
             /\ \E x \in S.timers :
                  /\ x.due = MinDue
                  /\ LET Z1 == OnTimer(S, x, MinDue, step + 1) IN
                     IF rx.g = x.id /\ ~Z1.done
                     THEN \* the expired group's subscriber feeds one more element back, inside its completion callback:
                          \* it arrives right after the expiry (its own event number), before anything else
                          /\ S' \in OnNext(Z1, Len(seen) + 1, rx.v, MinDue, step + 2)
                          /\ arr' = Append(arr, 3 * (step + 2) + 1)
                          /\ seen' = Append(seen, [t |-> MinDue, v |-> rx.v])
                          /\ step' = step + 2
                     ELSE S' = Z1 /\ arr' = arr /\ seen' = seen /\ step' = step + 1
             /\ now' = MinDue
             /\ UNCHANGED <<op, par, src, term, dsp, dmode, rx, abandon, i>>

Next == FireSrc \/ FireTimer \/ Dispose
Spec == Init /\ [][Next]_vars

(* ---- properties of the model -------------------------------------------------------------------- *)
NG == Len(S.grps)
LastEv(g) == S.grps[g].out[Len(S.grps[g].out)]
SrcTerminated == i > Len(src) + 1
Holds(g, j) == \E q \in 1..Len(S.grps[g].out) : S.grps[g].out[q].k = "N" /\ S.grps[g].out[q].j = j

GrpGrammar == \A g \in 1..NG : LET o == S.grps[g].out IN
                /\ \A q \in 1..Len(o) : (o[q].k # "N" => q = Len(o)) /\ o[q].t >= S.grps[g].open
                /\ \A q \in 1..(Len(o) - 1) : o[q].t <= o[q + 1].t
                /\ (S.grps[g].cs # 0 /\ S.grps[g].why # "abandon") <=> (Len(o) > 0 /\ LastEv(g).k # "N")
                /\ (S.grps[g].cs = 0) <=> InLive(S, g)

\* C19: every element is delivered to exactly the group of its key, in arrival order (the element
\* whose processing failed is delivered nowhere)
RouteOK == /\ \A j \in 1..Len(arr) :
                IF j = S.bad THEN \A g \in 1..NG : ~Holds(g, j)
                ELSE \E g \in 1..NG :
                       /\ Holds(g, j) /\ \A g2 \in 1..NG : Holds(g2, j) => g2 = g
                       /\ S.grps[g].key = KeyOf(j)
                       /\ S.grps[g].os < arr[j] /\ (S.grps[g].cs = 0 \/ arr[j] < S.grps[g].cs)
                       /\ \E q \in 1..Len(S.grps[g].out) : LET x == S.grps[g].out[q] IN
                              x.k = "N" /\ x.j = j /\ x.v = ValOf(j) /\ x.t = seen[j].t
           /\ \A g \in 1..NG : LET o == S.grps[g].out IN
                \A q \in 1..(Len(o) - 1) : o[q + 1].k = "N" => o[q].j < o[q + 1].j

\* C19: a new group exactly the first time a key is seen, or seen again after its group expired
NewGroupOK == ~IsPart =>
   /\ \A g1, g2 \in 1..NG : (g1 < g2 /\ S.grps[g1].key = S.grps[g2].key) =>
          (S.grps[g1].why = "rule" /\ S.grps[g1].cs < S.grps[g2].os)
   /\ \A g \in 1..NG : \E j \in 1..Len(arr) : arr[j] = S.grps[g].os + 1 /\ KeyOf(j) = S.grps[g].key
   /\ \A g \in 1..(NG - 1) : S.grps[g].os < S.grps[g + 1].os

\* group_by_until: a group expires exactly when its duration observable first notifies
ExpiryOK == \A g \in 1..NG : LET G == S.grps[g] IN
   /\ G.why = "rule" => /\ op = "group_by_until"
                        /\ IF par.dn > 0 THEN NItems(G.out) = par.dn /\ LastEv(g).t = G.out[Len(G.out) - 1].t
                           ELSE DurOf(g) # DNever /\ LastEv(g).t = G.open + DurOf(g)
   /\ (G.cs = 0 /\ DurOf(g) # DNever) => now <= G.open + DurOf(g)
   /\ (G.cs = 0 /\ op = "group_by_until" /\ ~S.done) => (par.dn = 0 \/ NItems(G.out) < par.dn)

\* C19: every open group ends with the source's terminal notification, and so does the result
TermOK == /\ (S.done /\ ~S.disp) => (S.live = <<>> /\ S.timers = {} /\ Len(S.outer) = 1 /\ \A g \in 1..NG : S.grps[g].why # "")
          /\ ~S.done => S.outer = <<>>
          /\ \A g \in 1..NG :
               /\ S.grps[g].why = "src"  => (SrcTerminated /\ LastEv(g).k = term.k /\ LastEv(g).t = term.t)
               /\ S.grps[g].why = "rule" => LastEv(g).k = "C"
               /\ S.grps[g].why = "fail" => (LastEv(g).k = "E" /\ ~abandon)
               /\ S.grps[g].why = "abandon" => (abandon /\ S.outer[1].k = "E")
          /\ SrcTerminated => (S.done /\ S.outer[1].k = term.k /\ S.outer[1].t = term.t)
          /\ IsPart => NG = 2

SilentOK == /\ S.disp => (dsp # INF /\ now <= dsp)
            /\ ~S.odisp => /\ \A g \in 1..NG : S.grps[g].open <= dsp /\ \A q \in 1..Len(S.grps[g].out) : S.grps[g].out[q].t <= dsp
                           /\ \A q \in 1..Len(S.outer) : S.outer[q].t <= dsp
            \* outer-only dispose: the groups handed out are exactly those opened up to dsp; the result itself is silent
            /\ S.odisp => /\ dmode = "outer" /\ ~S.disp
                          /\ \A g \in 1..NG : (g <= S.vis) <=> (S.grps[g].open <= dsp)
                          /\ \A q \in 1..Len(S.outer) : S.outer[q].t > dsp
\* groups the subscriber can see, and the instant by which the source subscription must be closed after an
\* outer-only dispose (Neg1: not within the horizon, or the source ended by itself)
NVis == IF S.odisp THEN S.vis ELSE NG
Neg1 == 0 - 1
Unsub == IF S.odisp /\ ~S.done /\ ~HeldLive(S) THEN (IF now > dsp THEN now ELSE dsp) ELSE Neg1

(* ---- export ------------------------------------------------------------------------------------- *)
Export == Final => PrintT(ToJson(
   [scn |-> [op |-> op, par |-> par, src |-> src, term |-> term, dsp |-> dsp, dmode |-> dmode, rx |-> rx],
    obs |-> [grps |-> [g \in 1..NVis |-> [key |-> S.grps[g].key, open |-> S.grps[g].open, out |-> S.grps[g].out]],
             outer |-> IF S.odisp THEN <<>> ELSE S.outer, disp |-> S.disp, odisp |-> S.odisp, unsub |-> Unsub]]))
================================================================================
