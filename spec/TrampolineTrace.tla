--------------------------- MODULE TrampolineTrace ---------------------------
(* Binding B for Trampoline.tla: a batch of traces recorded from the real TrampolineScheduler /
   CurrentThreadScheduler / singleton under controlled schedules (DetSched) or on one thread with
   the controlled clock.  A trace is the totally ordered event list
       [e |-> "call",  th, clk, op ("imm"|"rel"|"reln"|"abs"|"cancel"|"req"), s, a, id]
       [e |-> "ret",   th, clk, res]      res = 1/0 for schedule_required(), 2 otherwise
       [e |-> "start", th, clk, id]       the action of item id begins on thread th
       [e |-> "end",   th, clk, id]
   (id = number of the schedule call in the global call order; a = delay / absolute time /
   cancelled item).  Call / Ret / Start / End consume one event each; Lin (one per call), Commit
   (one per started item) and Release (one per drain) are silent, so a trace is accepted iff some placement of the
   linearization points and of the runner's decision points explains it - with every invariant
   of Trampoline.tla evaluated in every state on the way.  The clock is taken from the events
   (it may only move forward).  Any other event (deadlock, steplimit, hang, exc) is not accepted. *)
EXTENDS Trampoline, TLCExt, IOUtils

CONSTANTS NTraces

Traces == JsonDeserialize(IOEnv.TRACE_FILE)

VARIABLES tid, l

tvars == <<tid, l>>
Ev == Traces[tid][l]
More == l <= Len(Traces[tid])
Step == l' = l + 1 /\ UNCHANGED tid
Now == More /\ Ev.clk = clock

TInit == /\ tid \in 1..NTraces /\ l = 1 /\ Init

\* time passes between two events
TClock == /\ More /\ Ev.clk > clock /\ clock' = Ev.clk
          /\ UNCHANGED <<n, isch, itr, iown, due, eff, enq, com, queue, ghost, runner, committed, running, stack, stamp, dead,
                         retd, ran, active, budget, top, body, tops, amb, reqs, tid, l>>

TCallS == /\ Now /\ Ev.e = "call" /\ Ev.op \in {"imm", "rel", "reln", "abs"} /\ Ev.id = n + 1 /\ Step
          /\ CallSched(Ev.th, Ev.s, Ev.op, Ev.a)

\* the client holds the disposable only once the schedule call returned: CallCancel requires it
TCallC == /\ Now /\ Ev.e = "call" /\ Ev.op = "cancel" /\ Step
          /\ CallCancel(Ev.th, Ev.a)

TCallR == /\ Now /\ Ev.e = "call" /\ Ev.op = "req" /\ Step
          /\ CallReq(Ev.th, Ev.s)

\* the logged result of schedule_required() must be the one the linearization produced
TRet == /\ Now /\ Ev.e = "ret" /\ Step
        /\ stack[Ev.th] # <<>> /\ (Top(Ev.th).k = "req" => Ev.res = Top(Ev.th).res)
        /\ Ret(Ev.th)

TStart == /\ Now /\ Ev.e = "start" /\ Step
          /\ Start(Ev.th, Ev.id)

TEnd == /\ Now /\ Ev.e = "end" /\ Step
        /\ stack[Ev.th] # <<>> /\ Top(Ev.th).id = Ev.id
        /\ End(Ev.th)

TSilent == /\ \E th \in Threads : Lin(th) \/ LinReq(th) \/ Release(th) \/ \E x \in 1..n : Commit(th, x)
           /\ UNCHANGED tvars

TNext == TClock \/ TCallS \/ TCallC \/ TCallR \/ TRet \/ TStart \/ TEnd \/ TSilent

\* furthest position reached per trace (register tid); registers are initialised by the ASSUME
Track == TLCSet(tid, IF TLCGet(tid) < l THEN l ELSE TLCGet(tid))
ASSUME \A j \in 1..NTraces : TLCSet(j, 0)

Accepted(j) == TLCGet(j) = Len(Traces[j]) + 1
Post == \A j \in 1..NTraces : Accepted(j) \/ PrintT(<<"REJECTED", j, TLCGet(j)>>)

\* at the end of a trace every thread has returned and nothing scheduled was lost
AllRunAtEnd == (l = Len(Traces[tid]) + 1) => (Quiet /\ AllRun)
================================================================================
