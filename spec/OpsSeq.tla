-------------------------------- MODULE OpsSeq --------------------------------
(* L3, runner "RunSeq": a list of cold sources subscribed one after another by ONE sequential
   operator (C10; resubscription dimension for C04; callback-fault dimension for C09).

   A scenario is chosen in Init: the operator `op`, its parameters `par`, the list `srcs` of
   source timelines, an optional downstream take(cut), the subscriber's dispose instant `dsp`
   and the position `flt` of the user-callback call that raises.  The same behaviour executes
   the scenario: `Hop` is the operator's reaction to "subscribed" / "current source completed" /
   "current source failed" (it decides, possibly calls a user callback, and either opens the
   next source AT THE SAME INSTANT - the reaction hop of DESIGN 3.2 - or terminates the
   result); `Deliver` delivers the next event of the one open source, advancing the clock by the
   event's gap; `Dispose` is the subscriber disposing half a tick after instant `dsp`.

   Sources are cold and relative to their subscription instant: timeline [n, g, t] has n
   elements, element q arriving g[q] ticks after the previous event (or after the subscription),
   and the terminal t ("C" completed, "E" error, "U" unterminated) g[n+1] after the last element.
   Gaps may be 0, so an element of the next source can share the instant of the previous
   source's terminal.  Elements are the tokens <<j, q>> (source j, position q): sequential
   operators never look at values, the codec decides what Python value a token is.
   For operators that resubscribe ONE source (repeat, retry, while_do, do_while) srcs[i] is the
   timeline of that source's i-th run; runs beyond Len(srcs) behave like the last one.

   The operator is stated twice: the step-by-step transducer `Decide` driven by the runner and
   the closed-form reference `Ref*` computed from the terminal kinds and the gap sums alone;
   RefOK requires them to agree.  NoOverlap, InOrder, Continuation, OutConcat, RepeatCount and
   RetryCount are the statement of C10 on the model's own subscription log.                   *)
EXTENDS Integers, Sequences, FiniteSets, TLC, Json

CONSTANTS Ops,      \* operators explored
          NSrc,     \* list operators take 0..NSrc sources
          NRun,     \* resubscribing operators get 1..NRun per-run timelines
          MaxLen,   \* elements per timeline 0..MaxLen
          Gaps,     \* set of gaps, e.g. {0, 1}
          Uniform,  \* TRUE: all gaps of a timeline are equal (smaller quick space)
          Terms,    \* subset of {"C", "E", "U"}
          Counts,   \* finite repeat/retry counts; the unbounded count is always included
          Cuts,     \* downstream take(cut); 0 = no take
          Disposes, \* TRUE: the dispose instant ranges over 0..DspMax as well as "never"
          DspMax,
          Faults,   \* TRUE: the flt-th user callback call raises, flt in 0..2
          NSubs,    \* subscriptions of the same observable object, one after the other (C04)
          NConds,   \* length of the condition script of while_do / do_while
          NArgs,    \* start_with prepends 0..NArgs values
          Build,    \* TRUE: the source list is built one timeline per step (for -simulate: Init stays small)
          Slim      \* TRUE: the quick tier's single run - the expensive dimensions are not multiplied (see SlimOK)

INF   == 99           \* unbounded repeat / retry count
NEVER == 999          \* "not yet" / "never" instant
FN    == 50           \* error token of a raising user callback (source errors are 1..NSrc)
ListOps == {"concat", "for_in", "catch", "oern", "oern_f"}
RunOps  == {"repeat", "retry", "while_do", "do_while"}
CbOps   == {"for_in", "oern_f", "catch_handler", "while_do", "do_while"}   \* operators with a user callback

VARIABLES op, par, srcs, cut, dsp, flt,                    \* the scenario
          now, cur, pos, st, out, subs, done, pend, pe,    \* one subscription's execution
          disposed, k, hist,                               \* dispose happened; subscription number; earlier subscriptions
          kk                                               \* number of sources of the scenario (target while building)
scnvars == <<op, par, srcs, cut, dsp, flt, kk>>
vars == <<op, par, srcs, cut, dsp, flt, now, cur, pos, st, out, subs, done, pend, pe, disposed, k, hist, kk>>

(* ---- timelines ----------------------------------------------------------------------- *)
TLsOf(m) == {tl \in [n : {m}, g : [1..(m + 1) -> Gaps], t : Terms] :
               /\ (tl.t = "U" => tl.g[m + 1] = 0)
               /\ (Uniform => \A a, b \in 1..(IF tl.t = "U" THEN m ELSE m + 1) : tl.g[a] = tl.g[b])}
TLs == UNION {TLsOf(m) : m \in 0..MaxLen}
Events(tl) == tl.n + (IF tl.t = "U" THEN 0 ELSE 1)       \* number of events the timeline delivers
RECURSIVE SumG(_, _)
SumG(tl, q) == IF q = 0 THEN 0 ELSE SumG(tl, q - 1) + tl.g[q]
Dur(tl) == SumG(tl, Events(tl))

Ks(o) == CASE o \in ListOps        -> 0..NSrc
           [] o = "start_with"     -> {1}
           [] o = "catch_handler"  -> {2}
           [] OTHER                -> 1..NRun

ParamsOf(o) ==
  CASE o \in {"repeat", "retry"}      -> [n : Counts \cup {INF}]
    [] o \in {"while_do", "do_while"} -> [c : [1..NConds -> BOOLEAN]]   \* the i-th call answers c[i]; later calls FALSE
    [] o = "start_with"               -> [a : 0..NArgs]                 \* number of prepended values <<0, i>>
    [] OTHER                          -> {[z |-> 0]}

\* which terminal kinds make the operator go on to the next source
ContOn(o) == CASE o \in {"concat", "for_in", "repeat", "while_do", "do_while", "start_with"} -> {"C"}
               [] o \in {"catch", "retry", "catch_handler"} -> {"E"}
               [] OTHER -> {"C", "E"}

Min2(a, b) == IF a <= b THEN a ELSE b
\* timeline used by the i-th subscription the operator makes
SrcAt(o, i, K) == IF o \in RunOps THEN Min2(i, K) ELSE i

\* unbounded counts must be stopped by a run that does not continue, or by take over a
\* repeating run that has at least one element (otherwise the real run never ends either)
Terminates(o, p, ss, c) ==
  IF o \in {"repeat", "retry"} /\ p.n = INF
  THEN \/ \E j \in 1..Len(ss) : ss[j].t \notin ContOn(o)
       \/ (c > 0 /\ ss[Len(ss)].n >= 1)
  ELSE TRUE

\* A source listed after one whose terminal the operator does not continue on is never subscribed,
\* whatever its shape: one representative (with an element, so a wrong subscription shows) suffices.
Canon == CHOOSE tl \in TLs : tl.n = MaxLen /\ \A q \in 1..(MaxLen + 1) : tl.g[q] = tl.g[1]
Relevant(o, ss) == \A j \in 2..Len(ss) : (\E i \in 1..(j - 1) : ss[i].t \notin ContOn(o)) => ss[j] = Canon

(* ---- notifications ----------------------------------------------------------------------- *)
N(v)  == [k |-> "N", v |-> v, e |-> 0]
Cn    == [k |-> "C", v |-> <<0, 0>>, e |-> 0]
En(e) == [k |-> "E", v |-> <<0, 0>>, e |-> e]
Stamp(x, at) == [at |-> at, k |-> x.k, v |-> x.v, e |-> x.e]
NCount(o) == Len(SelectSeq(o, LAMBDA x : x.k = "N"))
\* append the emissions to the output through the optional take(c)
RECURSIVE EmitAll(_, _, _, _)
EmitAll(o, em, at, c) ==
  IF em = <<>> THEN [out |-> o, hit |-> FALSE]
  ELSE LET x == Head(em)  o2 == Append(o, Stamp(x, at)) IN
       IF x.k = "N" /\ c > 0 /\ NCount(o2) = c THEN [out |-> Append(o2, Stamp(Cn, at)), hit |-> TRUE]
       ELSE EmitAll(o2, Tail(em), at, c)

(* ---- the transducer: one decision per reaction hop -------------------------------------- *)
\* per-subscription operator state: idx = sources taken from the argument list so far (a FRESH
\* iterator for every subscription: that is C04), calls = arguments of the user-callback calls
S0 == [idx |-> 0, calls |-> <<>>]
OpenR(s, j)  == [open |-> j, em |-> <<>>, st |-> s, fin |-> FALSE]
FinR(s, em)  == [open |-> 0, em |-> em, st |-> s, fin |-> TRUE]
Call(s, a)   == [s EXCEPT !.calls = Append(@, a)]
Raises(s, f) == Faults /\ f = Len(s.calls) + 1      \* the callback call about to be made raises
Take1(s)     == [s EXCEPT !.idx = @ + 1]

\* condition call of while_do / do_while; r = subscriptions made so far
CondStep(p, K, f, s, r) ==
  LET i == Len(s.calls) + 1 IN
  IF Raises(s, f) THEN FinR(Call(s, 0), <<En(FN)>>)
  ELSE IF i <= NConds /\ p.c[i] THEN OpenR(Call(s, 0), Min2(r + 1, K))
  ELSE FinR(Call(s, 0), <<Cn>>)

\* why = "S" subscribed, "C" / "E" the open source terminated that way (e = its error token)
Decide(o, p, K, f, s, r, why, e) ==
  CASE o = "concat" ->
         IF why = "E" THEN FinR(s, <<En(e)>>)
         ELSE IF s.idx < K THEN OpenR(Take1(s), s.idx + 1) ELSE FinR(s, <<Cn>>)
    [] o = "for_in" ->      \* the mapper is called with the (idx+1)-th value when the source is needed
         IF why = "E" THEN FinR(s, <<En(e)>>)
         ELSE IF s.idx < K THEN (IF Raises(s, f) THEN FinR(Call(s, s.idx + 1), <<En(FN)>>)
                                 ELSE OpenR(Call(Take1(s), s.idx + 1), s.idx + 1))
         ELSE FinR(s, <<Cn>>)
    [] o = "catch" ->
         IF why = "C" THEN FinR(s, <<Cn>>)
         ELSE IF s.idx < K THEN OpenR(Take1(s), s.idx + 1)
         ELSE FinR(s, IF why = "S" THEN <<Cn>> ELSE <<En(e)>>)
    [] o = "oern" ->
         IF s.idx < K THEN OpenR(Take1(s), s.idx + 1) ELSE FinR(s, <<Cn>>)
    [] o = "oern_f" ->      \* every source is a factory called with the previous error (0 = None)
         IF s.idx < K THEN (LET a == IF why = "E" THEN e ELSE 0 IN
                            IF Raises(s, f) THEN FinR(Call(s, a), <<En(FN)>>)
                            ELSE OpenR(Call(Take1(s), a), s.idx + 1))
         ELSE FinR(s, <<Cn>>)
    [] o = "repeat" ->
         IF why = "E" THEN FinR(s, <<En(e)>>)
         ELSE IF p.n = INF \/ r < p.n THEN OpenR(s, Min2(r + 1, K)) ELSE FinR(s, <<Cn>>)
    [] o = "retry" ->
         IF why = "C" THEN FinR(s, <<Cn>>)
         ELSE IF p.n = INF \/ r < p.n THEN OpenR(s, Min2(r + 1, K))
         ELSE FinR(s, IF why = "S" THEN <<Cn>> ELSE <<En(e)>>)
    [] o = "while_do" ->
         IF why = "E" THEN FinR(s, <<En(e)>>) ELSE CondStep(p, K, f, s, r)
    [] o = "do_while" ->
         (CASE why = "S" -> OpenR(s, 1)
            [] why = "E" -> FinR(s, <<En(e)>>)
            [] OTHER     -> CondStep(p, K, f, s, r))
    [] o = "start_with" ->
         (CASE why = "S" -> [open |-> 1, em |-> [i \in 1..p.a |-> N(<<0, i>>)], st |-> s, fin |-> FALSE]
            [] why = "C" -> FinR(s, <<Cn>>)
            [] OTHER     -> FinR(s, <<En(e)>>))
    [] o = "catch_handler" ->   \* handler(error, source) gives the second source
         (CASE why = "S" -> OpenR(s, 1)
            [] why = "C" -> FinR(s, <<Cn>>)
            [] OTHER     -> IF r = 1 THEN (IF Raises(s, f) THEN FinR(Call(s, e), <<En(FN)>>)
                                           ELSE OpenR(Call(s, e), 2))
                            ELSE FinR(s, <<En(e)>>))
    [] OTHER -> FinR(s, <<Cn>>)

(* ---- the runner ---------------------------------------------------------------------------- *)
\* Quick tier (one TLC invocation): three sources only for the list operators with distinct code paths and
\* without take; dispose instants only without take, over at most two sources / one run timeline and one count.
SlimOK(o, p, ss, c, d) ==
  /\ (Len(ss) >= 3) => (o \in {"concat", "for_in", "catch", "oern"} /\ (c = 0 \/ o = "concat") /\ d = NEVER)
  /\ (d # NEVER) => /\ c = 0
                    /\ (o \in RunOps => Len(ss) = 1)
                    /\ (o \in {"repeat", "retry"} => p.n = 2)

Run0 == /\ now = 0 /\ cur = 0 /\ pos = 0 /\ st = S0 /\ out = <<>> /\ subs = <<>>
        /\ done = FALSE /\ pe = 0 /\ disposed = FALSE /\ k = 1 /\ hist = <<>>
Init == /\ op \in Ops
        /\ par \in ParamsOf(op)
        /\ cut \in Cuts
        /\ dsp \in (IF Disposes THEN 0..DspMax ELSE {}) \cup {NEVER}
        /\ flt \in (IF Faults /\ op \in CbOps THEN 0..2 ELSE {0})
        /\ (NSubs > 1) => dsp = NEVER
        /\ IF Build
           THEN /\ kk \in Ks(op) /\ srcs = <<>> /\ pend = "B"
           ELSE /\ srcs \in UNION {[1..K -> TLs] : K \in Ks(op)}
                /\ kk = Len(srcs) /\ pend = "S"
                /\ Terminates(op, par, srcs, cut)
                /\ Relevant(op, srcs)
                /\ Slim => SlimOK(op, par, srcs, cut, dsp)
                /\ (NSubs > 1 /\ op \in RunOps) => Len(srcs) = 1      \* only then is the resubscribed source cold
        /\ Run0

\* Build mode: one timeline is appended per step; a list that would not terminate is abandoned
AddSrc == /\ pend = "B" /\ Len(srcs) < kk
          /\ \E tl \in TLs : srcs' = Append(srcs, tl)
          /\ UNCHANGED <<op, par, cut, dsp, flt, kk, now, cur, pos, st, out, subs, done, pend, pe, disposed, k, hist>>
Go == /\ pend = "B" /\ Len(srcs) = kk
      /\ Terminates(op, par, srcs, cut)          \* (no Relevant here: sampled lists may carry never-subscribed tails)
      /\ pend' = "S"
      /\ UNCHANGED <<scnvars, now, cur, pos, st, out, subs, done, pe, disposed, k, hist>>

CloseLast(ss, at, half) == [ss EXCEPT ![Len(ss)] = [@ EXCEPT !.c = at, !.h = half]]
GotLast(ss) == [ss EXCEPT ![Len(ss)] = [@ EXCEPT !.got = @ + 1]]

Hop == /\ ~done /\ pend \in {"S", "C", "E"}
       /\ LET r == Decide(op, par, Len(srcs), flt, st, Len(subs), pend, pe)
              em == EmitAll(out, r.em, now, cut)
              stop == em.hit \/ r.fin IN
          /\ out' = em.out /\ st' = r.st
          /\ done' = stop
          /\ cur' = IF stop THEN 0 ELSE r.open
          /\ subs' = IF stop THEN subs
                     ELSE Append(subs, [s |-> r.open, o |-> now, c |-> NEVER, h |-> 0, got |-> 0])
       /\ pos' = 0 /\ pend' = "" /\ pe' = 0
       /\ UNCHANGED <<scnvars, now, disposed, k, hist>>

Deliver == /\ ~done /\ pend = "" /\ cur # 0
           /\ LET tl == srcs[cur]  j == pos + 1 IN
              /\ j <= Events(tl)
              /\ now + tl.g[j] <= dsp
              /\ now' = now + tl.g[j] /\ pos' = j
              /\ IF j <= tl.n
                 THEN LET em == EmitAll(out, <<N(<<cur, j>>)>>, now', cut) IN
                      /\ out' = em.out
                      /\ done' = em.hit
                      /\ subs' = IF em.hit THEN CloseLast(GotLast(subs), now', 0) ELSE GotLast(subs)
                      /\ cur' = IF em.hit THEN 0 ELSE cur
                      /\ pend' = "" /\ pe' = 0
                 ELSE /\ subs' = CloseLast(subs, now', 0)
                      /\ cur' = 0 /\ pend' = tl.t /\ pe' = cur
                      /\ UNCHANGED <<out, done>>
           /\ UNCHANGED <<scnvars, st, disposed, k, hist>>

\* nothing more can happen at or before instant dsp: the subscriber disposes at dsp + 1/2
Dispose == /\ ~done /\ pend = "" /\ cur # 0 /\ dsp # NEVER
           /\ LET tl == srcs[cur] IN pos + 1 > Events(tl) \/ now + tl.g[pos + 1] > dsp
           /\ done' = TRUE /\ disposed' = TRUE /\ cur' = 0
           /\ subs' = CloseLast(subs, dsp, 1)
           /\ UNCHANGED <<scnvars, now, pos, st, out, pend, pe, k, hist>>

\* C04: the same observable object is subscribed again after the previous subscription ended
Resubscribe == /\ done /\ k < NSubs
               /\ hist' = Append(hist, [out |-> out, subs |-> subs, calls |-> st.calls])
               /\ k' = k + 1
               /\ now' = 0 /\ cur' = 0 /\ pos' = 0 /\ st' = S0 /\ out' = <<>> /\ subs' = <<>>
               /\ done' = FALSE /\ pend' = "S" /\ pe' = 0
               /\ UNCHANGED <<scnvars, disposed>>

Next == AddSrc \/ Go \/ Hop \/ Deliver \/ Dispose \/ Resubscribe
Spec == Init /\ [][Next]_vars

Stuck == ~done /\ pend = "" /\ cur # 0 /\ pos + 1 > Events(srcs[cur]) /\ dsp = NEVER   \* waiting on an unterminated source
Final == (done /\ k = NSubs) \/ Stuck

(* ---- C10 on the model -------------------------------------------------------------------------- *)
K == Len(srcs)
Grammar == \A j \in 1..Len(out) : out[j].k # "N" => j = Len(out)
Causal  == \A j \in 1..(Len(out) - 1) : out[j].at <= out[j + 1].at
Silent  == \A j \in 1..Len(out) : out[j].at <= dsp
\* at most one source subscription is open at any time, and the intervals are disjoint and ordered
NoOverlap == /\ \A j \in 1..Len(subs) : (subs[j].c = NEVER) => (j = Len(subs) /\ cur = subs[j].s)
             /\ (cur # 0) => (Len(subs) > 0 /\ subs[Len(subs)].c = NEVER)
             /\ \A j \in 1..(Len(subs) - 1) : subs[j].o <= subs[j].c /\ subs[j].c <= subs[j + 1].o
\* sources are taken in argument order (runs of the one source in run order)
InOrder == \A j \in 1..Len(subs) : subs[j].s = SrcAt(op, j, K)
\* the next source is opened at the instant the previous one terminated, that terminal is one the
\* operator continues on, and the previous source was consumed completely
Continuation == \A j \in 1..(Len(subs) - 1) :
                   /\ subs[j + 1].o = subs[j].c /\ subs[j].h = 0
                   /\ srcs[subs[j].s].t \in ContOn(op)
                   /\ subs[j].got = srcs[subs[j].s].n
\* the output is the concatenation of the consumed prefixes (after start_with's values)
RECURSIVE CatGot(_)
CatGot(i) == IF i = 0 THEN <<>> ELSE CatGot(i - 1) \o [q \in 1..subs[i].got |-> <<subs[i].s, q>>]
OutVals == LET ns == SelectSeq(out, LAMBDA x : x.k = "N") IN [j \in 1..Len(ns) |-> ns[j].v]
ArgVals == IF op = "start_with" THEN [i \in 1..par.a |-> <<0, i>>] ELSE <<>>
OutConcat == IF Len(subs) = 0 THEN OutVals = SubSeq(ArgVals, 1, Len(OutVals))
             ELSE OutVals = ArgVals \o CatGot(Len(subs))
Released == done => (cur = 0 /\ \A j \in 1..Len(subs) : subs[j].c # NEVER)
RepeatCount == (op = "repeat" /\ par.n # INF /\ done /\ dsp = NEVER /\ cut = 0 /\ flt = 0
                /\ \A j \in 1..K : srcs[j].t = "C") => Len(subs) = par.n
RetryCount == (op = "retry" /\ par.n # INF) => Len(subs) <= par.n
\* C04: every subscription of the same object observes the same thing, relative to its start
Resub == /\ \A j \in 1..Len(hist) : hist[j] = hist[1]
         /\ (Len(hist) > 0 /\ Final) => hist[1] = [out |-> out, subs |-> subs, calls |-> st.calls]

(* ---- reference: closed form from terminal kinds and gap sums ------------------------------------ *)
LeadTrue(c) == CHOOSE m \in 0..NConds : (\A j \in 1..m : c[j]) /\ (m = NConds \/ ~c[m + 1])
RefBound == cut + K + 1       \* enough runs for an unbounded count to reach the cut
MaxSubs == CASE op \in ListOps         -> K
             [] op \in {"repeat", "retry"} -> IF par.n = INF THEN RefBound ELSE par.n
             [] op = "while_do"        -> LeadTrue(par.c)
             [] op = "do_while"        -> 1 + LeadTrue(par.c)
             [] op = "start_with"      -> 1
             [] OTHER                  -> 2
TLAt(i) == srcs[SrcAt(op, i, K)]
RefNSubs == LET stops == {i \in 1..MaxSubs : TLAt(i).t \notin ContOn(op)} IN
            IF stops = {} THEN MaxSubs ELSE CHOOSE i \in stops : \A h \in stops : i <= h
RECURSIVE OpenAt(_)
OpenAt(i) == IF i = 1 THEN 0 ELSE OpenAt(i - 1) + Dur(TLAt(i - 1))
TimedElems(i) == LET tl == TLAt(i) IN
                 [q \in 1..tl.n |-> [at |-> OpenAt(i) + SumG(tl, q), k |-> "N", v |-> <<SrcAt(op, i, K), q>>, e |-> 0]]
RECURSIVE RefElems(_)
RefElems(i) == IF i = 0 THEN [j \in 1..Len(ArgVals) |-> [at |-> 0, k |-> "N", v |-> ArgVals[j], e |-> 0]]
               ELSE RefElems(i - 1) \o TimedElems(i)
RefTerminal ==    \* sequence of zero or one timed terminal, cut = 0
  IF RefNSubs = 0 THEN <<Stamp(Cn, 0)>>
  ELSE LET tl == TLAt(RefNSubs)  at == OpenAt(RefNSubs) + Dur(tl)  j == SrcAt(op, RefNSubs, K) IN
       CASE tl.t = "U" -> <<>>
         [] tl.t \notin ContOn(op) -> <<Stamp(IF tl.t = "C" THEN Cn ELSE En(j), at)>>
         [] op \in {"catch", "retry", "catch_handler"} -> <<Stamp(En(j), at)>>     \* budget / list exhausted on an error
         [] OTHER -> <<Stamp(Cn, at)>>
RefOut == LET els == RefElems(RefNSubs) IN
          IF cut > 0 /\ Len(els) >= cut
          THEN Append(SubSeq(els, 1, cut), Stamp(Cn, els[cut].at))
          ELSE els \o RefTerminal
RefSubs == [i \in 1..RefNSubs |-> [s |-> SrcAt(op, i, K), o |-> OpenAt(i),
                                   c |-> IF TLAt(i).t = "U" THEN NEVER ELSE OpenAt(i) + Dur(TLAt(i))]]
RefOK == (Final /\ dsp = NEVER /\ flt = 0) =>
           /\ out = RefOut
           /\ (cut = 0) => /\ Len(subs) = RefNSubs
                           /\ \A i \in 1..RefNSubs : /\ subs[i].s = RefSubs[i].s /\ subs[i].o = RefSubs[i].o
                                                     /\ subs[i].c = RefSubs[i].c

(* ---- export ----------------------------------------------------------------------------------------- *)
\* scenarios whose dispose instant / fault position is never reached duplicate the plain scenario
Export == (Final /\ (dsp = NEVER \/ disposed) /\ (flt = 0 \/ Len(st.calls) >= flt)) =>
            PrintT(ToJson([scn |-> [op |-> op, par |-> par, srcs |-> srcs, cut |-> cut, dsp |-> dsp, flt |-> flt],
                           obs |-> [out |-> out, subs |-> subs, calls |-> st.calls]]))
================================================================================
