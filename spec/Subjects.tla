------------------------------ MODULE Subjects ------------------------------
(* L2: Subject, BehaviorSubject, AsyncSubject (C20, C21, C23) as one abstract object with a
   Kind constant.  (ReplaySubject, which delivers through a scheduler, is SubjectsReplay.tla.)

   Call HISTORIES are enumerated lazily (DESIGN 2.2): whenever the driver is at top level,
   or an observer callback runs, the next call is chosen from a bounded menu and a global
   budget and appended to the script (`top` / `body[o][r]` = what observer o does on its
   r-th receipt).  The exported script is performed on the real subject; the comparison is
   stepwise (per-observer log lengths after every top-level call, the outcome of every call
   in invocation order, the final logs).

   The object is stated twice:
     * transducer  - snapshot of the observers at the call, turn-by-turn delivery, skipping
                     observers unsubscribed by the time their turn comes, subscribe-time
                     delivery of the current value / the terminal;
     * reference   - `Expected(o)`, computed from the list of effective emitting calls, each
                     with the SET of observers subscribed when the call was made
                     (the property's own words).
   TLC checks that they agree (CallOrder / Broadcast / Silenced) on every state.

   Re-entrant emission (an observer calling on_next/on_error/on_completed from inside a
   callback) follows the statement: "each notification, in call order, to the observers
   subscribed when the call is made" - the nested call takes its snapshot and changes the
   subject's state when it is made, its deliveries come after the deliveries of the calls
   made before it (queue `pend`).                                                        *)
EXTENDS Naturals, Sequences, FiniteSets, TLC, Json

CONSTANTS Kind,       \* "subject" | "behavior" | "async"
          MaxCmds,    \* global budget of calls (top level + inside callbacks)
          MaxSubs,    \* at most this many subscribe calls
          MaxBody,    \* calls per callback invocation
          CbCmds,     \* subset of {"unsub","sub","next","error","completed","dispose"} offered inside callbacks
          TopCmds     \* subset of {"sub","subnh","unsub","next","error","completed","dispose"} offered at top level

VARIABLES obs,      \* sequence of live subscription ids, in subscription order
          stopped, term, exc, disposed,
          value, hasValue,
          nsub, gone, ret, subMode, subAt, lenGone,
          log,      \* id -> sequence of <<kind, token, call index>>
          calls,    \* effective emitting calls: [k, v, rc] with rc = SET of ids subscribed at the call
          pend,     \* queue of broadcasts not yet delivered (call order)
          stack,    \* frames: delivery in progress / callback running
          open, budget, nnext, nerr,
          top, body, res, steps

vars == <<obs, stopped, term, exc, disposed, value, hasValue, nsub, gone, ret, subMode, subAt,
          lenGone, log, calls, pend, stack, open, budget, nnext, nerr, top, body, res, steps>>

DisposedTok == 99          \* the DisposedException, when it is delivered to an on_error handler
Ids == 1..MaxSubs
Range(s) == {s[i] : i \in 1..Len(s)}
Without(s, x) == SelectSeq(s, LAMBDA y : y # x)
Top == stack[Len(stack)]
Pop == SubSeq(stack, 1, Len(stack) - 1)
Quiescent == stack = <<>> /\ pend = <<>>

Init == /\ obs = <<>> /\ stopped = FALSE /\ term = "N" /\ exc = 0 /\ disposed = FALSE
        /\ value = 0 /\ hasValue = (Kind = "behavior")
        /\ nsub = 0 /\ gone = {} /\ ret = {} /\ subMode = [i \in Ids |-> "none"]
        /\ subAt = [i \in Ids |-> 0] /\ lenGone = [i \in Ids |-> 0]
        /\ log = [i \in Ids |-> <<>>] /\ calls = <<>> /\ pend = <<>> /\ stack = <<>>
        /\ open = FALSE /\ budget = MaxCmds /\ nnext = 0 /\ nerr = 0
        /\ top = <<>> /\ body = [i \in Ids |-> <<>>] /\ res = <<>> /\ steps = <<>>

(* ---- who may issue a call, and where it is written down ------------------------------ *)
AtTop == Quiescent /\ ~open
InCb  == stack # <<>> /\ Top.t = "C" /\ Len(body[Top.o][Top.r]) < MaxBody
Nested == stack # <<>>
Offered(c) == IF Nested THEN c \in CbCmds ELSE c \in TopCmds
CanCall(c) == budget > 0 /\ (AtTop \/ InCb) /\ Offered(c)

\* the script entry, the outcome entry (r: 0 returned, 1 raised DisposedException, 2 the
\* DisposedException went to the subscriber's on_error), bookkeeping of the budget
Note(c, a, r) ==
    /\ IF Nested THEN /\ body' = [body EXCEPT ![Top.o][Top.r] = Append(@, [c |-> c, a |-> a])]
                      /\ UNCHANGED <<top, open>>
                 ELSE /\ top' = Append(top, [c |-> c, a |-> a]) /\ open' = TRUE /\ UNCHANGED body
    /\ res' = Append(res, [c |-> c, r |-> r, s |-> IF Nested THEN Len(top) ELSE Len(top) + 1,
                           n |-> Nested, d |-> disposed,
                           e |-> (c \in {"next", "error", "completed"} /\ ~disposed /\ ~stopped)])
    /\ budget' = budget - 1

(* ---- what a subscriber is handed at subscription -------------------------------------- *)
TermItems(o, c) ==     \* what a subject in its final state hands to o (call index c: 0 = at subscription)
    IF term = "E" THEN << <<o, "E", exc, c>> >>
    ELSE IF Kind = "async" /\ hasValue THEN << <<o, "N", value, c>>, <<o, "C", 0, c>> >>
    ELSE << <<o, "C", 0, c>> >>

Deliv(items, sub) == [t |-> "D", items |-> items, pos |-> 1, sub |-> sub]

(* ---- the calls ---------------------------------------------------------------------- *)
\* subscribe; h = the subscriber has an on_error handler
Sub(h) ==
    LET n == nsub + 1  c == IF h THEN "sub" ELSE "subnh" IN
    /\ CanCall(c) /\ nsub < MaxSubs /\ nsub' = n
    /\ (h \/ disposed)      \* a subscriber without on_error is only driven where the statement speaks of raising
    /\ subAt' = [subAt EXCEPT ![n] = Len(calls)]
    /\ IF disposed
       THEN \* fails with DisposedException: raised to the caller, or (subscriber with a
            \* handler) handed to its on_error - both accepted (DESIGN D.8)
            \E r \in (IF h THEN {1, 2} ELSE {1}) :
              /\ Note(c, n, r)
              /\ subMode' = [subMode EXCEPT ![n] = "disp"]
              /\ log' = IF r = 2 THEN [log EXCEPT ![n] = << <<"E", DisposedTok, 0>> >>] ELSE log
              /\ UNCHANGED <<obs, stack, ret>>
       ELSE /\ Note(c, n, 0)
            /\ IF stopped
               THEN /\ subMode' = [subMode EXCEPT ![n] = "late"]
                    /\ stack' = Append(stack, Deliv(TermItems(n, 0), n))
                    /\ UNCHANGED <<obs, ret, log>>
               ELSE /\ subMode' = [subMode EXCEPT ![n] = "live"]
                    /\ obs' = Append(obs, n)
                    /\ IF Kind = "behavior"
                       THEN stack' = Append(stack, Deliv(<< <<n, "N", value, 0>> >>, n)) /\ UNCHANGED ret
                       ELSE ret' = ret \cup {n} /\ UNCHANGED stack
                    /\ UNCHANGED log
    /\ UNCHANGED <<stopped, term, exc, disposed, value, hasValue, gone, lenGone, calls, pend, nnext, nerr, steps>>

\* dispose the subscription handle of j (only handles that subscribe() has returned exist)
Unsub == \E j \in ret :
    /\ CanCall("unsub") /\ Note("unsub", j, 0)
    /\ gone' = gone \cup {j} /\ obs' = Without(obs, j)
    /\ lenGone' = IF j \in gone THEN lenGone ELSE [lenGone EXCEPT ![j] = Len(log[j])]
    /\ UNCHANGED <<stopped, term, exc, disposed, value, hasValue, nsub, ret, subMode, subAt, log, calls,
                   pend, stack, nnext, nerr, steps>>

Snapshot(k, v) ==   \* one delivery to the snapshot taken now
    LET c == Len(calls) + 1 IN
    IF Kind = "async" /\ k = "N" THEN <<>>
    ELSE IF Kind = "async" /\ k = "C" /\ hasValue
    THEN << Deliv([i \in 1..(2 * Len(obs)) |-> IF i % 2 = 1 THEN <<obs[(i + 1) \div 2], "N", value, c>>
                                                        ELSE <<obs[i \div 2], "C", 0, c>>], 0) >>
    ELSE << Deliv([i \in 1..Len(obs) |-> <<obs[i], k, v, c>>], 0) >>

OnNext ==
    LET v == nnext + 1 IN
    /\ CanCall("next") /\ nnext' = v
    /\ IF disposed THEN Note("next", v, 1) /\ UNCHANGED <<value, hasValue, calls, pend>>
       ELSE /\ Note("next", v, 0)
            /\ IF stopped THEN UNCHANGED <<value, hasValue, calls, pend>>
               ELSE /\ value' = IF Kind = "subject" THEN value ELSE v
                    /\ hasValue' = (hasValue \/ Kind = "async")
                    /\ calls' = Append(calls, [k |-> "N", v |-> v, rc |-> IF Kind = "async" THEN {} ELSE Range(obs)])
                    /\ pend' = pend \o Snapshot("N", v)
    /\ UNCHANGED <<obs, stopped, term, exc, disposed, nsub, gone, ret, subMode, subAt, lenGone, log, stack, nerr, steps>>

Terminate(k) ==
    LET c == IF k = "E" THEN "error" ELSE "completed"
        v == IF k = "E" THEN nerr + 1 ELSE 0 IN
    /\ CanCall(c) /\ nerr' = IF k = "E" THEN v ELSE nerr
    /\ IF disposed THEN Note(c, v, 1) /\ UNCHANGED <<obs, stopped, term, exc, calls, pend>>
       ELSE /\ Note(c, v, 0)
            /\ IF stopped THEN UNCHANGED <<obs, stopped, term, exc, calls, pend>>
               ELSE /\ stopped' = TRUE /\ term' = k /\ exc' = v /\ obs' = <<>>
                    /\ calls' = Append(calls, [k |-> k, v |-> v, rc |-> Range(obs)])
                    /\ pend' = pend \o Snapshot(k, v)
    /\ UNCHANGED <<disposed, value, hasValue, nsub, gone, ret, subMode, subAt, lenGone, log, stack, nnext, steps>>

\* observers that still have a turn coming in a delivery under way (or queued)
InFlight == {o \in Ids : \/ \E f \in 1..Len(stack) : stack[f].t = "D" /\ \E i \in stack[f].pos..Len(stack[f].items) : stack[f].items[i][1] = o
                         \/ \E f \in 1..Len(pend) : \E i \in 1..Len(pend[f].items) : pend[f].items[i][1] = o}

\* dispose(): every later emitting / subscribing call raises.  From inside a callback (CbCmds), the statement
\* does not say whether the members of the snapshot whose turn has not come yet still get the notification
\* ("unsubscribe all observers"): any subset K of them may be cut off - but whoever is served is served the
\* notification of the call as it was made (the value captured at the call, not the disposed subject's).
Dispose == \E K \in SUBSET (InFlight \ gone) :
    /\ CanCall("dispose") /\ Note("dispose", 0, 0)
    /\ disposed' = TRUE /\ obs' = <<>>
    /\ gone' = gone \cup K /\ lenGone' = [o \in Ids |-> IF o \in K THEN Len(log[o]) ELSE lenGone[o]]
    /\ UNCHANGED <<stopped, term, exc, value, hasValue, nsub, ret, subMode, subAt, log, calls,
                   pend, stack, nnext, nerr, steps>>

(* ---- delivery machinery --------------------------------------------------------------- *)
\* the next broadcast, in call order, once everything before it has been delivered
Drain == /\ stack = <<>> /\ pend # <<>>
         /\ stack' = <<Head(pend)>> /\ pend' = Tail(pend)
         /\ UNCHANGED <<obs, stopped, term, exc, disposed, value, hasValue, nsub, gone, ret, subMode, subAt,
                        lenGone, log, calls, open, budget, nnext, nerr, top, body, res, steps>>

\* the turn of the next member of the snapshot: skipped if it has been unsubscribed meanwhile
Turn == /\ stack # <<>> /\ Top.t = "D" /\ Top.pos <= Len(Top.items)
        /\ LET it == Top.items[Top.pos]  o == it[1] IN
           IF o \in gone
           THEN stack' = [stack EXCEPT ![Len(stack)].pos = @ + 1] /\ UNCHANGED <<log, body>>
           ELSE /\ log' = [log EXCEPT ![o] = Append(@, <<it[2], it[3], it[4]>>)]
                /\ body' = [body EXCEPT ![o] = Append(@, <<>>)]
                /\ stack' = Append([stack EXCEPT ![Len(stack)].pos = @ + 1],
                                   [t |-> "C", o |-> o, r |-> Len(body[o]) + 1])
        /\ UNCHANGED <<obs, stopped, term, exc, disposed, value, hasValue, nsub, gone, ret, subMode, subAt,
                       lenGone, calls, pend, open, budget, nnext, nerr, top, res, steps>>

\* a delivery is complete; if it was a subscribe-time delivery, subscribe() now returns the handle
Done == /\ stack # <<>> /\ Top.t = "D" /\ Top.pos > Len(Top.items)
        \* (a top-level subscribe returns only after the broadcasts made meanwhile are delivered: Return)
        /\ stack' = Pop /\ ret' = IF Top.sub # 0 /\ Len(stack) > 1 THEN ret \cup {Top.sub} ELSE ret
        /\ UNCHANGED <<obs, stopped, term, exc, disposed, value, hasValue, nsub, gone, subMode, subAt, lenGone,
                       log, calls, pend, open, budget, nnext, nerr, top, body, res, steps>>

CbEnd == /\ stack # <<>> /\ Top.t = "C" /\ stack' = Pop
         /\ UNCHANGED <<obs, stopped, term, exc, disposed, value, hasValue, nsub, gone, ret, subMode, subAt,
                        lenGone, log, calls, pend, open, budget, nnext, nerr, top, body, res, steps>>

\* the top-level call returns: the stepwise observation
Return == /\ open /\ Quiescent /\ open' = FALSE
          /\ steps' = Append(steps, [i \in 1..nsub |-> Len(log[i])])
          /\ ret' = IF top[Len(top)].c = "sub" /\ subMode[top[Len(top)].a] # "disp"
                    THEN ret \cup {top[Len(top)].a} ELSE ret
          /\ UNCHANGED <<obs, stopped, term, exc, disposed, value, hasValue, nsub, gone, subMode, subAt,
                         lenGone, log, calls, pend, stack, budget, nnext, nerr, top, body, res>>

Next == Sub(TRUE) \/ Sub(FALSE) \/ Unsub \/ OnNext \/ Terminate("E") \/ Terminate("C") \/ Dispose
        \/ Drain \/ Turn \/ Done \/ CbEnd \/ Return

Spec == Init /\ [][Next]_vars

(* ---- the reference: what the statement says each observer receives --------------------- *)
Proj(s) == [i \in 1..Len(s) |-> <<s[i][1], s[i][2]>>]
IsPrefix(a, b) == Len(a) <= Len(b) /\ \A i \in 1..Len(a) : a[i] = b[i]

\* what call i means to a recipient
CallItems(i) == IF Kind = "async" /\ calls[i].k = "C" /\ (\E j \in 1..(i - 1) : calls[j].k = "N")
                THEN << <<"N", calls[CHOOSE j \in 1..(i - 1) : calls[j].k = "N" /\ \A m \in (j + 1)..(i - 1) : calls[m].k # "N"].v>>,
                        <<"C", 0>> >>
                ELSE << <<calls[i].k, calls[i].v>> >>

\* the notifications of the calls made while o was subscribed, in call order
CallsFor(o) == LET F[i \in 0..Len(calls)] ==
                     IF i = 0 THEN <<>> ELSE IF o \in calls[i].rc THEN F[i - 1] \o CallItems(i) ELSE F[i - 1]
               IN F[Len(calls)]

\* the value current after the first n effective calls (token 0 = the initial value)
CurrentAfter(n) == IF \E j \in 1..n : calls[j].k = "N"
                   THEN calls[CHOOSE j \in 1..n : calls[j].k = "N" /\ \A m \in (j + 1)..n : calls[m].k # "N"].v
                   ELSE 0
LastCall == calls[Len(calls)]

Expected(o) ==
    CASE subMode[o] = "live" -> (IF Kind = "behavior" THEN << <<"N", CurrentAfter(subAt[o])>> >> ELSE <<>>) \o CallsFor(o)
      [] subMode[o] = "late" -> CallItems(Len(calls))    \* a stopped subject's last effective call is its terminal one
      [] OTHER -> <<>>

Made == {o \in Ids : subMode[o] \in {"live", "late"}}

(* ---- invariants (property level) ------------------------------------------------------ *)
TypeOK == /\ nsub \in 0..MaxSubs /\ budget \in 0..MaxCmds /\ gone \subseteq 1..nsub /\ ret \subseteq 1..nsub
          /\ Range(obs) \subseteq (1..nsub) \ gone /\ (stopped => obs = <<>>)
          /\ Len(steps) = Len(top) - (IF open THEN 1 ELSE 0)

\* C01 inside the subject: nothing after a terminal notification
Grammar == \A o \in Ids : \A i \in 1..(Len(log[o]) - 1) : log[o][i][1] = "N"

\* C20 "in call order ... to exactly the observers subscribed when the call is made":
\* at every moment an observer has received a prefix of what the statement entitles it to,
\* tagged with increasing call indices
CallOrder == \A o \in Made : /\ IsPrefix(Proj(log[o]), Expected(o))
                             /\ \A i \in 1..(Len(log[o]) - 1) : log[o][i][3] <= log[o][i + 1][3]
\* ... and all of it once every call has returned, unless it unsubscribed
Broadcast == Quiescent => \A o \in (Made \cap ret) \ gone : Proj(log[o]) = Expected(o)
\* C03 prevails inside a delivery: nothing is received after the unsubscription
Silenced == \A o \in gone : Len(log[o]) = lenGone[o]
\* a subscriber arriving after termination receives only the terminal notification (C20, C21)
LateTerminal == (Kind # "async") =>
                  \A o \in (Made \cap ret) \ gone : subMode[o] = "late" =>
                     Proj(log[o]) = << <<term, exc>> >> /\ term \in {"C", "E"}
\* after dispose() emitting and subscribing raise DisposedException
DisposedRaises == \A i \in 1..Len(res) :
                     /\ res[i].c \in {"next", "error", "completed", "sub", "subnh"} => ((res[i].r # 0) <=> res[i].d)
                     /\ res[i].r = 2 => res[i].c = "sub"
                     /\ res[i].c \in {"unsub", "dispose"} => res[i].r = 0
\* C21: the first thing a live subscriber receives is the value current at its subscription
CurrentFirst == (Kind = "behavior") =>
                  \A o \in Made \cap ret : subMode[o] = "live" =>
                     (o \in gone /\ lenGone[o] = 0) \/ (Len(log[o]) > 0 /\ Proj(log[o])[1] = <<"N", CurrentAfter(subAt[o])>>)
\* ... afterwards its log is the Subject log from that point on
ThenLikeSubject == (Kind = "behavior") =>
                  \A o \in Made : (subMode[o] = "live" /\ Len(log[o]) > 0) => IsPrefix(Tail(Proj(log[o])), CallsFor(o))
\* C23
SilentUntilDone == (Kind = "async" /\ ~stopped) => \A o \in Made : log[o] = <<>>
LastThenCompleted == (Kind = "async" /\ Quiescent /\ term = "C") =>
                       \A o \in (Made \cap ret) \ gone :
                          Proj(log[o]) = (IF \E j \in 1..Len(calls) : calls[j].k = "N"
                                          THEN << <<"N", CurrentAfter(Len(calls))>> >> ELSE <<>>) \o << <<"C", 0>> >>
ErrorOnly == (Kind = "async" /\ Quiescent /\ term = "E") =>
                       \A o \in (Made \cap ret) \ gone : Proj(log[o]) = << <<"E", exc>> >>
LateSameAsCurrent == (Kind = "async" /\ Quiescent) =>
                       \A a, b \in (Made \cap ret) \ gone : Proj(log[a]) = Proj(log[b])

(* ---- export -------------------------------------------------------------------------- *)
Export == (AtTop /\ budget = 0) =>
            PrintT(ToJson([scn |-> [kind |-> Kind, top |-> top, body |-> body, n |-> nsub],
                           obs |-> [res |-> [i \in 1..Len(res) |-> res[i].r], steps |-> steps,
                                    logs |-> [o \in Ids |-> Proj(log[o])],
                                    at |-> [i \in 1..Len(res) |-> <<res[i].s, IF res[i].n THEN 1 ELSE 0, IF res[i].e THEN 1 ELSE 0>>],
                                    cs |-> [i \in 1..Len(res) |-> res[i].c],
                                    \* reachability witnesses (the runner requires each of them somewhere in the
                                    \* exhaustive part): a member of a snapshot skipped because it was unsubscribed
                                    \* before its turn; a late subscriber
                                    skips |-> Cardinality({co \in (1..Len(calls)) \X Ids :
                                                 co[2] \in calls[co[1]].rc /\ ~\E i \in 1..Len(log[co[2]]) : log[co[2]][i][3] = co[1]}),
                                    late |-> Cardinality({o \in Ids : subMode[o] = "late"}),
                                    \* a subscribe on the disposed subject has two accepted outcomes: a single
                                    \* simulated behaviour shows only one of them
                                    \* (likewise a dispose() from inside a callback: who is cut off is open)
                                    amb |-> (\E i \in 1..Len(res) : (res[i].c = "sub" /\ res[i].d) \/ (res[i].c = "dispose" /\ res[i].n))]]))
================================================================================
