--------------------------- MODULE EventLoopTrace ---------------------------
(* Binding B for EventLoop.tla: a batch of traces recorded from the real EventLoopScheduler under
   controlled schedules (DetSched, controlled clock) is validated against the abstract object.
   One trace = the totally ordered event list of one execution:
       [e |-> "cfg",  exit]                         first event: exit_if_empty of this scheduler
       [e |-> "call", th, op, item, d, t]           op: imm | rel | abs | cancel | dispose
       [e |-> "ret",  th, res, t]                   res: ok | disposed
       [e |-> "tstart" | "texit", th, t]            the thread function of a loop thread begins / returns
       [e |-> "start" | "end", th, item, t]         the action of an item begins / returns on thread th
       [e |-> "quiesce", t]                         last event: nothing can run any more at clock t
   Call/Ret/TStart/TExit/Start/End/Quiesce consume one event each.  The silent steps - Lin (at most
   one per call), Commit (one per started item), ExitL, and the clock moving on to the time of the
   next event - are placed by TLC: a trace is accepted iff SOME placement explains every event while
   every invariant of EventLoop.tla holds in every state on the way.
   The clock of a silent step is only known to lie between the times of the neighbouring events;
   TTick moves `now` to the next event's time, which is the most permissive reading (Commit needs
   now >= due; everything else reads the time of the call event).                                  *)
EXTENDS EventLoop, Json, TLCExt, IOUtils

CONSTANTS NTraces

Traces == JsonDeserialize(IOEnv.TRACE_FILE)

VARIABLES tid, l

tvars == <<tid, l>>
Ev    == Traces[tid][l]
More  == l <= Len(Traces[tid])
Step  == l' = l + 1 /\ UNCHANGED tid
At    == More /\ Ev.t = now

TInit == /\ tid \in 1..NTraces /\ l = 2 /\ Init /\ xie = Traces[tid][1].exit

TTick == /\ More /\ Ev.t > now /\ now' = Ev.t
         /\ UNCHANGED <<xie, ist, due, imm, eff, seq, cseq, stamp, loopT, alive, ever, disposed, dispRet, pend, handle,
                        runTh, startT, gen, early, late, calls, tid, l>>

TCall   == At /\ Ev.e = "call" /\ Step /\ Call(Ev.th, Ev.op, Ev.item, Ev.d)
TRet    == At /\ Ev.e = "ret" /\ Step /\ pend[Ev.th].res = Ev.res /\ Ret(Ev.th)
TTStart == At /\ Ev.e = "tstart" /\ Step /\ Ev.th \in Loops /\ TStart(Ev.th)
TTExit  == At /\ Ev.e = "texit" /\ Step /\ Ev.th \in Loops /\ TExit(Ev.th)
TStartA == At /\ Ev.e = "start" /\ Step /\ Ev.th \in Loops /\ Start(Ev.th, Ev.item)
TEndA   == At /\ Ev.e = "end" /\ Step /\ Ev.th \in Loops /\ End(Ev.th, Ev.item)

\* quiescence: no thread can run at clock t and the clock will not move (every client finished).
\*  NoLostWakeup : a live scheduler leaves nothing behind that is due and not cancelled
\*  ExitWhenIdle : with exit_if_empty an idle scheduler has no thread (a cancelled timed item may keep the
\*                 thread until its due time - the code discards it only then)
IdleNow == Pending = {} /\ \A x \in Items : ist[x] = "cancelled" => due[x] <= now
TQuiesce == /\ At /\ Ev.e = "quiesce" /\ Step
            /\ Quiet /\ Committed = {} /\ Running = {}
            /\ ~disposed => \A x \in Pending : due[x] > now
            /\ (xie /\ ~disposed /\ IdleNow) => (alive = {} /\ loopT = None)
            /\ UNCHANGED vars

TSilent == /\ UNCHANGED tvars
           /\ \/ \E th \in Threads : Lin(th)
              \/ \E w \in Loops : ExitL(w) \/ \E x \in Items : Commit(w, x)

TNext == TCall \/ TRet \/ TTStart \/ TTExit \/ TStartA \/ TEndA \/ TQuiesce \/ TTick \/ TSilent

Track == TLCSet(tid, IF TLCGet(tid) < l THEN l ELSE TLCGet(tid))
ASSUME \A j \in 1..NTraces : TLCSet(j, 0)

Accepted(j) == TLCGet(j) = Len(Traces[j]) + 1
Post == \A j \in 1..NTraces : Accepted(j) \/ PrintT(<<"REJECTED", j, TLCGet(j)>>)
================================================================================
