------------------------------- MODULE OpsMerge -------------------------------
(* L3, runner "RunHO": an outer timeline whose elements stand for inner sources, and the
   operators that flatten it:

     merging   (C11)  merge(sources...) ["merge_srcs"], merge(max_concurrent = n) ["merge_mc"],
                      merge_all, flat_map, flat_map_indexed, concat_map
     switching (C12)  switch_latest, switch_map, switch_map_indexed, flat_map_latest
     growth           exclusive

   A scenario (variable scn, chosen in Init, never changed) is: the operator; max_concurrent;
   a table `tab` of inner timelines; the flavour of the inner sources; the outer timeline
   whose N-events carry a token 1..Len(tab); the mapper table `fmap` from tokens to inner
   indices (RAISE = the mapper raises: C09 dimension); the instant at which the subscriber
   disposes.

   TIME is counted in half ticks: every event of a timeline sits on an even number, the
   subscriber's dispose() on an odd one, so a dispose never coincides with a notification
   ("strictly between two instants").  The subscription instant is 0.

   LANES (DESIGN 3.2).  The outer subscription is one lane.  Every subscription to a cold
   inner is one lane: its events are due at (subscription instant + relative time).  A hot
   inner is one lane for all its subscribers (absolute times; what happened before a
   subscription is missed).  The order inside a lane is fixed, a lane born from an event
   comes after that event, and two different lanes that are due at the same instant fire
   in either order (Next is nondeterministic there).  Flavour "sync" is a cold inner whose
   events at relative time 0 are delivered inside subscribe() - that is how "an inner that
   completes synchronously at subscription" is written down.

   A lane event makes its first call at once (one TLC step); the calls it still has to make (a hot
   inner calls each of its subscribers, in subscription order) wait in `todo`, and calls made
   from inside a call (the synchronous events of an inner subscribed by that call) go to the
   FRONT of todo - todo is the call stack unrolled.  Step performs the first pending call;
   nothing else fires while todo is not empty.

   The operators are stated twice: the handlers below (implementation shaped: active list,
   queue, outerDone / latest, hasLatest) and, further down, the property as closed predicates on
   (scenario, output, subscription log) - RefOutBody, RefSubsBody, ConcatBody, OutVsSubsBody.
   TLC checks that the first satisfies the second in every final state, and Grammar, Released,
   ActiveOpen, Concurrency, NoIdleSlot, Causal in every state, LatestOnly on every step.     *)
EXTENDS Integers, Sequences, FiniteSets, TLC, Json

CONSTANTS Ops,          \* operator names explored
          MCs,          \* values of max_concurrent for "merge_mc"
          Tabs,         \* names of the inner tables explored (TabOf below; "gen" = all generated tables)
          Flavours,     \* subset of {"cold", "sync", "hot"}
          MaxOuter,     \* at most this many outer elements
          OTimes,       \* ticks at which outer elements may arrive (>= 1)
          OTermTimes,   \* ticks at which the outer may terminate
          OTerms,       \* subset of {"C", "E", "U"} (U: the outer never terminates)
          DspTicks,     \* the subscriber disposes half a tick after one of these ticks ({} = never)
          Takes,        \* the result is cut by take(k), k in Takes (k >= 1; {} = no take): termination from downstream
                        \* in the middle of a notification
          Fbs,          \* feedback: when the subscriber receives its k-th element (k in Fbs; {} = none) it makes the outer
                        \* source deliver one more inner at once, re-entrantly, from inside that notification
          Faults,       \* TRUE: mappers may raise
          FAll,         \* TRUE: every mapper table; FALSE: the identity table (and, if Faults, with one raising entry)
          RG,           \* TRUE: outer tokens form a restricted-growth string (symmetry cut for "gen" tables)
          GenN, GenLen, GenTimes,  \* "gen" tables: GenN inners, <= GenLen events each, at relative ticks GenTimes
          Lazy,         \* TRUE (simulation): the scenario is put together step by step from the generated inner timelines
                        \* instead of being chosen in Init (TLC enumerates all initial states even when it simulates)
          Slices        \* names of the parameter slices explored by this run: "cfg" = the slice given by the constants
                        \* above; the others are the fixed slices of the quick tier (SliceOf below), so that one TLC
                        \* process covers several parameter combinations that are not a cartesian product

MergeOps   == {"merge_all", "merge_mc", "merge_srcs", "flat_map", "flat_map_indexed", "concat_map"}
SwitchOps  == {"switch_latest", "switch_map", "switch_map_indexed", "flat_map_latest"}
ExclOps    == {"exclusive"}
MappedOps  == {"flat_map", "concat_map", "switch_map", "flat_map_latest"}
IndexedOps == {"flat_map_indexed", "switch_map_indexed"}

INF    == 1000      \* "no event"
NEVER  == 999       \* close instant of a subscription that is still open / no dispose
RAISE  == 0         \* mapper result "raises" (inner indices are >= 1)
HotOff == 2         \* a hot inner's relative times are counted from tick 1 (absolute)

Max2(a, b) == IF a >= b THEN a ELSE b
Min2(a, b) == IF a <= b THEN a ELSE b
SetMin(X)  == CHOOSE x \in X : \A y \in X : x <= y
SetMax(X)  == CHOOSE x \in X : \A y \in X : x >= y
Sorted(s)   == \A j \in 1..(Len(s) - 1) : s[j].t <= s[j + 1].t
TermLast(s) == \A j \in 1..Len(s) : s[j].k # "N" => j = Len(s)

(* ---- inner tables ------------------------------------------------------------------------ *)
N(t) == [t |-> 2 * t, k |-> "N"]
C(t) == [t |-> 2 * t, k |-> "C"]
E(t) == [t |-> 2 * t, k |-> "E"]
\* one table per shape class (quick tier); thorough adds the generated ones
TabOf(name) ==
  CASE name = "plain" -> << <<N(1), N(3), C(4)>>, <<N(0), C(2)>>, <<C(0)>> >>          \* overlap, late completion, empty at subscription
    [] name = "short" -> << <<N(0), C(0)>>, <<N(1), C(1)>>, <<N(0), N(0), C(1)>> >>    \* inners that are over before the next one arrives
    [] name = "error" -> << <<N(1), N(3), C(4)>>, <<N(0), E(2)>>, <<E(0)>> >>          \* errors while others are active / at subscription
    [] name = "never" -> << <<N(1), N(2)>>, <<N(0), C(1)>>, <<>> >>                    \* inners that never terminate
    [] name = "long"  -> << <<N(0), N(2), N(4), C(6)>>, <<N(1), N(1), C(3)>>, <<N(2), E(5)>>, <<C(1)>> >>
    [] name = "pair"  -> << <<N(0), N(2), C(2)>>, <<N(1), C(1)>> >>
    [] name = "zero"  -> << <<N(0), C(0)>>, <<N(0), N(0), C(0)>>, <<C(0)>> >>           \* what a mapper returning a list amounts to

TabNames == {"plain", "short", "error", "never", "long", "pair", "zero"}
GenT2    == {2 * t : t \in GenTimes}
InnerTLs == {s \in UNION {[1..n -> [t : GenT2, k : {"N", "C", "E"}]] : n \in 0..GenLen} : Sorted(s) /\ TermLast(s)}
\* Every inner timeline in use sits once in Pool (a constant, evaluated once); a scenario's table is a tuple of
\* positions in Pool, which keeps the states small.
RECURSIVE SetSeq(_)
SetSeq(X) == IF X = {} THEN <<>> ELSE LET x == CHOOSE y \in X : TRUE IN <<x>> \o SetSeq(X \ {x})
Pool == SetSeq((IF "gen" \in Tabs THEN InnerTLs ELSE {}) \cup UNION {{TabOf(nm)[j] : j \in 1..Len(TabOf(nm))} : nm \in TabNames})
PoolIdx(tl) == CHOOSE p \in 1..Len(Pool) : Pool[p] = tl
GenIdx == {PoolIdx(tl) : tl \in InnerTLs}
InnerTables(P) == UNION {IF nm = "gen" THEN [1..GenN -> GenIdx] ELSE {[j \in 1..Len(TabOf(nm)) |-> PoolIdx(TabOf(nm)[j])]} : nm \in P.Tabs}

(* ---- parameter slices ---------------------------------------------------------------------- *)
CfgSlice == [Ops |-> Ops, MCs |-> MCs, Tabs |-> Tabs, Flavours |-> Flavours, MaxOuter |-> MaxOuter, OTimes |-> OTimes,
             OTermTimes |-> OTermTimes, OTerms |-> OTerms, DspTicks |-> DspTicks, Takes |-> Takes, Faults |-> Faults,
             FAll |-> FAll, RG |-> RG, Fbs |-> Fbs]
QB == [Ops |-> {}, MCs |-> {1}, Tabs |-> {"plain"}, Flavours |-> {"cold"}, MaxOuter |-> 3, OTimes |-> {1, 2, 3},
       OTermTimes |-> {2, 5}, OTerms |-> {"C", "E", "U"}, DspTicks |-> {}, Takes |-> {}, Faults |-> FALSE, FAll |-> FALSE, RG |-> TRUE, Fbs |-> {}]
SliceOf(nm) ==
  CASE nm = "cfg" -> CfgSlice
    \* ---- C11 quick ----
    [] nm = "q11_merge" -> [QB EXCEPT !.Ops = {"merge_all", "merge_mc"}, !.MCs = {1, 2}]
    [] nm = "q11_sync"  -> [QB EXCEPT !.Ops = {"merge_all", "merge_mc"}, !.MCs = {1}, !.Flavours = {"sync"}, !.MaxOuter = 2, !.OTermTimes = {2, 3, 5}]
    [] nm = "q11_error" -> [QB EXCEPT !.Ops = {"merge_all", "merge_mc"}, !.MCs = {2}, !.Tabs = {"error"}, !.Flavours = {"sync"}, !.MaxOuter = 2]
    [] nm = "q11_mapped" -> [QB EXCEPT !.Ops = {"flat_map", "flat_map_indexed", "concat_map"}, !.Tabs = {"error"}, !.Flavours = {"sync"},
                                       !.MaxOuter = 2, !.Faults = TRUE, !.OTermTimes = {2, 3, 5}]
    [] nm = "q11_hot"   -> [QB EXCEPT !.Ops = {"merge_all", "merge_mc"}, !.MCs = {2}, !.Tabs = {"pair", "never"}, !.Flavours = {"hot"}, !.MaxOuter = 2]
    [] nm = "q11_srcs"  -> [QB EXCEPT !.Ops = {"merge_srcs"}, !.Tabs = {"short", "error"}, !.Flavours = {"cold", "sync"}, !.RG = FALSE]
    \* dispose instants (also: a first subscriber disposed while inners are queued, then a second one), outer events at instant 0
    [] nm = "q11_dispose" -> [QB EXCEPT !.Ops = {"merge_all", "merge_mc", "concat_map"}, !.Flavours = {"sync"}, !.MaxOuter = 2,
                                        !.OTimes = {0, 1, 2}, !.OTermTimes = {0, 2, 5}, !.DspTicks = {0, 1, 2}]
    \* the subscriber feeds an inner back into the outer from inside a notification (re-entrant arrival)
    [] nm = "q11_fb"    -> [QB EXCEPT !.Ops = {"merge_all", "merge_mc"}, !.Tabs = {"short"}, !.Flavours = {"sync"}, !.MaxOuter = 2,
                                      !.OTermTimes = {1, 2, 3}, !.Fbs = {1}]
    [] nm = "q11_take"  -> [QB EXCEPT !.Ops = {"merge_mc", "concat_map"}, !.Tabs = {"short"}, !.Flavours = {"sync"}, !.RG = FALSE,
                                      !.OTimes = {0, 1}, !.OTermTimes = {2}, !.OTerms = {"C", "U"}, !.Takes = {2}]
    \* ---- C12 quick ----
    [] nm = "q12_switch" -> [QB EXCEPT !.Ops = {"switch_latest"}, !.Tabs = {"plain", "error"}, !.Flavours = {"cold", "sync"}]
    [] nm = "q12_short" -> [QB EXCEPT !.Ops = {"switch_latest"}, !.Tabs = {"short", "never"}, !.Flavours = {"sync"}, !.MaxOuter = 2, !.OTermTimes = {2, 3, 5}]
    [] nm = "q12_mapped" -> [QB EXCEPT !.Ops = {"switch_map", "switch_map_indexed", "flat_map_latest"}, !.Tabs = {"error"},
                                       !.MaxOuter = 2, !.Faults = TRUE, !.OTermTimes = {2, 3, 5}]
    [] nm = "q12_hot"   -> [QB EXCEPT !.Ops = {"switch_latest"}, !.Tabs = {"pair", "never"}, !.Flavours = {"hot"}, !.MaxOuter = 2]
    [] nm = "q12_dispose" -> [QB EXCEPT !.Ops = {"switch_latest", "switch_map"}, !.Flavours = {"sync", "cold"}, !.MaxOuter = 2,
                                        !.OTimes = {0, 1, 2}, !.OTermTimes = {0, 2, 5}, !.DspTicks = {0, 1, 2, 3}]
    [] nm = "q12_fb"    -> [QB EXCEPT !.Ops = {"switch_latest", "switch_map"}, !.Tabs = {"short"}, !.Flavours = {"sync"}, !.MaxOuter = 2,
                                      !.OTermTimes = {1, 2, 3}, !.Fbs = {1, 2}]
    [] nm = "q12_excl"  -> [QB EXCEPT !.Ops = {"exclusive"}, !.Tabs = {"plain", "error"}, !.Flavours = {"cold", "sync"}, !.MaxOuter = 2, !.OTermTimes = {2, 3, 5}]
    [] nm = "q12_take"  -> [QB EXCEPT !.Ops = {"switch_latest", "exclusive"}, !.Tabs = {"short"}, !.Flavours = {"sync"}, !.RG = FALSE,
                                      !.MaxOuter = 2, !.OTimes = {0, 1}, !.OTermTimes = {2}, !.OTerms = {"C", "U"}, !.Takes = {1, 2}]

(* ---- outer timelines (P: the slice) ---------------------------------------------------------- *)
OT2(P)  == {2 * t : t \in P.OTimes}
OTT2(P) == {2 * t : t \in P.OTermTimes}
MaxV(s, m) == SetMax({0} \cup {s[i] : i \in 1..m})
RGok(s) == \A j \in 1..Len(s) : s[j] <= 1 + MaxV(s, j - 1)
TokSeqs(P, n, ni) == {s \in [1..n -> 1..ni] : P.RG => RGok(s)}
TimeSeqs(P, n) == {s \in [1..n -> OT2(P)] : \A j \in 1..(n - 1) : s[j] <= s[j + 1]}
ElemSeqs(P, n, ni) == {[j \in 1..n |-> [t |-> ts[j], k |-> "N", v |-> vs[j]]] : ts \in TimeSeqs(P, n), vs \in TokSeqs(P, n, ni)}
WithTerm(P, s) == (IF "U" \in P.OTerms THEN {s} ELSE {})
                  \cup {Append(s, [t |-> tt, k |-> kk, v |-> 0]) :
                          tt \in {x \in OTT2(P) : Len(s) = 0 \/ x >= s[Len(s)].t}, kk \in P.OTerms \ {"U"}}
OuterTLs(P, ni) == UNION {WithTerm(P, s) : s \in UNION {ElemSeqs(P, n, ni) : n \in 0..P.MaxOuter}}
\* merge(sources...): from_iterable(sources) - every source arrives at the subscription instant, then the outer completes
SrcsTLs(P, ni) == {[j \in 1..(Len(vs) + 1) |-> IF j <= Len(vs) THEN [t |-> 0, k |-> "N", v |-> vs[j]] ELSE [t |-> 0, k |-> "C", v |-> 0]] :
                     vs \in UNION {TokSeqs(P, n, ni) : n \in 0..P.MaxOuter}}
OutersOf(P, o, ni) == IF o = "merge_srcs" THEN SrcsTLs(P, ni) ELSE OuterTLs(P, ni)

FMapsOf(P, o, ni) ==
  IF o \notin (MappedOps \cup IndexedOps) THEN {[v \in 1..ni |-> v]}
  ELSE IF P.FAll THEN [1..ni -> (IF P.Faults THEN 0..ni ELSE 1..ni)]
  ELSE {[v \in 1..ni |-> IF v \in R THEN RAISE ELSE v] : R \in {{}} \cup (IF P.Faults THEN {{v} : v \in 1..ni} ELSE {})}
McsOf(P, o) == IF o = "merge_mc" THEN P.MCs ELSE {0}
Dsps(P) == {2 * d + 1 : d \in P.DspTicks} \cup {NEVER}
TakeKs(P) == P.Takes \cup {0}            \* 0 = no take

(* ---- state --------------------------------------------------------------------------------- *)
VARIABLES phase,  \* "run"; with Lazy first "tab", "fmap", "outer" while the scenario is being put together
          scn,    \* the scenario (constant along a behaviour once phase = "run")
          now,    \* instant of the lane event being delivered
          opos,   \* next event of the outer lane
          hpos,   \* hot inners: next event of inner i's lane
          S       \* operator state + observation (a record, so that handlers compose as functions)
vars == <<phase, scn, now, opos, hpos, S>>

Inner(i) == Pool[scn.tab[i]]          \* the i-th inner timeline of the scenario's table
NI  == Len(scn.tab)
Mc  == IF scn.op = "merge_mc" THEN scn.mc ELSE IF scn.op = "concat_map" THEN 1 ELSE INF
IsMerge  == scn.op \in MergeOps
IsSwitch == scn.op \in SwitchOps
IsExcl   == scn.op \in ExclOps
\* the inner an outer element stands for: v its token, i its 0-based position in the outer sequence
Target(v, i) == CASE scn.op \in MappedOps  -> scn.fmap[v]
                  [] scn.op \in IndexedOps -> scn.fmap[((v - 1 + i) % NI) + 1]     \* an indexed mapper: the table rotated by the index
                  [] OTHER                 -> v

S0 == [act |-> <<>>,      \* active inner subscriptions, in subscription order: [sid, idx, start, pos]
       queue |-> <<>>,    \* merge(max_concurrent): inner indices waiting for a slot
       odone |-> FALSE,   \* the outer completed
       latest |-> 0,      \* switch / exclusive: sid of the current inner
       hasL |-> FALSE,
       done |-> FALSE,    \* the result terminated or the subscriber disposed
       oi |-> 0,          \* number of outer elements seen
       out |-> <<>>,      \* notifications delivered to the subscriber
       subs |-> <<>>,     \* subscription log, indexed by sid: [idx, open, close]
       osub |-> NEVER,    \* close instant of the outer subscription (opened at 0)
       todo |-> <<>>,     \* pending calls of the lane event being delivered
       amb |-> FALSE,     \* some instant had two lanes due (the scenario has more than one allowed outcome order)
       peak |-> 0]        \* largest number of inner subscriptions that were open at the same moment (sub-instant order counts:
                          \* an inner counts from subscribe() until it is unsubscribed, or - if it ends inside its own subscribe() - until that terminal)

EagerInit == \E nm \in Slices : LET P == SliceOf(nm) IN
             \E o \in P.Ops, tb \in InnerTables(P), f \in P.Flavours :
               \E m \in McsOf(P, o), ou \in OutersOf(P, o, Len(tb)), fm \in FMapsOf(P, o, Len(tb)), d \in Dsps(P), tk \in TakeKs(P),
                  fb \in P.Fbs \cup {0} : \E fv \in (IF fb = 0 THEN {0} ELSE 1..Len(tb)) :
                 /\ scn = [op |-> o, mc |-> m, tab |-> tb, fl |-> f, outer |-> ou, fmap |-> fm, dsp |-> d, take |-> tk,
                           fb |-> fb, fbv |-> fv]
                 /\ phase = "run" /\ now = 0 /\ opos = 1 /\ hpos = [i \in 1..Len(tb) |-> 1] /\ S = S0

\* Lazy: operator, flavour, max_concurrent and dispose instant in Init; then GenN inner timelines one by one, the mapper
\* table, and the outer timeline event by event.  Every scenario of the eager enumeration over "gen" tables can be built.
LazyInit == \E o \in Ops, f \in Flavours : \E m \in McsOf(CfgSlice, o), d \in Dsps(CfgSlice), tk \in TakeKs(CfgSlice) :
               /\ scn = [op |-> o, mc |-> m, tab |-> <<>>, fl |-> f, outer |-> <<>>, fmap |-> <<>>, dsp |-> d, take |-> tk, fb |-> 0, fbv |-> 0]
               /\ phase = "tab" /\ now = 0 /\ opos = 1 /\ hpos = <<>> /\ S = S0
Init == IF Lazy THEN LazyInit ELSE EagerInit

PickInner == /\ phase = "tab"
             /\ \E p \in GenIdx : scn' = [scn EXCEPT !.tab = Append(@, p)]
             /\ phase' = IF Len(scn.tab) + 1 = GenN THEN "fmap" ELSE "tab"
             /\ UNCHANGED <<now, opos, hpos, S>>
PickFmap == /\ phase = "fmap"
            /\ \E fm \in FMapsOf(CfgSlice, scn.op, GenN) : scn' = [scn EXCEPT !.fmap = fm]
            /\ phase' = "outer" /\ hpos' = [i \in 1..GenN |-> 1]
            /\ UNCHANGED <<now, opos, S>>
OLast == IF scn.outer = <<>> THEN 0 ELSE scn.outer[Len(scn.outer)].t
ONum  == Len(scn.outer)
PickOuter ==
  /\ phase = "outer"
  /\ IF scn.op = "merge_srcs" THEN
        \/ /\ ONum < MaxOuter
           /\ \E v \in 1..GenN : scn' = [scn EXCEPT !.outer = Append(@, [t |-> 0, k |-> "N", v |-> v])]
           /\ phase' = "outer"
        \/ /\ scn' = [scn EXCEPT !.outer = Append(@, [t |-> 0, k |-> "C", v |-> 0])] /\ phase' = "run"
     ELSE
        \/ /\ ONum < MaxOuter
           /\ \E t \in {x \in OT2(CfgSlice) : x >= OLast}, v \in 1..GenN : scn' = [scn EXCEPT !.outer = Append(@, [t |-> t, k |-> "N", v |-> v])]
           /\ phase' = "outer"
        \/ /\ \E t \in {x \in OTT2(CfgSlice) : x >= OLast}, kk \in OTerms \ {"U"} : scn' = [scn EXCEPT !.outer = Append(@, [t |-> t, k |-> kk, v |-> 0])]
           /\ phase' = "run"
        \/ /\ "U" \in OTerms /\ scn' = scn /\ phase' = "run"
  /\ UNCHANGED <<now, opos, hpos, S>>
Setup == PickInner \/ PickFmap \/ PickOuter

(* ---- handlers: pure functions S -> S at instant t ---------------------------------------- *)
Rec(t, k, s, i, j, e) == [t |-> t, k |-> k, s |-> s, i |-> i, j |-> j, e |-> e]
Emit(s, r) == [s EXCEPT !.out = Append(@, r)]
\* the result terminated or was disposed: every subscription still open is closed now, nothing pending survives
Finish(s, t) == [s EXCEPT !.done = TRUE, !.todo = <<>>, !.act = <<>>, !.queue = <<>>,
                          !.subs = [q \in 1..Len(s.subs) |-> IF s.subs[q].close = NEVER THEN [s.subs[q] EXCEPT !.close = t] ELSE s.subs[q]],
                          !.osub = IF s.osub = NEVER THEN t ELSE s.osub]
Term(s, t, k, i, e) == Finish(Emit(s, Rec(t, k, 0, i, 0, e)), t)
\* an element reaches the subscriber; if it is the k-th and the result is cut by take(k), take completes and disposes
\* the operator in the middle of this notification: everything is released now and nothing is subscribed any more
NCount(s) == Cardinality({p \in 1..Len(s.out) : s.out[p].k = "N"})
EmitN(s, t, r) == LET s1 == Emit(s, r) IN
                  IF scn.take # 0 /\ NCount(s1) = scn.take THEN Term(s1, t, "C", 0, "take")
                  \* feedback: the subscriber's reaction (one more arrival on the outer) is the next call on the stack
                  ELSE IF scn.fb # 0 /\ NCount(s1) = scn.fb THEN [s1 EXCEPT !.todo = << [k |-> "F", a |-> 0, b |-> 0] >> \o @]
                  ELSE s1

NSync(idx) == IF scn.fl = "sync" THEN Cardinality({j \in 1..Len(Inner(idx)) : Inner(idx)[j].t = 0}) ELSE 0
\* subscribe to inner idx: a new lane; its synchronous events are delivered before anything else that is pending
Subscribe(s, t, idx) ==
  LET sid == Len(s.subs) + 1
      ns  == NSync(idx) IN
  [s EXCEPT !.subs = Append(@, [idx |-> idx, open |-> t, close |-> NEVER]),
            !.peak = Max2(@, Cardinality({q \in 1..Len(s.subs) : s.subs[q].close = NEVER}) + 1),
            !.act  = Append(@, [sid |-> sid, idx |-> idx, start |-> t, pos |-> ns + 1]),
            !.todo = [j \in 1..ns |-> [k |-> "I", a |-> sid, b |-> j]] \o @]
Unsubscribe(s, t, sid) ==
  [s EXCEPT !.act  = SelectSeq(@, LAMBDA a : a.sid # sid),
            !.subs = [q \in 1..Len(s.subs) |-> IF q = sid /\ s.subs[q].close = NEVER THEN [s.subs[q] EXCEPT !.close = t] ELSE s.subs[q]]]

OuterNext(s0, t, v) ==
  LET s  == [s0 EXCEPT !.oi = @ + 1]
      tg == Target(v, s0.oi) IN
  IF tg = RAISE THEN Term(s, t, "E", 0, "fn")
  ELSE IF IsMerge THEN
         (IF Len(s.act) < Mc THEN Subscribe(s, t, tg) ELSE [s EXCEPT !.queue = Append(@, tg)])
  ELSE IF IsSwitch THEN
         \* the previous inner is unsubscribed, then the new one subscribed; it is the latest from now on
         (LET s1 == IF s.hasL THEN Unsubscribe(s, t, s.latest) ELSE s IN
          [Subscribe(s1, t, tg) EXCEPT !.latest = Len(s1.subs) + 1, !.hasL = TRUE])
  ELSE \* exclusive: an inner arriving while another is current is dropped
         (IF s.hasL THEN s ELSE [Subscribe(s, t, tg) EXCEPT !.latest = Len(s.subs) + 1, !.hasL = TRUE])

OuterCompleted(s0, t) ==
  LET s == [s0 EXCEPT !.odone = TRUE, !.osub = t] IN
  IF IsMerge THEN (IF s.act = <<>> THEN Term(s, t, "C", 0, "") ELSE s)
  ELSE (IF ~s.hasL THEN Term(s, t, "C", 0, "") ELSE s)

OuterEv(s, t, ev) == CASE ev.k = "N" -> OuterNext(s, t, ev.v)
                       [] ev.k = "C" -> OuterCompleted(s, t)
                       [] OTHER      -> Term(s, t, "E", 0, "outer")

InnerCompleted(s0, t, sid) ==
  LET s == Unsubscribe(s0, t, sid) IN
  IF IsMerge THEN
       (IF s.queue # <<>> THEN Subscribe([s EXCEPT !.queue = Tail(@)], t, Head(s.queue))
        ELSE IF s.odone /\ s.act = <<>> THEN Term(s, t, "C", 0, "") ELSE s)
  ELSE (LET s1 == [s EXCEPT !.hasL = FALSE] IN
        IF s1.odone THEN Term(s1, t, "C", 0, "") ELSE s1)

\* the j-th event of inner subscription sid; a subscription that is no longer active hears nothing
InnerEv(s, t, sid, j) ==
  LET A == SelectSeq(s.act, LAMBDA a : a.sid = sid) IN
  IF A = <<>> THEN s
  ELSE LET idx == A[1].idx  ev == Inner(idx)[j] IN
       CASE ev.k = "N" -> EmitN(s, t, Rec(t, "N", sid, idx, j, ""))
         [] ev.k = "E" -> Term(s, t, "E", idx, "inner")
         [] OTHER      -> InnerCompleted(s, t, sid)

(* ---- lanes --------------------------------------------------------------------------------- *)
ColdDue(a)  == IF scn.fl # "hot" /\ a.pos <= Len(Inner(a.idx)) THEN a.start + Inner(a.idx)[a.pos].t ELSE INF
HotDue(i)   == IF scn.fl = "hot" /\ hpos[i] <= Len(Inner(i)) THEN HotOff + Inner(i)[hpos[i]].t ELSE INF
OuterDue    == IF opos <= Len(scn.outer) THEN scn.outer[opos].t ELSE INF
DspDue      == IF scn.dsp = NEVER THEN INF ELSE scn.dsp
MinDue      == SetMin({OuterDue, DspDue} \cup {ColdDue(S.act[n]) : n \in 1..Len(S.act)} \cup {HotDue(i) : i \in 1..NI})
Quiet       == S.todo = <<>> /\ ~S.done

\* A lane event performs its first call at once; what it still has to call waits in todo.
\* md is MinDue (computed once per state in Next).
B2N(b) == IF b THEN 1 ELSE 0
Ties(md) == B2N(OuterDue = md) + B2N(DspDue = md) + Cardinality({n \in 1..Len(S.act) : ColdDue(S.act[n]) = md})
            + Cardinality({i \in 1..NI : HotDue(i) = md})
Mark(s, md) == IF Ties(md) > 1 THEN [s EXCEPT !.amb = TRUE] ELSE s
FireOuter(md) == /\ OuterDue # INF /\ OuterDue = md
                 /\ now' = OuterDue /\ opos' = opos + 1
                 /\ S' = OuterEv(Mark(S, md), OuterDue, scn.outer[opos])
                 /\ UNCHANGED <<scn, hpos>>

FireCold(md, n) == /\ ColdDue(S.act[n]) # INF /\ ColdDue(S.act[n]) = md
                   /\ now' = md
                   /\ S' = InnerEv([Mark(S, md) EXCEPT !.act[n].pos = @ + 1], md, S.act[n].sid, S.act[n].pos)
                   /\ UNCHANGED <<scn, opos, hpos>>

\* a hot inner calls the subscribers it has at this moment, in subscription order
FireHot(md, i) == /\ HotDue(i) # INF /\ HotDue(i) = md
                  /\ now' = md /\ hpos' = [hpos EXCEPT ![i] = @ + 1]
                  /\ LET L == SelectSeq(S.act, LAMBDA a : a.idx = i) IN
                     S' = IF L = <<>> THEN Mark(S, md)
                          ELSE InnerEv([Mark(S, md) EXCEPT !.todo = [n \in 1..(Len(L) - 1) |-> [k |-> "I", a |-> L[n + 1].sid, b |-> hpos[i]]]],
                                       md, L[1].sid, hpos[i])
                  /\ UNCHANGED <<scn, opos>>

FireDispose(md) == /\ DspDue # INF /\ DspDue = md
                   /\ now' = DspDue /\ S' = Finish(Mark(S, md), DspDue)
                   /\ UNCHANGED <<scn, opos, hpos>>

Step == /\ S.todo # <<>>
        /\ LET m == Head(S.todo)  s == [S EXCEPT !.todo = Tail(@)] IN
           \* "F": the fed-back inner arrives through the outer subscription (nothing happens if the outer is over)
           S' = IF m.k = "F" THEN (IF s.odone THEN s ELSE OuterNext(s, now, scn.fbv)) ELSE InnerEv(s, now, m.a, m.b)
        /\ UNCHANGED <<scn, now, opos, hpos>>

Run == \/ Step
       \/ /\ Quiet
           /\ LET md == MinDue IN
              \/ FireOuter(md) \/ FireDispose(md)
              \/ (\E n \in 1..Len(S.act) : FireCold(md, n))
              \/ (scn.fl = "hot" /\ \E i \in 1..NI : FireHot(md, i))
Next == IF phase = "run" THEN Run /\ UNCHANGED phase ELSE Setup
Spec == Init /\ [][Next]_vars

Final == phase = "run" /\ S.todo = <<>> /\ (S.done \/ MinDue = INF)

(* ---- invariants of every state (C01 C02 C11 C12) ----------------------------------------- *)
Open(s) == {q \in 1..Len(s.subs) : s.subs[q].close = NEVER}
\* C01: nothing follows a terminal notification
Grammar == \A j \in 1..Len(S.out) : S.out[j].k # "N" => j = Len(S.out)
\* C02/C03: once the result terminated or was disposed no subscription is left open
Released == S.done => (Open(S) = {} /\ S.osub # NEVER)
\* the active list is exactly the set of open subscriptions
ActiveOpen == {S.act[n].sid : n \in 1..Len(S.act)} = Open(S)
\* C11: at most max_concurrent inner subscriptions at any time; C12 / exclusive: at most one - also within an instant
\* (the previous inner is unsubscribed before the next one is subscribed): peak is the running maximum
Concurrency == /\ Cardinality(Open(S)) <= (IF IsMerge THEN Mc ELSE 1)
               /\ S.peak <= (IF IsMerge THEN Mc ELSE 1)
\* C11: an inner waits only while all slots are taken
NoIdleSlot == (S.todo = <<>> /\ S.queue # <<>>) => Len(S.act) = Mc
\* instants never decrease along the output
Causal == \A j \in 1..(Len(S.out) - 1) : S.out[j].t <= S.out[j + 1].t
\* C12: whatever is forwarded comes from the inner that is the latest at that moment (action property)
LatestOnly == [][(IsSwitch /\ Len(S'.out) > Len(S.out) /\ S'.out[Len(S'.out)].k = "N") => S'.out[Len(S'.out)].s = S.latest /\ S.hasL]_vars

(* ---- the property, stated on the scenario (second formulation) ---------------------------- *)
\* Applies to cold and sync inners, where an inner's instants are its start plus its relative times.
Arr      == SelectSeq(scn.outer, LAMBDA e : e.k = "N")        \* arrivals
NArr     == Len(Arr)
OTerm    == IF Len(scn.outer) > 0 /\ scn.outer[Len(scn.outer)].k # "N" THEN scn.outer[Len(scn.outer)] ELSE [t |-> INF, k |-> "U", v |-> 0]
Tgt(k)   == Target(Arr[k].v, k - 1)
Raisers  == {k \in 1..NArr : Tgt(k) = RAISE}
FirstRaise == IF Raisers = {} THEN NArr + 1 ELSE SetMin(Raisers)
NEff     == FirstRaise - 1                                    \* arrivals that yield an inner
LastEv(i) == IF Len(Inner(i)) = 0 THEN [t |-> INF, k |-> "U"] ELSE Inner(i)[Len(Inner(i))]
CRel(i)  == IF LastEv(i).k = "C" THEN LastEv(i).t ELSE INF
ERel(i)  == IF LastEv(i).k = "E" THEN LastEv(i).t ELSE INF
TRel(i)  == IF LastEv(i).k \in {"C", "E"} THEN LastEv(i).t ELSE INF
NIdx(i)  == {j \in 1..Len(Inner(i)) : Inner(i)[j].k = "N"}

\* When the k-th inner is subscribed and when it completes (Q[k].st, Q[k].en; INF = never): on arrival, or - merge with
\* max_concurrent - as soon as fewer than Mc of the earlier inners are still running, in arrival order.
RECURSIVE Sched(_)
Sched(k) ==
  IF k = 0 THEN <<>>
  ELSE LET P    == Sched(k - 1)
           lo   == IF k = 1 THEN Arr[1].t ELSE Max2(Arr[k].t, P[k - 1].st)
           cand == {lo} \cup {P[i].en : i \in 1..(k - 1)}
           good == {t \in cand : t >= lo /\ t < INF /\ Cardinality({i \in 1..(k - 1) : P[i].en > t}) < Mc}
           st   == IF ~IsMerge THEN Arr[k].t ELSE IF lo = INF \/ good = {} THEN INF ELSE SetMin(good)
           en   == IF st = INF \/ CRel(Tgt(k)) = INF THEN INF ELSE st + CRel(Tgt(k)) IN
       Append(P, [st |-> st, en |-> en])
\* switching: the k-th inner is listened to until the next inner arrives
Win(k) == IF IsSwitch /\ k < NEff THEN Arr[k + 1].t ELSE INF

OutTerm == IF Len(S.out) > 0 /\ S.out[Len(S.out)].k # "N" THEN S.out[Len(S.out)] ELSE Rec(INF, "U", 0, 0, 0, "")
Tend    == IF OutTerm.k # "U" THEN OutTerm.t ELSE IF scn.dsp # NEVER THEN scn.dsp ELSE INF

\* errors that certainly happen unless the result ended before / that may happen (a tie with the next arrival)
ErrCands(Q, strict) ==
     (IF OTerm.k = "E" THEN {[t |-> OTerm.t, i |-> 0, e |-> "outer"]} ELSE {})
\cup (IF FirstRaise <= NArr THEN {[t |-> Arr[FirstRaise].t, i |-> 0, e |-> "fn"]} ELSE {})
\cup {[t |-> Q[k].st + ERel(Tgt(k)), i |-> Tgt(k), e |-> "inner"] :
        k \in {x \in 1..NEff : /\ Q[x].st # INF /\ ERel(Tgt(x)) # INF
                               /\ (IF strict THEN Q[x].st + ERel(Tgt(x)) < Win(x) ELSE Q[x].st + ERel(Tgt(x)) <= Win(x))}}
\* the result completes iff the outer completed and every inner (switching: the last inner) completed
CanComplete(Q) == /\ OTerm.k = "C" /\ FirstRaise > NArr
                  /\ IF IsMerge THEN \A k \in 1..NArr : Q[k].en # INF
                     ELSE NArr = 0 \/ CRel(Tgt(NArr)) # INF
CompleteAt(Q) == IF IsMerge THEN SetMax({OTerm.t} \cup {Q[k].en : k \in 1..NArr})
                 ELSE IF NArr = 0 THEN OTerm.t ELSE Max2(OTerm.t, Arr[NArr].t + CRel(Tgt(NArr)))

RefScope == scn.fl # "hot" /\ (IsMerge \/ IsSwitch) /\ scn.fb = 0      \* a fed-back arrival has no instant of its own in the scenario
NRecs == {p \in 1..Len(S.out) : S.out[p].k = "N"}
RefOutBody(Q) ==
    \* exactly the elements of the subscribed inners, at their original instants ...
    /\ \A p \in NRecs : LET r == S.out[p] IN
          /\ r.s \in 1..NEff /\ r.i = Tgt(r.s) /\ r.j \in NIdx(r.i)
          /\ Q[r.s].st # INF /\ r.t = Q[r.s].st + Inner(r.i)[r.j].t
          /\ r.t <= Win(r.s) /\ r.t <= Tend
    \* ... each exactly once and every inner in its own order ...
    /\ \A p, q \in NRecs : (p < q /\ S.out[p].s = S.out[q].s) => S.out[p].j < S.out[q].j
    \* ... none missing that is due before the end (switching: before the next inner arrives)
    /\ \A k \in 1..NEff : \A j \in NIdx(Tgt(k)) :
          LET t == Q[k].st + Inner(Tgt(k))[j].t IN
          (Q[k].st # INF /\ t < Tend /\ (t < Win(k) \/ (scn.fl = "sync" /\ Inner(Tgt(k))[j].t = 0)))
            => \E p \in NRecs : S.out[p].s = k /\ S.out[p].j = j
    \* the first error terminates; a stale inner's error is ignored
    /\ OutTerm.k = "E" => \E c \in ErrCands(Q, FALSE) : c.t = OutTerm.t /\ c.i = OutTerm.i /\ c.e = OutTerm.e
    /\ \A c \in ErrCands(Q, TRUE) : c.t >= Tend
    \* completion only after the outer and every (the latest) inner completed, and then at that instant
    /\ (OutTerm.k = "C" /\ OutTerm.e # "take") => (CanComplete(Q) /\ OutTerm.t = CompleteAt(Q))
    \* cut by take(k): exactly k elements, the k-th at the instant of the completion
    /\ OutTerm.e = "take" => (Cardinality(NRecs) = scn.take /\ S.out[Len(S.out) - 1].k = "N" /\ S.out[Len(S.out) - 1].t = OutTerm.t)
    /\ (scn.take # 0 /\ OutTerm.e # "take") => Cardinality(NRecs) < scn.take
    /\ CanComplete(Q) => CompleteAt(Q) >= Tend
    /\ (OutTerm.k = "U" /\ scn.dsp = NEVER) => (ErrCands(Q, TRUE) = {} /\ ~CanComplete(Q))

\* subscription intervals: open at arrival / when a slot is free, in arrival order; closed at the inner's terminal,
\* at the arrival of the next inner (switching), or when the result ends
CloseAt(Q, k) == LET c == SetMin({Q[k].st + TRel(Tgt(k)), Win(k), Tend}) IN IF c >= INF THEN NEVER ELSE c
RefSubsBody(Q) ==
    /\ Len(S.subs) <= NEff
    /\ \A k \in 1..Len(S.subs) :
          /\ S.subs[k].idx = Tgt(k) /\ S.subs[k].open = Q[k].st /\ S.subs[k].open <= Tend
          /\ S.subs[k].close = CloseAt(Q, k)
    /\ \A k \in 1..NEff : Q[k].st < Tend => k <= Len(S.subs)
    /\ S.osub = (LET c == Min2(OTerm.t, Tend) IN IF c >= INF THEN NEVER ELSE c)

\* C11 "concat_map is the ordered concatenation": with one slot the output is the inners' elements one inner after the other
ConcatBody == (IsMerge /\ Mc = 1) => \A p, q \in NRecs : p < q => S.out[p].s <= S.out[q].s
\* Every flavour and operator (also hot inners and exclusive, which the closed form above does not cover): the output is
\* consistent with the subscription log - an element comes from an open subscription of its inner at its own instant, and
\* every element of an inner that falls strictly inside one of its subscription intervals is in the output once.
AbsOf(sid, j) == (IF scn.fl = "hot" THEN HotOff ELSE S.subs[sid].open) + Inner(S.subs[sid].idx)[j].t
OutVsSubsBody ==
    /\ \A p \in NRecs : LET r == S.out[p] IN
          /\ r.s \in 1..Len(S.subs) /\ S.subs[r.s].idx = r.i /\ r.j \in NIdx(r.i)
          /\ r.t = AbsOf(r.s, r.j) /\ S.subs[r.s].open <= r.t /\ r.t <= S.subs[r.s].close
    /\ \A p, q \in NRecs : (p < q /\ S.out[p].s = S.out[q].s) => S.out[p].j < S.out[q].j
    /\ \A sid \in 1..Len(S.subs) : \A j \in NIdx(S.subs[sid].idx) :
          (S.subs[sid].open < AbsOf(sid, j) /\ AbsOf(sid, j) < S.subs[sid].close)
            => \E p \in NRecs : S.out[p].s = sid /\ S.out[p].j = j
OutVsSubs     == Final => OutVsSubsBody
RefOut        == (Final /\ RefScope) => RefOutBody(Sched(NEff))
RefSubs       == (Final /\ RefScope) => RefSubsBody(Sched(NEff))
ConcatOrdered == Final => ConcatBody

(* ---- everything in one invariant (the cfg lists AllInv; the named parts are for diagnosis) -------- *)
StateInv == Grammar /\ Released /\ ActiveOpen /\ Concurrency /\ NoIdleSlot /\ Causal
FinalInv == (RefScope => LET Q == Sched(NEff) IN RefOutBody(Q) /\ RefSubsBody(Q)) /\ ConcatBody /\ OutVsSubsBody

(* ---- export ---------------------------------------------------------------------------------- *)
ExportLine == PrintT(ToJson([scn |-> [op |-> scn.op, mc |-> scn.mc, fl |-> scn.fl, outer |-> scn.outer, fmap |-> scn.fmap,
                                            dsp |-> scn.dsp, take |-> scn.take, fb |-> scn.fb, fbv |-> scn.fbv, tab |-> [i \in 1..NI |-> Inner(i)]],
                                  obs |-> [out |-> S.out, subs |-> S.subs, osub |-> S.osub, amb |-> S.amb, peak |-> S.peak]]))
Export == Final => ExportLine
AllInv == StateInv /\ (Final => (FinalInv /\ ExportLine))
================================================================================
