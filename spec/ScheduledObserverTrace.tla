------------------------ MODULE ScheduledObserverTrace ------------------------
(* Binding B for ScheduledObserver.tla.  One trace = the totally ordered events of ONE scheduled observer
   (an ObserveOnObserver, or the ScheduledObserver a ReplaySubject creates for one subscriber) in one execution
   of the real code under a controlled schedule:
       [e |-> "call", th, k, v]      a producer thread entered on_next / on_error / on_completed of the observer
       [e |-> "ret",  th]            ... and returned
       [e |-> "dstart", th, k, v]    the downstream observer's callback was entered on thread th
       [e |-> "dend", th, raised]    ... and left (raised = it threw)
       [e |-> "idle"]                the run reached quiescence: every thread finished or blocked for good with the
                                     scheduler idle (no timed wait pending)
   Lin is silent (at most one per call).  "deadlock", "exc", "steplimit" events are accepted by no action.     *)
EXTENDS ScheduledObserver, TLCExt, IOUtils, Json

CONSTANTS NTraces

Traces == JsonDeserialize(IOEnv.TRACE_FILE)

VARIABLES tid, l

tvars == <<tid, l>>
Ev == Traces[tid][l]
More == l <= Len(Traces[tid])
Step == l' = l + 1 /\ UNCHANGED tid

TInit == /\ tid \in 1..NTraces /\ l = 1 /\ Init

TCall == /\ More /\ Ev.e = "call" /\ Step
         /\ Ev.th \in Producers /\ Call(Ev.th, Ev.k, Ev.v)

TRet == /\ More /\ Ev.e = "ret" /\ Step
        /\ Ev.th \in Producers /\ Ret(Ev.th)

TLin == \E th \in Producers : Lin(th) /\ UNCHANGED tvars

TStart == /\ More /\ Ev.e = "dstart" /\ Step
          /\ DeliverStart(Ev.th, Ev.k, Ev.v)

TEnd == /\ More /\ Ev.e = "dend" /\ Step
        /\ DeliverEnd(Ev.th, Ev.raised)

TIdle == /\ More /\ Ev.e = "idle" /\ Step
         /\ Idle

TNext == TCall \/ TRet \/ TLin \/ TStart \/ TEnd \/ TIdle

\* furthest position reached per trace (register tid); registers are initialised by the ASSUME
Track == TLCSet(tid, IF TLCGet(tid) < l THEN l ELSE TLCGet(tid))
ASSUME \A j \in 1..NTraces : TLCSet(j, 0)

Accepted(j) == TLCGet(j) = Len(Traces[j]) + 1
Post == \A j \in 1..NTraces : Accepted(j) \/ PrintT(<<"REJECTED", j, TLCGet(j)>>)
================================================================================
