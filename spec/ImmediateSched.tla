---------------------------- MODULE ImmediateSched ----------------------------
(* L0: ImmediateScheduler (C34, last clause): "runs actions synchronously and raises WouldBlockException
   for a positive delay".  Pure, single-threaded: Binding A.  Programs are enumerated lazily
   (as VirtualTime.tla): at top level, or inside a running action, the next command is chosen from a
   bounded menu; the history of events IS the program and the expected observation:

       call(op, d, item)  start(item) ... nested commands of the body ... end(item)  ret("ok")
       call(op, d, item)  ret("wouldblock")                       (positive delay: nothing runs, ever)
       sleep(d)                                                   (moves the scheduler clock)

   The delay of schedule() is 0, of schedule_relative(d) is d, of schedule_absolute(t) is t - clock.
   An accepted action runs to completion INSIDE the call (depth-first nesting), on the caller's thread,
   at an unchanged clock.  The reference statement Ref (delay > 0 <=> refused) is checked against the
   transducer on every history (RefOK), nesting is checked by WellNested.                               *)
EXTENDS Integers, Sequences, FiniteSets, TLC, Json

CONSTANTS MaxCmds,     \* total number of commands
          MaxDepth,    \* nesting depth of actions scheduling actions
          RelD,        \* offsets k: schedule_relative(k - 1)   (so 0 stands for the negative delay -1)
          AbsT,        \* absolute due times offered
          MaxT         \* the clock runs 0..MaxT (sleep 1)

VARIABLES clock, stack, nextId, budget, hist

vars == <<clock, stack, nextId, budget, hist>>

Init == clock = 0 /\ stack = <<>> /\ nextId = 1 /\ budget = MaxCmds /\ hist = <<>>

Delay(op, d) == CASE op = "imm" -> 0 [] op = "rel" -> d [] op = "abs" -> d - clock
\* the reference statement
Ref(op, d) == IF Delay(op, d) > 0 THEN "wouldblock" ELSE "ok"

Menu == {<<"imm", 0>>} \cup {<<"rel", k - 1>> : k \in RelD} \cup {<<"abs", t>> : t \in AbsT}

Sched == \E m \in Menu :
    /\ budget > 0 /\ budget' = budget - 1 /\ nextId' = nextId + 1
    /\ LET c == [e |-> "call", op |-> m[1], d |-> m[2], item |-> nextId, depth |-> Len(stack), t |-> clock] IN
       IF Delay(m[1], m[2]) > 0
       THEN /\ hist' = hist \o <<c, [e |-> "ret", res |-> "wouldblock", item |-> nextId, depth |-> Len(stack), t |-> clock]>>
            /\ UNCHANGED <<stack, clock>>
       ELSE /\ Len(stack) < MaxDepth
            /\ hist' = hist \o <<c, [e |-> "start", item |-> nextId, depth |-> Len(stack) + 1, t |-> clock]>>
            /\ stack' = Append(stack, nextId) /\ UNCHANGED clock

Finish == /\ stack # <<>>
          /\ LET x == stack[Len(stack)] IN
             hist' = hist \o <<[e |-> "end", item |-> x, depth |-> Len(stack), t |-> clock],
                               [e |-> "ret", res |-> "ok", item |-> x, depth |-> Len(stack) - 1, t |-> clock]>>
          /\ stack' = SubSeq(stack, 1, Len(stack) - 1)
          /\ UNCHANGED <<clock, nextId, budget>>

Sleep == /\ budget > 0 /\ clock < MaxT /\ budget' = budget - 1 /\ clock' = clock + 1
         /\ hist' = Append(hist, [e |-> "sleep", d |-> 1, depth |-> Len(stack), t |-> clock + 1])
         /\ UNCHANGED <<stack, nextId>>

Next == Sched \/ Finish \/ Sleep

(* ---- invariants -------------------------------------------------------------------------------------------- *)
\* the transducer agrees with the reference statement: a call is refused iff its delay is positive, and an accepted
\* call is followed at once by the start of its action (synchronous), a refused one by nothing of that item
RefOK == \A i \in 1..Len(hist) : hist[i].e = "call" =>
            /\ i < Len(hist)
            /\ LET dly == CASE hist[i].op = "imm" -> 0 [] hist[i].op = "rel" -> hist[i].d [] hist[i].op = "abs" -> hist[i].d - hist[i].t IN
               IF dly > 0 THEN hist[i + 1].e = "ret" /\ hist[i + 1].res = "wouldblock" /\ hist[i + 1].item = hist[i].item
                          ELSE hist[i + 1].e = "start" /\ hist[i + 1].item = hist[i].item /\ hist[i + 1].t = hist[i].t
\* a refused item never starts; every started item ends before its call returns, properly nested
NeverRunsRefused == \A i, j \in 1..Len(hist) : (hist[i].e = "ret" /\ hist[i].res = "wouldblock" /\ hist[j].e = "start") => hist[j].item # hist[i].item
WellNested == \A i \in 1..Len(hist) : hist[i].e = "end" =>
                 /\ i < Len(hist) /\ hist[i + 1].e = "ret" /\ hist[i + 1].res = "ok" /\ hist[i + 1].item = hist[i].item
                 /\ \E j \in 1..(i - 1) : hist[j].e = "start" /\ hist[j].item = hist[i].item /\ hist[j].depth = hist[i].depth

Export == (stack = <<>> /\ hist # <<>>) => PrintT(ToJson([scn |-> [n |-> Len(hist)], obs |-> hist]))
================================================================================
