---------------------------- MODULE EventLoopImpl ----------------------------
(* C31, design assurance: EventLoopScheduler as the code implements it, at lock granularity.
   Every `with self._condition:` block of reactivex/scheduler/eventloopscheduler.py is ONE atomic step
   (all accesses to _ready_list, _queue, _thread and the writes of _is_disposed are inside such blocks);
   Condition.wait() ends a step and the wake-up is the next one.  Outside the lock, and therefore separate
   steps: the unlocked `if self._is_disposed: raise` at the top of schedule_absolute, the loop's
   `item.is_cancelled()` read before `item.invoke()`, the action's start and end, cancel's flag write.
   The clock ticks freely (real time), so this explores MORE than the controlled-clock executions.

   The property is stated over history variables exactly as in EventLoop.tla (Serial, OneThread, Fifo,
   DueOrder, NotEarly, CancelledNeverRuns, NoRunAfterDisposeReturned, ThreadForPending) plus the safety form
   of "no lost wake-up" (a loop thread that sleeps un-notified has nothing to do before its deadline).
   A violation here, or a recorded execution that this model cannot explain, is MODEL DRIFT (the code was
   restructured or this transcription is wrong) - it lowers what the check claims and never raises an alarm;
   alarms come from EventLoopTrace.tla only.                                                           *)
EXTENDS Integers, Sequences, FiniteSets, TLC

CONSTANTS Clients, Loops, Items, ExitModes, MaxT, MaxCalls, RelD, AbsT

MinOf(S) == CHOOSE x \in S : \A y \in S : x <= y

(* --algorithm EventLoopImpl {
variables
    now = 0, xie \in ExitModes,
    ready = <<>>,                        \* _ready_list
    queue = <<>>,                        \* _queue, kept sorted by (due, insertion)
    disposedF = FALSE,                   \* _is_disposed
    thread = 0,                          \* _thread (0 = None)
    spawned = {},                        \* loop threads whose start() was called
    batch = [w \in Loops |-> <<>>],      \* run()'s local `ready` deque
    waiting = [w \in Loops |-> "no"],    \* "no" | "wait" | "timed"
    deadline = [w \in Loops |-> 0],
    notified = [w \in Loops |-> FALSE],
    cancelled = [x \in Items |-> FALSE], \* ScheduledItem.disposable.is_disposed
    due = [x \in Items |-> 0],
    \* ---- history
    enq = [x \in Items |-> 0], immH = [x \in Items |-> FALSE], effH = [x \in Items |-> 0], cseq = [x \in Items |-> 0], stamp = 0,
    picked = {}, running = {}, runTh = [x \in Items |-> 0], startT = [x \in Items |-> 0],
    handle = {}, used = {}, dispRet = FALSE, late = {}, early = {}, refused = {}, calls = 0;

define {
    Due(x) == due[x]
    \* the longest prefix of rl whose successive heads are due strictly before d
    RECURSIVE PrefixLen(_, _)
    PrefixLen(rl, d) == IF rl = <<>> \/ ~(d > due[Head(rl)]) THEN 0 ELSE 1 + PrefixLen(Tail(rl), d)
    \* run(): merge of the ready list with the due part of the queue
    RECURSIVE Merge(_, _, _)
    Merge(rl, q, time) ==
        IF q = <<>> \/ due[Head(q)] > time THEN rl
        ELSE LET k == PrefixLen(rl, due[Head(q)]) IN
             SubSeq(rl, 1, k) \o <<Head(q)>> \o Merge(SubSeq(rl, k + 1, Len(rl)), Tail(q), time)
    RECURSIVE DueLen(_, _)
    DueLen(q, time) == IF q = <<>> \/ due[Head(q)] > time THEN 0 ELSE 1 + DueLen(Tail(q), time)
    \* PriorityQueue.enqueue: after every entry that is not later
    RECURSIVE InsPos(_, _)
    InsPos(q, d) == IF q = <<>> \/ due[Head(q)] > d THEN 0 ELSE 1 + InsPos(Tail(q), d)
    Insert(q, x) == LET k == InsPos(q, due[x]) IN SubSeq(q, 1, k) \o <<x>> \o SubSeq(q, k + 1, Len(q))
    Waiters == {w \in Loops : waiting[w] # "no" /\ ~notified[w]}
    Fresh == Items \ used
    PendingI(x) == enq[x] # 0 /\ x \notin picked /\ ~cancelled[x]

    Serial == Cardinality(running) <= 1
    OneThread == /\ \A x \in Items : runTh[x] # 0 => runTh[x] \in Loops
                 /\ ~xie => Cardinality(spawned) <= 1
    Fifo == \A x, y \in Items : (immH[x] /\ immH[y] /\ enq[x] # 0 /\ enq[x] < enq[y] /\ y \in picked) => ~PendingI(x)
    DueOrder == \A x, y \in Items : (~immH[x] /\ ~immH[y] /\ enq[x] # 0 /\ y \in picked /\ enq[x] < cseq[y] /\ due[x] < due[y]) => ~PendingI(x)
    CrossOrderTI == \A x, y \in Items : (immH[x] /\ ~immH[y] /\ enq[x] # 0 /\ y \in picked /\ enq[x] < cseq[y] /\ effH[x] < due[y]) => ~PendingI(x)
    CrossOrderIT == \A x, y \in Items : (immH[x] /\ ~immH[y] /\ enq[y] # 0 /\ x \in picked /\ enq[y] < cseq[x] /\ due[y] < due[x]) => ~PendingI(y)
    NotEarly == \A x \in Items : runTh[x] # 0 => startT[x] >= due[x]
    CancelledNeverRuns == \A x \in early : x \notin picked
    NoRunAfterDisposeReturned == \A x \in late : enq[x] = 0 /\ x \notin picked
    ThreadForPending == ((\E x \in Items : PendingI(x)) /\ ~disposedF) => thread # 0
    \* no lost wake-up, safety form: an un-notified sleeper has nothing to do before its deadline
    NoLostWakeup == \A w \in Loops : (waiting[w] # "no" /\ ~notified[w] /\ ~disposedF /\ thread = w) =>
                        /\ ready = <<>>
                        /\ waiting[w] = "wait" => queue = <<>>
                        /\ (waiting[w] = "timed" /\ queue # <<>>) => due[Head(queue)] >= deadline[w]
}

macro Notify() {            \* Condition.notify(): wake one waiter if there is one
    if (Waiters # {}) { with (w \in Waiters) { notified[w] := TRUE } }
}

process (Client \in Clients)
    variables item = 0;
{
c0: while (calls < MaxCalls) {
        either {    \* ---- schedule / schedule_relative / schedule_absolute: due time computed before the lock
            await Fresh # {};
            with (x = MinOf(Fresh)) {
                item := x; used := used \cup {x}; calls := calls + 1;
                if (dispRet) { late := late \cup {x} };
                either { due[x] := now }
                or { with (d \in RelD) { due[x] := now + d } }
                or { with (t \in AbsT) { due[x] := t } }
            };
c1:         if (disposedF) {                       \* unlocked test: raise DisposedException
                refused := refused \cup {item};
            } else {
c2:             \* with self._condition: classify, enqueue, notify, _ensure_thread
                stamp := stamp + 1;
                enq[item] := stamp; effH[item] := now;
                if (due[item] <= now) { ready := Append(ready, item); immH[item] := TRUE }
                else { queue := Insert(queue, item) };
                Notify();
                if (thread = 0) {
                    with (w = MinOf(Loops \ spawned)) { thread := w; spawned := spawned \cup {w} }
                };
c3:             handle := handle \cup {item};      \* the call returns Disposable(si.cancel)
            }
        } or {      \* ---- dispose the returned disposable
            await \E x \in handle : ~cancelled[x];
            with (x \in {y \in handle : ~cancelled[y]}) { item := x; calls := calls + 1 };
k1:         cancelled[item] := TRUE;
k2:         if (item \notin picked) { early := early \cup {item} };
        } or {      \* ---- scheduler.dispose()
            await ~dispRet;
            calls := calls + 1;
d1:         if (~disposedF) { disposedF := TRUE; Notify() };
d2:         dispRet := TRUE;
        }
    }
}

process (Loop \in Loops)
    variables cur = 0;
{
l0: await self \in spawned;
l1: \* first critical section: dispose test, merge
    if (disposedF) { goto lx }
    else {
        batch[self] := Merge(ready, queue, now);
        queue := SubSeq(queue, DueLen(queue, now) + 1, Len(queue));
        ready := <<>>;
    };
l2: while (batch[self] # <<>>) {
        cur := Head(batch[self]); batch[self] := Tail(batch[self]);
        if (~cancelled[cur]) {                  \* item.is_cancelled(): the commit point
            picked := picked \cup {cur}; stamp := stamp + 1; cseq[cur] := stamp;
l3:         running := running \cup {cur}; runTh[cur] := self; startT[cur] := now;   \* the action starts
l4:         running := running \ {cur};                                                \* and returns
        }
    };
l5: \* last critical section
    if (ready # <<>>) { goto l1 }
    else if (queue # <<>>) {
        if (due[Head(queue)] - now > 0) {
            waiting[self] := "timed"; deadline[self] := due[Head(queue)]; notified[self] := FALSE;
        } else { goto l1 }
    } else if (xie) { thread := 0; goto lx }
    else { waiting[self] := "wait"; notified[self] := FALSE };
l6: \* Condition.wait returns: notified, or the timeout elapsed
    await notified[self] \/ (waiting[self] = "timed" /\ now >= deadline[self]);
    waiting[self] := "no";
    goto l1;
lx: skip;
}

process (Clock = 0)
{
t0: while (now < MaxT) { now := now + 1 }
}
} *)
\* BEGIN TRANSLATION (chksum(pcal) = "9c8557cb" /\ chksum(tla) = "2ec5b95c")
VARIABLES pc, now, xie, ready, queue, disposedF, thread, spawned, batch, 
          waiting, deadline, notified, cancelled, due, enq, immH, effH, cseq, 
          stamp, picked, running, runTh, startT, handle, used, dispRet, late, 
          early, refused, calls

(* define statement *)
Due(x) == due[x]

RECURSIVE PrefixLen(_, _)
PrefixLen(rl, d) == IF rl = <<>> \/ ~(d > due[Head(rl)]) THEN 0 ELSE 1 + PrefixLen(Tail(rl), d)

RECURSIVE Merge(_, _, _)
Merge(rl, q, time) ==
    IF q = <<>> \/ due[Head(q)] > time THEN rl
    ELSE LET k == PrefixLen(rl, due[Head(q)]) IN
         SubSeq(rl, 1, k) \o <<Head(q)>> \o Merge(SubSeq(rl, k + 1, Len(rl)), Tail(q), time)
RECURSIVE DueLen(_, _)
DueLen(q, time) == IF q = <<>> \/ due[Head(q)] > time THEN 0 ELSE 1 + DueLen(Tail(q), time)

RECURSIVE InsPos(_, _)
InsPos(q, d) == IF q = <<>> \/ due[Head(q)] > d THEN 0 ELSE 1 + InsPos(Tail(q), d)
Insert(q, x) == LET k == InsPos(q, due[x]) IN SubSeq(q, 1, k) \o <<x>> \o SubSeq(q, k + 1, Len(q))
Waiters == {w \in Loops : waiting[w] # "no" /\ ~notified[w]}
Fresh == Items \ used
PendingI(x) == enq[x] # 0 /\ x \notin picked /\ ~cancelled[x]

Serial == Cardinality(running) <= 1
OneThread == /\ \A x \in Items : runTh[x] # 0 => runTh[x] \in Loops
             /\ ~xie => Cardinality(spawned) <= 1
Fifo == \A x, y \in Items : (immH[x] /\ immH[y] /\ enq[x] # 0 /\ enq[x] < enq[y] /\ y \in picked) => ~PendingI(x)
DueOrder == \A x, y \in Items : (~immH[x] /\ ~immH[y] /\ enq[x] # 0 /\ y \in picked /\ enq[x] < cseq[y] /\ due[x] < due[y]) => ~PendingI(x)
CrossOrderTI == \A x, y \in Items : (immH[x] /\ ~immH[y] /\ enq[x] # 0 /\ y \in picked /\ enq[x] < cseq[y] /\ effH[x] < due[y]) => ~PendingI(x)
CrossOrderIT == \A x, y \in Items : (immH[x] /\ ~immH[y] /\ enq[y] # 0 /\ x \in picked /\ enq[y] < cseq[x] /\ due[y] < due[x]) => ~PendingI(y)
NotEarly == \A x \in Items : runTh[x] # 0 => startT[x] >= due[x]
CancelledNeverRuns == \A x \in early : x \notin picked
NoRunAfterDisposeReturned == \A x \in late : enq[x] = 0 /\ x \notin picked
ThreadForPending == ((\E x \in Items : PendingI(x)) /\ ~disposedF) => thread # 0

NoLostWakeup == \A w \in Loops : (waiting[w] # "no" /\ ~notified[w] /\ ~disposedF /\ thread = w) =>
                    /\ ready = <<>>
                    /\ waiting[w] = "wait" => queue = <<>>
                    /\ (waiting[w] = "timed" /\ queue # <<>>) => due[Head(queue)] >= deadline[w]

VARIABLES item, cur

vars == << pc, now, xie, ready, queue, disposedF, thread, spawned, batch, 
           waiting, deadline, notified, cancelled, due, enq, immH, effH, cseq, 
           stamp, picked, running, runTh, startT, handle, used, dispRet, late, 
           early, refused, calls, item, cur >>

ProcSet == (Clients) \cup (Loops) \cup {0}

Init == (* Global variables *)
        /\ now = 0
        /\ xie \in ExitModes
        /\ ready = <<>>
        /\ queue = <<>>
        /\ disposedF = FALSE
        /\ thread = 0
        /\ spawned = {}
        /\ batch = [w \in Loops |-> <<>>]
        /\ waiting = [w \in Loops |-> "no"]
        /\ deadline = [w \in Loops |-> 0]
        /\ notified = [w \in Loops |-> FALSE]
        /\ cancelled = [x \in Items |-> FALSE]
        /\ due = [x \in Items |-> 0]
        /\ enq = [x \in Items |-> 0]
        /\ immH = [x \in Items |-> FALSE]
        /\ effH = [x \in Items |-> 0]
        /\ cseq = [x \in Items |-> 0]
        /\ stamp = 0
        /\ picked = {}
        /\ running = {}
        /\ runTh = [x \in Items |-> 0]
        /\ startT = [x \in Items |-> 0]
        /\ handle = {}
        /\ used = {}
        /\ dispRet = FALSE
        /\ late = {}
        /\ early = {}
        /\ refused = {}
        /\ calls = 0
        (* Process Client *)
        /\ item = [self \in Clients |-> 0]
        (* Process Loop *)
        /\ cur = [self \in Loops |-> 0]
        /\ pc = [self \in ProcSet |-> CASE self \in Clients -> "c0"
                                        [] self \in Loops -> "l0"
                                        [] self = 0 -> "t0"]

c0(self) == /\ pc[self] = "c0"
            /\ IF calls < MaxCalls
                  THEN /\ \/ /\ Fresh # {}
                             /\ LET x == MinOf(Fresh) IN
                                  /\ item' = [item EXCEPT ![self] = x]
                                  /\ used' = (used \cup {x})
                                  /\ calls' = calls + 1
                                  /\ IF dispRet
                                        THEN /\ late' = (late \cup {x})
                                        ELSE /\ TRUE
                                             /\ late' = late
                                  /\ \/ /\ due' = [due EXCEPT ![x] = now]
                                     \/ /\ \E d \in RelD:
                                             due' = [due EXCEPT ![x] = now + d]
                                     \/ /\ \E t \in AbsT:
                                             due' = [due EXCEPT ![x] = t]
                             /\ pc' = [pc EXCEPT ![self] = "c1"]
                          \/ /\ \E x \in handle : ~cancelled[x]
                             /\ \E x \in {y \in handle : ~cancelled[y]}:
                                  /\ item' = [item EXCEPT ![self] = x]
                                  /\ calls' = calls + 1
                             /\ pc' = [pc EXCEPT ![self] = "k1"]
                             /\ UNCHANGED <<due, used, late>>
                          \/ /\ ~dispRet
                             /\ calls' = calls + 1
                             /\ pc' = [pc EXCEPT ![self] = "d1"]
                             /\ UNCHANGED <<due, used, late, item>>
                  ELSE /\ pc' = [pc EXCEPT ![self] = "Done"]
                       /\ UNCHANGED << due, used, late, calls, item >>
            /\ UNCHANGED << now, xie, ready, queue, disposedF, thread, spawned, 
                            batch, waiting, deadline, notified, cancelled, enq, 
                            immH, effH, cseq, stamp, picked, running, runTh, 
                            startT, handle, dispRet, early, refused, cur >>

c1(self) == /\ pc[self] = "c1"
            /\ IF disposedF
                  THEN /\ refused' = (refused \cup {item[self]})
                       /\ pc' = [pc EXCEPT ![self] = "c0"]
                  ELSE /\ pc' = [pc EXCEPT ![self] = "c2"]
                       /\ UNCHANGED refused
            /\ UNCHANGED << now, xie, ready, queue, disposedF, thread, spawned, 
                            batch, waiting, deadline, notified, cancelled, due, 
                            enq, immH, effH, cseq, stamp, picked, running, 
                            runTh, startT, handle, used, dispRet, late, early, 
                            calls, item, cur >>

c2(self) == /\ pc[self] = "c2"
            /\ stamp' = stamp + 1
            /\ enq' = [enq EXCEPT ![item[self]] = stamp']
            /\ effH' = [effH EXCEPT ![item[self]] = now]
            /\ IF due[item[self]] <= now
                  THEN /\ ready' = Append(ready, item[self])
                       /\ immH' = [immH EXCEPT ![item[self]] = TRUE]
                       /\ queue' = queue
                  ELSE /\ queue' = Insert(queue, item[self])
                       /\ UNCHANGED << ready, immH >>
            /\ IF Waiters # {}
                  THEN /\ \E w \in Waiters:
                            notified' = [notified EXCEPT ![w] = TRUE]
                  ELSE /\ TRUE
                       /\ UNCHANGED notified
            /\ IF thread = 0
                  THEN /\ LET w == MinOf(Loops \ spawned) IN
                            /\ thread' = w
                            /\ spawned' = (spawned \cup {w})
                  ELSE /\ TRUE
                       /\ UNCHANGED << thread, spawned >>
            /\ pc' = [pc EXCEPT ![self] = "c3"]
            /\ UNCHANGED << now, xie, disposedF, batch, waiting, deadline, 
                            cancelled, due, cseq, picked, running, runTh, 
                            startT, handle, used, dispRet, late, early, 
                            refused, calls, item, cur >>

c3(self) == /\ pc[self] = "c3"
            /\ handle' = (handle \cup {item[self]})
            /\ pc' = [pc EXCEPT ![self] = "c0"]
            /\ UNCHANGED << now, xie, ready, queue, disposedF, thread, spawned, 
                            batch, waiting, deadline, notified, cancelled, due, 
                            enq, immH, effH, cseq, stamp, picked, running, 
                            runTh, startT, used, dispRet, late, early, refused, 
                            calls, item, cur >>

k1(self) == /\ pc[self] = "k1"
            /\ cancelled' = [cancelled EXCEPT ![item[self]] = TRUE]
            /\ pc' = [pc EXCEPT ![self] = "k2"]
            /\ UNCHANGED << now, xie, ready, queue, disposedF, thread, spawned, 
                            batch, waiting, deadline, notified, due, enq, immH, 
                            effH, cseq, stamp, picked, running, runTh, startT, 
                            handle, used, dispRet, late, early, refused, calls, 
                            item, cur >>

k2(self) == /\ pc[self] = "k2"
            /\ IF item[self] \notin picked
                  THEN /\ early' = (early \cup {item[self]})
                  ELSE /\ TRUE
                       /\ early' = early
            /\ pc' = [pc EXCEPT ![self] = "c0"]
            /\ UNCHANGED << now, xie, ready, queue, disposedF, thread, spawned, 
                            batch, waiting, deadline, notified, cancelled, due, 
                            enq, immH, effH, cseq, stamp, picked, running, 
                            runTh, startT, handle, used, dispRet, late, 
                            refused, calls, item, cur >>

d1(self) == /\ pc[self] = "d1"
            /\ IF ~disposedF
                  THEN /\ disposedF' = TRUE
                       /\ IF Waiters # {}
                             THEN /\ \E w \in Waiters:
                                       notified' = [notified EXCEPT ![w] = TRUE]
                             ELSE /\ TRUE
                                  /\ UNCHANGED notified
                  ELSE /\ TRUE
                       /\ UNCHANGED << disposedF, notified >>
            /\ pc' = [pc EXCEPT ![self] = "d2"]
            /\ UNCHANGED << now, xie, ready, queue, thread, spawned, batch, 
                            waiting, deadline, cancelled, due, enq, immH, effH, 
                            cseq, stamp, picked, running, runTh, startT, 
                            handle, used, dispRet, late, early, refused, calls, 
                            item, cur >>

d2(self) == /\ pc[self] = "d2"
            /\ dispRet' = TRUE
            /\ pc' = [pc EXCEPT ![self] = "c0"]
            /\ UNCHANGED << now, xie, ready, queue, disposedF, thread, spawned, 
                            batch, waiting, deadline, notified, cancelled, due, 
                            enq, immH, effH, cseq, stamp, picked, running, 
                            runTh, startT, handle, used, late, early, refused, 
                            calls, item, cur >>

Client(self) == c0(self) \/ c1(self) \/ c2(self) \/ c3(self) \/ k1(self)
                   \/ k2(self) \/ d1(self) \/ d2(self)

l0(self) == /\ pc[self] = "l0"
            /\ self \in spawned
            /\ pc' = [pc EXCEPT ![self] = "l1"]
            /\ UNCHANGED << now, xie, ready, queue, disposedF, thread, spawned, 
                            batch, waiting, deadline, notified, cancelled, due, 
                            enq, immH, effH, cseq, stamp, picked, running, 
                            runTh, startT, handle, used, dispRet, late, early, 
                            refused, calls, item, cur >>

l1(self) == /\ pc[self] = "l1"
            /\ IF disposedF
                  THEN /\ pc' = [pc EXCEPT ![self] = "lx"]
                       /\ UNCHANGED << ready, queue, batch >>
                  ELSE /\ batch' = [batch EXCEPT ![self] = Merge(ready, queue, now)]
                       /\ queue' = SubSeq(queue, DueLen(queue, now) + 1, Len(queue))
                       /\ ready' = <<>>
                       /\ pc' = [pc EXCEPT ![self] = "l2"]
            /\ UNCHANGED << now, xie, disposedF, thread, spawned, waiting, 
                            deadline, notified, cancelled, due, enq, immH, 
                            effH, cseq, stamp, picked, running, runTh, startT, 
                            handle, used, dispRet, late, early, refused, calls, 
                            item, cur >>

l2(self) == /\ pc[self] = "l2"
            /\ IF batch[self] # <<>>
                  THEN /\ cur' = [cur EXCEPT ![self] = Head(batch[self])]
                       /\ batch' = [batch EXCEPT ![self] = Tail(batch[self])]
                       /\ IF ~cancelled[cur'[self]]
                             THEN /\ picked' = (picked \cup {cur'[self]})
                                  /\ stamp' = stamp + 1
                                  /\ cseq' = [cseq EXCEPT ![cur'[self]] = stamp']
                                  /\ pc' = [pc EXCEPT ![self] = "l3"]
                             ELSE /\ pc' = [pc EXCEPT ![self] = "l2"]
                                  /\ UNCHANGED << cseq, stamp, picked >>
                  ELSE /\ pc' = [pc EXCEPT ![self] = "l5"]
                       /\ UNCHANGED << batch, cseq, stamp, picked, cur >>
            /\ UNCHANGED << now, xie, ready, queue, disposedF, thread, spawned, 
                            waiting, deadline, notified, cancelled, due, enq, 
                            immH, effH, running, runTh, startT, handle, used, 
                            dispRet, late, early, refused, calls, item >>

l3(self) == /\ pc[self] = "l3"
            /\ running' = (running \cup {cur[self]})
            /\ runTh' = [runTh EXCEPT ![cur[self]] = self]
            /\ startT' = [startT EXCEPT ![cur[self]] = now]
            /\ pc' = [pc EXCEPT ![self] = "l4"]
            /\ UNCHANGED << now, xie, ready, queue, disposedF, thread, spawned, 
                            batch, waiting, deadline, notified, cancelled, due, 
                            enq, immH, effH, cseq, stamp, picked, handle, used, 
                            dispRet, late, early, refused, calls, item, cur >>

l4(self) == /\ pc[self] = "l4"
            /\ running' = running \ {cur[self]}
            /\ pc' = [pc EXCEPT ![self] = "l2"]
            /\ UNCHANGED << now, xie, ready, queue, disposedF, thread, spawned, 
                            batch, waiting, deadline, notified, cancelled, due, 
                            enq, immH, effH, cseq, stamp, picked, runTh, 
                            startT, handle, used, dispRet, late, early, 
                            refused, calls, item, cur >>

l5(self) == /\ pc[self] = "l5"
            /\ IF ready # <<>>
                  THEN /\ pc' = [pc EXCEPT ![self] = "l1"]
                       /\ UNCHANGED << thread, waiting, deadline, notified >>
                  ELSE /\ IF queue # <<>>
                             THEN /\ IF due[Head(queue)] - now > 0
                                        THEN /\ waiting' = [waiting EXCEPT ![self] = "timed"]
                                             /\ deadline' = [deadline EXCEPT ![self] = due[Head(queue)]]
                                             /\ notified' = [notified EXCEPT ![self] = FALSE]
                                             /\ pc' = [pc EXCEPT ![self] = "l6"]
                                        ELSE /\ pc' = [pc EXCEPT ![self] = "l1"]
                                             /\ UNCHANGED << waiting, deadline, 
                                                             notified >>
                                  /\ UNCHANGED thread
                             ELSE /\ IF xie
                                        THEN /\ thread' = 0
                                             /\ pc' = [pc EXCEPT ![self] = "lx"]
                                             /\ UNCHANGED << waiting, notified >>
                                        ELSE /\ waiting' = [waiting EXCEPT ![self] = "wait"]
                                             /\ notified' = [notified EXCEPT ![self] = FALSE]
                                             /\ pc' = [pc EXCEPT ![self] = "l6"]
                                             /\ UNCHANGED thread
                                  /\ UNCHANGED deadline
            /\ UNCHANGED << now, xie, ready, queue, disposedF, spawned, batch, 
                            cancelled, due, enq, immH, effH, cseq, stamp, 
                            picked, running, runTh, startT, handle, used, 
                            dispRet, late, early, refused, calls, item, cur >>

l6(self) == /\ pc[self] = "l6"
            /\ notified[self] \/ (waiting[self] = "timed" /\ now >= deadline[self])
            /\ waiting' = [waiting EXCEPT ![self] = "no"]
            /\ pc' = [pc EXCEPT ![self] = "l1"]
            /\ UNCHANGED << now, xie, ready, queue, disposedF, thread, spawned, 
                            batch, deadline, notified, cancelled, due, enq, 
                            immH, effH, cseq, stamp, picked, running, runTh, 
                            startT, handle, used, dispRet, late, early, 
                            refused, calls, item, cur >>

lx(self) == /\ pc[self] = "lx"
            /\ TRUE
            /\ pc' = [pc EXCEPT ![self] = "Done"]
            /\ UNCHANGED << now, xie, ready, queue, disposedF, thread, spawned, 
                            batch, waiting, deadline, notified, cancelled, due, 
                            enq, immH, effH, cseq, stamp, picked, running, 
                            runTh, startT, handle, used, dispRet, late, early, 
                            refused, calls, item, cur >>

Loop(self) == l0(self) \/ l1(self) \/ l2(self) \/ l3(self) \/ l4(self)
                 \/ l5(self) \/ l6(self) \/ lx(self)

t0 == /\ pc[0] = "t0"
      /\ IF now < MaxT
            THEN /\ now' = now + 1
                 /\ pc' = [pc EXCEPT ![0] = "t0"]
            ELSE /\ pc' = [pc EXCEPT ![0] = "Done"]
                 /\ now' = now
      /\ UNCHANGED << xie, ready, queue, disposedF, thread, spawned, batch, 
                      waiting, deadline, notified, cancelled, due, enq, immH, 
                      effH, cseq, stamp, picked, running, runTh, startT, 
                      handle, used, dispRet, late, early, refused, calls, item, 
                      cur >>

Clock == t0

(* Allow infinite stuttering to prevent deadlock on termination. *)
Terminating == /\ \A self \in ProcSet: pc[self] = "Done"
               /\ UNCHANGED vars

Next == Clock
           \/ (\E self \in Clients: Client(self))
           \/ (\E self \in Loops: Loop(self))
           \/ Terminating

Spec == Init /\ [][Next]_vars

Termination == <>(\A self \in ProcSet: pc[self] = "Done")

\* END TRANSLATION 
=============================================================================
