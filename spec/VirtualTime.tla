------------------------------ MODULE VirtualTime ------------------------------
(* L0: virtual-time schedulers (VirtualTimeScheduler, TestScheduler, HistoricalScheduler).
   One action per driver call / per loop iteration of start() and advance_to(); programs
   are enumerated lazily: whenever the driver is at top level, or an action body runs, the
   next command is chosen from a bounded menu and appended to the history, which is the
   script the replayer performs on the real scheduler (C28, C29).                        *)
EXTENDS Naturals, Sequences, FiniteSets, TLC, Json

CONSTANTS MaxCmds,    \* global command budget (top-level + inside actions)
          MaxItems,   \* at most this many schedule calls
          MaxBody,    \* commands per action body
          RelD,       \* set of relative due times offered
          AbsT,       \* set of absolute due times offered
          AdvT,       \* targets offered to advance_to
          AdvD,       \* arguments offered to advance_by / sleep
          Bump        \* TRUE: the spin nudge of start() may move the clock (C29 variant)

VARIABLES clock, queue, cancelled, mode, target, enabled, cur, left, budget, nextId,
          top, body, ran, clocks, due, errs, amb, bumps

vars == <<clock, queue, cancelled, mode, target, enabled, cur, left, budget, nextId,
          top, body, ran, clocks, due, errs, amb, bumps>>

Max(a, b) == IF a >= b THEN a ELSE b
Cmd(c, a, b) == [c |-> c, a |-> a, b |-> b]

Init == /\ clock = 0 /\ queue = <<>> /\ cancelled = {} /\ mode = "top" /\ target = 0
        /\ enabled = FALSE /\ cur = 0 /\ left = 0 /\ budget = MaxCmds /\ nextId = 1
        /\ top = <<>> /\ body = [i \in 1..MaxItems |-> <<>>] /\ ran = <<>> /\ clocks = <<>>
        /\ due = [i \in 1..MaxItems |-> 0] /\ errs = <<>> /\ amb = FALSE /\ bumps = 0

AtTop == mode = "top" /\ cur = 0

(* ---- the abstract scheduler object ------------------------------------------------ *)
DueOf(kind, d) == CASE kind = "imm" -> clock [] kind = "rel" -> clock + d [] OTHER -> d

Enqueue(kind, d) == /\ nextId <= MaxItems
                    /\ queue' = Append(queue, nextId)
                    /\ due' = [due EXCEPT ![nextId] = DueOf(kind, d)]
                    /\ nextId' = nextId + 1

Kinds == {<<"imm", 0>>} \cup {<<"rel", d>> : d \in RelD} \cup {<<"abs", t>> : t \in AbsT}

\* position of the item to run next: least due, first scheduled among equals
Eligible == {p \in 1..Len(queue) : mode = "start" \/ due[queue[p]] <= target}
NextPos  == CHOOSE p \in Eligible : \A q \in Eligible :
                 due[queue[p]] < due[queue[q]] \/ (due[queue[p]] = due[queue[q]] /\ p <= q)
Remove(s, p) == SubSeq(s, 1, p - 1) \o SubSeq(s, p + 1, Len(s))

(* ---- top-level commands ---------------------------------------------------------- *)
TSched == \E k \in Kinds :
            /\ AtTop /\ budget > 0 /\ Enqueue(k[1], k[2])
            /\ top' = Append(top, Cmd("sched_" \o k[1], k[2], nextId))
            /\ clocks' = Append(clocks, <<clock, Len(ran)>>) /\ budget' = budget - 1
            /\ UNCHANGED <<clock, cancelled, mode, target, enabled, cur, left, body, ran, errs, amb, bumps>>

TCancel == \E j \in 1..(nextId - 1) :
            /\ AtTop /\ budget > 0 /\ cancelled' = cancelled \cup {j}
            /\ top' = Append(top, Cmd("cancel", j, 0))
            /\ clocks' = Append(clocks, <<clock, Len(ran)>>) /\ budget' = budget - 1
            /\ UNCHANGED <<clock, queue, mode, target, enabled, cur, left, nextId, body, ran, due, errs, amb, bumps>>

TStart == /\ AtTop /\ budget > 0 /\ mode' = "start" /\ enabled' = TRUE
          /\ top' = Append(top, Cmd("start", 0, 0)) /\ budget' = budget - 1
          /\ UNCHANGED <<clock, queue, cancelled, target, cur, left, nextId, body, ran, clocks, due, errs, amb, bumps>>

\* advance_to(t): t < clock raises; otherwise run everything due at or before t, end at t
TAdvTo == \E t \in AdvT :
            /\ AtTop /\ budget > 0 /\ budget' = budget - 1
            /\ IF t < clock
               THEN /\ top' = Append(top, Cmd("advance_to", t, 0))
                    /\ clocks' = Append(clocks, <<clock, Len(ran)>>) /\ errs' = Append(errs, Len(top) + 1)
                    /\ UNCHANGED <<mode, target, enabled>>
               ELSE /\ top' = Append(top, Cmd("advance_to", t, 0))
                    /\ mode' = "adv" /\ target' = t /\ enabled' = TRUE
                    /\ UNCHANGED <<clocks, errs, amb, bumps>>
            /\ UNCHANGED <<clock, queue, cancelled, cur, left, nextId, body, ran, due, amb, bumps>>

TAdvBy == \E d \in AdvD :
            /\ AtTop /\ budget > 0 /\ budget' = budget - 1
            /\ top' = Append(top, Cmd("advance_by", d, 0))
            /\ mode' = "adv" /\ target' = clock + d /\ enabled' = TRUE
            /\ UNCHANGED <<clock, queue, cancelled, cur, left, nextId, body, ran, clocks, due, errs, amb, bumps>>

TSleep == \E d \in AdvD :
            /\ AtTop /\ budget > 0 /\ budget' = budget - 1
            /\ top' = Append(top, Cmd("sleep", d, 0))
            /\ clock' = clock + d /\ clocks' = Append(clocks, <<clock + d, Len(ran)>>)
            /\ UNCHANGED <<queue, cancelled, mode, target, enabled, cur, left, nextId, body, ran, due, errs, amb, bumps>>

(* ---- the run loop of start() / advance_to() ----------------------------------------- *)
LoopPick == /\ mode \in {"start", "adv"} /\ cur = 0 /\ enabled /\ Eligible # {}
            /\ LET p == NextPos  id == queue[p] IN
               /\ queue' = Remove(queue, p)
               /\ IF id \in cancelled
                  THEN \* the statement is silent on whether discarding a cancelled item moves the clock
                       /\ clock' \in {clock, Max(clock, due[id])}
                       /\ amb' = (amb \/ due[id] > clock)   \* history whose allowed set is not a singleton
                       /\ UNCHANGED <<ran, cur, left>>
                  ELSE /\ clock' = Max(clock, due[id])
                       /\ ran' = Append(ran, <<id, Max(clock, due[id])>>)
                       /\ cur' = id /\ left' = MaxBody /\ UNCHANGED amb
            /\ UNCHANGED <<cancelled, mode, target, enabled, budget, nextId, top, body, clocks, due, errs, bumps>>

LoopExit == /\ mode \in {"start", "adv"} /\ cur = 0 /\ (~enabled \/ Eligible = {})
            /\ mode' = "top" /\ enabled' = FALSE
            /\ clock' = IF mode = "adv" THEN Max(clock, target) ELSE clock
            /\ clocks' = Append(clocks, <<clock', Len(ran)>>)
            /\ UNCHANGED <<queue, cancelled, target, cur, left, budget, nextId, top, body, ran, due, errs, amb, bumps>>

\* the spin nudge: start() may move the clock forward between two same-instant actions
SpinBump == /\ Bump /\ mode = "start" /\ cur = 0 /\ enabled /\ Eligible # {}
            /\ due[queue[NextPos]] <= clock /\ Len(ran) > 0 /\ bumps < MaxItems
            /\ clock' = clock + 1 /\ bumps' = bumps + 1
            /\ UNCHANGED <<queue, cancelled, mode, target, enabled, cur, left, budget, nextId, top, body, ran, clocks, due, errs, amb>>

(* ---- what a running action does ----------------------------------------------------- *)
ASched == \E k \in Kinds :
            /\ cur # 0 /\ left > 0 /\ budget > 0 /\ Enqueue(k[1], k[2])
            /\ body' = [body EXCEPT ![cur] = Append(@, Cmd("sched_" \o k[1], k[2], nextId))]
            /\ left' = left - 1 /\ budget' = budget - 1
            /\ UNCHANGED <<clock, cancelled, mode, target, enabled, cur, top, ran, clocks, errs, amb, bumps>>

ACancel == \E j \in 1..(nextId - 1) :
            /\ cur # 0 /\ left > 0 /\ budget > 0 /\ cancelled' = cancelled \cup {j}
            /\ body' = [body EXCEPT ![cur] = Append(@, Cmd("cancel", j, 0))]
            /\ left' = left - 1 /\ budget' = budget - 1
            /\ UNCHANGED <<clock, queue, mode, target, enabled, cur, nextId, top, ran, clocks, due, errs, amb, bumps>>

AStop == /\ cur # 0 /\ left > 0 /\ budget > 0 /\ enabled /\ enabled' = FALSE
         /\ body' = [body EXCEPT ![cur] = Append(@, Cmd("stop", 0, 0))]
         /\ left' = left - 1 /\ budget' = budget - 1
         /\ UNCHANGED <<clock, queue, cancelled, mode, target, cur, nextId, top, ran, clocks, due, errs, amb, bumps>>

\* an action may also call sleep(): the clock moves, nothing runs
ASleep == \E d \in AdvD :
            /\ cur # 0 /\ left > 0 /\ budget > 0 /\ d > 0 /\ clock' = clock + d
            /\ body' = [body EXCEPT ![cur] = Append(@, Cmd("sleep", d, 0))]
            /\ left' = left - 1 /\ budget' = budget - 1
            /\ UNCHANGED <<queue, cancelled, mode, target, enabled, cur, nextId, top, ran, clocks, due, errs, amb, bumps>>

\* an action may call advance_by() on the scheduler that is running it: while a run is in progress (and has not been
\* stopped) the nested call returns at once - it neither runs anything, nor moves the clock, nor ends the enclosing run
AAdvBy == \E d \in AdvD :
            /\ cur # 0 /\ left > 0 /\ budget > 0 /\ d > 0 /\ enabled
            /\ body' = [body EXCEPT ![cur] = Append(@, Cmd("advance_by", d, 0))]
            /\ left' = left - 1 /\ budget' = budget - 1
            /\ UNCHANGED <<clock, queue, cancelled, mode, target, enabled, cur, nextId, top, ran, clocks, due, errs, amb, bumps>>

AEnd == /\ cur # 0 /\ cur' = 0 /\ left' = 0
        /\ UNCHANGED <<clock, queue, cancelled, mode, target, enabled, budget, nextId, top, body, ran, clocks, due, errs, amb, bumps>>

Next == TSched \/ TCancel \/ TStart \/ TAdvTo \/ TAdvBy \/ TSleep
        \/ LoopPick \/ LoopExit \/ SpinBump \/ ASched \/ ACancel \/ AStop \/ ASleep \/ AAdvBy \/ AEnd

Spec == Init /\ [][Next]_vars /\ WF_vars(LoopPick \/ LoopExit \/ AEnd)

(* ---- the property, as invariants of the model (C28) --------------------------------- *)
TypeOK == /\ clock \in Nat /\ cur \in 0..MaxItems /\ budget \in 0..MaxCmds

\* the clock never moves backwards
Monotone == [][clock' >= clock]_vars

\* an action runs with the clock at max(previous clock, its due time): never early
NotEarly == \A i \in 1..Len(ran) : ran[i][2] >= due[ran[i][1]]
RunClocksSorted == \A i \in 1..(Len(ran) - 1) : ran[i][2] <= ran[i + 1][2]
\* nothing runs twice
RunOnce == \A i, j \in 1..Len(ran) : i # j => ran[i][1] # ran[j][1]
\* after advance_to/advance_by returned normally the clock is at the target, and (unless an
\* action stopped the scheduler) nothing due at or before it is left that is not cancelled
AdvanceComplete == (AtTop /\ Len(top) > 0 /\ top[Len(top)].c \in {"advance_to", "advance_by"}
                    /\ (errs = <<>> \/ errs[Len(errs)] # Len(top)))
                   => /\ clock >= target   \* the clock never moves backwards, even if an action slept past the target
                      /\ (\A i \in 1..MaxItems : \A j \in 1..Len(body[i]) : body[i][j].c # "sleep") => clock = target
                      /\ (\A i \in 1..MaxItems : \A j \in 1..Len(body[i]) : body[i][j].c # "stop")
                            => \A p \in 1..Len(queue) : due[queue[p]] > target
\* a drained start() leaves an empty queue unless stopped
StartComplete == (AtTop /\ Len(top) > 0 /\ top[Len(top)].c = "start"
                  /\ \A i \in 1..MaxItems : \A j \in 1..Len(body[i]) : body[i][j].c # "stop")
                 => queue = <<>>
\* two items pending together run in (due, seq) order: if a ran before b although b was
\* scheduled no later and due no later, b must have been enqueued after a started
Fifo == \A i, j \in 1..Len(ran) :
          (i < j /\ ran[i][1] > ran[j][1]) =>
             due[ran[j][1]] > due[ran[i][1]]
\* C29: every driver call returns (checked as a temporal property with fairness)
Returns == <>(budget = 0 /\ AtTop) \/ <>[](AtTop)
Terminates == <>[](AtTop)

(* ---- export -------------------------------------------------------------------------- *)
Terminal == AtTop /\ (budget = 0 \/ nextId > MaxItems)
Export == (AtTop /\ budget = 0) =>
            PrintT(ToJson([scn |-> [top |-> top, body |-> body, n |-> nextId - 1],
                           obs |-> [ran |-> ran, clocks |-> clocks, errs |-> errs, amb |-> amb]]))
================================================================================
