--------------------------------- MODULE Ops1 ---------------------------------
(* L3, runner "Run1": one source, one subscriber, one operator.
   The operator, its parameters, the source timeline, its terminal kind and the instant at
   which the subscriber disposes are chosen in Init; one Feed step delivers one source
   event to the operator's transducer.  Time is the index of the input event (0 = the
   subscription instant, Len+1 = the terminal): "each output is emitted at the virtual
   time of the input that determines it" is the field `at`.  The replayer maps indices to
   virtual times (several maps, including equal adjacent times).
   Values are tokens 0..NVals-1; RAISE (= NVals) in a function table means "the user
   function raises on this argument" (C09).  Serves C05 C06 C08 C09 C03 C04 C39 C44.   *)
EXTENDS Integers, Sequences, FiniteSets, TLC, Json

CONSTANTS NVals, MaxLen, Ops, Terms, Disposes, Faults, IdentSrc
\* Ops: set of operator names explored; Terms \subseteq {"C","E","U"} (U = never terminates)
\* Disposes: TRUE => the dispose instant ranges over 0..Len+1 as well as "never"
\* Faults: TRUE => function tables may contain RAISE
\* IdentSrc: TRUE => sources are <<0, 1, 2, ...>> (positions are what matters: slicing)

Vals  == 0..(NVals - 1)
RAISE == NVals
NONE  == 0 - 1          \* Python None as a result (find); tokens are >= 0
VR    == IF Faults THEN Vals \cup {RAISE} ELSE Vals
PR    == IF Faults THEN {0, 1, 2} ELSE {0, 1}      \* predicate results: 0 false, 1 true, 2 raises

VARIABLES op, par, src, term, dsp, i, st, out, done, unsub, pick
vars == <<op, par, src, term, dsp, i, st, out, done, unsub, pick>>

N(v) == [k |-> "N", v |-> v, e |-> ""]
C    == [k |-> "C", v |-> 0, e |-> ""]
E(e) == [k |-> "E", v |-> 0, e |-> e]
R(s, em, fin) == [st |-> s, em |-> em, fin |-> fin]
S0 == [c |-> 0, q |-> <<>>, b |-> FALSE]
Pass(s, v) == R(s, <<N(v)>>, FALSE)
Drop(s)    == R(s, <<>>, FALSE)
Fail(s, e) == R(s, <<E(e)>>, TRUE)
LastN(q, n) == IF Len(q) <= n THEN q ELSE SubSeq(q, Len(q) - n + 1, Len(q))

(* ---- user functions as tables / codes ---------------------------------------------- *)
\* comparers: 0 equality, 1 same parity, 2 never equal, 3 always equal, 4 raises,
\* 5 "near" (|a - b| <= 1: symmetric but NOT transitive - an equivalence relation cannot tell "compare with the
\* last emitted element" from "compare with the previous input")
CmpCodes == IF Faults THEN 0..4 ELSE 0..3
Cmp(code, a, b) == CASE code = 0 -> IF a = b THEN 1 ELSE 0
                     [] code = 1 -> IF a % 2 = b % 2 THEN 1 ELSE 0
                     [] code = 2 -> 0
                     [] code = 3 -> 1
                     [] code = 5 -> IF a - b <= 1 /\ b - a <= 1 THEN 1 ELSE 0
                     [] OTHER    -> 2
\* binary accumulators: 0 (a+b)%K, 1 second, 2 first, 3 max, 4 (a+b)%K but raises when b is the last token
AccCodes == IF Faults THEN 0..4 ELSE 0..3
Acc(code, a, b) == CASE code = 0 -> (a + b) % NVals
                     [] code = 1 -> b
                     [] code = 2 -> a
                     [] code = 3 -> IF a >= b THEN a ELSE b
                     [] OTHER    -> IF b = NVals - 1 THEN RAISE ELSE (a + b) % NVals
Tables  == [Vals -> VR]
PTables == [Vals -> PR]
\* an indexed predicate is a table whose verdict flips with the parity of the index
PIdx(p, v, idx) == IF p[v] = 2 THEN 2 ELSE (p[v] + idx) % 2
FIdx(f, v, idx) == IF f[v] = RAISE THEN RAISE ELSE (f[v] + idx) % NVals
Counts == 0..(MaxLen + 1)
NoneS == 99                      \* Python None as a slice bound
SBounds == ((0 - (MaxLen + 1))..(MaxLen + 1)) \cup {NoneS}
Min2(a, b) == IF a <= b THEN a ELSE b
Max2(a, b) == IF a >= b THEN a ELSE b
\* list(s)[a:b:c] for c >= 1, written out: normalise negatives by the length, clamp, stride
SNorm(x, len, dflt) == IF x = NoneS THEN dflt ELSE IF x < 0 THEN Max2(x + len, 0) ELSE Min2(x, len)
PySlice(s, a, b, c) == LET len == Len(s)  lo == SNorm(a, len, 0)  hi == SNorm(b, len, len)
                           n == IF hi > lo THEN (hi - lo + c - 1) \div c ELSE 0 IN
                       [j \in 1..n |-> s[lo + (j - 1) * c + 1]]

(* ---- parameters per operator --------------------------------------------------------- *)
ParamsOf(o) ==
  CASE o \in {"map", "starmap", "map_indexed"}   -> [f : Tables]
    [] o \in {"filter", "filter_indexed", "skip_while", "skip_while_indexed", "find", "find_index",
              "take_while_indexed", "all", "some_p", "count_p", "first_p", "last_p", "single_p"}
                                                 -> [p : PTables]
    [] o = "take_while"                          -> [p : PTables, incl : BOOLEAN]
    [] o \in {"take", "skip", "take_last", "skip_last", "take_last_buffer", "element_at"}
                                                 -> [n : Counts]
    [] o = "element_at_or_default"               -> [n : Counts, d : Vals]
    [] o \in {"distinct", "distinct_until_changed"} -> [f : Tables, cmp : CmpCodes]
    \* identity key, non-transitive comparer (run with NVals >= 3)
    [] o \in {"distinct_near", "distinct_until_changed_near"} -> [f : {[v \in Vals |-> v]}, cmp : {5}]
    [] o = "start_with"                          -> [a : UNION {[1..m -> Vals] : m \in 0..2}]
    [] o \in {"default_if_empty", "first_or_default", "last_or_default", "single_or_default", "contains"}
                                                 -> [d : Vals]
    [] o = "contains_cmp"                        -> [d : Vals, cmp : CmpCodes]
    [] o = "dematerialize"                       -> [nt : [Vals -> {"N", "C", "E"}]]
    [] o \in {"reduce", "scan"}                  -> [acc : AccCodes]
    [] o \in {"reduce_seed", "scan_seed"}        -> [acc : AccCodes, d : Vals]
    [] o \in {"sum_key", "average_key", "min_by", "max_by", "to_dict"} -> [f : Tables]
    [] o \in {"first_or_default_p", "last_or_default_p", "single_or_default_p"} -> [p : PTables, d : Vals]
    [] o \in {"min_cmp", "max_cmp"}              -> [rev : BOOLEAN]
    [] o = "sequence_equal_iter"                 -> [other : UNION {[1..m -> Vals] : m \in 0..MaxLen}, cmp : CmpCodes]
    [] o = "slice"                               -> [a : SBounds, b : SBounds, c : 1..(MaxLen + 1)]
    [] o = "getitem_int"                         -> [n : (0 - MaxLen)..(MaxLen - 1)]
    [] OTHER                                     -> {[z |-> 0]}

(* ---- transducers ----------------------------------------------------------------------- *)
\* at the subscription instant; fin = TRUE means the source is not subscribed at all
Sub(o, p) ==
  CASE o = "take" /\ p.n = 0 -> R(S0, <<C>>, TRUE)
    [] o = "start_with"      -> R(S0, [j \in 1..Len(p.a) |-> N(p.a[j])], FALSE)
    [] OTHER                 -> R(S0, <<>>, FALSE)

MinMaxBy(p, s, v, wantMax) ==
  LET k == p.f[v] IN
  IF k = RAISE THEN Fail(s, "fn")
  ELSE IF ~s.b THEN Drop([c |-> k, q |-> <<v>>, b |-> TRUE])
  ELSE IF k = s.c THEN Drop([s EXCEPT !.q = Append(s.q, v)])
  ELSE IF (wantMax /\ k > s.c) \/ (~wantMax /\ k < s.c) THEN Drop([c |-> k, q |-> <<v>>, b |-> TRUE])
  ELSE Drop(s)

Nx(o, p, s, v) ==
  CASE o \in {"map", "starmap"} -> IF p.f[v] = RAISE THEN Fail(s, "fn") ELSE Pass(s, p.f[v])
    [] o = "map_indexed" -> IF p.f[v] = RAISE THEN Fail(s, "fn")
                            ELSE Pass([s EXCEPT !.c = s.c + 1], FIdx(p.f, v, s.c))
    [] o = "filter" -> (CASE p.p[v] = 2 -> Fail(s, "fn") [] p.p[v] = 1 -> Pass(s, v) [] OTHER -> Drop(s))
    [] o = "filter_indexed" ->
         (LET r == PIdx(p.p, v, s.c)  s2 == [s EXCEPT !.c = s.c + 1] IN
          CASE r = 2 -> Fail(s, "fn") [] r = 1 -> Pass(s2, v) [] OTHER -> Drop(s2))
    [] o = "take" -> IF s.c + 1 = p.n THEN R(s, <<N(v), C>>, TRUE) ELSE Pass([s EXCEPT !.c = s.c + 1], v)
    [] o = "skip" -> IF s.c < p.n THEN Drop([s EXCEPT !.c = s.c + 1]) ELSE Pass(s, v)
    [] o = "take_while" ->
         (CASE p.p[v] = 2 -> Fail(s, "fn") [] p.p[v] = 1 -> Pass(s, v)
            [] OTHER -> IF p.incl THEN R(s, <<N(v), C>>, TRUE) ELSE R(s, <<C>>, TRUE))
    [] o = "take_while_indexed" ->
         (LET r == PIdx(p.p, v, s.c) IN
          CASE r = 2 -> Fail(s, "fn") [] r = 1 -> Pass([s EXCEPT !.c = s.c + 1], v) [] OTHER -> R(s, <<C>>, TRUE))
    [] o = "skip_while" ->
         IF s.b THEN Pass(s, v)
         ELSE (CASE p.p[v] = 2 -> Fail(s, "fn") [] p.p[v] = 1 -> Drop(s) [] OTHER -> Pass([s EXCEPT !.b = TRUE], v))
    [] o = "skip_while_indexed" ->
         IF s.b THEN Pass(s, v)
         ELSE (LET r == PIdx(p.p, v, s.c) IN
               CASE r = 2 -> Fail(s, "fn") [] r = 1 -> Drop([s EXCEPT !.c = s.c + 1])
                 [] OTHER -> Pass([s EXCEPT !.b = TRUE], v))
    [] o \in {"distinct", "distinct_near"} ->
         (LET k == p.f[v] IN
          IF k = RAISE THEN Fail(s, "fn")
          ELSE LET hits == {j \in 1..Len(s.q) : Cmp(p.cmp, s.q[j], k) # 0}
                   first == IF hits = {} THEN 0 ELSE CHOOSE j \in hits : \A h \in hits : j <= h IN
               IF first = 0 THEN Pass([s EXCEPT !.q = Append(s.q, k)], v)
               ELSE IF Cmp(p.cmp, s.q[first], k) = 2 THEN Fail(s, "fn") ELSE Drop(s))
    [] o \in {"distinct_until_changed", "distinct_until_changed_near"} ->
         (LET k == p.f[v] IN
          IF k = RAISE THEN Fail(s, "fn")
          ELSE IF ~s.b THEN Pass([s EXCEPT !.b = TRUE, !.c = k], v)
          ELSE (CASE Cmp(p.cmp, s.c, k) = 2 -> Fail(s, "fn")
                  [] Cmp(p.cmp, s.c, k) = 1 -> Drop(s)
                  [] OTHER -> Pass([s EXCEPT !.c = k], v)))
    [] o = "pairwise" -> IF s.b THEN Pass([s EXCEPT !.c = v], <<s.c, v>>) ELSE Drop([s EXCEPT !.b = TRUE, !.c = v])
    [] o \in {"start_with", "pluck", "as_observable"} -> Pass(s, v)
    [] o = "default_if_empty" -> Pass([s EXCEPT !.b = TRUE], v)
    [] o = "ignore_elements" -> Drop(s)
    [] o = "take_last" -> Drop([s EXCEPT !.q = LastN(Append(s.q, v), p.n)])
    \* slicing: the reference is the list computation at completion; when an element could be
    \* streamed earlier is not part of the statement (instants are not asserted for these two)
    [] o \in {"slice", "getitem_int"} -> Drop([s EXCEPT !.q = Append(s.q, v)])
    [] o = "take_last_buffer" -> Drop([s EXCEPT !.q = LastN(Append(s.q, v), p.n)])
    [] o = "skip_last" -> (LET q2 == Append(s.q, v) IN
                           IF Len(q2) > p.n THEN Pass([s EXCEPT !.q = Tail(q2)], Head(q2)) ELSE Drop([s EXCEPT !.q = q2]))
    [] o \in {"element_at", "element_at_or_default"} ->
         IF s.c = p.n THEN R(s, <<N(v), C>>, TRUE) ELSE Drop([s EXCEPT !.c = s.c + 1])
    [] o = "find" -> (CASE p.p[v] = 2 -> Fail(s, "fn") [] p.p[v] = 1 -> R(s, <<N(v), C>>, TRUE) [] OTHER -> Drop(s))
    [] o = "find_index" -> (CASE p.p[v] = 2 -> Fail(s, "fn") [] p.p[v] = 1 -> R(s, <<N(s.c), C>>, TRUE)
                              [] OTHER -> Drop([s EXCEPT !.c = s.c + 1]))
    [] o = "materialize" -> Pass(s, [nk |-> "N", nv |-> v])
    [] o = "dematerialize" -> (CASE p.nt[v] = "N" -> Pass(s, v) [] p.nt[v] = "C" -> R(s, <<C>>, TRUE)
                                 [] OTHER -> R(s, <<E("notif")>>, TRUE))
    (* ---- aggregates (C06) ---- *)
    [] o \in {"reduce", "reduce_seed"} ->
         IF ~s.b /\ o = "reduce" THEN Drop([s EXCEPT !.b = TRUE, !.c = v])
         ELSE (LET a == IF s.b THEN s.c ELSE p.d  y == Acc(p.acc, a, v) IN
               IF y = RAISE THEN Fail(s, "fn") ELSE Drop([s EXCEPT !.b = TRUE, !.c = y]))
    [] o \in {"scan", "scan_seed"} ->
         IF ~s.b /\ o = "scan" THEN Pass([s EXCEPT !.b = TRUE, !.c = v], v)
         ELSE (LET a == IF s.b THEN s.c ELSE p.d  y == Acc(p.acc, a, v) IN
               IF y = RAISE THEN Fail(s, "fn") ELSE Pass([s EXCEPT !.b = TRUE, !.c = y], y))
    [] o = "count" -> Drop([s EXCEPT !.c = s.c + 1])
    [] o = "count_p" -> (CASE p.p[v] = 2 -> Fail(s, "fn") [] p.p[v] = 1 -> Drop([s EXCEPT !.c = s.c + 1]) [] OTHER -> Drop(s))
    [] o \in {"sum", "average"} -> Drop([s EXCEPT !.c = s.c + v, !.q = Append(s.q, v)])
    [] o \in {"sum_key", "average_key"} ->
         IF p.f[v] = RAISE THEN Fail(s, "fn") ELSE Drop([s EXCEPT !.c = s.c + p.f[v], !.q = Append(s.q, v)])
    [] o \in {"min", "max"} ->
         IF ~s.b THEN Drop([s EXCEPT !.b = TRUE, !.c = v])
         ELSE Drop([s EXCEPT !.c = IF (o = "max") = (v > s.c) /\ v # s.c THEN v ELSE s.c])
    [] o \in {"min_cmp", "max_cmp"} ->
         \* comparer = numeric order, or reversed
         (LET better(a, b) == IF (o = "max_cmp") # p.rev THEN a > b ELSE a < b IN
          IF ~s.b THEN Drop([s EXCEPT !.b = TRUE, !.c = v])
          ELSE Drop([s EXCEPT !.c = IF better(v, s.c) THEN v ELSE s.c]))
    [] o = "min_by" -> MinMaxBy(p, s, v, FALSE)
    [] o = "max_by" -> MinMaxBy(p, s, v, TRUE)
    [] o \in {"to_list", "to_set"} -> Drop([s EXCEPT !.q = Append(s.q, v)])
    [] o = "to_dict" -> IF p.f[v] = RAISE THEN Fail(s, "fn") ELSE Drop([s EXCEPT !.q = Append(s.q, <<p.f[v], v>>)])
    [] o \in {"first", "first_or_default"} -> R(s, <<N(v), C>>, TRUE)
    [] o \in {"first_p", "first_or_default_p"} ->
         (CASE p.p[v] = 2 -> Fail(s, "fn") [] p.p[v] = 1 -> R(s, <<N(v), C>>, TRUE) [] OTHER -> Drop(s))
    [] o \in {"last", "last_or_default"} -> Drop([s EXCEPT !.b = TRUE, !.c = v])
    [] o \in {"last_p", "last_or_default_p"} ->
         (CASE p.p[v] = 2 -> Fail(s, "fn") [] p.p[v] = 1 -> Drop([s EXCEPT !.b = TRUE, !.c = v]) [] OTHER -> Drop(s))
    [] o \in {"single", "single_or_default"} ->
         IF s.b THEN Fail(s, "more") ELSE Drop([s EXCEPT !.b = TRUE, !.c = v])
    [] o \in {"single_p", "single_or_default_p"} ->
         (CASE p.p[v] = 2 -> Fail(s, "fn")
            [] p.p[v] = 1 -> IF s.b THEN Fail(s, "more") ELSE Drop([s EXCEPT !.b = TRUE, !.c = v])
            [] OTHER -> Drop(s))
    [] o = "all" -> (CASE p.p[v] = 2 -> Fail(s, "fn") [] p.p[v] = 1 -> Drop(s) [] OTHER -> R(s, <<N(FALSE), C>>, TRUE))
    [] o = "some" -> R(s, <<N(TRUE), C>>, TRUE)
    [] o = "some_p" -> (CASE p.p[v] = 2 -> Fail(s, "fn") [] p.p[v] = 1 -> R(s, <<N(TRUE), C>>, TRUE) [] OTHER -> Drop(s))
    [] o = "contains" -> IF v = p.d THEN R(s, <<N(TRUE), C>>, TRUE) ELSE Drop(s)
    [] o = "contains_cmp" -> (CASE Cmp(p.cmp, v, p.d) = 2 -> Fail(s, "fn")
                                [] Cmp(p.cmp, v, p.d) = 1 -> R(s, <<N(TRUE), C>>, TRUE) [] OTHER -> Drop(s))
    [] o = "is_empty" -> R(s, <<N(FALSE), C>>, TRUE)
    [] o = "sequence_equal_iter" ->
         \* the second sequence is a Python iterable: compared element by element as the source emits
         IF s.c + 1 > Len(p.other) THEN R(s, <<N(FALSE), C>>, TRUE)
         ELSE (CASE Cmp(p.cmp, v, p.other[s.c + 1]) = 2 -> Fail(s, "fn")
                 [] Cmp(p.cmp, v, p.other[s.c + 1]) = 1 -> Drop([s EXCEPT !.c = s.c + 1])
                 [] OTHER -> R(s, <<N(FALSE), C>>, TRUE))
    [] OTHER -> Pass(s, v)

\* the source's terminal notification: k is "C" or "E"
\* a dictionary as a set of <<key, value>> pairs: later keys win
DictOf(q) == LET keys == {q[j][1] : j \in 1..Len(q)} IN
             {<<k, q[CHOOSE j \in 1..Len(q) : q[j][1] = k /\ \A h \in 1..Len(q) : q[h][1] = k => h <= j][2]>> : k \in keys}
\* Slicing an erroring source.  A streaming slice whose stop is a non-negative number is
\* decided once `stop` elements arrived, so an error after that point need not be seen; a
\* buffering one sees it.  Elements that were already determined may precede the error.
\* pk resolves that freedom: pk <= Len(r) elements then the error; pk = MaxLen + 1: the full
\* slice then completion (only when the slice was decided before the error).
SliceResult(o, p, q) == IF o = "slice" THEN PySlice(q, p.a, p.b, p.c)
                        ELSE <<q[IF p.n < 0 THEN p.n + Len(q) + 1 ELSE p.n + 1]>>
SliceDecided(o, p, q) == IF o = "slice" THEN p.b # NoneS /\ p.b >= 0 /\ Len(q) >= p.b
                         ELSE p.n >= 0 /\ Len(q) >= p.n + 1
PickOK(o, p, q, pk) == LET r == SliceResult(o, p, q) IN
                       pk <= Len(r) \/ (pk = MaxLen + 1 /\ SliceDecided(o, p, q))
Tm(o, p, s, k, pk) ==
  IF k = "E" /\ o \in {"slice", "getitem_int"} THEN
     (LET r == SliceResult(o, p, s.q) IN
      IF pk = MaxLen + 1 THEN R(s, [j \in 1..(Len(r) + 1) |-> IF j <= Len(r) THEN N(r[j]) ELSE C], TRUE)
      ELSE R(s, [j \in 1..(pk + 1) |-> IF j <= pk THEN N(r[j]) ELSE E("src")], TRUE))
  ELSE IF k = "E" THEN
     (IF o = "materialize" THEN R(s, <<N([nk |-> "E", nv |-> 0]), C>>, TRUE) ELSE R(s, <<E("src")>>, TRUE))
  ELSE
  CASE o = "default_if_empty" -> IF s.b THEN R(s, <<C>>, TRUE) ELSE R(s, <<N(p.d), C>>, TRUE)
    [] o = "take_last" -> R(s, [j \in 1..(Len(s.q) + 1) |-> IF j <= Len(s.q) THEN N(s.q[j]) ELSE C], TRUE)
    [] o = "take_last_buffer" -> R(s, <<N(s.q), C>>, TRUE)
    [] o = "slice" -> (LET r == PySlice(s.q, p.a, p.b, p.c) IN
                       R(s, [j \in 1..(Len(r) + 1) |-> IF j <= Len(r) THEN N(r[j]) ELSE C], TRUE))
    [] o = "getitem_int" -> R(s, <<N(s.q[IF p.n < 0 THEN p.n + Len(s.q) + 1 ELSE p.n + 1]), C>>, TRUE)
    [] o = "element_at" -> R(s, <<E("range")>>, TRUE)
    [] o = "element_at_or_default" -> R(s, <<N(p.d), C>>, TRUE)
    [] o = "find" -> R(s, <<N(NONE), C>>, TRUE)
    [] o = "find_index" -> R(s, <<N(0 - 1), C>>, TRUE)
    [] o = "materialize" -> R(s, <<N([nk |-> "C", nv |-> 0]), C>>, TRUE)
    [] o = "reduce" -> IF s.b THEN R(s, <<N(s.c), C>>, TRUE) ELSE R(s, <<E("empty")>>, TRUE)
    [] o = "reduce_seed" -> R(s, <<N(IF s.b THEN s.c ELSE p.d), C>>, TRUE)
    [] o \in {"count", "count_p", "sum", "sum_key"} -> R(s, <<N(s.c), C>>, TRUE)
    [] o \in {"average", "average_key"} -> IF s.q = <<>> THEN R(s, <<E("empty")>>, TRUE) ELSE R(s, <<N(<<s.c, Len(s.q)>>), C>>, TRUE)   \* "empty input yields SequenceContainsNoElementsError"
    [] o \in {"min", "max", "min_cmp", "max_cmp"} -> IF s.b THEN R(s, <<N(s.c), C>>, TRUE) ELSE R(s, <<E("empty")>>, TRUE)
    [] o \in {"min_by", "max_by", "to_list"} -> R(s, <<N(s.q), C>>, TRUE)
    [] o = "to_set" -> R(s, <<N({s.q[j] : j \in 1..Len(s.q)}), C>>, TRUE)
    [] o = "to_dict" -> R(s, <<N(DictOf(s.q)), C>>, TRUE)
    [] o \in {"first", "first_p"} -> R(s, <<E("empty")>>, TRUE)
    [] o \in {"first_or_default", "first_or_default_p"} -> R(s, <<N(p.d), C>>, TRUE)
    [] o \in {"last", "last_p", "single", "single_p"} -> IF s.b THEN R(s, <<N(s.c), C>>, TRUE) ELSE R(s, <<E("empty")>>, TRUE)
    [] o \in {"last_or_default", "last_or_default_p", "single_or_default", "single_or_default_p"} ->
         R(s, <<N(IF s.b THEN s.c ELSE p.d), C>>, TRUE)
    [] o = "all" -> R(s, <<N(TRUE), C>>, TRUE)
    [] o \in {"some", "some_p", "contains", "contains_cmp"} -> R(s, <<N(FALSE), C>>, TRUE)
    [] o = "is_empty" -> R(s, <<N(TRUE), C>>, TRUE)
    [] o = "sequence_equal_iter" -> R(s, <<N(s.c = Len(p.other)), C>>, TRUE)
    [] OTHER -> R(s, <<C>>, TRUE)

(* ---- the runner ------------------------------------------------------------------------ *)
Stamp(em, at) == [j \in 1..Len(em) |-> [at |-> at, k |-> em[j].k, v |-> em[j].v, e |-> em[j].e]]
NEVER == MaxLen + 5

Init == /\ op \in Ops
        /\ par \in ParamsOf(op)
        /\ src \in (IF IdentSrc THEN {[j \in 1..m |-> j - 1] : m \in 0..MaxLen} ELSE UNION {[1..m -> Vals] : m \in 0..MaxLen})
        /\ (op = "getitem_int") => (0 - Len(src) <= par.n /\ par.n < Len(src))   \* in-range indices only
        /\ term \in Terms
        \* the dispose instant ranges over the instants of the run (for a source that never terminates the last
        \* instant is that of its last element)
        /\ dsp \in (IF Disposes THEN 0..(Len(src) + (IF term = "U" THEN 0 ELSE 1)) ELSE {}) \cup {NEVER}
        /\ LET r == Sub(op, par) IN
           /\ st = r.st /\ out = Stamp(r.em, 0)
           /\ done = r.fin
           /\ unsub = IF r.fin THEN 0 - 1 ELSE NEVER      \* -1: the source was never subscribed
        /\ i = 0
        /\ pick \in (IF op \in {"slice", "getitem_int"} /\ term = "E" THEN 0..(MaxLen + 1) ELSE {0})
        /\ (op \in {"slice", "getitem_int"} /\ term = "E") => PickOK(op, par, src, pick)

SrcLen == Len(src) + (IF term = "U" THEN 0 ELSE 1)

\* the subscriber disposes right after the events of instant i
Dispose == /\ ~done /\ dsp = i
           /\ done' = TRUE /\ unsub' = i
           /\ UNCHANGED <<op, par, src, term, dsp, i, st, out, pick>>

Feed == /\ ~done /\ dsp # i /\ i < SrcLen
        /\ LET j == i + 1
               r == IF j <= Len(src) THEN Nx(op, par, st, src[j]) ELSE Tm(op, par, st, term, pick) IN
           /\ i' = j /\ st' = r.st /\ out' = out \o Stamp(r.em, j)
           /\ done' = r.fin
           /\ unsub' = IF r.fin THEN j ELSE unsub
        /\ UNCHANGED <<op, par, src, term, dsp, pick>>

Next == Dispose \/ Feed
Spec == Init /\ [][Next]_vars

Final == done \/ (i = SrcLen /\ dsp # i)

(* ---- properties of the model ------------------------------------------------------------- *)
\* C01: zero or more N then at most one terminal, nothing after it
Grammar == \A j \in 1..Len(out) : out[j].k # "N" => j = Len(out)
\* C02/C03: once the sink terminated or the subscriber disposed, the source subscription is closed
Released == done => unsub # NEVER
\* C03: nothing is emitted after the dispose instant
Silent == \A j \in 1..Len(out) : out[j].at <= dsp
\* outputs carry non-decreasing instants
Causal == \A j \in 1..(Len(out) - 1) : out[j].at <= out[j + 1].at

(* ---- reference semantics (list functions), fault-free parameters only -------------------- *)
OutVals == [j \in 1..Len(SelectSeq(out, LAMBDA x : x.k = "N")) |-> SelectSeq(out, LAMBDA x : x.k = "N")[j].v]
Take(s, n) == SubSeq(s, 1, IF n < Len(s) THEN n ELSE Len(s))
DropN(s, n) == SubSeq(s, (IF n < Len(s) THEN n ELSE Len(s)) + 1, Len(s))
FaultFree == CASE op \in {"map", "starmap"} -> \A v \in Vals : par.f[v] # RAISE
               [] op \in {"filter", "take_while", "skip_while", "find", "all", "some_p", "count_p"} -> \A v \in Vals : par.p[v] # 2
               [] OTHER -> TRUE
PrefixWhile(s, P(_)) == LET bad == {j \in 1..Len(s) : ~P(s[j])} IN
                        IF bad = {} THEN Len(s) ELSE (CHOOSE j \in bad : \A h \in bad : j <= h) - 1
RefVals ==
  CASE op = "map"    -> [j \in 1..Len(src) |-> par.f[src[j]]]
    [] op = "filter" -> SelectSeq(src, LAMBDA v : par.p[v] = 1)
    [] op = "take"   -> Take(src, par.n)
    [] op = "skip"   -> DropN(src, par.n)
    [] op = "take_while" -> LET n == PrefixWhile(src, LAMBDA v : par.p[v] = 1) IN
                            IF par.incl /\ n < Len(src) THEN Take(src, n + 1) ELSE Take(src, n)
    [] op = "skip_while" -> DropN(src, PrefixWhile(src, LAMBDA v : par.p[v] = 1))
    [] op = "take_last"  -> IF term = "C" THEN LastN(src, par.n) ELSE <<>>
    [] op = "skip_last"  -> Take(src, IF Len(src) > par.n THEN Len(src) - par.n ELSE 0)
    [] op = "pairwise"   -> [j \in 1..(IF Len(src) > 0 THEN Len(src) - 1 ELSE 0) |-> <<src[j], src[j + 1]>>]
    [] op = "ignore_elements" -> <<>>
    [] op = "count"      -> IF term = "C" THEN <<Len(src)>> ELSE <<>>
    [] op = "count_p"    -> IF term = "C" THEN <<Len(SelectSeq(src, LAMBDA v : par.p[v] = 1))>> ELSE <<>>
    [] op = "to_list"    -> IF term = "C" THEN <<src>> ELSE <<>>
    [] op = "is_empty"   -> IF Len(src) > 0 THEN <<FALSE>> ELSE IF term = "C" THEN <<TRUE>> ELSE <<>>
    [] op = "all"        -> IF \E j \in 1..Len(src) : par.p[src[j]] = 0 THEN <<FALSE>> ELSE IF term = "C" THEN <<TRUE>> ELSE <<>>
    [] op = "some_p"     -> IF \E j \in 1..Len(src) : par.p[src[j]] = 1 THEN <<TRUE>> ELSE IF term = "C" THEN <<FALSE>> ELSE <<>>
    [] op = "last"       -> IF term = "C" /\ Len(src) > 0 THEN <<src[Len(src)]>> ELSE <<>>
    [] op = "first"      -> IF Len(src) > 0 THEN <<src[1]>> ELSE <<>>
    [] op = "sum"        -> IF term = "C" THEN <<LET S[n \in 0..Len(src)] == IF n = 0 THEN 0 ELSE S[n - 1] + src[n] IN S[Len(src)]>> ELSE <<>>
    [] OTHER -> OutVals
RefOK == (Final /\ dsp = NEVER /\ FaultFree) => OutVals = RefVals
\* second formulation of slicing (sources are <<0,1,2,...>> so values are positions): the set of
\* selected positions, in increasing order
SliceOK == (op = "slice" /\ IdentSrc /\ Final /\ term = "C" /\ dsp = NEVER) =>
             LET len == Len(src)  lo == SNorm(par.a, len, 0)  hi == SNorm(par.b, len, len) IN
             /\ {OutVals[j] : j \in 1..Len(OutVals)} = {x \in 0..(len - 1) : x >= lo /\ x < hi /\ (x - lo) % par.c = 0}
             /\ \A j \in 1..(Len(OutVals) - 1) : OutVals[j] < OutVals[j + 1]

(* ---- export -------------------------------------------------------------------------------- *)
Export == Final => PrintT(ToJson([scn |-> [op |-> op, par |-> par, src |-> src, term |-> term, dsp |-> dsp],
                                  obs |-> [out |-> out, unsub |-> unsub]]))
================================================================================
