------------------------------- MODULE Marbles --------------------------------
(* L3: marble diagrams (C38) as a character-consuming tokenizer / frame counter.

   The string is enumerated character by character; every action consumes one character of one
   token class and is guarded by the DOCUMENTED grammar (docstrings of
   reactivex/observable/marbles.py:parse, from_marbles, hot), so only strings whose meaning the
   documentation defines are generated:
     '-'            advance time by one frame                       (not inside a group)
     value chars    a maximal run of ordinary characters is ONE marble (multi-character value),
                    timestamped by the character that starts it; numerals are cast to int / float
     '(' ... ')'    a group: its marbles share the timestamp of the '('; marbles are separated by
                    ','; '|' and '#' may be whole marbles of a group; groups do not nest
     '|' '#'        on_completed / on_error
     ' '            ignored: does not advance time
   Wide digits (WideChars / WideChars2): a digit that stands for a block of WideLen / WideLen2 digit characters of
   the real string (decoded by the codec to the numeral of an integer beyond 2^53 - TLC integers are 32-bit); it
   occupies Width(c) frames, and the reference function measures positions with Pos(i).
   Left out because the documentation does not say what they mean (the replayer never sees them):
   unbalanced or nested parentheses, '-' inside a group, ',' outside a group, empty groups and
   empty group elements, '|' / '#' glued to value characters inside a group, a space between two
   value characters.

   State: frame (characters consumed, spaces not counted), inGroup / gFrame, the pending value
   run cur / curF, stopped, reject, msgs.  The documented meaning is stated a second time as a
   function of the whole string (RefFrom / RefReject: "time = index of the starting character,
   ignoring spaces; grouped marbles at the group's opening position; nothing may follow a
   terminal when asked"), and RefOK compares the two at EVERY prefix.  Every prefix that is a
   complete string (no open group) is exported with the expected result of parse() at the
   selected parameter points (timespan, shift, lookup keys, raise_stopped).                                                            *)
EXTENDS Naturals, Sequences, FiniteSets, TLC, Json

CONSTANTS ValChars,   \* ordinary characters offered, e.g. {"1", "0", "a", "."}
          Digits,     \* which of them are digits
          MaxLen,     \* maximal length of the string
          MaxSpaces,  \* at most this many spaces per string
          SpaceMaxLen,\* strings that contain a space are enumerated up to this length only
          WideChars,  \* value characters (digits) that stand for a BLOCK of WideLen digit characters of the real
          WideLen,    \* string (the codec decodes the block to the numeral of an integer beyond 2^53: TLC integers are
          WideChars2, \* 32-bit, so the wide numerals live on the codec side); a second family with its own width.
          WideLen2,   \* A block is part of a value run like any digit; it occupies Width(c) frames.
          AllParams   \* TRUE: every parameter point for every string; FALSE: one point per string, chosen
                      \* by its length and marble count (two - with and without raise_stopped - when something
                      \* follows a terminal)

VARIABLES str, frame, inGroup, gFrame, cur, curF, lastSp, expect, stopped, reject, msgs, nsp

vars == <<str, frame, inGroup, gFrame, cur, curF, lastSp, expect, stopped, reject, msgs, nsp>>

Msg(f, k, t) == [f |-> f, k |-> k, t |-> t]
\* number of characters of the real string a model character stands for
Width(c) == IF c \in WideChars THEN WideLen ELSE IF c \in WideChars2 THEN WideLen2 ELSE 1

Init == /\ str = <<>> /\ frame = 0 /\ inGroup = FALSE /\ gFrame = 0 /\ cur = <<>> /\ curF = 0
        /\ lastSp = FALSE /\ expect = "any" /\ stopped = FALSE /\ reject = FALSE /\ msgs = <<>>
        /\ nsp = 0

(* ---- the tokenizer -------------------------------------------------------------------------- *)
\* closing the pending run of value characters turns it into one on_next marble
Flushed   == IF cur = <<>> THEN msgs ELSE Append(msgs, Msg(curF, "N", cur))
RejFlush  == reject \/ (cur # <<>> /\ stopped)        \* a value declared after a terminal
\* a string is not extended once a marble after a terminal has been closed: its continuations are
\* rejected for the same reason and parsed by the same rules (that only prunes the enumeration)
Room      == Len(str) < (IF nsp > 0 THEN SpaceMaxLen ELSE MaxLen) /\ ~reject
Consume(c) == str' = Append(str, c)

ElemChar == \E c \in ValChars :
    /\ Room /\ expect # "sep" /\ ~(cur # <<>> /\ lastSp)
    /\ Consume(c)
    /\ IF cur = <<>> THEN cur' = <<c>> /\ curF' = (IF inGroup THEN gFrame ELSE frame)
                     ELSE cur' = Append(cur, c) /\ UNCHANGED curF
    /\ frame' = frame + Width(c) /\ lastSp' = FALSE /\ expect' = "any"
    /\ UNCHANGED <<inGroup, gFrame, stopped, reject, msgs, nsp>>

Tick == /\ Room /\ ~inGroup /\ Consume("-")
        /\ msgs' = Flushed /\ reject' = RejFlush /\ cur' = <<>> /\ frame' = frame + 1 /\ lastSp' = FALSE
        /\ UNCHANGED <<inGroup, gFrame, curF, expect, stopped, nsp>>

Open == /\ Room /\ ~inGroup /\ Consume("(")
        /\ msgs' = Flushed /\ reject' = RejFlush /\ cur' = <<>>
        /\ inGroup' = TRUE /\ gFrame' = frame /\ frame' = frame + 1 /\ expect' = "elem" /\ lastSp' = FALSE
        /\ UNCHANGED <<curF, stopped, nsp>>

Comma == /\ Room /\ inGroup /\ expect # "elem" /\ Consume(",")
         /\ msgs' = Flushed /\ reject' = RejFlush /\ cur' = <<>>
         /\ frame' = frame + 1 /\ expect' = "elem" /\ lastSp' = FALSE
         /\ UNCHANGED <<inGroup, gFrame, curF, stopped, nsp>>

Close == /\ Room /\ inGroup /\ expect # "elem" /\ Consume(")")
         /\ msgs' = Flushed /\ reject' = RejFlush /\ cur' = <<>>
         /\ inGroup' = FALSE /\ frame' = frame + 1 /\ expect' = "any" /\ lastSp' = FALSE
         /\ UNCHANGED <<gFrame, curF, stopped, nsp>>

\* '|' and '#': a marble of its own; inside a group only as a whole element
Term == \E c \in {"|", "#"} :
    /\ Room /\ (inGroup => expect = "elem") /\ Consume(c)
    /\ msgs' = Append(Flushed, Msg(IF inGroup THEN gFrame ELSE frame, IF c = "|" THEN "C" ELSE "E", <<>>))
    /\ reject' = (RejFlush \/ stopped)                    \* a terminal declared after a terminal
    /\ stopped' = TRUE /\ cur' = <<>> /\ frame' = frame + 1 /\ lastSp' = FALSE
    /\ expect' = (IF inGroup THEN "sep" ELSE "any")
    /\ UNCHANGED <<inGroup, gFrame, curF, nsp>>

Space == /\ Room /\ nsp < MaxSpaces /\ Len(str) < SpaceMaxLen /\ Consume(" ")
         /\ lastSp' = TRUE /\ nsp' = nsp + 1
         /\ UNCHANGED <<frame, inGroup, gFrame, cur, curF, expect, stopped, reject, msgs>>

(* ---- number parsing, lookup, times (applied when the string ends) ---------------------------- *)
CountOf(t, c) == Cardinality({i \in 1..Len(t) : t[i] = c})
AllIn(t, S)   == \A i \in 1..Len(t) : t[i] \in S
\* "numbers will be cast to int or float": int first, then float, else the text itself
Class(t) == IF AllIn(t, Digits) THEN "int"
            ELSE IF AllIn(t, Digits \cup {"."}) /\ CountOf(t, ".") = 1 /\ Len(t) >= 2 THEN "float"
            ELSE "str"

\* parameter points: timespan, shift, lookup keys (texts of class "str"), raise_stopped
\* nk: numeric lookup keys (the lookup is a Mapping[str | float, Any]: "dict used to convert an element into a
\* specified value", and the element of a numeral marble is the number) - texts of class "int"; offered only
\* together with wide digits, over alphabets without leading zeros and without '.', so that text <-> number is
\* one-to-one and no float marble equals an int key
PT(ix, nm, ts, sh, lk, rs) == [idx |-> ix, name |-> nm, ts |-> ts, shift |-> sh, lk |-> lk, nk |-> {}, rs |-> rs]
AllWide == WideChars \cup WideChars2
NumKeys == {<<c>> : c \in AllWide} \cup {<<c, d>> : c \in AllWide, d \in Digits \ AllWide}
WideTable == IF AllWide = {} THEN {}
             ELSE { [PT(4, "numkeys", 1, 0, {<<"a">>}, TRUE) EXCEPT !.nk = NumKeys],
                    [PT(5, "numkeys2", 2, 1, {}, FALSE) EXCEPT !.nk = NumKeys] }
ParamTable == WideTable \cup
              { PT(0, "plain", 1, 0, {}, FALSE),
                \* the lookup may mention the terminal characters as keys: '|' and '#' in the diagram are
                \* terminals because of the CHARACTER, they are not elements and are never looked up
                \* (and a value that the lookup maps TO the string "|" or "#" - a codec profile - stays a value)
                PT(1, "strict", 1, 0, {<<"a">>, <<".">>, <<"|">>}, TRUE),
                PT(2, "lookup", 2, 5, {<<"a">>, <<"a", "a">>, <<"a", ".">>, <<".">>, <<"|">>, <<"#">>}, FALSE),
                PT(3, "scaled", 3, 2, {<<"a">>}, TRUE) }
Selected == IF AllParams THEN ParamTable
            ELSE LET n == Cardinality(ParamTable)
                     i == (Len(str) + Len(Flushed)) % n IN
                 {q \in ParamTable : q.idx = i \/ (RejFlush /\ q.idx = (i + 1) % n)}

\* a looked-up marble carries the key's token, any other its class and text
Value(m, lk, nk) == IF m.k # "N" THEN <<"-", <<>>>>
                ELSE IF Class(m.t) = "str" /\ m.t \in lk THEN <<"lk", m.t>>
                ELSE IF Class(m.t) = "int" /\ m.t \in nk THEN <<"nlk", m.t>>
                ELSE <<Class(m.t), m.t>>
Timed(ms, p) == [i \in 1..Len(ms) |-> [time |-> ms[i].f * p.ts + p.shift, k |-> ms[i].k, v |-> Value(ms[i], p.lk, p.nk)]]

\* what parse(str, ...) must return at parameter point p, if the string ends here
Complete  == ~inGroup /\ str # <<>>
Result(p) == [rejected |-> (p.rs /\ RejFlush),
              msgs |-> IF p.rs /\ RejFlush THEN <<>> ELSE Timed(Flushed, p)]

Next == ElemChar \/ Tick \/ Open \/ Comma \/ Close \/ Term \/ Space
Spec == Init /\ [][Next]_vars

(* ---- the documented meaning as a function of the whole string --------------------------------- *)
T == SelectSeq(str, LAMBDA c : c # " ")                    \* spaces are ignored
IsVal(c)  == c \in ValChars
\* the index, in the real string without spaces, of the character model position i stands for (its first one)
RECURSIVE Pos(_)
Pos(i) == IF i <= 1 THEN 0 ELSE Pos(i - 1) + Width(T[i - 1])
IsTerm(c) == c \in {"|", "#"}
\* position i lies inside a group opened at GroupOpen(i)
InGroupAt(i) == \E j \in 1..(i - 1) : T[j] = "(" /\ \A m \in (j + 1)..(i - 1) : T[m] # ")"
GroupOpen(i) == CHOOSE j \in 1..(i - 1) : T[j] = "(" /\ \A m \in (j + 1)..(i - 1) : T[m] # ")"
\* a marble starts at a terminal character, or at a value character not preceded by one
Starts == {i \in 1..Len(T) : IsTerm(T[i]) \/ (IsVal(T[i]) /\ (i = 1 \/ ~IsVal(T[i - 1])))}
RunEnd(i) == CHOOSE e \in i..Len(T) : (\A m \in i..e : IsVal(T[m])) /\ (e = Len(T) \/ ~IsVal(T[e + 1]))
RefMsg(i) == Msg(IF InGroupAt(i) THEN Pos(GroupOpen(i)) ELSE Pos(i),       \* index of the starting character / of the '('
                 IF T[i] = "|" THEN "C" ELSE IF T[i] = "#" THEN "E" ELSE "N",
                 IF IsVal(T[i]) THEN SubSeq(T, i, RunEnd(i)) ELSE <<>>)
RECURSIVE RefFrom(_)
RefFrom(i) == IF i > Len(T) THEN <<>>
              ELSE IF i \in Starts THEN <<RefMsg(i)>> \o RefFrom(i + 1) ELSE RefFrom(i + 1)
RefReject == \E i, j \in Starts : i < j /\ IsTerm(T[i])      \* some marble after a terminal one

RefOK == /\ Flushed = RefFrom(1)
         /\ RejFlush = RefReject
TypeOK == /\ frame = Pos(Len(T) + 1) /\ Len(str) <= MaxLen /\ (inGroup => gFrame < frame)
          /\ (cur # <<>> => curF <= frame)
\* times never decrease along the message list; a group's marbles share one time
Monotone == \A i \in 1..(Len(Flushed) - 1) : Flushed[i].f <= Flushed[i + 1].f
\* every non-space character advances time by exactly one frame: the next marble outside a group
\* starts at the number of characters before it
FrameIsIndex == \A i \in 1..Len(Flushed) : Flushed[i].f < Pos(Len(T) + 1)
\* with raise_stopped the result is a rejection iff something follows a terminal; otherwise all marbles are kept
Verdict == Complete => \A p \in ParamTable :
                 /\ Result(p).rejected = (p.rs /\ RefReject)
                 /\ ~Result(p).rejected => Len(Result(p).msgs) = Cardinality(Starts)

(* ---- export: every prefix that is a complete string is a scenario ------------------------------ *)
Export == Complete => \A p \in Selected :
            PrintT(ToJson([scn |-> [s |-> str, par |-> [name |-> p.name, ts |-> p.ts, shift |-> p.shift, lk |-> p.lk, nk |-> p.nk, rs |-> p.rs],
                                   wide |-> [a |-> WideChars, alen |-> WideLen, b |-> WideChars2, blen |-> WideLen2]],
                           obs |-> Result(p)]))
================================================================================
