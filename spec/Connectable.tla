----------------------------- MODULE Connectable -----------------------------
(* L2: multicasting (C24) and re-use of one multicasting operator object on many sources (C44).

   One *application* of a multicasting operator to one source owns: the shared subject
   (plain / behavior / replay), the connected flag, the connection epoch, the open source
   subscription (or none), the ref_count counter, the auto_connect counter.  NApps = 1 is
   C24; NApps >= 2 is C44: ONE operator object (the scenario's `kind`) applied to NApps
   independent sources -- the model gives every application its own state, which is what
   "behaves as if a fresh operator had been created for each source" means.

   Histories of subscribe / unsubscribe / connect / disconnect at virtual instants are
   enumerated lazily: a step chooses the next command and the instant it is issued at
   (now .. now+MaxGap); the model advances the sources up to that instant and performs the
   command.  `hist` is the script the replayer performs on the real library.

   Commands are issued at instants 0..TEnd; the run ends at TFin = 2*TEnd+1.  Source events live at instants >= 1 (cold: relative to
   the subscription instant, hot: absolute).  Within one instant the scenario's tie policy
   decides whether the sources' events come before the commands issued at that instant
   ("src") or after them ("cmd"); the replayer realises either order on TestScheduler, so
   every scenario has exactly one allowed observation.

   The whole transition is written as a pure function Step(state record, command): that is
   what makes the C44 statement checkable in the model (Independent).                      *)
EXTENDS Integers, Sequences, FiniteSets, TLC, Json

CONSTANTS NApps,      \* applications of the operator object (1 = C24)
          NSubs,      \* subscribers over all applications
          MaxSteps,   \* commands in a history
          TEnd,       \* last instant at which something can happen
          MaxGap,     \* a command is issued at now .. now+MaxGap
          SKs,        \* subject kinds: "plain" (publish/share/multicast), "behavior" (publish_value), "replay"
          Bs, Ws,     \* replay buffer sizes / windows offered (99 = None)
          Wrs,        \* wrappers: "none" (raw connectable), "ref_count", "auto"
          Ns,         \* auto_connect subscriber counts
          Mps,        \* mapper forms: "none", "id", "dup", "take1"
          SrcIds,     \* rows of SrcTab offered ({} = the generated family GenSrcs)
          GenLen,     \* generated family: at most this many elements ...
          Hots,       \* source temperature: subset of BOOLEAN
          Ties,       \* subset of {"src", "cmd"}
          ReUnsub,    \* TRUE: a subscriber may be unsubscribed more than once
          StaleDisc,  \* TRUE: the handle of the previous connection may be disposed again
          Modes,      \* subscriber modes: "all" (plain recorder), "once" (subscribes through take(1): it unsubscribes
                      \* itself from inside the delivery of its first element), "spawn" (on its first element it subscribes
                      \* another observer to the same observable, re-entrantly) - shared-subject variants without a
                      \* replay window only (with the subject on the virtual clock the reaction is a later same-instant
                      \* hop, whose order relative to further source events of that instant the statement leaves open)
                      \* "reconnect" (raw connectables: on its first element the subscriber calls connect() on the
                      \* connectable, re-entrantly - from inside the outer connect() when the cold source delivers that
                      \* element synchronously while it is being subscribed (SrcTab rows with events at offset 0))
          MinLen      \* a history ends after at least this many commands (0 when exhaustive; > 0 steers -simulate,
                      \* which picks between Do and Finish with equal odds, towards long histories)

NEVER == 99
TFin  == 2 * TEnd + 1  \* beyond the last event of a cold subscription opened at TEnd
NoneP == 99            \* Python None as buffer_size / window
INITV == 50            \* publish_value's initial value (a token no source carries)
Apps   == 1..NApps
SubIds == 1..NSubs
Min2(a, b) == IF a <= b THEN a ELSE b

VARIABLES kind, src, hot, tie, S, hist, done
vars == <<kind, src, hot, tie, S, hist, done>>

Stamp(t, k, v) == [t |-> t, k |-> k, v |-> v]

(* ---- scenarios: operator variants and source timelines -------------------------------- *)
KindSet == {k \in [sk : SKs, b : Bs \cup {NoneP}, w : Ws \cup {NoneP}, wr : Wrs, n : Ns \cup {0}, mp : Mps] :
              /\ (IF k.sk = "replay" /\ k.mp = "none" THEN k.b \in Bs /\ k.w \in Ws ELSE k.b = NoneP /\ k.w = NoneP)
              /\ (IF k.wr = "auto" THEN k.n \in Ns ELSE k.n = 0)
              /\ (k.mp # "none" => k.wr = "none")}

SrcTab == <<
  <<Stamp(1, "N", 0), Stamp(2, "N", 1), Stamp(3, "C", 0)>>,
  <<Stamp(1, "N", 0), Stamp(3, "N", 1)>>,                                    \* never terminates
  <<Stamp(2, "N", 0), Stamp(3, "E", 0)>>,
  <<Stamp(1, "N", 0), Stamp(1, "N", 1), Stamp(2, "C", 0)>>,                  \* two elements in one instant
  <<Stamp(1, "N", 0), Stamp(2, "N", 1), Stamp(2, "C", 0)>>,                  \* element and completion in one instant
  <<Stamp(2, "C", 0)>>,
  <<Stamp(1, "N", 0), Stamp(2, "N", 1), Stamp(3, "N", 2), Stamp(4, "C", 0)>>,
  <<Stamp(1, "N", 0), Stamp(2, "N", 1), Stamp(4, "E", 0)>>,
  <<>>,
  <<Stamp(1, "N", 0), Stamp(2, "N", 1), Stamp(3, "N", 2), Stamp(4, "N", 3), Stamp(5, "C", 0)>>,
  \* rows 11..13 (cold only): events at offset 0 are delivered synchronously INSIDE subscribe, i.e. while connect() runs
  <<Stamp(0, "N", 0), Stamp(2, "N", 1), Stamp(3, "C", 0)>>,
  <<Stamp(0, "N", 0), Stamp(0, "N", 1), Stamp(2, "E", 0)>>,
  <<Stamp(0, "N", 0), Stamp(1, "N", 1)>> >>

\* generated family: <= GenLen elements at non-decreasing instants 1..TEnd, then nothing / C / E
NonDecr(m) == {f \in [1..m -> 1..TEnd] : \A i \in 1..(m - 1) : f[i] <= f[i + 1]}
GenSrcs == UNION {UNION {
              {[j \in 1..m |-> Stamp(f[j], "N", j - 1)]}
              \cup {[j \in 1..(m + 1) |-> IF j <= m THEN Stamp(f[j], "N", j - 1) ELSE Stamp(tt, kk, 0)] :
                      tt \in (IF m = 0 THEN 1 ELSE f[m])..TEnd, kk \in {"C", "E"}}
              : f \in NonDecr(m)} : m \in 0..GenLen}
SrcChoices == IF SrcIds = {} THEN GenSrcs ELSE {SrcTab[i] : i \in SrcIds}

(* ---- the replay buffer ------------------------------------------------------------------- *)
LastN(q, n) == IF n = NoneP \/ Len(q) <= n THEN q ELSE SubSeq(q, Len(q) - n + 1, Len(q))
\* retained: the last b items whose age is within the window ("age <= window")
Trim(q, b, w, t) == SelectSeq(LastN(q, b), LAMBDA x : w = NoneP \/ t - x.t <= w)

(* ---- state --------------------------------------------------------------------------------- *)
S0 == [now |-> 0, nextId |-> 1, asked |-> {},
       connected |-> [a \in Apps |-> FALSE], epoch |-> [a \in Apps |-> 0], conn |-> [a \in Apps |-> 0],
       stopped |-> [a \in Apps |-> "no"], cur |-> [a \in Apps |-> INITV], queue |-> [a \in Apps |-> <<>>],
       members |-> [a \in Apps |-> {}], rc |-> [a \in Apps |-> 0], total |-> [a \in Apps |-> 0],
       ssubs |-> [a \in Apps |-> <<>>],      \* source subscriptions [s, e, o]: o = 0 shared connection, o = k private (mapper forms)
       slog |-> [a \in Apps |-> <<>>],       \* what the shared subject accepted (history variable for RefOK)
       cper |-> [a \in Apps |-> <<>>],       \* connected periods [s, e]          (history variable)
       sapp |-> [k \in SubIds |-> 0], live |-> [k \in SubIds |-> FALSE], out |-> [k \in SubIds |-> <<>>],
       from |-> [k \in SubIds |-> 0], till |-> [k \in SubIds |-> NEVER],
       subAt |-> [k \in SubIds |-> 0], unsubAt |-> [k \in SubIds |-> NEVER], psub |-> [k \in SubIds |-> 0],
       mode |-> [k \in SubIds |-> "all"],
       child |-> [k \in SubIds |-> 0], spawned |-> [k \in SubIds |-> FALSE]]   \* "spawn" subscribers: see SubjSub

(* ---- ConnectableObservable ------------------------------------------------------------------ *)
\* connect(): defined below (Connect) - a cold source may deliver its offset-0 events from inside the call
RECURSIVE Connect(_, _, _)
CloseSub(Z, a, i, t) == IF i = 0 THEN Z ELSE IF Z.ssubs[a][i].e # NEVER THEN Z ELSE [Z EXCEPT !.ssubs[a][i].e = t]
CloseConn(Z, a, t) == [CloseSub(Z, a, Z.conn[a], t) EXCEPT !.conn[a] = 0]
Disconnect(Z, a, t) ==
  IF ~Z.connected[a] THEN Z
  ELSE LET Z1 == CloseConn(Z, a, t) IN
       [Z1 EXCEPT !.connected[a] = FALSE, !.cper[a][Len(Z1.cper[a])].e = t]
\* n subscribers of a ref_count left: disconnect when the count returns to 0
Leave(Z, a, n, t) ==
  IF kind.wr # "ref_count" \/ n = 0 THEN Z
  ELSE LET Z1 == [Z EXCEPT !.rc[a] = @ - n] IN IF Z1.rc[a] = 0 THEN Disconnect(Z1, a, t) ELSE Z1

(* ---- the shared subject ------------------------------------------------------------------------ *)
\* A "spawn" subscriber k reacts to the FIRST element it receives by subscribing another observer (child[k], a
\* plain recorder) to the same multicast observable - a re-entrant subscribe from inside a delivery.  When that
\* element is the current / first replayed value, the nested subscribe runs while k itself is still being
\* subscribed: after k's count bookkeeping and subject subscription, BEFORE k's own connect decision.
RECURSIVE SubCmd(_, _, _, _, _)
Spawn(Z, a, k, t) == SubCmd([Z EXCEPT !.spawned[k] = TRUE], a, Z.child[k], t, "all")
RECURSIVE SpawnAll(_, _, _, _)
SpawnAll(Z, a, ks, t) ==
  IF ks = {} THEN Z
  ELSE LET k == CHOOSE x \in ks : \A y \in ks : x <= y IN SpawnAll(Spawn(Z, a, k, t), a, ks \ {k}, t)
\* A "reconnect" subscriber k reacts to the FIRST element it receives by calling connect() on the connectable:
\* a no-op returning the existing connection while connected (also while the outer connect() is still
\* subscribing the source), a new connection otherwise (current / replayed value seen while disconnected).
Reconnect(Z, a, k, t) == Connect([Z EXCEPT !.spawned[k] = TRUE], a, t)
RECURSIVE ReconnectAll(_, _, _, _)
ReconnectAll(Z, a, ks, t) ==
  IF ks = {} THEN Z
  ELSE LET k == CHOOSE x \in ks : \A y \in ks : x <= y IN ReconnectAll(Reconnect(Z, a, k, t), a, ks \ {k}, t)

SubjSub(Z, a, k, t) ==
  LET st  == Z.stopped[a]
      Z0  == [Z EXCEPT !.from[k] = Len(Z.slog[a]), !.subAt[k] = t]
      q2  == Trim(Z.queue[a], kind.b, kind.w, t)
      pre == CASE kind.sk = "plain"    -> <<>>
               [] kind.sk = "behavior" -> IF st = "no" THEN <<Stamp(t, "N", Z.cur[a])>> ELSE <<>>
               [] OTHER                -> [j \in 1..Len(q2) |-> Stamp(t, "N", q2[j].v)]
  IN IF Z.mode[k] = "once" /\ pre # <<>>      \* take(1) is satisfied by the current / first replayed value
     THEN [Z0 EXCEPT !.out[k] = <<pre[1], Stamp(t, "C", 0)>>, !.till[k] = Len(Z.slog[a]), !.queue[a] = q2]
     ELSE LET Zr == IF st = "no"
                    THEN [Z0 EXCEPT !.out[k] = pre, !.live[k] = TRUE, !.members[a] = @ \cup {k}, !.queue[a] = q2]
                    ELSE [Z0 EXCEPT !.out[k] = Append(pre, Stamp(t, st, 0)), !.till[k] = Len(Z.slog[a]), !.queue[a] = q2]
          IN IF Z.mode[k] = "spawn" /\ pre # <<>> THEN Spawn(Zr, a, k, t)
             ELSE IF Z.mode[k] = "reconnect" /\ pre # <<>> THEN Reconnect(Zr, a, k, t) ELSE Zr

\* the connection delivers source event e to the shared subject at instant t
FeedShared(Z, a, e, t) ==
  IF e.k = "N" THEN
     IF Z.stopped[a] # "no" THEN Z
     ELSE LET gone == {k \in Z.members[a] : Z.mode[k] = "once"}     \* they unsubscribe from inside this delivery
              Z1 == [Z EXCEPT !.slog[a] = Append(@, Stamp(t, "N", e.v)), !.cur[a] = e.v,
                    !.queue[a] = IF kind.sk = "replay" THEN Trim(Append(@, [t |-> t, v |-> e.v]), kind.b, kind.w, t) ELSE @,
                    !.out = [k \in SubIds |-> IF k \in gone THEN Z.out[k] \o <<Stamp(t, "N", e.v), Stamp(t, "C", 0)>>
                                              ELSE IF k \in Z.members[a] THEN Append(Z.out[k], Stamp(t, "N", e.v)) ELSE Z.out[k]],
                    !.members[a] = @ \ gone,
                    !.live = [k \in SubIds |-> IF k \in gone THEN FALSE ELSE Z.live[k]],
                    !.till = [k \in SubIds |-> IF k \in gone THEN Len(Z.slog[a]) + 1 ELSE Z.till[k]]]
              \* "spawn" subscribers seeing their first element subscribe their child from inside this delivery
              \* (the child is not in the subject's snapshot: it gets the current / replayed value, not this call)
              sp == {k \in Z.members[a] : Z.mode[k] = "spawn" /\ ~Z.spawned[k]}
              rk == {k \in Z.members[a] : Z.mode[k] = "reconnect" /\ ~Z.spawned[k]}
          IN ReconnectAll(SpawnAll(Leave(Z1, a, Cardinality(gone), t), a, sp, t), a, rk, t)
  ELSE \* the source terminated: its subscription is released; the subject stops (once); its observers leave
     LET Z1 == CloseConn(Z, a, t) IN
     IF Z1.stopped[a] # "no" THEN Z1
     ELSE LET m  == Z1.members[a]
              Z2 == [Z1 EXCEPT !.slog[a] = Append(@, Stamp(t, e.k, 0)), !.stopped[a] = e.k,
                               !.out = [k \in SubIds |-> IF k \in m THEN Append(Z1.out[k], Stamp(t, e.k, 0)) ELSE Z1.out[k]],
                               !.live = [k \in SubIds |-> IF k \in m THEN FALSE ELSE Z1.live[k]],
                               !.members[a] = {}]
          IN Leave(Z2, a, Cardinality(m), t)

(* ---- mapper forms: every subscription gets a private subject + connection --------------------- *)
MapN(v) == IF kind.mp = "dup" THEN <<v, v>> ELSE <<v>>
ClosePriv(Z, a, k, t) == CloseSub(Z, a, Z.psub[k], t)
PrivNext(Z, a, k, v, t) ==
  IF ~Z.live[k] THEN Z
  ELSE LET vs == MapN(v)
           em == [j \in 1..Len(vs) |-> Stamp(t, "N", vs[j])]
       IN IF kind.mp = "take1"
          THEN ClosePriv([Z EXCEPT !.out[k] = (@ \o em) \o <<Stamp(t, "C", 0)>>, !.live[k] = FALSE], a, k, t)
          ELSE [Z EXCEPT !.out[k] = @ \o em]
PrivTerm(Z, a, k, kd, t) ==
  IF ~Z.live[k] THEN ClosePriv(Z, a, k, t)
  ELSE ClosePriv([Z EXCEPT !.out[k] = Append(@, Stamp(t, kd, 0)), !.live[k] = FALSE], a, k, t)

Sync0(a) == IF hot[a] THEN <<>> ELSE SelectSeq(src[a], LAMBDA e : e.t = 0)
RECURSIVE FeedSeq(_, _, _, _, _)
(* ---- commands ------------------------------------------------------------------------------------ *)
SubCmd(Z, a, k, t, m) ==
  LET Z0 == [Z EXCEPT !.sapp[k] = a, !.mode[k] = m, !.child[k] = IF m = "spawn" THEN k + 1 ELSE 0,
                      !.nextId = LET n == IF m = "spawn" THEN k + 2 ELSE k + 1 IN IF n > @ THEN n ELSE @] IN
  IF kind.mp # "none" THEN
     LET Z1 == [Z0 EXCEPT !.live[k] = TRUE, !.subAt[k] = t]
         Z2 == IF kind.sk = "behavior" THEN PrivNext(Z1, a, k, INITV, t) ELSE Z1
         Z3 == [Z2 EXCEPT !.ssubs[a] = Append(@, [s |-> t, e |-> NEVER, o |-> k]), !.psub[k] = Len(Z2.ssubs[a]) + 1]
     IN IF Z3.live[k] THEN FeedSeq(Z3, a, Z3.psub[k], Sync0(a), t) ELSE ClosePriv(Z3, a, k, t)
  ELSE CASE kind.wr = "none" -> SubjSub(Z0, a, k, t)
         [] kind.wr = "ref_count" ->
              (LET Z1 == SubjSub([Z0 EXCEPT !.rc[a] = @ + 1], a, k, t)      \* may contain a nested subscribe (spawn)
                   Z2 == IF Z.rc[a] = 0 THEN Connect(Z1, a, t) ELSE Z1       \* 0 -> 1: decided on the count k found
               IN IF Z1.live[k] THEN Z2 ELSE Leave(Z2, a, 1, t))              \* the subject had stopped: k is gone again
                                                                              \* (Z1: a source terminating inside Connect has done its own Leave)
         [] OTHER ->   \* auto_connect(n): "connect() after that many subscriptions occur" - cumulative, never disconnects
              (LET Z1 == SubjSub([Z0 EXCEPT !.total[a] = @ + 1], a, k, t)
               IN IF Z.total[a] + 1 = kind.n THEN Connect(Z1, a, t) ELSE Z1)   \* k is the n-th subscription

UnsubCmd(Z, k, t) ==
  LET a == Z.sapp[k]  Za == [Z EXCEPT !.asked = @ \cup {k}] IN
  IF a = 0 \/ ~Z.live[k] THEN Za
  ELSE LET Z1 == [Za EXCEPT !.live[k] = FALSE, !.unsubAt[k] = t] IN
       IF kind.mp # "none" THEN ClosePriv(Z1, a, k, t)
       ELSE Leave([Z1 EXCEPT !.members[a] = @ \ {k}, !.till[k] = Len(Z.slog[a])], a, 1, t)

(* ---- the sources: deliver the events of one instant ----------------------------------------------- *)
Due(a, sub, u) == SelectSeq(src[a], LAMBDA e : IF hot[a] THEN e.t = u ELSE e.t >= 1 /\ e.t = u - sub.s)
FeedOne(Z, a, i, e, t) ==
  IF Z.ssubs[a][i].e # NEVER THEN Z                       \* closed meanwhile
  ELSE IF Z.ssubs[a][i].o = 0 THEN FeedShared(Z, a, e, t)
  ELSE IF e.k = "N" THEN PrivNext(Z, a, Z.ssubs[a][i].o, e.v, t)
  ELSE PrivTerm(Z, a, Z.ssubs[a][i].o, e.k, t)
FeedSeq(Z, a, i, evs, t) == IF evs = <<>> THEN Z ELSE FeedSeq(FeedOne(Z, a, i, Head(evs), t), a, i, Tail(evs), t)
\* connect(): not connected => open ONE source subscription into the subject (a cold source delivers its
\* offset-0 events from inside that subscribe: the observable is already connected then); else the existing connection
Connect(Z, a, t) ==
  IF Z.connected[a] THEN Z
  ELSE LET Z1 == [Z EXCEPT !.connected[a] = TRUE, !.epoch[a] = @ + 1,
                           !.ssubs[a] = Append(@, [s |-> t, e |-> NEVER, o |-> 0]),
                           !.conn[a] = Len(Z.ssubs[a]) + 1,
                           !.cper[a] = Append(@, [s |-> t, e |-> NEVER])]
       IN FeedSeq(Z1, a, Z1.conn[a], Sync0(a), t)
RECURSIVE SubsLoop(_, _, _, _)
SubsLoop(Z, a, i, u) ==
  IF i > Len(Z.ssubs[a]) THEN Z
  ELSE SubsLoop(IF Z.ssubs[a][i].e = NEVER THEN FeedSeq(Z, a, i, Due(a, Z.ssubs[a][i], u), u) ELSE Z, a, i + 1, u)
RECURSIVE AppsLoop(_, _, _)
AppsLoop(Z, a, u) == IF a > NApps THEN Z ELSE AppsLoop(SubsLoop(Z, a, 1, u), a + 1, u)
RECURSIVE Adv(_, _, _)
Adv(Z, lo, hi) == IF lo > hi THEN Z ELSE Adv(AppsLoop(Z, 1, lo), lo + 1, hi)
\* "src": the events of an instant precede the commands issued at it; "cmd": they follow them
AdvanceTo(Z, t) == LET Z1 == IF tie = "src" THEN Adv(Z, Z.now + 1, t) ELSE Adv(Z, Z.now, t - 1) IN [Z1 EXCEPT !.now = t]

Cmd(c, a, k, t, e) == [c |-> c, a |-> a, k |-> k, t |-> t, e |-> e, m |-> "all"]
Step(Z, cmd) ==
  LET Z1 == AdvanceTo(Z, cmd.t) IN
  CASE cmd.c = "sub"     -> SubCmd(Z1, cmd.a, cmd.k, cmd.t, cmd.m)
    [] cmd.c = "unsub"   -> UnsubCmd(Z1, cmd.k, cmd.t)
    [] cmd.c = "connect" -> Connect(Z1, cmd.a, cmd.t)
    [] OTHER             -> IF cmd.e = Z1.epoch[cmd.a] THEN Disconnect(Z1, cmd.a, cmd.t) ELSE Z1   \* a stale handle is inert

RECURSIVE ConnectAll(_, _)
ConnectAll(Z, a) == IF a > NApps THEN Z ELSE ConnectAll(Connect(Z, a, 0), a + 1)
InitState == IF kind.wr = "auto" /\ kind.n = 0 THEN ConnectAll(S0, 1) ELSE S0     \* auto_connect(0): at once

Raw == kind.wr = "none" /\ kind.mp = "none"
\* the handle of connection x is the script's to dispose once a connect COMMAND returned it (a connection made by a
\* "reconnect" subscriber's own connect() call is only disposable after a connect command has fetched its handle)
HasHandle(a, x) == (\E i \in 1..Len(hist) : hist[i].m = "reconnect")
                      => \E i \in 1..Len(hist) : hist[i].c = "connect" /\ hist[i].a = a /\ hist[i].e = x
Menu(t) ==
  {[Cmd("sub", a, S.nextId, t, 0) EXCEPT !.m = m] : a \in IF S.nextId <= NSubs THEN Apps ELSE {},
                                                     m \in IF kind.mp = "none" /\ kind.w = NoneP
                                                           THEN {x \in Modes : /\ (x = "spawn" => S.nextId + 1 <= NSubs)   \* needs an id for the child
                                                                                /\ (x = "reconnect" => Raw)}
                                                           ELSE {"all"}}
  \cup {Cmd("unsub", S.sapp[k], k, t, 0) : k \in {j \in 1..(S.nextId - 1) : S.sapp[j] # 0 /\ (ReUnsub \/ j \notin S.asked)}}
  \cup (IF Raw
        THEN {Cmd("connect", a, 0, t, IF S.connected[a] THEN S.epoch[a] ELSE S.epoch[a] + 1) : a \in Apps}
             \cup UNION {{Cmd("disconnect", a, 0, t, e) :
                            e \in {x \in 1..S.epoch[a] : /\ (x = S.epoch[a] \/ (StaleDisc /\ x = S.epoch[a] - 1))
                                                          /\ HasHandle(a, x)}} : a \in Apps}
        ELSE {})

Init == /\ kind \in KindSet /\ tie \in Ties
        /\ (kind.w # NoneP => tie = "src")      \* a windowed replay needs the subject on the virtual clock (see notes)
        /\ src \in [Apps -> SrcChoices] /\ hot \in [Apps -> Hots]
        /\ \A a \in Apps : hot[a] => \A i \in 1..Len(src[a]) : src[a][i].t >= 1     \* offset-0 events: cold sources only
        /\ S = InitState /\ hist = <<>> /\ done = FALSE

Do == /\ ~done /\ Len(hist) < MaxSteps
      /\ \E t \in S.now..Min2(S.now + MaxGap, TEnd) : \E cmd \in Menu(t) :
            /\ S' = Step(S, cmd) /\ hist' = Append(hist, cmd)
      /\ UNCHANGED <<kind, src, hot, tie, done>>
Finish == /\ ~done /\ Len(hist) >= MinLen /\ done' = TRUE /\ S' = AdvanceTo(S, TFin)
          /\ UNCHANGED <<kind, src, hot, tie, hist>>
Next == Do \/ Finish
Spec == Init /\ [][Next]_vars

(* ---- the property, as invariants of the model (C24) ------------------------------------------------ *)
Created == {k \in SubIds : S.sapp[k] # 0}
SubsOf(a) == {k \in Created : S.sapp[k] = a}
Shared == kind.mp = "none"

\* every subscriber stream is N* (C|E)?
Grammar == \A k \in SubIds : \A j \in 1..Len(S.out[k]) : S.out[k][j].k # "N" => j = Len(S.out[k])

\* one source subscription per (effective) connect, opened at the connect, closed no later than the
\* disconnect, and connections of one connectable never overlap
OnePerConnection == Shared => \A a \in Apps :
   /\ Len(S.ssubs[a]) = S.epoch[a] /\ Len(S.cper[a]) = S.epoch[a]
   /\ \A i \in 1..Len(S.ssubs[a]) : /\ S.ssubs[a][i].s = S.cper[a][i].s
                                    /\ S.ssubs[a][i].e <= S.cper[a][i].e
                                    /\ S.ssubs[a][i].s <= S.ssubs[a][i].e
   /\ \A i \in 1..(Len(S.cper[a]) - 1) : S.cper[a][i].e # NEVER /\ S.cper[a][i].e <= S.cper[a][i + 1].s
OnlyWhileConnected == Shared => \A a \in Apps :
   /\ (S.conn[a] # 0 => S.connected[a] /\ S.conn[a] = Len(S.ssubs[a]) /\ S.ssubs[a][S.conn[a]].e = NEVER)
   /\ (S.connected[a] <=> (S.cper[a] # <<>> /\ S.cper[a][Len(S.cper[a])].e = NEVER))
   /\ Cardinality({i \in 1..Len(S.ssubs[a]) : S.ssubs[a][i].e = NEVER}) <= 1
\* ref_count / share: connected exactly while somebody is subscribed
RefCountEdges == kind.wr = "ref_count" => \A a \in Apps :
   /\ S.rc[a] = Cardinality({k \in SubsOf(a) : S.live[k]})
   /\ (S.connected[a] <=> S.rc[a] > 0)
\* auto_connect(n): connected from the n-th subscription on, for good
AutoRule == kind.wr = "auto" => \A a \in Apps :
   /\ S.total[a] = Cardinality(SubsOf(a))
   /\ (S.connected[a] <=> S.total[a] >= kind.n) /\ S.epoch[a] <= 1
\* mapper forms: one source subscription per subscription of the result, open exactly while it is live
MapperRule == ~Shared => \A a \in Apps :
   /\ Len(S.ssubs[a]) = Cardinality(SubsOf(a))
   /\ \A k \in SubsOf(a) : S.psub[k] # 0 /\ S.ssubs[a][S.psub[k]].o = k
                           /\ (S.live[k] <=> S.ssubs[a][S.psub[k]].e = NEVER)

(* ---- reference semantics: a subscriber's stream is a slice of what the subject received ------------ *)
RefShared(k) ==
  LET a  == S.sapp[k]  L == S.slog[a]  f == S.from[k]
      hi == IF S.till[k] = NEVER THEN Len(L) ELSE S.till[k]
      pre == SubSeq(L, 1, f)
      stoppedAt == pre # <<>> /\ pre[Len(pre)].k # "N"
      ns == SelectSeq(pre, LAMBDA x : x.k = "N")
      kept == Trim(ns, kind.b, kind.w, S.subAt[k])
      vals == CASE kind.sk = "plain"    -> <<>>
                [] kind.sk = "behavior" -> IF stoppedAt THEN <<>> ELSE <<IF ns = <<>> THEN INITV ELSE ns[Len(ns)].v>>
                [] OTHER                -> [j \in 1..Len(kept) |-> kept[j].v]
      head == [j \in 1..Len(vals) |-> Stamp(S.subAt[k], "N", vals[j])]
              \o (IF stoppedAt THEN <<Stamp(S.subAt[k], pre[Len(pre)].k, 0)>> ELSE <<>>)
  IN head \o SubSeq(L, f + 1, hi)

\* mapper forms: the source's events inside the subscriber's own subscription window, through the mapper
Seen(x)      == IF tie = "src" THEN x <= S.now ELSE x < S.now
After(x, s)  == IF tie = "src" THEN x > s ELSE x >= s
Before(x, u) == u = NEVER \/ (IF tie = "src" THEN x <= u ELSE x < u)
RefMapped(k) ==
  LET a == S.sapp[k]
      abs(e) == IF hot[a] THEN e.t ELSE S.subAt[k] + e.t
      vis == SelectSeq(src[a], LAMBDA e : \/ (~hot[a] /\ e.t = 0)        \* delivered inside the subscribe itself
                                          \/ Seen(abs(e)) /\ After(abs(e), S.subAt[k]) /\ Before(abs(e), S.unsubAt[k]))
      raw == (IF kind.sk = "behavior" THEN <<Stamp(S.subAt[k], "N", INITV)>> ELSE <<>>)
             \o [j \in 1..Len(vis) |-> Stamp(abs(vis[j]), vis[j].k, IF vis[j].k = "N" THEN vis[j].v ELSE 0)]
      ns == SelectSeq(raw, LAMBDA x : x.k = "N")
      tm == SelectSeq(raw, LAMBDA x : x.k # "N")
  IN CASE kind.mp = "id"  -> raw
       [] kind.mp = "dup" -> [j \in 1..(2 * Len(ns)) |-> ns[(j + 1) \div 2]] \o tm
       [] OTHER           -> IF ns = <<>> THEN raw ELSE <<ns[1], Stamp(ns[1].t, "C", 0)>>
Once(L) == IF L = <<>> THEN <<>> ELSE IF L[1].k = "N" THEN <<L[1], Stamp(L[1].t, "C", 0)>> ELSE <<L[1]>>
RefOK == \A k \in Created : S.out[k] = IF ~Shared THEN RefMapped(k)
                                        ELSE IF S.mode[k] = "once" THEN Once(RefShared(k)) ELSE RefShared(k)

(* ---- C44: applications are independent --------------------------------------------------------------- *)
RECURSIVE Fold(_, _)
Fold(Z, h) == IF h = <<>> THEN Z ELSE Fold(Step(Z, Head(h)), Tail(h))
ProjApp(Z, a) == [subs |-> Z.ssubs[a], log |-> Z.slog[a], conn |-> Z.cper[a],
                  out |-> [k \in SubIds |-> IF Z.sapp[k] = a THEN Z.out[k] ELSE <<>>]]
\* the combined run, seen from application a, is the run of a's own commands alone
Independent == (done /\ NApps > 1) =>
   \A a \in Apps : ProjApp(S, a) = ProjApp(AdvanceTo(Fold(InitState, SelectSeq(hist, LAMBDA c : c.a = a)), TFin), a)

(* ---- export ---------------------------------------------------------------------------------------------- *)
Export == done => PrintT(ToJson([scn |-> [kind |-> kind, src |-> src, hot |-> hot, tie |-> tie, hist |-> hist],
                                 obs |-> [subs |-> S.ssubs, out |-> S.out]]))
================================================================================
