---------------------------- MODULE TrampolineImpl ----------------------------
(* Lock-granularity design model of reactivex/scheduler/trampoline.py (Trampoline.run / _run) for ONE
   trampoline used by several threads (a shared TrampolineScheduler instance), as the code implements it:
   one PlusCal label per critical section (`with self._lock:` blocks are atomic steps), the local `ready`
   deque, action invocation outside the lock, nested run() calls from inside an action, timed items with
   Condition.wait(timeout) / notify() and a clock that ticks freely.

   Fixed = FALSE : the algorithm of the pinned tree - run() sets _idle = True and clears the queue in a
                   `finally`, AFTER _run() left the critical section that found the queue empty;
   Fixed = TRUE  : the proposed repair (proposed_fixes/trampoline_idle_handover.diff) - _idle = True in
                   the critical section that finds the queue empty, nothing cleared on the normal path.

   TLC checks Serial, NotEarly, Fifo and NoLoss over all interleavings.  With Fixed = FALSE NoLoss is
   violated (the C30 finding: an item enqueued in the window is wiped); with Fixed = TRUE everything holds.
   This is design assurance only (DESIGN 3.1): a mismatch between this model and the code is model_drift,
   never a verdict.                                                                                        *)
EXTENDS Integers, Sequences, FiniteSets, TLC

CONSTANTS Threads,     \* thread ids
          NTop,        \* top-level schedule calls per thread
          Nest,        \* TRUE: the first action each thread executes schedules one nested immediate item
          Delays,      \* set of relative delays a top-level call may use (0 = immediate)
          MaxClock,    \* the clock ticks freely up to here, and further while an item is not yet due
          Fixed

(* --algorithm TrampolineImpl {
  variables idle = TRUE,
            queue = <<>>,          \* pending items, kept sorted by (due, seq) like the heap
            clock = 0,
            seq = 0,
            due = [i \in {} |-> 0],      \* item -> due time
            enqAt = [i \in {} |-> 0],    \* item -> enqueue stamp
            waiting = {},          \* threads inside Condition.wait
            notified = {},
            active = {},           \* items whose action is executing
            ran = <<>>,            \* run log: <<item, clock>>
            made = 0,              \* items created so far
            nestLeft = [t \in Threads |-> IF Nest THEN 1 ELSE 0],   \* nested schedule calls left per thread
            mine = [t \in Threads |-> FALSE];   \* did this thread's run() call find the trampoline idle

  define {
    Insert(q, it, d, s) ==
        LET before == SelectSeq(q, LAMBDA y : d[y] < d[it] \/ (d[y] = d[it] /\ s[y] < s[it]))
            after  == SelectSeq(q, LAMBDA y : ~(d[y] < d[it] \/ (d[y] = d[it] /\ s[y] < s[it])))
        IN before \o <<it>> \o after
    DueNow(q) == SelectSeq(q, LAMBDA y : due[y] <= clock)
    NotDue(q) == SelectSeq(q, LAMBDA y : due[y] > clock)
  }

  \* Trampoline.run(item)
  procedure run(delay)
  {
  r_enq:   \* with self._lock: enqueue; if idle: idle = False else: notify; return
    with (it = made + 1, s = seq + 1) {
      made := it; seq := s;
      due := due @@ (it :> clock + delay) || enqAt := enqAt @@ (it :> s);
      queue := Insert(queue, it, due @@ (it :> clock + delay), enqAt @@ (it :> s));
    };
    if (idle) { idle := FALSE; mine[self] := TRUE; }
    else {
      mine[self] := FALSE;
      if (waiting # {}) { with (w \in waiting) { notified := notified \cup {w}; } };
    };
  r_branch:
    if (~mine[self]) { return; };
  r_drain:
    call drain();
  r_fin:   \* finally: with self._lock: idle = True; queue.clear()       (pinned tree only)
    if (~Fixed) { idle := TRUE; queue := <<>>; };
    return;
  }

  \* Trampoline._run()
  procedure drain()
    variables ready = <<>>, cur = 0;
  {
  d_collect:   \* with self._lock: move every due item to `ready`
    ready := ready \o DueNow(queue);
    queue := NotDue(queue);
  d_loop:
    while (ready # <<>>) {
      cur := Head(ready); ready := Tail(ready);
  d_invoke:    \* item.invoke(): the action starts (no cancellation in this model)
      active := active \cup {cur};
      ran := Append(ran, <<cur, clock>>);
      if (nestLeft[self] > 0) {
        nestLeft[self] := nestLeft[self] - 1;
  d_nested:
        call run(0);
      };
  d_end:
      active := active \ {cur};
    };
  d_check:     \* with self._lock: if queue empty: break; else wait(seconds) if the head is not due yet
    if (queue = <<>>) {
      if (Fixed) { idle := TRUE; };
      return;
    } else if (due[Head(queue)] > clock) {
      waiting := waiting \cup {self};
  d_wait:      \* Condition.wait(timeout): until notified or the due time passed
      await self \in notified \/ clock >= due[Head(queue \o <<0>>)] \/ queue = <<>>;
      waiting := waiting \ {self}; notified := notified \ {self};
    };
  d_again:
    goto d_collect;
  }

  fair process (T \in Threads)
    variables todo = NTop;
  {
  t_loop:
    while (todo > 0) {
      todo := todo - 1;
      with (d \in Delays) { call run(d); };
    };
  }

  fair process (Clock = 0)
  {
  tick:
    while (TRUE) { await clock < MaxClock \/ \E i \in DOMAIN due : due[i] > clock; clock := clock + 1; };
  }
} *)
\* BEGIN TRANSLATION
CONSTANT defaultInitValue
VARIABLES pc, idle, queue, clock, seq, due, enqAt, waiting, notified, active, 
          ran, made, nestLeft, mine, stack

(* define statement *)
Insert(q, it, d, s) ==
    LET before == SelectSeq(q, LAMBDA y : d[y] < d[it] \/ (d[y] = d[it] /\ s[y] < s[it]))
        after  == SelectSeq(q, LAMBDA y : ~(d[y] < d[it] \/ (d[y] = d[it] /\ s[y] < s[it])))
    IN before \o <<it>> \o after
DueNow(q) == SelectSeq(q, LAMBDA y : due[y] <= clock)
NotDue(q) == SelectSeq(q, LAMBDA y : due[y] > clock)

VARIABLES delay, ready, cur, todo

vars == << pc, idle, queue, clock, seq, due, enqAt, waiting, notified, active, 
           ran, made, nestLeft, mine, stack, delay, ready, cur, todo >>

ProcSet == (Threads) \cup {0}

Init == (* Global variables *)
        /\ idle = TRUE
        /\ queue = <<>>
        /\ clock = 0
        /\ seq = 0
        /\ due = [i \in {} |-> 0]
        /\ enqAt = [i \in {} |-> 0]
        /\ waiting = {}
        /\ notified = {}
        /\ active = {}
        /\ ran = <<>>
        /\ made = 0
        /\ nestLeft = [t \in Threads |-> IF Nest THEN 1 ELSE 0]
        /\ mine = [t \in Threads |-> FALSE]
        (* Procedure run *)
        /\ delay = [ self \in ProcSet |-> defaultInitValue]
        (* Procedure drain *)
        /\ ready = [ self \in ProcSet |-> <<>>]
        /\ cur = [ self \in ProcSet |-> 0]
        (* Process T *)
        /\ todo = [self \in Threads |-> NTop]
        /\ stack = [self \in ProcSet |-> << >>]
        /\ pc = [self \in ProcSet |-> CASE self \in Threads -> "t_loop"
                                        [] self = 0 -> "tick"]

r_enq(self) == /\ pc[self] = "r_enq"
               /\ LET it == made + 1 IN
                    LET s == seq + 1 IN
                      /\ made' = it
                      /\ seq' = s
                      /\ /\ due' = due @@ (it :> clock + delay[self])
                         /\ enqAt' = enqAt @@ (it :> s)
                      /\ queue' = Insert(queue, it, due' @@ (it :> clock + delay[self]), enqAt' @@ (it :> s))
               /\ IF idle
                     THEN /\ idle' = FALSE
                          /\ mine' = [mine EXCEPT ![self] = TRUE]
                          /\ UNCHANGED notified
                     ELSE /\ mine' = [mine EXCEPT ![self] = FALSE]
                          /\ IF waiting # {}
                                THEN /\ \E w \in waiting:
                                          notified' = (notified \cup {w})
                                ELSE /\ TRUE
                                     /\ UNCHANGED notified
                          /\ idle' = idle
               /\ pc' = [pc EXCEPT ![self] = "r_branch"]
               /\ UNCHANGED << clock, waiting, active, ran, nestLeft, stack, 
                               delay, ready, cur, todo >>

r_branch(self) == /\ pc[self] = "r_branch"
                  /\ IF ~mine[self]
                        THEN /\ pc' = [pc EXCEPT ![self] = Head(stack[self]).pc]
                             /\ delay' = [delay EXCEPT ![self] = Head(stack[self]).delay]
                             /\ stack' = [stack EXCEPT ![self] = Tail(stack[self])]
                        ELSE /\ pc' = [pc EXCEPT ![self] = "r_drain"]
                             /\ UNCHANGED << stack, delay >>
                  /\ UNCHANGED << idle, queue, clock, seq, due, enqAt, waiting, 
                                  notified, active, ran, made, nestLeft, mine, 
                                  ready, cur, todo >>

r_drain(self) == /\ pc[self] = "r_drain"
                 /\ stack' = [stack EXCEPT ![self] = << [ procedure |->  "drain",
                                                          pc        |->  "r_fin",
                                                          ready     |->  ready[self],
                                                          cur       |->  cur[self] ] >>
                                                      \o stack[self]]
                 /\ ready' = [ready EXCEPT ![self] = <<>>]
                 /\ cur' = [cur EXCEPT ![self] = 0]
                 /\ pc' = [pc EXCEPT ![self] = "d_collect"]
                 /\ UNCHANGED << idle, queue, clock, seq, due, enqAt, waiting, 
                                 notified, active, ran, made, nestLeft, mine, 
                                 delay, todo >>

r_fin(self) == /\ pc[self] = "r_fin"
               /\ IF ~Fixed
                     THEN /\ idle' = TRUE
                          /\ queue' = <<>>
                     ELSE /\ TRUE
                          /\ UNCHANGED << idle, queue >>
               /\ pc' = [pc EXCEPT ![self] = Head(stack[self]).pc]
               /\ delay' = [delay EXCEPT ![self] = Head(stack[self]).delay]
               /\ stack' = [stack EXCEPT ![self] = Tail(stack[self])]
               /\ UNCHANGED << clock, seq, due, enqAt, waiting, notified, 
                               active, ran, made, nestLeft, mine, ready, cur, 
                               todo >>

run(self) == r_enq(self) \/ r_branch(self) \/ r_drain(self) \/ r_fin(self)

d_collect(self) == /\ pc[self] = "d_collect"
                   /\ ready' = [ready EXCEPT ![self] = ready[self] \o DueNow(queue)]
                   /\ queue' = NotDue(queue)
                   /\ pc' = [pc EXCEPT ![self] = "d_loop"]
                   /\ UNCHANGED << idle, clock, seq, due, enqAt, waiting, 
                                   notified, active, ran, made, nestLeft, mine, 
                                   stack, delay, cur, todo >>

d_loop(self) == /\ pc[self] = "d_loop"
                /\ IF ready[self] # <<>>
                      THEN /\ cur' = [cur EXCEPT ![self] = Head(ready[self])]
                           /\ ready' = [ready EXCEPT ![self] = Tail(ready[self])]
                           /\ pc' = [pc EXCEPT ![self] = "d_invoke"]
                      ELSE /\ pc' = [pc EXCEPT ![self] = "d_check"]
                           /\ UNCHANGED << ready, cur >>
                /\ UNCHANGED << idle, queue, clock, seq, due, enqAt, waiting, 
                                notified, active, ran, made, nestLeft, mine, 
                                stack, delay, todo >>

d_invoke(self) == /\ pc[self] = "d_invoke"
                  /\ active' = (active \cup {cur[self]})
                  /\ ran' = Append(ran, <<cur[self], clock>>)
                  /\ IF nestLeft[self] > 0
                        THEN /\ nestLeft' = [nestLeft EXCEPT ![self] = nestLeft[self] - 1]
                             /\ pc' = [pc EXCEPT ![self] = "d_nested"]
                        ELSE /\ pc' = [pc EXCEPT ![self] = "d_end"]
                             /\ UNCHANGED nestLeft
                  /\ UNCHANGED << idle, queue, clock, seq, due, enqAt, waiting, 
                                  notified, made, mine, stack, delay, ready, 
                                  cur, todo >>

d_nested(self) == /\ pc[self] = "d_nested"
                  /\ /\ delay' = [delay EXCEPT ![self] = 0]
                     /\ stack' = [stack EXCEPT ![self] = << [ procedure |->  "run",
                                                              pc        |->  "d_end",
                                                              delay     |->  delay[self] ] >>
                                                          \o stack[self]]
                  /\ pc' = [pc EXCEPT ![self] = "r_enq"]
                  /\ UNCHANGED << idle, queue, clock, seq, due, enqAt, waiting, 
                                  notified, active, ran, made, nestLeft, mine, 
                                  ready, cur, todo >>

d_end(self) == /\ pc[self] = "d_end"
               /\ active' = active \ {cur[self]}
               /\ pc' = [pc EXCEPT ![self] = "d_loop"]
               /\ UNCHANGED << idle, queue, clock, seq, due, enqAt, waiting, 
                               notified, ran, made, nestLeft, mine, stack, 
                               delay, ready, cur, todo >>

d_check(self) == /\ pc[self] = "d_check"
                 /\ IF queue = <<>>
                       THEN /\ IF Fixed
                                  THEN /\ idle' = TRUE
                                  ELSE /\ TRUE
                                       /\ idle' = idle
                            /\ pc' = [pc EXCEPT ![self] = Head(stack[self]).pc]
                            /\ ready' = [ready EXCEPT ![self] = Head(stack[self]).ready]
                            /\ cur' = [cur EXCEPT ![self] = Head(stack[self]).cur]
                            /\ stack' = [stack EXCEPT ![self] = Tail(stack[self])]
                            /\ UNCHANGED waiting
                       ELSE /\ IF due[Head(queue)] > clock
                                  THEN /\ waiting' = (waiting \cup {self})
                                       /\ pc' = [pc EXCEPT ![self] = "d_wait"]
                                  ELSE /\ pc' = [pc EXCEPT ![self] = "d_again"]
                                       /\ UNCHANGED waiting
                            /\ UNCHANGED << idle, stack, ready, cur >>
                 /\ UNCHANGED << queue, clock, seq, due, enqAt, notified, 
                                 active, ran, made, nestLeft, mine, delay, 
                                 todo >>

d_wait(self) == /\ pc[self] = "d_wait"
                /\ self \in notified \/ clock >= due[Head(queue \o <<0>>)] \/ queue = <<>>
                /\ waiting' = waiting \ {self}
                /\ notified' = notified \ {self}
                /\ pc' = [pc EXCEPT ![self] = "d_again"]
                /\ UNCHANGED << idle, queue, clock, seq, due, enqAt, active, 
                                ran, made, nestLeft, mine, stack, delay, ready, 
                                cur, todo >>

d_again(self) == /\ pc[self] = "d_again"
                 /\ pc' = [pc EXCEPT ![self] = "d_collect"]
                 /\ UNCHANGED << idle, queue, clock, seq, due, enqAt, waiting, 
                                 notified, active, ran, made, nestLeft, mine, 
                                 stack, delay, ready, cur, todo >>

drain(self) == d_collect(self) \/ d_loop(self) \/ d_invoke(self)
                  \/ d_nested(self) \/ d_end(self) \/ d_check(self)
                  \/ d_wait(self) \/ d_again(self)

t_loop(self) == /\ pc[self] = "t_loop"
                /\ IF todo[self] > 0
                      THEN /\ todo' = [todo EXCEPT ![self] = todo[self] - 1]
                           /\ \E d \in Delays:
                                /\ /\ delay' = [delay EXCEPT ![self] = d]
                                   /\ stack' = [stack EXCEPT ![self] = << [ procedure |->  "run",
                                                                            pc        |->  "t_loop",
                                                                            delay     |->  delay[self] ] >>
                                                                        \o stack[self]]
                                /\ pc' = [pc EXCEPT ![self] = "r_enq"]
                      ELSE /\ pc' = [pc EXCEPT ![self] = "Done"]
                           /\ UNCHANGED << stack, delay, todo >>
                /\ UNCHANGED << idle, queue, clock, seq, due, enqAt, waiting, 
                                notified, active, ran, made, nestLeft, mine, 
                                ready, cur >>

T(self) == t_loop(self)

tick == /\ pc[0] = "tick"
        /\ clock < MaxClock \/ \E i \in DOMAIN due : due[i] > clock
        /\ clock' = clock + 1
        /\ pc' = [pc EXCEPT ![0] = "tick"]
        /\ UNCHANGED << idle, queue, seq, due, enqAt, waiting, notified, 
                        active, ran, made, nestLeft, mine, stack, delay, ready, 
                        cur, todo >>

Clock == tick

Next == Clock
           \/ (\E self \in ProcSet: run(self) \/ drain(self))
           \/ (\E self \in Threads: T(self))

Spec == /\ Init /\ [][Next]_vars
        /\ \A self \in Threads : WF_vars(T(self)) /\ WF_vars(run(self)) /\ WF_vars(drain(self))
        /\ WF_vars(Clock)

\* END TRANSLATION

AllDone == \A t \in Threads : pc[t] = "Done"
RanItems == {ran[i][1] : i \in 1..Len(ran)}

\* one action at a time
Serial == Cardinality(active) <= 1
\* never before the due time
NotEarly == \A i \in 1..Len(ran) : ran[i][2] >= due[ran[i][1]]
\* nothing runs twice
RunOnce == \A i, j \in 1..Len(ran) : i # j => ran[i][1] # ran[j][1]
\* due-time order, first-enqueued-first among equals, among items that were pending together:
\* if b ran after a although b precedes a, then b was enqueued after a started
Fifo == \A i, j \in 1..Len(ran) :
          (i < j /\ (due[ran[j][1]] < due[ran[i][1]] \/ (due[ran[j][1]] = due[ran[i][1]] /\ enqAt[ran[j][1]] < enqAt[ran[i][1]])))
             => FALSE
\* every scheduled action has run when all calls have returned
NoLoss == AllDone => (RanItems = 1..made /\ idle)
AllReturn == <>AllDone
================================================================================
