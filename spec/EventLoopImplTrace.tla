------------------------- MODULE EventLoopImplTrace -------------------------
(* Recorded executions of the real EventLoopScheduler matched against the lock-granularity PlusCal model
   EventLoopImpl.tla (DESIGN 3.1): TLC infers the hidden program counters.  Events map to labels

       call(schedule..)  -> c0 (schedule branch, item and due time bound)      ret ok       -> c3
       ret disposed      -> c1 taking the raise branch                         call cancel  -> c0 (cancel branch)
       ret (cancel)      -> k2        call dispose -> c0 (dispose branch)      ret (dispose) -> d2
       tstart -> l0      texit -> lx  start(x) -> l3 with cur = x              end(x) -> l4

   and c1 (no raise), c2, k1, d1, l1, l2, l5, l6 are silent.  The clock moves to the time of the next event.
   A trace this model cannot explain (or that breaks one of its invariants) is MODEL DRIFT - the code no longer
   has the structure the design-level check assumed - never a violation.  The harness renames items in order
   of their schedule calls (the model hands out MinOf(Fresh)) and leaves out executions the model has no
   process for (API calls made from inside an action, a second dispose() call).                              *)
EXTENDS EventLoopImpl, Json, TLCExt, IOUtils

CONSTANTS NTraces

Traces == JsonDeserialize(IOEnv.TRACE_FILE)

VARIABLES tid, l

Ev    == Traces[tid][l]
More  == l <= Len(Traces[tid])
Step  == l' = l + 1 /\ UNCHANGED tid
At    == More /\ Ev.t = now
Same  == UNCHANGED <<tid, l>>

TInit == tid \in 1..NTraces /\ l = 2 /\ Init /\ xie = Traces[tid][1].exit

TTick == /\ More /\ Ev.t > now /\ now' = Ev.t /\ Same
         /\ UNCHANGED << pc, xie, ready, queue, disposedF, thread, spawned, batch, waiting, deadline, notified, cancelled,
                         due, enq, immH, effH, cseq, stamp, picked, running, runTh, startT, handle, used, dispRet, late,
                         early, refused, calls, item, cur >>

DueEv == CASE Ev.op = "imm" -> now [] Ev.op = "rel" -> now + Ev.d [] Ev.op = "abs" -> Ev.d

TCall == /\ At /\ Ev.e = "call" /\ Step /\ Ev.th \in Clients /\ c0(Ev.th)
         /\ CASE Ev.op \in {"imm", "rel", "abs"} -> pc'[Ev.th] = "c1" /\ item'[Ev.th] = Ev.item /\ due'[Ev.item] = DueEv
              [] Ev.op = "cancel"                -> pc'[Ev.th] = "k1" /\ item'[Ev.th] = Ev.item
              [] Ev.op = "dispose"               -> pc'[Ev.th] = "d1"

TRet == /\ At /\ Ev.e = "ret" /\ Step /\ Ev.th \in Clients
        /\ \/ pc[Ev.th] = "c3" /\ Ev.res = "ok" /\ c3(Ev.th)
           \/ pc[Ev.th] = "c1" /\ Ev.res = "disposed" /\ c1(Ev.th) /\ pc'[Ev.th] = "c0"
           \/ pc[Ev.th] = "k2" /\ Ev.res = "ok" /\ k2(Ev.th)
           \/ pc[Ev.th] = "d2" /\ Ev.res = "ok" /\ d2(Ev.th)

TTStart == At /\ Ev.e = "tstart" /\ Step /\ Ev.th \in Loops /\ l0(Ev.th)
TTExit  == At /\ Ev.e = "texit" /\ Step /\ Ev.th \in Loops /\ lx(Ev.th)
TStartA == At /\ Ev.e = "start" /\ Step /\ Ev.th \in Loops /\ cur[Ev.th] = Ev.item /\ l3(Ev.th)
TEndA   == At /\ Ev.e = "end" /\ Step /\ Ev.th \in Loops /\ cur[Ev.th] = Ev.item /\ l4(Ev.th)
TQuiesce == At /\ Ev.e = "quiesce" /\ Step /\ UNCHANGED vars

TSilent == /\ Same
           /\ \/ \E c \in Clients : (c1(c) /\ pc'[c] = "c2") \/ c2(c) \/ k1(c) \/ d1(c)
              \/ \E w \in Loops : l1(w) \/ l2(w) \/ l5(w) \/ l6(w)

TNext == TCall \/ TRet \/ TTStart \/ TTExit \/ TStartA \/ TEndA \/ TQuiesce \/ TTick \/ TSilent

Track == TLCSet(tid, IF TLCGet(tid) < l THEN l ELSE TLCGet(tid))
ASSUME \A j \in 1..NTraces : TLCSet(j, 0)

Accepted(j) == TLCGet(j) = Len(Traces[j]) + 1
Post == \A j \in 1..NTraces : Accepted(j) \/ PrintT(<<"REJECTED", j, TLCGet(j)>>)
=============================================================================
