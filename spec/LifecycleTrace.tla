----------------------------- MODULE LifecycleTrace -----------------------------
(* Binding B for Lifecycle.tla: traces recorded from real pipelines on a virtual-time scheduler.
   A trace is [strict |-> BOOLEAN, own |-> BOOLEAN, solo |-> BOOLEAN, ev |-> sequence of events]:
     [e |-> "open", id]  [e |-> "close", id]  [e |-> "sink", k]  [e |-> "gout", g]  [e |-> "gnext", g]
     [e |-> "gend", g]   [e |-> "dispose"]    [e |-> "cb", r, o]    [e |-> "tick", t]  [e |-> "end"]
   ("escape", an exception of a pipeline function reaching the emitter or the scheduler, matches no action.)
   Every event must be a step of the monitor; there are no silent steps, so validation is linear.     *)
EXTENDS Lifecycle, TLCExt, Json, IOUtils

CONSTANTS NTraces

Traces == JsonDeserialize(IOEnv.TRACE_FILE)

VARIABLES tid, l
Evt == Traces[tid].ev[l]
More == l <= Len(Traces[tid].ev)
Step == l' = l + 1 /\ UNCHANGED <<tid, nev>>

TInit == /\ tid \in 1..NTraces /\ l = 1
         /\ now = 0 /\ open = {} /\ ever = {} /\ stopped = FALSE /\ disposed = FALSE
         /\ live = {} /\ gone = {} /\ faulted = FALSE /\ settled = FALSE /\ fsettled = FALSE /\ strict = Traces[tid].strict /\ nev = 0

TNext == /\ More /\ Step
         /\ CASE Evt.e = "open"    -> SubOpen(Evt.id)
              [] Evt.e = "close"   -> SubClose(Evt.id)
              [] Evt.e = "sink"    -> Sink(Evt.k) /\ FaultThenError(Traces[tid].solo, Evt.k)
              [] Evt.e = "gout"    -> GroupOut(Evt.g) /\ FaultThenError(Traces[tid].solo, "N")
              [] Evt.e = "gnext"   -> GroupNext(Evt.g)
              [] Evt.e = "gend"    -> GroupEnd(Evt.g)
              [] Evt.e = "dispose" -> Dispose
              [] Evt.e = "cb"      -> UserCb(Evt.r, Evt.o)
              [] Evt.e = "tick"    -> Tick(Evt.t) /\ FaultEndsGroups(Traces[tid].own)
              [] Evt.e = "end"     -> End /\ FaultEndsGroups(Traces[tid].own) /\ UNCHANGED <<now, open, ever, stopped, disposed, live, gone, faulted, settled, fsettled, strict>>
              [] OTHER             -> FALSE

Track == TLCSet(tid, IF TLCGet(tid) < l THEN l ELSE TLCGet(tid))
ASSUME \A j \in 1..NTraces : TLCSet(j, 0)
Accepted(j) == TLCGet(j) = Len(Traces[j].ev) + 1
Post == \A j \in 1..NTraces : Accepted(j) \/ PrintT(<<"REJECTED", j, TLCGet(j)>>)
================================================================================
