---------------------------- MODULE AsyncIOSchedMC ----------------------------
(* Model-checking wrapper of AsyncIOSched.tla: the scenario families (a cfg file cannot write sets of
   tuples / records), the design-run invariants, and the negative controls.

   One TLC run covers the variant "own" (the design: must satisfy every invariant in every state of every
   interleaving) AND the single-fault variants (each must be REFUTED by the invariant it was built to
   break).  For a fault variant the first state that violates its invariant sets a TLC register and is
   not extended (constraint ControlPrune); the POSTCONDITION ControlsRefuted requires every register to be
   set - so a model whose invariants went vacuous fails the run.  Registers are per worker: -workers 1.   *)
EXTENDS AsyncIOSched, TLCExt

CONSTANTS Variants,        \* the variants explored
          Family(_),       \* variant -> set of scenarios [Items -> item scenario]
          OwnSets(_, _),   \* variant, scenario -> the sets of foreign threads that run an event loop of their own
          BusySets(_, _)   \* variant, scenario -> how long the loop's first callback sleeps (0 = the loop is not kept busy)

Init == /\ MonInit
        /\ \E v \in Variants : \E s \in Family(v) : \E o \in OwnSets(v, s) : \E b \in BusySets(v, s) : MechInitFor(v, s, o, b)

Both == {"aio", "ts"}
F1 == {"F"}
NoOwn(v, s)     == {{}}                                          \* no foreign thread runs a loop of its own
BothOwn(v, s)   == {{}, {"F"}}                                   \* ... or thread F does
OwnCaller(v, s) == IF v = "caller" THEN {{}, {"F"}} ELSE {{}}    \* only the pinned decision depends on it
CNone    == {<<"pre", "none">>, <<"F", "none">>, <<"L", "none">>}
CForeign == {<<"pre", "F">>, <<"F", "F">>, <<"L", "F">>}
CSmall   == {<<"pre", "none">>, <<"F", "none">>, <<"F", "F">>, <<"L", "none">>, <<"L", "L">>, <<"pre", "F">>}
CG       == {<<"F", "G">>, <<"G", "F">>, <<"pre", "G">>, <<"L", "G">>, <<"G", "none">>, <<"G", "L">>, <<"G", "G">>}

\* scenarios in which item 1 ranges over A, items 2.. over B
Scns(A, B) == { [i \in Items |-> IF i = 1 THEN p[1] ELSE p[2][i]] : p \in A \X [Items \ {1} -> B] }

\* every one-item scenario (items 2.. absent)
One(K, D, W, C) == Scns(ItemScn(K, D, W, C), {Absent})
AllOne == One(Both, {0, 1, 2}, {0, 1, 2}, TsCombos)

\* a thread-safe item queued behind a loop that is kept BUSY by its first callback for LongBusy ticks while the
\* foreign thread disposes it (immediate / relative, scheduled before the loop starts / while it is busy)
LongBusy == 30
FamBusy(v) == One({"ts"}, {0, 1}, {0}, {<<"F", "F">>, <<"pre", "F">>})
NoBusy(v, s)     == {0}
BusyExport(v, s) == IF s \in FamBusy(v) THEN {0, LongBusy} ELSE {0}
BusyC(v, s)      == IF v = "impatient" THEN {LongBusy} ELSE IF v = "own" THEN BusyExport(v, s) ELSE {0}

\* one relative item disposed by thread F while the loop is stopped after having run (stage 2 has run, the timer is
\* armed, the loop stops at PauseAt = 1 < due; dispose at 1 or - w = 1 - at the due time; then the loop is run again)
CStp == {<<"pre", "stp">>, <<"F", "stp">>, <<"L", "stp">>}
FamPause(v) == One(Both, {2}, {0, 1}, CStp)

(* ---- families of the negative controls (small, each contains a refuting scenario) --------- *)
ControlFam(v) == CASE v = "caller" -> One({"ts"}, {0, 1}, {0}, CForeign)
                   [] v = "early"  -> One(Both, {1}, {0}, CNone)
                   [] v = "lose"   -> One({"ts"}, {1}, {0}, CNone)
                   [] v = "nowake" -> One({"ts"}, {0, 1}, {0}, {<<"F", "none">>})
                   [] v = "inline" -> One({"ts"}, {0}, {0}, CNone)
                   [] v = "impatient" -> FamBusy(v)
                   [] v = "spent" -> One({"ts"}, {2}, {0}, CStp)

(* ---- design families ------------------------------------------------------------------------ *)
\* thorough, run 1: every one-item scenario, plus the controls
FamOne(v) == IF v = "own" THEN AllOne \cup FamPause(v) \cup One(Both, {1, 2}, {0, 1, 2}, CStp) ELSE ControlFam(v)
\* quick, run 1: the one-item scenarios with delays 0, 1 and waits 0, 1 (dispose before / at the due time), plus the controls
QuickOne == One(Both, {0, 1}, {0, 1}, TsCombos)          \* (contains FamBusy: the design runs use BusyExport)
FamOneQuick(v) == IF v = "own" THEN QuickOne \cup FamPause(v) ELSE ControlFam(v)
\* quick, run 2: a relative and an immediate item on the thread-safe scheduler, both disposed by the foreign thread
FamTwoQuick(v) == Scns(ItemScn({"ts"}, {1}, {0}, CForeign), ItemScn({"ts"}, {0}, {0}, {<<"F", "F">>}))
\* one thread-safe item handled by a foreign thread (performed with and without a loop of its own in that thread)
FamOwnLoop(v) == One({"ts"}, {0, 1}, {0, 1}, {<<"pre", "F">>, <<"F", "F">>, <<"L", "F">>, <<"pre", "pre">>, <<"F", "L">>})
\* ... and for the replayer: the scenarios of FamOwnLoop are performed both ways, all others without
OwnExport(v, s) == IF s \in FamOwnLoop(v) THEN {{}, {"F"}} ELSE {{}}
\* the families the replayer performs (item 2 may be absent: they contain the one-item scenarios)
TwoSmall == Scns(ItemScn(Both, {0, 1}, {0, 1}, CSmall), ItemScn(Both, {0, 1}, {0, 1}, CSmall))
FamExportQuick(v) == QuickOne \cup FamPause(v) \cup TwoSmall
FamExport(v) == AllOne \cup FamPause(v) \cup One(Both, {1, 2}, {0, 1, 2}, CStp) \cup TwoSmall
\* thorough: two items, both schedulers
FamTwo(v) == Scns(ItemScn(Both, {0, 1, 2}, {0, 1, 2}, TsCombos), ItemScn(Both, {0, 1}, {0, 1}, CSmall))
\* three threads: a second foreign thread G
FamG(v) == Scns(ItemScn({"ts"}, {0, 1}, {0}, CG), {Absent} \cup ItemScn({"ts"}, {1}, {0}, {<<"F", "F">>}))
FamGExport(v) == Scns(ItemScn({"ts"}, {0, 1}, {0, 1}, CG), {Absent} \cup ItemScn({"ts"}, {0, 1}, {0}, CForeign))
\* three items (simulation)
FamThree(v) == Scns(ItemScn(Both, {0, 1, 2}, {0, 1}, TsCombos), ItemScn(Both, {0, 1}, {0, 1}, CSmall))

\* the first run of a check: the replayer's family is only ENUMERATED (variant "own": exported from the initial
\* states, no steps - action constraint NoOwnSteps), the fault variants are explored (negative controls)
FamExportQuickC(v) == IF v = "own" THEN FamExportQuick(v) ELSE ControlFam(v)
FamExportC(v)      == IF v = "own" THEN FamExport(v) ELSE ControlFam(v)
FamGExportC(v)     == IF v = "own" THEN FamGExport(v) ELSE ControlFam(v)
OwnExportC(v, s)   == IF v = "own" THEN OwnExport(v, s) ELSE OwnCaller(v, s)
NoOwnSteps == variant # "own"
ExportOwn  == (variant = "own") => ExportScn

(* ---- invariants of the design run ---------------------------------------------------------------- *)
Own == variant = "own"
D_OnLoopThread == Own => OnLoopThread
D_NotEarly     == Own => NotEarly
D_NoStart      == Own => NoStartAfterDisposeReturned
D_NoLost       == Own => NoLostAction
D_AtMostOnce   == Own => AtMostOnce
D_EndOK        == Own => EndOK
D_NoMissedWakeup == Own => NoMissedWakeup
\* what the model of the pinned decision gets right: a foreign thread inside ANOTHER running loop is told to marshal
D_CallerInsideAnotherLoop == (variant = "caller" /\ own # {}) => NoStartAfterDisposeReturned

(* ---- negative controls ---------------------------------------------------------------------------- *)
Reg(v) == CASE v = "caller" -> 11 [] v = "early" -> 12 [] v = "lose" -> 13 [] v = "inline" -> 14 [] v = "nowake" -> 15
            [] v = "impatient" -> 16 [] v = "spent" -> 17 [] OTHER -> 18
Broken(v) == CASE v = "caller" -> ~NoStartAfterDisposeReturned
               [] v = "early"  -> ~NotEarly
               [] v = "lose"   -> ~NoLostAction
               [] v = "nowake" -> ~NoLostAction
               [] v = "impatient" -> ~NoStartAfterDisposeReturned
               [] v = "spent" -> ~NoStartAfterDisposeReturned
               [] v = "inline" -> ~OnLoopThread
               [] OTHER        -> FALSE
ASSUME \A r \in 11..18 : TLCSet(r, FALSE)
\* CONSTRAINT: a fault variant is followed until its invariant breaks
ControlPrune == Own \/ (IF Broken(variant) THEN TLCSet(Reg(variant), TRUE) /\ FALSE ELSE TRUE)
\* POSTCONDITION
ControlsRefuted == \A v \in Variants \ {"own"} : TLCGet(Reg(v)) \/ PrintT(<<"NOT REFUTED", v>>)
================================================================================
