------------------------------ MODULE OpsCombine ------------------------------
(* L3, runner "RunN": n parallel source timelines ("lanes"), one subscriber, one multi-source
   operator (C13: zip, combine_latest, with_latest_from, fork_join, amb; growth: take_until,
   skip_until, zip_with_iterable, sequence_equal with an observable second argument).

   A scenario is: the operator, its arity n, its parameter, one timeline per lane (elements
   then at most one terminal, each stamped with an integer instant MinT..MaxT, non-decreasing
   inside a lane) and how the subscriber disposes: never, at an instant `dsp`, or from inside
   its own dk-th on_next.  Instants are abstract: only their order and their coincidences
   matter (no operator here owns a timer); the replayer maps instant k to a virtual time by a
   strictly increasing map.  Instant 0 is the subscription instant (all sources are subscribed
   then); MinT = 0 lets (cold) sources notify at that very instant.
   The bounds are per *family* (`Families`): one TLC run can cover several differently bounded
   families, chosen together with the scenario in `Init`.

   TIE POLICY (DESIGN 3.2).  Order inside a lane is fixed; order between lanes (and the
   dispose lane) at one instant is NOT: `Fire(i)` is enabled for every lane whose head is due
   at the least due instant, so one TLC behaviour is one tie order and the allowed set of a
   scenario is the set of observations over all behaviours.

   EVERY OPERATOR IS STATED TWICE.
     (1) `React` - an implementation-shaped transducer: per-lane queues / latest-value slots /
         done flags / winner, one handler per incoming notification, returning the SET of
         possible reactions [st, em, fin, close] (a set because the property is silent about
         some completion instants: see `WithMayC`).
     (2) `EmitRef/MustC/MayC/ErrRef` - the property's own wording as functions of the *cut*
         (how far each lane has been consumed: "source i has produced Cnt(i) elements",
         "source i completed", "the k-th element of source i") and of the notification just
         processed, with no queues and no flags.
   `RefOK` (checked by TLC in every reachable state, i.e. after every notification of every tie
   order of every scenario) says that what the transducer emitted in reaction to the last
   notification is exactly what the wording determines, and that the run stopped exactly
   where the wording says the result ends.  By induction over the run this is
   "output = reference(history)"; keeping only the cut instead of the whole history lets
   different tie orders that reach the same cut share their states.

   Element values are identities: the j-th element of lane i is the token j (the codec gives
   lane i its own Python objects), so "the tuple of the k-th elements" is literally the tuple
   <<k, .., k>> and "the tuple of latest values" the tuple of per-lane counts.  Only
   sequence_equal compares elements; its lanes carry tokens 0..NVals-1.                       *)
EXTENDS Integers, Sequences, FiniteSets, TLC, Json

CONSTANTS Preset,     \* "" : one scenario family, given by the constants below;
                      \* otherwise the name of a set of families defined in `Families` (one TLC run, and
                      \* one JVM start, for several differently bounded families)
          Ops,        \* operator names explored
          NSrc,       \* set of arities explored for the n-ary operators
          MaxLen,     \* elements per lane 0..MaxLen
          MinT, MaxT, \* instants MinT..MaxT; MinT = 0 admits notifications at the subscription instant itself
                      \* (cold sources only: the replayer keeps such lanes cold), otherwise MinT = 1
          Terms,      \* subset of {"C", "E", "U"}: completion, error, never terminates
          NVals,      \* value tokens of the comparing operator
          Disposes,   \* TRUE: the subscriber's dispose instant ranges over 1..MaxT as well as NEVER
          DisposeIn,  \* k > 0: the subscriber may also dispose from inside its own j-th on_next, j = 1..k
          Sync,       \* TRUE: notifications at instant 0 are delivered synchronously inside subscribe() (see `sy`)
          Faults,     \* TRUE: sequence_equal's comparer may also raise (code 4) or be non-symmetric (code 5)
          Mode,       \* "init": scenario chosen in Init, canonical instants (exhaustive runs)
                      \* "gen" : timelines built notification by notification (for -simulate on
                      \*          constants whose scenario space no longer finishes)
                      \* "file": scenarios read from the JSON file ScnPath
          ScnPath     \* absolute path of a JSON array of scenarios (Mode = "file")

NEVER == 90                \* "not (yet) unsubscribed" / "never disposes"; instants are < 90
INF   == 99
Vals  == 0..(NVals - 1)

NARY     == {"zip", "combine_latest", "with_latest_from", "fork_join", "amb"}
BINARY   == {"take_until", "skip_until", "sequence_equal"}
GROWTH3  == {"take_until", "skip_until", "zip_with_iterable"}
ALLTERMS == {"C", "E", "U"}

(* ---- scenario families ------------------------------------------------------------------ *)
Fam(ops, nsrc, maxlen, mint, maxt, terms, disposes, din) ==
  [ops |-> ops, nsrc |-> nsrc, maxlen |-> maxlen, mint |-> mint, maxt |-> maxt, terms |-> terms,
   disposes |-> disposes, din |-> din, sync |-> FALSE]
SyncFam(ops, nsrc, maxlen, maxt, terms) ==          \* instants 0..maxt, instant 0 = synchronous delivery
  [Fam(ops, nsrc, maxlen, 0, maxt, terms, FALSE, 0) EXCEPT !.sync = TRUE]
F0 == [Fam(Ops, NSrc, MaxLen, MinT, MaxT, Terms, Disposes, DisposeIn) EXCEPT !.sync = Sync]
Families ==
  CASE Preset = "quick" ->
         {Fam(NARY, {1, 2}, 2, 1, 3, ALLTERMS, FALSE, 0),                 \* every pair of timelines, 3 instants
          Fam(NARY, {3}, 1, 1, 2, {"C", "U"}, FALSE, 0),                   \* every triple of short timelines, 2 instants
          Fam(NARY \ {"amb"}, {3}, 2, 1, 1, {"C", "U"}, FALSE, 0),         \* every triple of <= 2-element timelines at ONE instant
                                                                          \* (a source that ran ahead while another one's buffer drains)
          Fam(GROWTH3, {2}, 1, 1, 2, ALLTERMS, FALSE, 0),                  \* growth operators
          Fam(NARY \cup GROWTH3, {2}, 1, 1, 2, {"C", "U"}, TRUE, 1),       \* dispose at an instant / inside on_next
          SyncFam(NARY, {2}, 1, 1, {"C", "U"}),                            \* sources that deliver inside subscribe()
          SyncFam({"with_latest_from"}, {3}, 1, 1, {"C", "U"})}
    [] Preset = "seqeq_quick" ->   \* sequence_equal(observable) for the C06 check's quick tier
         {Fam({"sequence_equal"}, {2}, 2, 1, 2, {"C"}, FALSE, 0),
          Fam({"sequence_equal"}, {2}, 1, 1, 2, ALLTERMS, FALSE, 0)}
    [] OTHER -> {F0}

ArityOf(o, f) == IF o \in NARY THEN f.nsrc ELSE IF o \in BINARY THEN {2} ELSE {1}

\* comparers of sequence_equal, comparer(a, b) with a from the source and b from the second sequence:
\* 0 equality, 1 same parity, 2 never equal, 3 always equal, 4 raises, 5 "a <= b" (not symmetric)
CmpCodes == IF Faults THEN 0..5 ELSE 0..3
Cmp(code, a, b) == CASE code = 0 -> IF a = b THEN 1 ELSE 0
                     [] code = 1 -> IF a % 2 = b % 2 THEN 1 ELSE 0
                     [] code = 2 -> 0
                     [] code = 3 -> 1
                     [] code = 4 -> 2
                     [] OTHER    -> IF a <= b THEN 1 ELSE 0
ParamsOf(o, f) == CASE o = "zip_with_iterable" -> [m : 0..(f.maxlen + 1), cmp : {0}]
                    [] o = "sequence_equal"    -> [m : {0}, cmp : CmpCodes]
                    [] OTHER                   -> {[m |-> 0, cmp |-> 0]}

VARIABLES op, n, par, lanes, dsp, dk,                    \* the scenario (dk: dispose inside the dk-th on_next, 0 = no)
          sy,                                            \* scenario: instant-0 notifications are synchronous (below)
          g, glen,                                       \* generation phase (Mode = "gen"): lanes finished so far
                                                         \* (n + 1 = the run has started), length drawn for the next
          pos, st, out, done, disposed, unsub, last, np, now, branched   \* the run
vars == <<op, n, par, lanes, dsp, dk, sy, g, glen, pos, st, out, done, disposed, unsub, last, np, now, branched>>

(* ---- timelines ------------------------------------------------------------------------ *)
NonDec(m, f) == {h \in [1..m -> f.mint..f.maxt] : \A j \in 1..(m - 1) : h[j] <= h[j + 1]}
LastT(m, h, f) == IF m = 0 THEN f.mint ELSE h[m]
MkLane(m, h, vs, tm, tt) ==
  [j \in 1..(m + (IF tm = "U" THEN 0 ELSE 1)) |->
      IF j <= m THEN [t |-> h[j], k |-> "N", v |-> vs[j]] ELSE [t |-> tt, k |-> tm, v |-> 0]]
ValSeqs(o, m) == IF o = "sequence_equal" THEN [1..m -> Vals] ELSE {[j \in 1..m |-> j]}
LaneSet(o, f) ==
  UNION {UNION {UNION {
      (IF "U" \in f.terms THEN {MkLane(m, h, vs, "U", 0)} ELSE {})
        \cup {MkLane(m, h, vs, tm, tt) : tm \in (f.terms \ {"U"}), tt \in LastT(m, h, f)..f.maxt}
    : vs \in ValSeqs(o, m)} : h \in NonDec(m, f)} : m \in 0..f.maxlen}

Used(ls, nn, d) == UNION {{ls[i][j].t : j \in 1..Len(ls[i])} : i \in 1..nn} \cup (IF d = NEVER THEN {} ELSE {d})
\* canonical instants: the used instants after the subscription instant are 1..k (a gap
\* changes nothing: no timers here)
NoGap(ls, nn, d) == \A t \in Used(ls, nn, d) : t <= 1 \/ (t - 1) \in Used(ls, nn, d)

(* ---- operator state and reactions ------------------------------------------------------- *)
S0(nn) == [q |-> [i \in 1..nn |-> <<>>], dn |-> [i \in 1..nn |-> FALSE], w |-> 0, c |-> 0, b |-> FALSE]
R(s, em, fin, cl) == [st |-> s, em |-> em, fin |-> fin, close |-> cl]
NT(v) == [k |-> "N", v |-> v]
CT    == [k |-> "C", v |-> 0]
ET(e) == [k |-> "E", v |-> e]           \* e = lane whose error it is; 0 = raised by the comparer
Heads(q, nn)   == [i \in 1..nn |-> Head(q[i])]
Tails(q, nn)   == [i \in 1..nn |-> Tail(q[i])]
AllFull(q, nn) == \A i \in 1..nn : q[i] # <<>>
One(r)   == {r}
Err(s, i) == One(R(s, <<ET(i)>>, TRUE, {}))
\* Where the statement gives no completion rule, completion is allowed from the first moment no
\* further element can ever be emitted ("dead"); it is then one of the possible reactions to
\* every later notification, until the moment it is forced.
WithMayC(r, dead) == IF dead /\ ~r.fin THEN {r, R(r.st, r.em \o <<CT>>, TRUE, {})} ELSE {r}

\* zip: per-source queues; emit when every queue has a head; complete when a completed
\* source's queue is empty
Zip(nn, s, i, ev) ==
  CASE ev.k = "E" -> Err(s, i)
    [] ev.k = "C" -> (LET s2 == [s EXCEPT !.dn[i] = TRUE] IN
                      IF s.q[i] = <<>> THEN One(R(s2, <<CT>>, TRUE, {})) ELSE One(R(s2, <<>>, FALSE, {})))
    [] OTHER -> (LET q1 == [s.q EXCEPT ![i] = Append(@, ev.v)] IN
                 IF AllFull(q1, nn)
                 THEN (LET q2 == Tails(q1, nn)  s2 == [s EXCEPT !.q = q2] IN
                       IF \E j \in 1..nn : s.dn[j] /\ q2[j] = <<>>
                       THEN One(R(s2, <<NT(Heads(q1, nn)), CT>>, TRUE, {}))
                       ELSE One(R(s2, <<NT(Heads(q1, nn))>>, FALSE, {})))
                 ELSE One(R([s EXCEPT !.q = q1], <<>>, FALSE, {})))

\* combine_latest: q[i] holds the latest value of source i (empty = none yet)
CLDead(nn, s) == \E j \in 1..nn : s.dn[j] /\ s.q[j] = <<>>
CombineLatest(nn, s, i, ev) ==
  CASE ev.k = "E" -> Err(s, i)
    [] ev.k = "C" -> (LET s2 == [s EXCEPT !.dn[i] = TRUE] IN
                      IF \A j \in 1..nn : s2.dn[j] THEN One(R(s2, <<CT>>, TRUE, {}))
                      ELSE WithMayC(R(s2, <<>>, FALSE, {}), CLDead(nn, s2)))
    [] OTHER -> (LET s2 == [s EXCEPT !.q[i] = <<ev.v>>] IN
                 WithMayC(R(s2, IF AllFull(s2.q, nn) THEN <<NT(Heads(s2.q, nn))>> ELSE <<>>, FALSE, {}),
                          CLDead(nn, s2)))

\* with_latest_from: lane 1 is the primary; the others only store their latest value
WLDead(nn, s) == \E j \in 2..nn : s.dn[j] /\ s.q[j] = <<>>
WithLatest(nn, s, i, ev) ==
  CASE ev.k = "E" -> Err(s, i)
    [] ev.k = "C" -> IF i = 1 THEN One(R(s, <<CT>>, TRUE, {}))
                     ELSE (LET s2 == [s EXCEPT !.dn[i] = TRUE] IN WithMayC(R(s2, <<>>, FALSE, {}), WLDead(nn, s2)))
    [] OTHER -> IF i = 1
                THEN WithMayC(R(s, IF \A j \in 2..nn : s.q[j] # <<>>
                                   THEN <<NT([j \in 1..nn |-> IF j = 1 THEN ev.v ELSE s.q[j][1]])>> ELSE <<>>,
                                FALSE, {}), WLDead(nn, s))
                ELSE WithMayC(R([s EXCEPT !.q[i] = <<ev.v>>], <<>>, FALSE, {}), WLDead(nn, s))

\* fork_join: last value per source; a source completing empty completes the result at once
ForkJoin(nn, s, i, ev) ==
  CASE ev.k = "E" -> Err(s, i)
    [] ev.k = "C" -> IF s.q[i] = <<>> THEN One(R(s, <<CT>>, TRUE, {}))
                     ELSE (LET s2 == [s EXCEPT !.dn[i] = TRUE] IN
                           IF \A j \in 1..nn : s2.dn[j] THEN One(R(s2, <<NT(Heads(s2.q, nn)), CT>>, TRUE, {}))
                           ELSE One(R(s2, <<>>, FALSE, {})))
    [] OTHER -> One(R([s EXCEPT !.q[i] = <<ev.v>>], <<>>, FALSE, {}))

\* amb: the first notification of any kind elects its lane and closes all the others
Amb(nn, s, i, ev) ==
  LET first == s.w = 0 IN
  One(R(IF first THEN [s EXCEPT !.w = i] ELSE s,
        <<[k |-> ev.k, v |-> IF ev.k = "E" THEN i ELSE ev.v]>>, ev.k # "N",
        IF first THEN (1..nn) \ {i} ELSE {}))

\* take_until: lane 1 source, lane 2 the stopper (its completion is ignored)
TakeUntil(s, i, ev) ==
  CASE ev.k = "E" -> Err(s, i)
    [] i = 1 /\ ev.k = "N" -> One(R(s, <<NT(ev.v)>>, FALSE, {}))
    [] i = 1               -> One(R(s, <<CT>>, TRUE, {}))
    [] ev.k = "N"          -> One(R(s, <<CT>>, TRUE, {}))
    [] OTHER               -> One(R(s, <<>>, FALSE, {}))

\* skip_until: lane 2 opens the gate with its first element.  The docstring is silent about a
\* source that completes while the gate is shut: the result may complete then or later, or never.
SkipUntil(s, i, ev) ==
  CASE ev.k = "E" -> Err(s, i)
    [] i = 1 /\ ev.k = "C" -> IF s.b THEN One(R(s, <<CT>>, TRUE, {}))
                              ELSE WithMayC(R([s EXCEPT !.dn[1] = TRUE], <<>>, FALSE, {}), TRUE)
    [] i = 1               -> One(R(s, IF s.b THEN <<NT(ev.v)>> ELSE <<>>, FALSE, {}))
    [] ev.k = "N"          -> WithMayC(R([s EXCEPT !.b = TRUE], <<>>, FALSE, {2}), s.dn[1])
    [] OTHER               -> WithMayC(R(s, <<>>, FALSE, {}), s.dn[1])

\* zip_with_iterable: the iterable has par.m elements (identities 1..m); it is "a completed
\* source": the result may complete as soon as its last element was paired and must complete
\* at the next source element at the latest
ZipIter(p, s, i, ev) ==
  CASE ev.k = "E" -> Err(s, i)
    [] ev.k = "C" -> One(R(s, <<CT>>, TRUE, {}))
    [] OTHER -> IF s.c < p.m
                THEN WithMayC(R([s EXCEPT !.c = @ + 1], <<NT(<<ev.v, s.c + 1>>)>>, FALSE, {}), s.c + 1 = p.m)
                ELSE One(R(s, <<CT>>, TRUE, {}))

\* sequence_equal(observable): two queues of unmatched elements; results 1 = True, 0 = False
SeqEq(p, s, i, ev) ==
  LET o == 3 - i IN
  CASE ev.k = "E" -> Err(s, i)
    [] ev.k = "C" -> (LET s2 == [s EXCEPT !.dn[i] = TRUE] IN
                      IF s.q[i] # <<>> THEN One(R(s2, <<>>, FALSE, {}))
                      ELSE IF s.q[o] # <<>> THEN One(R(s2, <<NT(0), CT>>, TRUE, {}))
                      ELSE IF s.dn[o] THEN One(R(s2, <<NT(1), CT>>, TRUE, {}))
                      ELSE One(R(s2, <<>>, FALSE, {})))
    [] OTHER -> IF s.q[o] # <<>>
                THEN (LET a  == IF i = 1 THEN ev.v ELSE Head(s.q[o])      \* the source's element
                          b  == IF i = 1 THEN Head(s.q[o]) ELSE ev.v      \* the second sequence's element
                          c  == Cmp(p.cmp, a, b)                          \* always comparer(source, second)
                          s2 == [s EXCEPT !.q[o] = Tail(@)] IN
                      CASE c = 2 -> One(R(s2, <<ET(0)>>, TRUE, {}))
                        [] c = 0 -> One(R(s2, <<NT(0), CT>>, TRUE, {}))
                        [] OTHER -> One(R(s2, <<>>, FALSE, {})))
                ELSE IF s.dn[o] THEN One(R(s, <<NT(0), CT>>, TRUE, {}))
                ELSE One(R([s EXCEPT !.q[i] = Append(@, ev.v)], <<>>, FALSE, {}))

React(o, p, nn, s, i, ev) ==
  CASE o = "zip"               -> Zip(nn, s, i, ev)
    [] o = "combine_latest"    -> CombineLatest(nn, s, i, ev)
    [] o = "with_latest_from"  -> WithLatest(nn, s, i, ev)
    [] o = "fork_join"         -> ForkJoin(nn, s, i, ev)
    [] o = "amb"               -> Amb(nn, s, i, ev)
    [] o = "take_until"        -> TakeUntil(s, i, ev)
    [] o = "skip_until"        -> SkipUntil(s, i, ev)
    [] o = "zip_with_iterable" -> ZipIter(p, s, i, ev)
    [] OTHER                   -> SeqEq(p, s, i, ev)

(* ---- the runner -------------------------------------------------------------------------- *)
Stamp(em, at, fp) == [j \in 1..Len(em) |-> [at |-> at, k |-> em[j].k, v |-> em[j].v, fp |-> fp]]

\* an empty iterable may complete the result already at the subscription instant (instant 0)
Sub0(o, p) == IF o = "zip_with_iterable" /\ p.m = 0 THEN {<<>>, Stamp(<<CT>>, 0, 0)} ELSE {<<>>}

RunInit(nn) == /\ pos = [i \in 1..nn |-> 1] /\ st = S0(nn)
               /\ last = 0 /\ np = 0 /\ now = 0 /\ disposed = FALSE /\ branched = FALSE
               /\ out \in Sub0(op, par) /\ done = (out # <<>>)
               /\ unsub = [i \in 1..nn |-> IF out # <<>> THEN 0 ELSE NEVER]

Scenarios == IF Mode = "file" THEN JsonDeserialize(ScnPath) ELSE <<>>
DspSet(f) == (IF f.disposes THEN 1..f.maxt ELSE {}) \cup {NEVER}
DkSet(d, f) == IF d = NEVER THEN 0..f.din ELSE {0}
NOLEN == 0 - 1

Init ==
  \/ /\ Mode = "init"
     /\ \E f \in Families :
          /\ op \in f.ops /\ n \in ArityOf(op, f) /\ par \in ParamsOf(op, f)
          /\ lanes \in [1..n -> LaneSet(op, f)]
          /\ dsp \in DspSet(f) /\ dk \in DkSet(dsp, f) /\ sy = f.sync
     /\ NoGap(lanes, n, dsp)
     /\ g = n + 1 /\ glen = NOLEN /\ RunInit(n)
  \/ /\ Mode = "gen"
     /\ op \in Ops /\ n \in ArityOf(op, F0) /\ par \in ParamsOf(op, F0)
     /\ lanes = [i \in 1..n |-> <<>>]
     /\ dsp \in DspSet(F0) /\ dk \in DkSet(dsp, F0) /\ sy = F0.sync
     /\ g = 0 /\ glen = NOLEN /\ RunInit(n)
  \/ /\ Mode = "file"
     /\ \E x \in 1..Len(Scenarios) :
          /\ op = Scenarios[x].op /\ n = Scenarios[x].n /\ par = Scenarios[x].par
          /\ lanes = Scenarios[x].lanes
          /\ dsp = (IF Scenarios[x].dsp < 0 THEN NEVER ELSE Scenarios[x].dsp)
          /\ dk = Scenarios[x].dk /\ sy = Scenarios[x].sy
     /\ g = n + 1 /\ glen = NOLEN /\ RunInit(n)

\* Mode = "gen": lane g+1 is built one notification per step - first its length is drawn (so
\* that a random walk is uniform over lengths), then its elements, then its end.  The same
\* timelines as LaneSet, without the canonical-instants filter (gaps change nothing).
RunVars == <<pos, st, out, done, disposed, unsub, last, np, now, branched>>
Gen ==
  /\ g < n
  /\ LET i == g + 1  cur == lanes[i]  m == Len(cur)  lt == IF m = 0 THEN MinT ELSE cur[m].t IN
     \/ /\ glen = NOLEN /\ glen' \in 0..MaxLen /\ UNCHANGED <<lanes, g>>
     \/ /\ glen # NOLEN /\ m < glen
        /\ \E t \in lt..MaxT : \E v \in (IF op = "sequence_equal" THEN Vals ELSE {m + 1}) :
             lanes' = [lanes EXCEPT ![i] = Append(cur, [t |-> t, k |-> "N", v |-> v])]
        /\ UNCHANGED <<g, glen>>
     \/ /\ glen # NOLEN /\ m = glen
        /\ \/ "U" \in Terms /\ lanes' = lanes
           \/ \E tm \in (Terms \ {"U"}) : \E t \in lt..MaxT :
                lanes' = [lanes EXCEPT ![i] = Append(cur, [t |-> t, k |-> tm, v |-> 0])]
        /\ g' = g + 1 /\ glen' = NOLEN
  /\ UNCHANGED <<op, n, par, dsp, dk, sy>> /\ UNCHANGED RunVars
\* in NEVER-as--1 form, for the export
Ext(x) == IF x = NEVER THEN 0 - 1 ELSE x
\* the scenario is complete: print it (only the states a simulation actually visits take this
\* step, so one line per drawn scenario) and start the run
Start ==
  /\ g = n /\ g' = n + 1
  /\ PrintT(ToJson([op |-> op, n |-> n, par |-> par, lanes |-> lanes, dsp |-> Ext(dsp), dk |-> dk, sy |-> sy]))
  /\ UNCHANGED <<op, n, par, lanes, dsp, dk, sy, glen>> /\ UNCHANGED RunVars

Live(i) == unsub[i] = NEVER /\ pos[i] <= Len(lanes[i])
Due(i)  == IF Live(i) THEN lanes[i][pos[i]].t ELSE INF
DspDue  == IF dsp # NEVER /\ ~done THEN dsp ELSE INF
MinDue  == LET S == {Due(i) : i \in 1..n} \cup {DspDue} IN CHOOSE m \in S : \A x \in S : m <= x
(* Synchronous delivery (sy = TRUE).  A source may hand over notifications from inside its
   subscribe() call - a BehaviorSubject / replaying source that HOLDS a value, `create` with a
   direct on_next.  Those are the lane's instant-0 notifications.  They are not a tie between
   independently scheduled events: the operator's own subscribe calls cause them, so
   (a) a lane's synchronous notifications are delivered as one block (the next source is not even
       subscribed before the block ends);
   (b) in which order the operator subscribes its sources is left open (DESIGN 3.6) EXCEPT where the
       statement decides: "with_latest_from emits only on primary elements once every other source
       has a value" - a secondary that holds a value at subscription has one at every instant at
       which a primary element can exist, so its synchronous value precedes the primary's
       synchronous elements; an operator that listens to the primary first drops elements although
       every other source has a value.  (Scheduled coincidences - cold or hot sources on the same
       virtual tick, instant 0 included when sy = FALSE - remain ties: both orders allowed.)      *)
SyncPending(j) == Live(j) /\ Due(j) = 0
SyncOK(i) == (sy /\ Due(i) = 0) =>
               /\ (last # 0 /\ SyncPending(last)) => i = last
               /\ (op = "with_latest_from" /\ i = 1) => \A j \in 2..n : ~SyncPending(j)

\* more than one thing can happen next: a tie between lanes, or a reaction with a choice
Choices == Cardinality({i \in 1..n : Live(i) /\ Due(i) = MinDue /\ SyncOK(i)}) + (IF dsp # NEVER /\ DspDue = MinDue THEN 1 ELSE 0)

IsN(x) == x.k = "N"
CountN(s) == Len(SelectSeq(s, IsN))
\* position in em of its j-th element notification (0 if j < 1 or there is none)
CutAt(em, j) == IF dk = 0 \/ j < 1 \/ j > CountN(em) THEN 0
                ELSE CHOOSE x \in 1..Len(em) : em[x].k = "N" /\ CountN(SubSeq(em, 1, x)) = j

Fire(i) ==
  /\ g = n + 1 /\ ~done /\ Live(i) /\ Due(i) = MinDue /\ SyncOK(i)
  /\ LET ev == lanes[i][pos[i]]
         rs == React(op, par, n, st, i, ev) IN
     \E r \in rs :
        LET cut == CutAt(r.em, dk - CountN(out))      \* > 0: the subscriber disposes inside that on_next
            em  == IF cut > 0 THEN SubSeq(r.em, 1, cut) ELSE r.em
            fin == r.fin \/ cut > 0 IN
        /\ last' = i /\ np' = np + 1 /\ st' = r.st /\ now' = ev.t
        /\ out' = out \o Stamp(em, ev.t, np + 1)
        /\ done' = fin /\ disposed' = (cut > 0)
        /\ unsub' = [j \in 1..n |-> IF unsub[j] # NEVER THEN unsub[j]
                                    ELSE IF fin \/ j \in r.close \/ (j = i /\ ev.k # "N") THEN ev.t
                                    ELSE NEVER]
        /\ pos' = [pos EXCEPT ![i] = @ + 1]
        /\ branched' = (branched \/ Choices > 1 \/ Cardinality(rs) > 1)
  /\ UNCHANGED <<op, n, par, lanes, dsp, dk, sy, g, glen>>

\* the subscriber disposes at instant dsp, before or after the lanes' events of that instant
Dispose ==
  /\ g = n + 1 /\ ~done /\ dsp # NEVER /\ DspDue = MinDue
  /\ done' = TRUE /\ disposed' = TRUE /\ now' = dsp
  /\ unsub' = [j \in 1..n |-> IF unsub[j] # NEVER THEN unsub[j] ELSE dsp]
  /\ branched' = (branched \/ Choices > 1)
  /\ UNCHANGED <<op, n, par, lanes, dsp, dk, sy, g, glen, pos, st, out, last, np>>

Next == Gen \/ Start \/ Dispose \/ \E i \in 1..n : Fire(i)
Spec == Init /\ [][Next]_vars

Final == g = n + 1 /\ (done \/ (dsp = NEVER /\ \A i \in 1..n : ~Live(i)))

(* ---- properties of the model (C01, C02, C03) --------------------------------------------- *)
Grammar  == \A j \in 1..Len(out) : out[j].k # "N" => j = Len(out)
Causal   == \A j \in 1..(Len(out) - 1) : out[j].at <= out[j + 1].at
\* every source is unsubscribed by the time the result terminated (or was disposed)
Released == done => \A i \in 1..n : unsub[i] # NEVER /\ unsub[i] <= now
Silent   == disposed => IF dk > 0 THEN CountN(out) = dk /\ out[Len(out)].k = "N" ELSE \A j \in 1..Len(out) : out[j].at <= dsp
\* a lane is closed only by its own terminal, by the result's end, or by an operator that
\* says so (amb's losers, skip_until's trigger)
NoEarlyClose == \A i \in 1..n : (unsub[i] # NEVER /\ ~done) =>
                   \/ (pos[i] > 1 /\ lanes[i][pos[i] - 1].k # "N")
                   \/ (op = "amb" /\ st.w # 0 /\ st.w # i)
                   \/ (op = "skip_until" /\ i = 2 /\ st.b)

(* ---- the property's wording, as functions of the cut ------------------------------------ *)
\* The cut: lane i has delivered its first pos[i]-1 notifications; `last` is the lane whose
\* notification was processed last (np notifications so far).
Seen(i)   == pos[i] - 1
EvL       == lanes[last][pos[last] - 1]                                   \* the notification just processed
Cnt(i)    == IF Seen(i) >= 1 /\ lanes[i][Seen(i)].k # "N" THEN Seen(i) - 1 ELSE Seen(i)   \* elements produced by lane i
CntB(i)   == Cnt(i) - (IF i = last /\ EvL.k = "N" THEN 1 ELSE 0)          \* ... before that notification
DoneC(i)  == Seen(i) >= 1 /\ lanes[i][Seen(i)].k = "C"                    \* lane i has completed
Elem(i, j) == lanes[i][j].v                                               \* the j-th element of lane i
MinOf(S)  == CHOOSE m \in S : \A x \in S : m <= x
MinCnt    == MinOf({Cnt(i) : i \in 1..n})
MinCntB   == MinOf({CntB(i) : i \in 1..n})
Min2(a, b) == IF a <= b THEN a ELSE b
Latest    == [i \in 1..n |-> Elem(i, Cnt(i))]
Pairs     == Min2(Cnt(1), Cnt(2))
PairsB    == Min2(CntB(1), CntB(2))
PairCmp(j) == Cmp(par.cmp, Elem(1, j), Elem(2, j))

\* values emitted in reaction to the notification just processed
EmitRef ==
  LET e == EvL IN
  CASE op = "zip" ->              \* "the tuple of the k-th elements once every source produced its k-th element"
         IF e.k = "N" /\ MinCnt > MinCntB THEN <<[i \in 1..n |-> Elem(i, MinCnt)]>> ELSE <<>>
    [] op = "combine_latest" ->   \* "the tuple of latest values on each element once all sources have emitted"
         IF e.k = "N" /\ \A i \in 1..n : Cnt(i) >= 1 THEN <<Latest>> ELSE <<>>
    [] op = "with_latest_from" -> \* "only on primary elements once every other source has a value"
         IF e.k = "N" /\ last = 1 /\ \A i \in 2..n : Cnt(i) >= 1 THEN <<Latest>> ELSE <<>>
    [] op = "fork_join" ->        \* "the tuple of last values when all complete"
         IF e.k = "C" /\ \A i \in 1..n : DoneC(i) /\ Cnt(i) >= 1 THEN <<Latest>> ELSE <<>>
    [] op = "amb" -> IF e.k = "N" THEN <<e.v>> ELSE <<>>
    [] op = "take_until" -> IF e.k = "N" /\ last = 1 THEN <<e.v>> ELSE <<>>
    [] op = "skip_until" -> IF e.k = "N" /\ last = 1 /\ Cnt(2) >= 1 THEN <<e.v>> ELSE <<>>
    [] op = "zip_with_iterable" -> IF e.k = "N" /\ Cnt(1) <= par.m THEN <<<<e.v, Cnt(1)>>>> ELSE <<>>
    [] OTHER ->                   \* sequence_equal: False as soon as decided, True at the later completion
         IF e.k = "E" \/ \E j \in 1..Pairs : PairCmp(j) = 2 THEN <<>>
         ELSE IF \/ \E j \in 1..Pairs : PairCmp(j) = 0
                 \/ (DoneC(1) /\ Cnt(2) > Cnt(1)) \/ (DoneC(2) /\ Cnt(1) > Cnt(2)) THEN <<0>>
         ELSE IF DoneC(1) /\ DoneC(2) THEN <<1>>
         ELSE <<>>

\* the result must complete in reaction to the notification just processed
MustC ==
  LET e == EvL IN
  CASE op = "zip" ->              \* "completes when a completed source has no buffered element left"
         \E i \in 1..n : DoneC(i) /\ Cnt(i) = MinCnt
    [] op = "combine_latest"   -> \A i \in 1..n : DoneC(i)
    [] op = "with_latest_from" -> DoneC(1)
    [] op = "fork_join" ->        \* "or completes at once when one completes empty"
         e.k = "C" /\ (Cnt(last) = 0 \/ \A i \in 1..n : DoneC(i))
    [] op = "amb"              -> e.k = "C"
    [] op = "take_until"       -> (last = 1 /\ e.k = "C") \/ (last = 2 /\ e.k = "N")
    [] op = "skip_until"       -> last = 1 /\ e.k = "C" /\ Cnt(2) >= 1
    [] op = "zip_with_iterable" -> e.k = "C" \/ Cnt(1) > par.m
    [] OTHER                   -> EmitRef # <<>>
\* the result may (but need not) complete in reaction to it: nothing can be emitted any more
MayC ==
  CASE op = "combine_latest"   -> \E i \in 1..n : DoneC(i) /\ Cnt(i) = 0
    [] op = "with_latest_from" -> \E i \in 2..n : DoneC(i) /\ Cnt(i) = 0
    [] op = "skip_until"       -> DoneC(1)
    [] op = "zip_with_iterable" -> Cnt(1) >= par.m
    [] OTHER                   -> FALSE
\* the result must fail in reaction to it (0 = the comparer's exception, else the lane's error)
ErrRef == IF EvL.k = "E" THEN last
          ELSE IF op = "sequence_equal" /\ EvL.k = "N" /\ Pairs > PairsB /\ PairCmp(Pairs) = 2 THEN 0
          ELSE 0 - 1
Fails == ErrRef >= 0

\* what was emitted in reaction to the notification just processed (entries stamped fp = np)
IsInc(x) == x.fp = np
Inc      == SelectSeq(out, IsInc)
EndsC    == out # <<>> /\ out[Len(out)].k = "C"
EndsE    == out # <<>> /\ out[Len(out)].k = "E"
RefOK ==
  IF np = 0 THEN /\ out \in Sub0(op, par)
                 /\ done <=> (disposed \/ out # <<>>)
  ELSE LET e     == EvL
           er    == EmitRef
           body  == [j \in 1..Len(er) |-> [at |-> e.t, k |-> "N", v |-> er[j], fp |-> np]]
           inc   == Inc
           err   == ErrRef
           fails == err >= 0
           endsC == EndsC
           mustC == MustC IN
       /\ IF disposed /\ dk > 0       \* disposed inside the dk-th on_next: the reaction is cut right after it
          THEN inc = SubSeq(body, 1, Len(inc)) /\ inc # <<>> /\ ~fails
          ELSE IF fails THEN inc = <<[at |-> e.t, k |-> "E", v |-> err, fp |-> np]>>
          ELSE IF endsC THEN inc = body \o <<[at |-> e.t, k |-> "C", v |-> 0, fp |-> np]>> /\ (mustC \/ MayC)
          ELSE inc = body /\ ~mustC /\ ~EndsE
       /\ done <=> (disposed \/ endsC \/ fails)
       /\ \A j \in 1..Len(out) : out[j].fp < np => out[j].k = "N"    \* nothing was processed after a terminal

\* "amb mirrors exactly the first source to notify and unsubscribes the others at that moment"
AmbOK == (op = "amb" /\ np > 0) =>
           /\ st.w = last
           /\ \A i \in (1..n) \ {last} : pos[i] = 1 /\ unsub[i] = lanes[last][1].t
           /\ Len(out) = Seen(last)
           /\ \A j \in 1..Len(out) : out[j].k = lanes[last][j].k /\ out[j].at = lanes[last][j].t

\* width of every emitted tuple
Width == \A j \in 1..Len(out) :
           (out[j].k = "N" /\ op \in {"zip", "combine_latest", "with_latest_from", "fork_join"}) => Len(out[j].v) = n

(* ---- export ---------------------------------------------------------------------------------- *)
Proj(o) == [j \in 1..Len(o) |-> [at |-> o[j].at, k |-> o[j].k, v |-> o[j].v]]
Export == Final => PrintT(ToJson([scn |-> [op |-> op, n |-> n, par |-> par, lanes |-> lanes, dsp |-> Ext(dsp), dk |-> dk, sy |-> sy],
                                  obs |-> [out |-> Proj(out), unsub |-> [i \in 1..n |-> Ext(unsub[i])], w |-> st.w,
                                           disposed |-> disposed, amb |-> branched]]))
================================================================================
