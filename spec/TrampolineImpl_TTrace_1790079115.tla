---- MODULE TrampolineImpl_TTrace_1790079115 ----
EXTENDS Sequences, TLCExt, Toolbox, Naturals, TLC, TrampolineImpl

_expression ==
    LET TrampolineImpl_TEExpression == INSTANCE TrampolineImpl_TEExpression
    IN TrampolineImpl_TEExpression!expression
----

_trace ==
    LET TrampolineImpl_TETrace == INSTANCE TrampolineImpl_TETrace
    IN TrampolineImpl_TETrace!trace
----

_prop ==
    ~<>[](
        mine = (<<FALSE, FALSE>>)
        /\
        cur = ((0 :> 0 @@ 1 :> 0 @@ 2 :> 3))
        /\
        stack = ((0 :> <<>> @@ 1 :> <<>> @@ 2 :> <<[pc |-> "r_fin", ready |-> <<>>, cur |-> 0, procedure |-> "drain"], [pc |-> "t_loop", delay |-> 0, procedure |-> "run"]>>))
        /\
        waiting = ({2})
        /\
        idle = (FALSE)
        /\
        nestLeft = (<<1, 0>>)
        /\
        made = (3)
        /\
        notified = ({})
        /\
        active = ({})
        /\
        clock = (1)
        /\
        todo = (<<0, 0>>)
        /\
        pc = ((0 :> "Done" @@ 1 :> "Done" @@ 2 :> "d_wait"))
        /\
        delay = ((0 :> 0 @@ 1 :> 0 @@ 2 :> 0))
        /\
        due = (<<0, 2, 1>>)
        /\
        ready = ((0 :> <<>> @@ 1 :> <<>> @@ 2 :> <<>>))
        /\
        enqAt = (<<1, 2, 3>>)
        /\
        seq = (3)
        /\
        ran = (<<<<1, 1>>, <<3, 1>>>>)
        /\
        queue = (<<2>>)
    )
----

_init ==
    /\ mine = _TETrace[1].mine
    /\ seq = _TETrace[1].seq
    /\ ready = _TETrace[1].ready
    /\ active = _TETrace[1].active
    /\ made = _TETrace[1].made
    /\ idle = _TETrace[1].idle
    /\ cur = _TETrace[1].cur
    /\ ran = _TETrace[1].ran
    /\ clock = _TETrace[1].clock
    /\ pc = _TETrace[1].pc
    /\ delay = _TETrace[1].delay
    /\ due = _TETrace[1].due
    /\ queue = _TETrace[1].queue
    /\ enqAt = _TETrace[1].enqAt
    /\ todo = _TETrace[1].todo
    /\ nestLeft = _TETrace[1].nestLeft
    /\ waiting = _TETrace[1].waiting
    /\ notified = _TETrace[1].notified
    /\ stack = _TETrace[1].stack
----

_next ==
    /\ \E i,j \in DOMAIN _TETrace:
        /\ \/ /\ j = i + 1
              /\ i = TLCGet("level")
        /\ mine  = _TETrace[i].mine
        /\ mine' = _TETrace[j].mine
        /\ seq  = _TETrace[i].seq
        /\ seq' = _TETrace[j].seq
        /\ ready  = _TETrace[i].ready
        /\ ready' = _TETrace[j].ready
        /\ active  = _TETrace[i].active
        /\ active' = _TETrace[j].active
        /\ made  = _TETrace[i].made
        /\ made' = _TETrace[j].made
        /\ idle  = _TETrace[i].idle
        /\ idle' = _TETrace[j].idle
        /\ cur  = _TETrace[i].cur
        /\ cur' = _TETrace[j].cur
        /\ ran  = _TETrace[i].ran
        /\ ran' = _TETrace[j].ran
        /\ clock  = _TETrace[i].clock
        /\ clock' = _TETrace[j].clock
        /\ pc  = _TETrace[i].pc
        /\ pc' = _TETrace[j].pc
        /\ delay  = _TETrace[i].delay
        /\ delay' = _TETrace[j].delay
        /\ due  = _TETrace[i].due
        /\ due' = _TETrace[j].due
        /\ queue  = _TETrace[i].queue
        /\ queue' = _TETrace[j].queue
        /\ enqAt  = _TETrace[i].enqAt
        /\ enqAt' = _TETrace[j].enqAt
        /\ todo  = _TETrace[i].todo
        /\ todo' = _TETrace[j].todo
        /\ nestLeft  = _TETrace[i].nestLeft
        /\ nestLeft' = _TETrace[j].nestLeft
        /\ waiting  = _TETrace[i].waiting
        /\ waiting' = _TETrace[j].waiting
        /\ notified  = _TETrace[i].notified
        /\ notified' = _TETrace[j].notified
        /\ stack  = _TETrace[i].stack
        /\ stack' = _TETrace[j].stack

\* Uncomment the ASSUME below to write the states of the error trace
\* to the given file in Json format. Note that you can pass any tuple
\* to `JsonSerialize`. For example, a sub-sequence of _TETrace.
    \* ASSUME
    \*     LET J == INSTANCE Json
    \*         IN J!JsonSerialize("TrampolineImpl_TTrace_1790079115.json", _TETrace)

=============================================================================

 Note that you can extract this module `TrampolineImpl_TEExpression`
  to a dedicated file to reuse `expression` (the module in the 
  dedicated `TrampolineImpl_TEExpression.tla` file takes precedence 
  over the module `TrampolineImpl_TEExpression` below).

---- MODULE TrampolineImpl_TEExpression ----
EXTENDS Sequences, TLCExt, Toolbox, Naturals, TLC, TrampolineImpl

expression == 
    [
        \* To hide variables of the `TrampolineImpl` spec from the error trace,
        \* remove the variables below.  The trace will be written in the order
        \* of the fields of this record.
        mine |-> mine
        ,seq |-> seq
        ,ready |-> ready
        ,active |-> active
        ,made |-> made
        ,idle |-> idle
        ,cur |-> cur
        ,ran |-> ran
        ,clock |-> clock
        ,pc |-> pc
        ,delay |-> delay
        ,due |-> due
        ,queue |-> queue
        ,enqAt |-> enqAt
        ,todo |-> todo
        ,nestLeft |-> nestLeft
        ,waiting |-> waiting
        ,notified |-> notified
        ,stack |-> stack
        
        \* Put additional constant-, state-, and action-level expressions here:
        \* ,_stateNumber |-> _TEPosition
        \* ,_mineUnchanged |-> mine = mine'
        
        \* Format the `mine` variable as Json value.
        \* ,_mineJson |->
        \*     LET J == INSTANCE Json
        \*     IN J!ToJson(mine)
        
        \* Lastly, you may build expressions over arbitrary sets of states by
        \* leveraging the _TETrace operator.  For example, this is how to
        \* count the number of times a spec variable changed up to the current
        \* state in the trace.
        \* ,_mineModCount |->
        \*     LET F[s \in DOMAIN _TETrace] ==
        \*         IF s = 1 THEN 0
        \*         ELSE IF _TETrace[s].mine # _TETrace[s-1].mine
        \*             THEN 1 + F[s-1] ELSE F[s-1]
        \*     IN F[_TEPosition - 1]
    ]

=============================================================================



Parsing and semantic processing can take forever if the trace below is long.
 In this case, it is advised to uncomment the module below to deserialize the
 trace from a generated binary file.

\*
\*---- MODULE TrampolineImpl_TETrace ----
\*EXTENDS IOUtils, TLC, TrampolineImpl
\*
\*trace == IODeserialize("TrampolineImpl_TTrace_1790079115.bin", TRUE)
\*
\*=============================================================================
\*

---- MODULE TrampolineImpl_TETrace ----
EXTENDS TLC, TrampolineImpl

trace == 
    <<
    ([mine |-> <<FALSE, FALSE>>,cur |-> (0 :> 0 @@ 1 :> 0 @@ 2 :> 0),stack |-> (0 :> <<>> @@ 1 :> <<>> @@ 2 :> <<>>),waiting |-> {},idle |-> TRUE,nestLeft |-> <<1, 1>>,made |-> 0,notified |-> {},active |-> {},clock |-> 0,todo |-> <<1, 1>>,pc |-> (0 :> "tick" @@ 1 :> "t_loop" @@ 2 :> "t_loop"),delay |-> (0 :> 0 @@ 1 :> 0 @@ 2 :> 0),due |-> <<>>,ready |-> (0 :> <<>> @@ 1 :> <<>> @@ 2 :> <<>>),enqAt |-> <<>>,seq |-> 0,ran |-> <<>>,queue |-> <<>>]),
    ([mine |-> <<FALSE, FALSE>>,cur |-> (0 :> 0 @@ 1 :> 0 @@ 2 :> 0),stack |-> (0 :> <<>> @@ 1 :> <<[pc |-> "t_loop", delay |-> 0, procedure |-> "run"]>> @@ 2 :> <<>>),waiting |-> {},idle |-> TRUE,nestLeft |-> <<1, 1>>,made |-> 0,notified |-> {},active |-> {},clock |-> 0,todo |-> <<0, 1>>,pc |-> (0 :> "tick" @@ 1 :> "r_enq" @@ 2 :> "t_loop"),delay |-> (0 :> 0 @@ 1 :> 1 @@ 2 :> 0),due |-> <<>>,ready |-> (0 :> <<>> @@ 1 :> <<>> @@ 2 :> <<>>),enqAt |-> <<>>,seq |-> 0,ran |-> <<>>,queue |-> <<>>]),
    ([mine |-> <<FALSE, FALSE>>,cur |-> (0 :> 0 @@ 1 :> 0 @@ 2 :> 0),stack |-> (0 :> <<>> @@ 1 :> <<[pc |-> "t_loop", delay |-> 0, procedure |-> "run"]>> @@ 2 :> <<[pc |-> "t_loop", delay |-> 0, procedure |-> "run"]>>),waiting |-> {},idle |-> TRUE,nestLeft |-> <<1, 1>>,made |-> 0,notified |-> {},active |-> {},clock |-> 0,todo |-> <<0, 0>>,pc |-> (0 :> "tick" @@ 1 :> "r_enq" @@ 2 :> "r_enq"),delay |-> (0 :> 0 @@ 1 :> 1 @@ 2 :> 0),due |-> <<>>,ready |-> (0 :> <<>> @@ 1 :> <<>> @@ 2 :> <<>>),enqAt |-> <<>>,seq |-> 0,ran |-> <<>>,queue |-> <<>>]),
    ([mine |-> <<FALSE, TRUE>>,cur |-> (0 :> 0 @@ 1 :> 0 @@ 2 :> 0),stack |-> (0 :> <<>> @@ 1 :> <<[pc |-> "t_loop", delay |-> 0, procedure |-> "run"]>> @@ 2 :> <<[pc |-> "t_loop", delay |-> 0, procedure |-> "run"]>>),waiting |-> {},idle |-> FALSE,nestLeft |-> <<1, 1>>,made |-> 1,notified |-> {},active |-> {},clock |-> 0,todo |-> <<0, 0>>,pc |-> (0 :> "tick" @@ 1 :> "r_enq" @@ 2 :> "r_branch"),delay |-> (0 :> 0 @@ 1 :> 1 @@ 2 :> 0),due |-> <<0>>,ready |-> (0 :> <<>> @@ 1 :> <<>> @@ 2 :> <<>>),enqAt |-> <<1>>,seq |-> 1,ran |-> <<>>,queue |-> <<1>>]),
    ([mine |-> <<FALSE, TRUE>>,cur |-> (0 :> 0 @@ 1 :> 0 @@ 2 :> 0),stack |-> (0 :> <<>> @@ 1 :> <<[pc |-> "t_loop", delay |-> 0, procedure |-> "run"]>> @@ 2 :> <<[pc |-> "t_loop", delay |-> 0, procedure |-> "run"]>>),waiting |-> {},idle |-> FALSE,nestLeft |-> <<1, 1>>,made |-> 1,notified |-> {},active |-> {},clock |-> 0,todo |-> <<0, 0>>,pc |-> (0 :> "tick" @@ 1 :> "r_enq" @@ 2 :> "r_drain"),delay |-> (0 :> 0 @@ 1 :> 1 @@ 2 :> 0),due |-> <<0>>,ready |-> (0 :> <<>> @@ 1 :> <<>> @@ 2 :> <<>>),enqAt |-> <<1>>,seq |-> 1,ran |-> <<>>,queue |-> <<1>>]),
    ([mine |-> <<FALSE, TRUE>>,cur |-> (0 :> 0 @@ 1 :> 0 @@ 2 :> 0),stack |-> (0 :> <<>> @@ 1 :> <<[pc |-> "t_loop", delay |-> 0, procedure |-> "run"]>> @@ 2 :> <<[pc |-> "r_fin", ready |-> <<>>, cur |-> 0, procedure |-> "drain"], [pc |-> "t_loop", delay |-> 0, procedure |-> "run"]>>),waiting |-> {},idle |-> FALSE,nestLeft |-> <<1, 1>>,made |-> 1,notified |-> {},active |-> {},clock |-> 0,todo |-> <<0, 0>>,pc |-> (0 :> "tick" @@ 1 :> "r_enq" @@ 2 :> "d_collect"),delay |-> (0 :> 0 @@ 1 :> 1 @@ 2 :> 0),due |-> <<0>>,ready |-> (0 :> <<>> @@ 1 :> <<>> @@ 2 :> <<>>),enqAt |-> <<1>>,seq |-> 1,ran |-> <<>>,queue |-> <<1>>]),
    ([mine |-> <<FALSE, TRUE>>,cur |-> (0 :> 0 @@ 1 :> 0 @@ 2 :> 0),stack |-> (0 :> <<>> @@ 1 :> <<[pc |-> "t_loop", delay |-> 0, procedure |-> "run"]>> @@ 2 :> <<[pc |-> "r_fin", ready |-> <<>>, cur |-> 0, procedure |-> "drain"], [pc |-> "t_loop", delay |-> 0, procedure |-> "run"]>>),waiting |-> {},idle |-> FALSE,nestLeft |-> <<1, 1>>,made |-> 1,notified |-> {},active |-> {},clock |-> 0,todo |-> <<0, 0>>,pc |-> (0 :> "tick" @@ 1 :> "r_enq" @@ 2 :> "d_loop"),delay |-> (0 :> 0 @@ 1 :> 1 @@ 2 :> 0),due |-> <<0>>,ready |-> (0 :> <<>> @@ 1 :> <<>> @@ 2 :> <<1>>),enqAt |-> <<1>>,seq |-> 1,ran |-> <<>>,queue |-> <<>>]),
    ([mine |-> <<FALSE, TRUE>>,cur |-> (0 :> 0 @@ 1 :> 0 @@ 2 :> 0),stack |-> (0 :> <<>> @@ 1 :> <<[pc |-> "t_loop", delay |-> 0, procedure |-> "run"]>> @@ 2 :> <<[pc |-> "r_fin", ready |-> <<>>, cur |-> 0, procedure |-> "drain"], [pc |-> "t_loop", delay |-> 0, procedure |-> "run"]>>),waiting |-> {},idle |-> FALSE,nestLeft |-> <<1, 1>>,made |-> 1,notified |-> {},active |-> {},clock |-> 1,todo |-> <<0, 0>>,pc |-> (0 :> "tick" @@ 1 :> "r_enq" @@ 2 :> "d_loop"),delay |-> (0 :> 0 @@ 1 :> 1 @@ 2 :> 0),due |-> <<0>>,ready |-> (0 :> <<>> @@ 1 :> <<>> @@ 2 :> <<1>>),enqAt |-> <<1>>,seq |-> 1,ran |-> <<>>,queue |-> <<>>]),
    ([mine |-> <<FALSE, TRUE>>,cur |-> (0 :> 0 @@ 1 :> 0 @@ 2 :> 0),stack |-> (0 :> <<>> @@ 1 :> <<[pc |-> "t_loop", delay |-> 0, procedure |-> "run"]>> @@ 2 :> <<[pc |-> "r_fin", ready |-> <<>>, cur |-> 0, procedure |-> "drain"], [pc |-> "t_loop", delay |-> 0, procedure |-> "run"]>>),waiting |-> {},idle |-> FALSE,nestLeft |-> <<1, 1>>,made |-> 1,notified |-> {},active |-> {},clock |-> 1,todo |-> <<0, 0>>,pc |-> (0 :> "Done" @@ 1 :> "r_enq" @@ 2 :> "d_loop"),delay |-> (0 :> 0 @@ 1 :> 1 @@ 2 :> 0),due |-> <<0>>,ready |-> (0 :> <<>> @@ 1 :> <<>> @@ 2 :> <<1>>),enqAt |-> <<1>>,seq |-> 1,ran |-> <<>>,queue |-> <<>>]),
    ([mine |-> <<FALSE, TRUE>>,cur |-> (0 :> 0 @@ 1 :> 0 @@ 2 :> 0),stack |-> (0 :> <<>> @@ 1 :> <<[pc |-> "t_loop", delay |-> 0, procedure |-> "run"]>> @@ 2 :> <<[pc |-> "r_fin", ready |-> <<>>, cur |-> 0, procedure |-> "drain"], [pc |-> "t_loop", delay |-> 0, procedure |-> "run"]>>),waiting |-> {},idle |-> FALSE,nestLeft |-> <<1, 1>>,made |-> 2,notified |-> {},active |-> {},clock |-> 1,todo |-> <<0, 0>>,pc |-> (0 :> "Done" @@ 1 :> "r_branch" @@ 2 :> "d_loop"),delay |-> (0 :> 0 @@ 1 :> 1 @@ 2 :> 0),due |-> <<0, 2>>,ready |-> (0 :> <<>> @@ 1 :> <<>> @@ 2 :> <<1>>),enqAt |-> <<1, 2>>,seq |-> 2,ran |-> <<>>,queue |-> <<2>>]),
    ([mine |-> <<FALSE, TRUE>>,cur |-> (0 :> 0 @@ 1 :> 0 @@ 2 :> 0),stack |-> (0 :> <<>> @@ 1 :> <<>> @@ 2 :> <<[pc |-> "r_fin", ready |-> <<>>, cur |-> 0, procedure |-> "drain"], [pc |-> "t_loop", delay |-> 0, procedure |-> "run"]>>),waiting |-> {},idle |-> FALSE,nestLeft |-> <<1, 1>>,made |-> 2,notified |-> {},active |-> {},clock |-> 1,todo |-> <<0, 0>>,pc |-> (0 :> "Done" @@ 1 :> "t_loop" @@ 2 :> "d_loop"),delay |-> (0 :> 0 @@ 1 :> 0 @@ 2 :> 0),due |-> <<0, 2>>,ready |-> (0 :> <<>> @@ 1 :> <<>> @@ 2 :> <<1>>),enqAt |-> <<1, 2>>,seq |-> 2,ran |-> <<>>,queue |-> <<2>>]),
    ([mine |-> <<FALSE, TRUE>>,cur |-> (0 :> 0 @@ 1 :> 0 @@ 2 :> 0),stack |-> (0 :> <<>> @@ 1 :> <<>> @@ 2 :> <<[pc |-> "r_fin", ready |-> <<>>, cur |-> 0, procedure |-> "drain"], [pc |-> "t_loop", delay |-> 0, procedure |-> "run"]>>),waiting |-> {},idle |-> FALSE,nestLeft |-> <<1, 1>>,made |-> 2,notified |-> {},active |-> {},clock |-> 1,todo |-> <<0, 0>>,pc |-> (0 :> "Done" @@ 1 :> "Done" @@ 2 :> "d_loop"),delay |-> (0 :> 0 @@ 1 :> 0 @@ 2 :> 0),due |-> <<0, 2>>,ready |-> (0 :> <<>> @@ 1 :> <<>> @@ 2 :> <<1>>),enqAt |-> <<1, 2>>,seq |-> 2,ran |-> <<>>,queue |-> <<2>>]),
    ([mine |-> <<FALSE, TRUE>>,cur |-> (0 :> 0 @@ 1 :> 0 @@ 2 :> 1),stack |-> (0 :> <<>> @@ 1 :> <<>> @@ 2 :> <<[pc |-> "r_fin", ready |-> <<>>, cur |-> 0, procedure |-> "drain"], [pc |-> "t_loop", delay |-> 0, procedure |-> "run"]>>),waiting |-> {},idle |-> FALSE,nestLeft |-> <<1, 1>>,made |-> 2,notified |-> {},active |-> {},clock |-> 1,todo |-> <<0, 0>>,pc |-> (0 :> "Done" @@ 1 :> "Done" @@ 2 :> "d_invoke"),delay |-> (0 :> 0 @@ 1 :> 0 @@ 2 :> 0),due |-> <<0, 2>>,ready |-> (0 :> <<>> @@ 1 :> <<>> @@ 2 :> <<>>),enqAt |-> <<1, 2>>,seq |-> 2,ran |-> <<>>,queue |-> <<2>>]),
    ([mine |-> <<FALSE, TRUE>>,cur |-> (0 :> 0 @@ 1 :> 0 @@ 2 :> 1),stack |-> (0 :> <<>> @@ 1 :> <<>> @@ 2 :> <<[pc |-> "r_fin", ready |-> <<>>, cur |-> 0, procedure |-> "drain"], [pc |-> "t_loop", delay |-> 0, procedure |-> "run"]>>),waiting |-> {},idle |-> FALSE,nestLeft |-> <<1, 0>>,made |-> 2,notified |-> {},active |-> {1},clock |-> 1,todo |-> <<0, 0>>,pc |-> (0 :> "Done" @@ 1 :> "Done" @@ 2 :> "d_nested"),delay |-> (0 :> 0 @@ 1 :> 0 @@ 2 :> 0),due |-> <<0, 2>>,ready |-> (0 :> <<>> @@ 1 :> <<>> @@ 2 :> <<>>),enqAt |-> <<1, 2>>,seq |-> 2,ran |-> <<<<1, 1>>>>,queue |-> <<2>>]),
    ([mine |-> <<FALSE, TRUE>>,cur |-> (0 :> 0 @@ 1 :> 0 @@ 2 :> 1),stack |-> (0 :> <<>> @@ 1 :> <<>> @@ 2 :> <<[pc |-> "d_end", delay |-> 0, procedure |-> "run"], [pc |-> "r_fin", ready |-> <<>>, cur |-> 0, procedure |-> "drain"], [pc |-> "t_loop", delay |-> 0, procedure |-> "run"]>>),waiting |-> {},idle |-> FALSE,nestLeft |-> <<1, 0>>,made |-> 2,notified |-> {},active |-> {1},clock |-> 1,todo |-> <<0, 0>>,pc |-> (0 :> "Done" @@ 1 :> "Done" @@ 2 :> "r_enq"),delay |-> (0 :> 0 @@ 1 :> 0 @@ 2 :> 0),due |-> <<0, 2>>,ready |-> (0 :> <<>> @@ 1 :> <<>> @@ 2 :> <<>>),enqAt |-> <<1, 2>>,seq |-> 2,ran |-> <<<<1, 1>>>>,queue |-> <<2>>]),
    ([mine |-> <<FALSE, FALSE>>,cur |-> (0 :> 0 @@ 1 :> 0 @@ 2 :> 1),stack |-> (0 :> <<>> @@ 1 :> <<>> @@ 2 :> <<[pc |-> "d_end", delay |-> 0, procedure |-> "run"], [pc |-> "r_fin", ready |-> <<>>, cur |-> 0, procedure |-> "drain"], [pc |-> "t_loop", delay |-> 0, procedure |-> "run"]>>),waiting |-> {},idle |-> FALSE,nestLeft |-> <<1, 0>>,made |-> 3,notified |-> {},active |-> {1},clock |-> 1,todo |-> <<0, 0>>,pc |-> (0 :> "Done" @@ 1 :> "Done" @@ 2 :> "r_branch"),delay |-> (0 :> 0 @@ 1 :> 0 @@ 2 :> 0),due |-> <<0, 2, 1>>,ready |-> (0 :> <<>> @@ 1 :> <<>> @@ 2 :> <<>>),enqAt |-> <<1, 2, 3>>,seq |-> 3,ran |-> <<<<1, 1>>>>,queue |-> <<3, 2>>]),
    ([mine |-> <<FALSE, FALSE>>,cur |-> (0 :> 0 @@ 1 :> 0 @@ 2 :> 1),stack |-> (0 :> <<>> @@ 1 :> <<>> @@ 2 :> <<[pc |-> "r_fin", ready |-> <<>>, cur |-> 0, procedure |-> "drain"], [pc |-> "t_loop", delay |-> 0, procedure |-> "run"]>>),waiting |-> {},idle |-> FALSE,nestLeft |-> <<1, 0>>,made |-> 3,notified |-> {},active |-> {1},clock |-> 1,todo |-> <<0, 0>>,pc |-> (0 :> "Done" @@ 1 :> "Done" @@ 2 :> "d_end"),delay |-> (0 :> 0 @@ 1 :> 0 @@ 2 :> 0),due |-> <<0, 2, 1>>,ready |-> (0 :> <<>> @@ 1 :> <<>> @@ 2 :> <<>>),enqAt |-> <<1, 2, 3>>,seq |-> 3,ran |-> <<<<1, 1>>>>,queue |-> <<3, 2>>]),
    ([mine |-> <<FALSE, FALSE>>,cur |-> (0 :> 0 @@ 1 :> 0 @@ 2 :> 1),stack |-> (0 :> <<>> @@ 1 :> <<>> @@ 2 :> <<[pc |-> "r_fin", ready |-> <<>>, cur |-> 0, procedure |-> "drain"], [pc |-> "t_loop", delay |-> 0, procedure |-> "run"]>>),waiting |-> {},idle |-> FALSE,nestLeft |-> <<1, 0>>,made |-> 3,notified |-> {},active |-> {},clock |-> 1,todo |-> <<0, 0>>,pc |-> (0 :> "Done" @@ 1 :> "Done" @@ 2 :> "d_loop"),delay |-> (0 :> 0 @@ 1 :> 0 @@ 2 :> 0),due |-> <<0, 2, 1>>,ready |-> (0 :> <<>> @@ 1 :> <<>> @@ 2 :> <<>>),enqAt |-> <<1, 2, 3>>,seq |-> 3,ran |-> <<<<1, 1>>>>,queue |-> <<3, 2>>]),
    ([mine |-> <<FALSE, FALSE>>,cur |-> (0 :> 0 @@ 1 :> 0 @@ 2 :> 1),stack |-> (0 :> <<>> @@ 1 :> <<>> @@ 2 :> <<[pc |-> "r_fin", ready |-> <<>>, cur |-> 0, procedure |-> "drain"], [pc |-> "t_loop", delay |-> 0, procedure |-> "run"]>>),waiting |-> {},idle |-> FALSE,nestLeft |-> <<1, 0>>,made |-> 3,notified |-> {},active |-> {},clock |-> 1,todo |-> <<0, 0>>,pc |-> (0 :> "Done" @@ 1 :> "Done" @@ 2 :> "d_check"),delay |-> (0 :> 0 @@ 1 :> 0 @@ 2 :> 0),due |-> <<0, 2, 1>>,ready |-> (0 :> <<>> @@ 1 :> <<>> @@ 2 :> <<>>),enqAt |-> <<1, 2, 3>>,seq |-> 3,ran |-> <<<<1, 1>>>>,queue |-> <<3, 2>>]),
    ([mine |-> <<FALSE, FALSE>>,cur |-> (0 :> 0 @@ 1 :> 0 @@ 2 :> 1),stack |-> (0 :> <<>> @@ 1 :> <<>> @@ 2 :> <<[pc |-> "r_fin", ready |-> <<>>, cur |-> 0, procedure |-> "drain"], [pc |-> "t_loop", delay |-> 0, procedure |-> "run"]>>),waiting |-> {},idle |-> FALSE,nestLeft |-> <<1, 0>>,made |-> 3,notified |-> {},active |-> {},clock |-> 1,todo |-> <<0, 0>>,pc |-> (0 :> "Done" @@ 1 :> "Done" @@ 2 :> "d_again"),delay |-> (0 :> 0 @@ 1 :> 0 @@ 2 :> 0),due |-> <<0, 2, 1>>,ready |-> (0 :> <<>> @@ 1 :> <<>> @@ 2 :> <<>>),enqAt |-> <<1, 2, 3>>,seq |-> 3,ran |-> <<<<1, 1>>>>,queue |-> <<3, 2>>]),
    ([mine |-> <<FALSE, FALSE>>,cur |-> (0 :> 0 @@ 1 :> 0 @@ 2 :> 1),stack |-> (0 :> <<>> @@ 1 :> <<>> @@ 2 :> <<[pc |-> "r_fin", ready |-> <<>>, cur |-> 0, procedure |-> "drain"], [pc |-> "t_loop", delay |-> 0, procedure |-> "run"]>>),waiting |-> {},idle |-> FALSE,nestLeft |-> <<1, 0>>,made |-> 3,notified |-> {},active |-> {},clock |-> 1,todo |-> <<0, 0>>,pc |-> (0 :> "Done" @@ 1 :> "Done" @@ 2 :> "d_collect"),delay |-> (0 :> 0 @@ 1 :> 0 @@ 2 :> 0),due |-> <<0, 2, 1>>,ready |-> (0 :> <<>> @@ 1 :> <<>> @@ 2 :> <<>>),enqAt |-> <<1, 2, 3>>,seq |-> 3,ran |-> <<<<1, 1>>>>,queue |-> <<3, 2>>]),
    ([mine |-> <<FALSE, FALSE>>,cur |-> (0 :> 0 @@ 1 :> 0 @@ 2 :> 1),stack |-> (0 :> <<>> @@ 1 :> <<>> @@ 2 :> <<[pc |-> "r_fin", ready |-> <<>>, cur |-> 0, procedure |-> "drain"], [pc |-> "t_loop", delay |-> 0, procedure |-> "run"]>>),waiting |-> {},idle |-> FALSE,nestLeft |-> <<1, 0>>,made |-> 3,notified |-> {},active |-> {},clock |-> 1,todo |-> <<0, 0>>,pc |-> (0 :> "Done" @@ 1 :> "Done" @@ 2 :> "d_loop"),delay |-> (0 :> 0 @@ 1 :> 0 @@ 2 :> 0),due |-> <<0, 2, 1>>,ready |-> (0 :> <<>> @@ 1 :> <<>> @@ 2 :> <<3>>),enqAt |-> <<1, 2, 3>>,seq |-> 3,ran |-> <<<<1, 1>>>>,queue |-> <<2>>]),
    ([mine |-> <<FALSE, FALSE>>,cur |-> (0 :> 0 @@ 1 :> 0 @@ 2 :> 3),stack |-> (0 :> <<>> @@ 1 :> <<>> @@ 2 :> <<[pc |-> "r_fin", ready |-> <<>>, cur |-> 0, procedure |-> "drain"], [pc |-> "t_loop", delay |-> 0, procedure |-> "run"]>>),waiting |-> {},idle |-> FALSE,nestLeft |-> <<1, 0>>,made |-> 3,notified |-> {},active |-> {},clock |-> 1,todo |-> <<0, 0>>,pc |-> (0 :> "Done" @@ 1 :> "Done" @@ 2 :> "d_invoke"),delay |-> (0 :> 0 @@ 1 :> 0 @@ 2 :> 0),due |-> <<0, 2, 1>>,ready |-> (0 :> <<>> @@ 1 :> <<>> @@ 2 :> <<>>),enqAt |-> <<1, 2, 3>>,seq |-> 3,ran |-> <<<<1, 1>>>>,queue |-> <<2>>]),
    ([mine |-> <<FALSE, FALSE>>,cur |-> (0 :> 0 @@ 1 :> 0 @@ 2 :> 3),stack |-> (0 :> <<>> @@ 1 :> <<>> @@ 2 :> <<[pc |-> "r_fin", ready |-> <<>>, cur |-> 0, procedure |-> "drain"], [pc |-> "t_loop", delay |-> 0, procedure |-> "run"]>>),waiting |-> {},idle |-> FALSE,nestLeft |-> <<1, 0>>,made |-> 3,notified |-> {},active |-> {3},clock |-> 1,todo |-> <<0, 0>>,pc |-> (0 :> "Done" @@ 1 :> "Done" @@ 2 :> "d_end"),delay |-> (0 :> 0 @@ 1 :> 0 @@ 2 :> 0),due |-> <<0, 2, 1>>,ready |-> (0 :> <<>> @@ 1 :> <<>> @@ 2 :> <<>>),enqAt |-> <<1, 2, 3>>,seq |-> 3,ran |-> <<<<1, 1>>, <<3, 1>>>>,queue |-> <<2>>]),
    ([mine |-> <<FALSE, FALSE>>,cur |-> (0 :> 0 @@ 1 :> 0 @@ 2 :> 3),stack |-> (0 :> <<>> @@ 1 :> <<>> @@ 2 :> <<[pc |-> "r_fin", ready |-> <<>>, cur |-> 0, procedure |-> "drain"], [pc |-> "t_loop", delay |-> 0, procedure |-> "run"]>>),waiting |-> {},idle |-> FALSE,nestLeft |-> <<1, 0>>,made |-> 3,notified |-> {},active |-> {},clock |-> 1,todo |-> <<0, 0>>,pc |-> (0 :> "Done" @@ 1 :> "Done" @@ 2 :> "d_loop"),delay |-> (0 :> 0 @@ 1 :> 0 @@ 2 :> 0),due |-> <<0, 2, 1>>,ready |-> (0 :> <<>> @@ 1 :> <<>> @@ 2 :> <<>>),enqAt |-> <<1, 2, 3>>,seq |-> 3,ran |-> <<<<1, 1>>, <<3, 1>>>>,queue |-> <<2>>]),
    ([mine |-> <<FALSE, FALSE>>,cur |-> (0 :> 0 @@ 1 :> 0 @@ 2 :> 3),stack |-> (0 :> <<>> @@ 1 :> <<>> @@ 2 :> <<[pc |-> "r_fin", ready |-> <<>>, cur |-> 0, procedure |-> "drain"], [pc |-> "t_loop", delay |-> 0, procedure |-> "run"]>>),waiting |-> {},idle |-> FALSE,nestLeft |-> <<1, 0>>,made |-> 3,notified |-> {},active |-> {},clock |-> 1,todo |-> <<0, 0>>,pc |-> (0 :> "Done" @@ 1 :> "Done" @@ 2 :> "d_check"),delay |-> (0 :> 0 @@ 1 :> 0 @@ 2 :> 0),due |-> <<0, 2, 1>>,ready |-> (0 :> <<>> @@ 1 :> <<>> @@ 2 :> <<>>),enqAt |-> <<1, 2, 3>>,seq |-> 3,ran |-> <<<<1, 1>>, <<3, 1>>>>,queue |-> <<2>>]),
    ([mine |-> <<FALSE, FALSE>>,cur |-> (0 :> 0 @@ 1 :> 0 @@ 2 :> 3),stack |-> (0 :> <<>> @@ 1 :> <<>> @@ 2 :> <<[pc |-> "r_fin", ready |-> <<>>, cur |-> 0, procedure |-> "drain"], [pc |-> "t_loop", delay |-> 0, procedure |-> "run"]>>),waiting |-> {2},idle |-> FALSE,nestLeft |-> <<1, 0>>,made |-> 3,notified |-> {},active |-> {},clock |-> 1,todo |-> <<0, 0>>,pc |-> (0 :> "Done" @@ 1 :> "Done" @@ 2 :> "d_wait"),delay |-> (0 :> 0 @@ 1 :> 0 @@ 2 :> 0),due |-> <<0, 2, 1>>,ready |-> (0 :> <<>> @@ 1 :> <<>> @@ 2 :> <<>>),enqAt |-> <<1, 2, 3>>,seq |-> 3,ran |-> <<<<1, 1>>, <<3, 1>>>>,queue |-> <<2>>])
    >>
----


=============================================================================

---- CONFIG TrampolineImpl_TTrace_1790079115 ----
CONSTANTS
    Threads = { 1 , 2 }
    NTop = 1
    Nest = TRUE
    Delays = { 0 , 1 }
    MaxClock = 1
    Fixed = TRUE
    defaultInitValue = 0

PROPERTY
    _prop

CHECK_DEADLOCK
    \* CHECK_DEADLOCK off because of PROPERTY or INVARIANT above.
    FALSE

INIT
    _init

NEXT
    _next

CONSTANT
    _TETrace <- _trace

ALIAS
    _expression
=============================================================================
\* Generated on Tue Sep 22 12:12:40 UTC 2026