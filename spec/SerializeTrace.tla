---------------------------- MODULE SerializeTrace ----------------------------
(* Binding B for Serialize.tla: a batch of traces recorded at the USER'S callbacks of the downstream
   observer(s) of a real combinator, whose sources were driven by one DetSched thread each, is replayed
   into the monitor of Serialize.tla.  Events (totally ordered - one logical thread runs at a time):
       [e |-> "enter", th, o, k]     thread th entered on_next / on_error / on_completed (k = N / E / C) of observer o
       [e |-> "exit",  th, o]        ... and left it
   Anything else ("deadlock", "steplimit", "exc") is accepted by no action, so such a trace is rejected
   at that event.  NoOverlap and Grammar are conjoined into the state constraint by
   harness/tracecheck.py: a trace is accepted iff every prefix satisfies both.  The lock-discipline
   variables of Serialize.tla are frozen (the monitor is the only oracle).                          *)
EXTENDS Serialize, TLCExt, IOUtils

CONSTANTS NTraces

Traces == JsonDeserialize(IOEnv.TRACE_FILE)

VARIABLES tid, l

tvars == <<tid, l>>
Ev == Traces[tid][l]
More == l <= Len(Traces[tid])
Step == l' = l + 1 /\ UNCHANGED tid

Frozen == /\ fam = "trace" /\ disc = "intended" /\ script = <<>> /\ pc = <<>> /\ out = <<>> /\ lock = 0
          /\ stopped = <<>> /\ choice = 0 /\ wid = 0

TInit == /\ tid \in 1..NTraces /\ l = 1 /\ MonInit /\ Frozen

TEnter == /\ More /\ Ev.e = "enter" /\ Step
          /\ Ev.o \in Obs /\ Ev.k \in {"N", "E", "C"}
          /\ Enter(Ev.th, Ev.o, Ev.k)
          /\ UNCHANGED mdl

TExit == /\ More /\ Ev.e = "exit" /\ Step
         /\ Exit(Ev.th, Ev.o)
         /\ UNCHANGED mdl

TNext == TEnter \/ TExit

\* furthest position reached per trace (register tid); registers are initialised by the ASSUME
Track == TLCSet(tid, IF TLCGet(tid) < l THEN l ELSE TLCGet(tid))
ASSUME \A j \in 1..NTraces : TLCSet(j, 0)

Accepted(j) == TLCGet(j) = Len(Traces[j]) + 1
Post == \A j \in 1..NTraces : Accepted(j) \/ PrintT(<<"REJECTED", j, TLCGet(j)>>)

\* at the end of an accepted trace nobody is still inside a callback (every enter was matched by its exit)
BalancedAtEnd == (l = Len(Traces[tid]) + 1) => frames = <<>>
================================================================================
