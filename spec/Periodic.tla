------------------------------- MODULE Periodic -------------------------------
(* L0: periodic scheduling (C35).

   One scenario = one periodic piece of work started at instant t0:
     form "periodic": schedule_periodic(p, action, state) - first tick one period after the call;
     form "interval": reactivex.interval(p)               - the same ticks, emitting 0, 1, 2, ...;
     form "timer"   : reactivex.timer(first, p)           - first tick `first` after subscription.
   The action takes dur[k % 2] units of (virtual) time at tick k, which is what makes "once per
   period, at k times the period" say something about the re-scheduling: the next tick is one
   period after the START of this one.  Normally the duration is less than the period.  In an
   OVERRUN scenario (form "periodic" only) some call takes a whole period or more: the next call
   then simply starts late, as soon as this one has ended; the statement no longer pins the
   instants, but it still says: state threaded, never more often than once per period, stops
   after self-dispose / raise, and NO CALL STARTS AFTER THE DISPOSE - in particular when the
   dispose arrives (from another thread) while an overrunning call is executing.
   How it stops: never (observed up to Horizon); the returned disposable is disposed at a chosen
   instant T by an independent action (T may be the instant of a tick: the statement does not
   order the two, so BOTH outcomes are allowed); the action disposes it itself at tick K; the
   action raises at tick K.

   The work is stated twice: as the self-rescheduling machine (Tick / Dispose on a two-entry
   agenda, the shape of PeriodicScheduler.schedule_periodic and of the dedicated-thread loop of
   NewThreadScheduler), and as the reference RefTime/RefCounts; RefOK and the prefix invariants
   tie them together.  The driver is advance_to(Horizon) (phase p1), then - when the scenario
   has a stop - start() (phase p2), which must return.                                          *)
EXTENDS Integers, Sequences, FiniteSets, TLC, Json

CONSTANTS Forms,     \* subset of {"periodic", "interval", "timer"}
          Periods,   \* periods offered (> 0)
          Starts,    \* instants t0 at which the work is started
          Firsts,    \* first-tick offsets offered to the "timer" form
          LateFirsts,\* m in LateFirsts: the "timer" form is also given a first due time m BEFORE the subscription instant
          Durs,      \* action durations offered (only those < period are used)
          Over,      \* overrun scenarios: durations period + o, o \in Over, are offered as well ({} = none)
          Horizon,   \* advance_to target of phase p1
          NoneAts,   \* call numbers offered for "this call returns None" (0 = never); form "periodic" only
          MaxK       \* tick indices offered to self-dispose / raise; dispose instants go up to Horizon + 2

VARIABLES form, p, t0, first, stop, dur, noneAt,  \* the scenario
          phase, clock, pend, dpend, disposed, failed,   \* the machine
          ticks, n1, raised                  \* the observation

vars == <<form, p, t0, first, stop, dur, noneAt, phase, clock, pend, dpend, disposed, failed, ticks, n1, raised>>
scn  == <<form, p, t0, first, stop, dur, noneAt>>

(* The user's action as a table on state tokens: it returns state + 1, except that call number noneAt
   (if any) returns NOTHING (NoneTok - Python's None), and a call that receives nothing returns 100.
   "With the state returned by the previous call" includes a returned None: the next call must
   receive None, not the state before it.                                                        *)
NoneTok == 999
Ret(k, st) == IF k = noneAt THEN NoneTok ELSE IF st = NoneTok THEN 100 ELSE st + 1

Max(a, b) == IF a >= b THEN a ELSE b
None == [due |-> 0, k |-> 0, st |-> 0]
Stops == {[kind |-> "none", at |-> 0]}
         \cup {[kind |-> "dispose", at |-> t] : t \in 0..(Horizon + 2)}
         \cup {[kind |-> "self", at |-> k] : k \in 1..MaxK}
         \cup {[kind |-> "raise", at |-> k] : k \in 1..MaxK}

Init == /\ form \in Forms /\ p \in Periods /\ t0 \in Starts
        /\ first \in (IF form = "timer" THEN Firsts \cup {0 - m : m \in LateFirsts} ELSE {p})
        /\ stop \in {s \in Stops : /\ s.kind = "dispose" => s.at >= t0
                                   \* interval/timer are stopped by disposing the subscription only
                                   /\ form # "periodic" => s.kind \in {"none", "dispose"}}
        /\ dur \in [0..1 -> {d \in Durs : d < p}]
                  \cup (IF form = "periodic"
                        THEN {f \in [0..1 -> {d \in Durs : d < p} \cup {p + o : o \in Over}] : f[0] >= p \/ f[1] >= p}
                        ELSE {})
        /\ noneAt \in (IF form = "periodic" /\ dur[0] < p /\ dur[1] < p THEN NoneAts ELSE {0})
        /\ phase = "p1" /\ clock = t0
        /\ pend = [due |-> t0 + first, k |-> 1, st |-> 0]
        /\ dpend = (stop.kind = "dispose") /\ disposed = FALSE /\ failed = FALSE
        /\ ticks = <<>> /\ n1 = 0 /\ raised = 0

(* ---- the self-rescheduling machine --------------------------------------------------------- *)
InPhase(t) == phase = "p2" \/ (phase = "p1" /\ t <= Horizon)
Overrun == dur[0] >= p \/ dur[1] >= p
(* A timer whose first due time already lies in the past when it is subscribed: the first value comes at
   once (late).  The statement does not say how the timer catches up; two policies are allowed for the
   call after a late one: keep the original grid (next = due + period) if that is still in the future, or
   restart the period from now (next = now + period).  Either way a call is never followed by another
   one at the same instant, values are 0, 1, 2, ..., and no call is earlier than its grid instant.     *)
Late  == first < 0
Loose == Overrun \/ Late
NextDues(now) == IF form = "timer" /\ now > pend.due
                 THEN {d \in {pend.due + p} : d > now} \cup {now + p}
                 ELSE {now + p}

\* the instant the pending call would start: its due time, or later when the previous call overran
StartAt == Max(clock, pend.due)
\* the call may start unless the dispose happened strictly earlier; at the same instant both are enabled.
\* (The dispose is an event of its own - another thread on the real-time schedulers - so it is not held
\* up by a call that is executing: a dispose that arrives during an overrunning call precedes the next one.)
CanTick    == pend.k # 0 /\ InPhase(StartAt) /\ ~(dpend /\ stop.at < StartAt)
CanDispose == dpend /\ InPhase(stop.at) /\ (pend.k = 0 \/ stop.at <= StartAt)

Tick == /\ phase \in {"p1", "p2"} /\ CanTick
        /\ LET now == Max(clock, pend.due)  k == pend.k IN
           /\ ticks' = Append(ticks, <<k, now, pend.st>>)
           /\ IF stop.kind = "raise" /\ stop.at = k
              THEN \* the action raises: no further call, the exception surfaces once
                   /\ failed' = TRUE /\ raised' = k /\ pend' = None /\ clock' = now /\ UNCHANGED disposed
              ELSE /\ clock' = now + dur[k % 2]          \* the action takes some time ...
                   /\ UNCHANGED <<failed, raised>>
                   /\ IF stop.kind = "self" /\ stop.at = k
                      THEN disposed' = TRUE /\ pend' = None
                      ELSE /\ UNCHANGED disposed
                           \* ... and the next tick is one period after the start of this one,
                           \* with the state the action returned
                           /\ \E nd \in NextDues(now) : pend' = [due |-> nd, k |-> k + 1, st |-> Ret(k, pend.st)]
        /\ UNCHANGED <<scn, phase, dpend, n1>>

Dispose == /\ phase \in {"p1", "p2"} /\ CanDispose
           /\ disposed' = TRUE /\ dpend' = FALSE /\ pend' = None /\ clock' = Max(clock, stop.at)
           /\ UNCHANGED <<scn, phase, failed, ticks, n1, raised>>

EndP1 == /\ phase = "p1" /\ ~CanTick /\ ~CanDispose
         /\ n1' = Len(ticks) /\ clock' = Max(clock, Horizon)
         /\ phase' = IF stop.kind = "none" THEN "done" ELSE "p2"
         /\ UNCHANGED <<scn, pend, dpend, disposed, failed, ticks, raised>>

EndP2 == /\ phase = "p2" /\ ~CanTick /\ ~CanDispose /\ phase' = "done"
         /\ UNCHANGED <<scn, clock, pend, dpend, disposed, failed, ticks, n1, raised>>

Next == Tick \/ Dispose \/ EndP1 \/ EndP2
Spec == Init /\ [][Next]_vars /\ WF_vars(Next)

(* ---- the reference: what the statement says ------------------------------------------------ *)
KBound == Horizon + 4                                \* more ticks than any scenario can have
RefTime(k) == t0 + first + (k - 1) * p                \* "exactly at k times the period"
\* state threaded from call to call: 0, 1, 2, ... ; after call noneAt returned None: None, 100, 101, ...
RefState(k) == IF noneAt = 0 \/ k <= noneAt THEN k - 1
               ELSE IF k = noneAt + 1 THEN NoneTok ELSE 100 + (k - noneAt - 2)
RefTick(k) == <<k, RefTime(k), RefState(k)>>
CountBefore(t)  == Cardinality({k \in 1..KBound : RefTime(k) < t})
CountUpTo(t)    == Cardinality({k \in 1..KBound : RefTime(k) <= t})
Min(a, b) == IF a <= b THEN a ELSE b
\* allowed numbers of calls when observation ends at instant h (h = infinity: pass a big number)
RefCounts(h) ==
    CASE stop.kind = "none"    -> {CountUpTo(h)}
      [] stop.kind \in {"self", "raise"} -> {Min(stop.at, CountUpTo(h))}
      [] OTHER -> \* dispose at T: every tick strictly before T, none after; a tick AT T may go either way
                  {Min(CountBefore(stop.at), CountUpTo(h)), Min(CountUpTo(stop.at), CountUpTo(h))}
Inf == 1000

TypeOK == /\ clock \in Nat /\ pend.k \in 0..KBound /\ Len(ticks) <= KBound
\* every call so far is the k-th, at its exact instant, with the threaded state (prefix law)
TicksExact == ~Loose => \A i \in 1..Len(ticks) : ticks[i] = RefTick(i)
OncePerPeriod == ~Loose => \A i \in 1..(Len(ticks) - 1) : ticks[i + 1][2] - ticks[i][2] = p
\* what remains true when calls overrun (and is true always):
StateThreaded == \A i \in 1..Len(ticks) : ticks[i][1] = i /\ ticks[i][3] = RefState(i)
AtMostOncePerPeriod == ~Late => \A i \in 1..(Len(ticks) - 1) : ticks[i + 1][2] >= ticks[i][2] + p
NeverTwiceAtOnce == \A i \in 1..(Len(ticks) - 1) : ticks[i + 1][2] > ticks[i][2]
LateFirstAtOnce == (Late /\ Len(ticks) > 0) => ticks[1][2] = t0
NotBeforeGrid == \A i \in 1..Len(ticks) : ticks[i][2] >= RefTime(i)
\* "stops once the returned disposable is disposed": no call starts after the dispose instant
NoCallAfterDispose == stop.kind = "dispose" => \A i \in 1..Len(ticks) : ticks[i][2] <= stop.at
NoCallAfterStop == (disposed \/ failed) => pend.k = 0
StopsOnRaise == raised # 0 => /\ stop.kind = "raise" /\ raised = stop.at /\ Len(ticks) = raised /\ failed
\* at the end of each phase the number of calls is one the reference allows
RefOK == /\ (phase \in {"p2", "done"} /\ ~Loose) => n1 \in RefCounts(Horizon)
         /\ phase = "done" => /\ ~Loose => Len(ticks) \in RefCounts(IF stop.kind = "none" THEN Horizon ELSE Inf)
                              /\ stop.kind \in {"self", "raise"} => Len(ticks) = stop.at
                              /\ stop.kind = "raise" => raised = stop.at
                              /\ stop.kind # "raise" => raised = 0
                              /\ stop.kind # "none" => pend.k = 0       \* start() has nothing left to run
Terminates == <>(phase = "done")

(* ---- export -------------------------------------------------------------------------------- *)
Export == phase = "done" =>
            PrintT(ToJson([scn |-> [form |-> form, p |-> p, t0 |-> t0, first |-> first, stop |-> stop,
                                    dur |-> <<dur[0], dur[1]>>, horizon |-> Horizon, over |-> Overrun, noneAt |-> noneAt, late |-> Late],
                           obs |-> [ticks |-> ticks, n1 |-> n1, raised |-> raised]]))
================================================================================
