------------------------------- MODULE Serialize -------------------------------
(* C43: combinators serialize concurrently emitting sources.

   PART 1 - the MONITOR of a downstream observer (the property itself).
     Events  Enter(th, o, k) / Exit(th, o): thread th enters / leaves the user's callback
     on_next (k = "N"), on_error ("E") or on_completed ("C") of downstream observer o
     (o = 0 is the observer subscribed to the combinator; o > 0 are the observers a test
     subscribes to the windows a window operator hands out).
     NoOverlap : never two different threads inside the same observer at once (re-entrant calls
                 by the thread that is already inside are not overlaps).
     Grammar   : per observer N* then at most one terminal, nothing after it (in order of entry).
     Only these two invariants ever raise an alarm (SerializeTrace.tla binds them to recorded
     executions of the real combinators).

   PART 2 - a LOCK-DISCIPLINE model per combinator family (design check).
     Every source is a thread that delivers a script  N^k . (C | E)  to its handler of the
     combinator.  A handler (i) maybe takes the combinator's lock, (ii) decides - abstracting the
     data state by nondeterminism - which downstream calls it makes, (iii) makes them through the
     auto-detach guard of the downstream observer (check-and-set of `stopped`, then the call: the
     window in which the guard alone cannot serialize anything), (iv) releases the lock.
     `Disc(role, kind)` says how far the lock extends: "all" (held while calling downstream),
     "decide" (held for the decision only - amb) or "none".
       disc = "intended"    : the discipline the property demands (every handler that may call downstream
                              holds the one lock while it does).  TLC must prove NoOverlap and Grammar over
                              all interleavings.
       disc = "implemented" : the discipline as the pinned code implements it.  TLC's verdict per family is
                              a PREDICTION that is compared with what controlled schedules of the real code
                              show (a disagreement is reported as model drift, never as a violation).
       disc = "before_fix"  : the discipline of the tree before this bundle's four fixes - negative control:
                              TLC must find the violations (the invariants have teeth).                  *)
EXTENDS Integers, Sequences, FiniteSets, TLC, Json

CONSTANTS Threads,   \* source threads of the discipline model, e.g. {1, 2} (thread 1 has the special role)
          Obs,       \* downstream observer ids, 0 = the combinator's subscriber
          Families,  \* subset of {"merge", "merge_outer", "zip", "combine_latest", "with_latest_from", "amb", "window"}
          DiscSet,   \* subset of {"intended", "implemented", "before_fix"} - which lock discipline a behaviour runs
          MaxN       \* at most MaxN elements per source script

Terminal == {"E", "C"}

VARIABLES fam,      \* model: the combinator family of this behaviour (chosen in Init, then constant)
          disc,     \* model: which discipline this behaviour runs (chosen in Init, then constant)
          frames,   \* monitor: calls in progress, in order of entry: [th, o, k]
          hist,     \* monitor: o -> kinds entered so far
          script,   \* model: thread -> notifications its source will still deliver
          pc,       \* model: thread -> "idle" "acq" "decide" "emit" "call" "in"
          out,      \* model: thread -> downstream calls the running handler still makes (tags)
          lock,     \* model: 0 = free, else the owner
          stopped,  \* model: o -> the observer's auto-detach guard has seen a terminal
          choice,   \* model (amb): 0 = undecided, else the winning thread
          wid       \* model (window): id of the current window's observer

mon  == <<frames, hist>>
mdl  == <<fam, disc, script, pc, out, lock, stopped, choice, wid>>
vars == <<fam, disc, frames, hist, script, pc, out, lock, stopped, choice, wid>>

(* ------------------------------ PART 1: the monitor ------------------------------ *)
MonInit == frames = <<>> /\ hist = [o \in Obs |-> <<>>]

Enter(th, o, k) == /\ frames' = Append(frames, [th |-> th, o |-> o, k |-> k])
                   /\ hist' = [hist EXCEPT ![o] = Append(@, k)]

\* the innermost call of th is the one that returns; it must be a call on o
LastOf(th) == CHOOSE i \in DOMAIN frames : frames[i].th = th /\ \A j \in DOMAIN frames : frames[j].th = th => j <= i
Inside(th) == \E i \in DOMAIN frames : frames[i].th = th
Exit(th, o) == /\ Inside(th) /\ frames[LastOf(th)].o = o
               /\ frames' = [j \in 1..(Len(frames) - 1) |-> IF j < LastOf(th) THEN frames[j] ELSE frames[j + 1]]
               /\ UNCHANGED hist

NoOverlap == \A i, j \in DOMAIN frames : frames[i].o = frames[j].o => frames[i].th = frames[j].th
Grammar   == \A o \in Obs : \A i \in DOMAIN hist[o] : hist[o][i] \in Terminal => i = Len(hist[o])

(* ------------------------- PART 2: the lock-discipline model ------------------------- *)
Role(i) == CASE fam \in {"merge_outer"} -> (IF i = 1 THEN "outer" ELSE "inner")
             [] fam = "with_latest_from" -> (IF i = 1 THEN "parent" ELSE "child")
             [] fam = "window" -> (IF i = 1 THEN "source" ELSE "timer")
             [] OTHER -> "src"

\* how far the lock extends in the handler of role r for an incoming notification of kind k.
\* "before_fix": the tree before the four `fix:` commits of this bundle (kept as a negative control: TLC must find the
\* monitor violations that controlled schedules found in the real code then)
BeforeFix(r, k) ==
    CASE fam = "merge" -> "all"                                     \* synchronized(source.lock) on all three
      [] fam = "merge_outer" -> (IF r = "outer" THEN "none" ELSE "all")  \* outer handlers were passed bare
      [] fam = "zip" -> (IF k = "N" THEN "all" ELSE "none")            \* completed(i) and observer.on_error bare
      [] fam = "combine_latest" -> (IF k = "E" THEN "none" ELSE "all") \* observer.on_error bare
      [] fam = "with_latest_from" -> (IF k = "N" THEN "all" ELSE "none")
      [] fam = "amb" -> "decide"                                     \* the choice is locked, the call is not
      [] fam = "window" -> "all"
\* the pinned code (after the fixes): every handler is wrapped in synchronized(lock); amb locks the choice only
AsImplemented(r, k) == IF fam = "amb" THEN "decide" ELSE "all"
\* what the property needs: whoever may call downstream holds the one lock while doing so (amb: only the winner ever calls)
Intended(r, k) == IF fam = "amb" THEN "decide" ELSE "all"
Disc(r, k) == CASE disc = "intended" -> Intended(r, k) [] disc = "implemented" -> AsImplemented(r, k) [] disc = "before_fix" -> BeforeFix(r, k)

(* what a handler may call downstream (tags): sN sE sC = the subscriber; wN wE wC = the current window's
   observer; open = sN carrying a new window (the next window observer becomes current).
   The data state of the combinator is abstracted: every outcome the operator can produce for some
   state is offered.                                                                              *)
Emits(i, r, k) ==
    CASE fam = "merge" -> (CASE k = "N" -> {<<"sN">>} [] k = "E" -> {<<"sE">>} [] k = "C" -> {<<>>, <<"sC">>})
      [] fam = "merge_outer" ->
           (IF r = "outer" THEN (CASE k = "N" -> {<<>>} [] k = "E" -> {<<"sE">>} [] k = "C" -> {<<>>, <<"sC">>})
                           ELSE (CASE k = "N" -> {<<"sN">>} [] k = "E" -> {<<"sE">>} [] k = "C" -> {<<>>, <<"sC">>}))
      [] fam = "zip" -> (CASE k = "N" -> {<<>>, <<"sN">>, <<"sN", "sC">>} [] k = "E" -> {<<"sE">>} [] k = "C" -> {<<>>, <<"sC">>})
      [] fam = "combine_latest" -> (CASE k = "N" -> {<<>>, <<"sN">>, <<"sC">>} [] k = "E" -> {<<"sE">>} [] k = "C" -> {<<>>, <<"sC">>})
      [] fam = "with_latest_from" ->
           (IF r = "parent" THEN (CASE k = "N" -> {<<>>, <<"sN">>} [] k = "E" -> {<<"sE">>} [] k = "C" -> {<<"sC">>})
                            ELSE (CASE k = "N" -> {<<>>} [] k = "E" -> {<<"sE">>} [] k = "C" -> {<<>>}))
      [] fam = "amb" -> (IF choice \in {0, i} THEN (CASE k = "N" -> {<<"sN">>} [] k = "E" -> {<<"sE">>} [] k = "C" -> {<<"sC">>}) ELSE {<<>>})
      [] fam = "window" ->
           (IF r = "source" THEN (CASE k = "N" -> {<<"wN">>, <<"wN", "wC", "open">>}     \* second: the count limit closes the window
                                    [] k = "E" -> {<<"wE", "sE">>} [] k = "C" -> {<<"wC", "sC">>})
                            ELSE {<<"wC", "open">>, <<"open">>, <<"wC">>})                  \* k = "T": a timer tick

Scripts(i) == IF fam = "window" /\ Role(i) = "timer"
              THEN {[j \in 1..n |-> "T"] : n \in 1..MaxN}
              ELSE {[j \in 1..(n + 1) |-> IF j <= n THEN "N" ELSE t] : n \in 0..MaxN, t \in Terminal}

MdlInit == /\ fam \in Families /\ disc \in DiscSet
           /\ script \in [Threads -> UNION {Scripts(i) : i \in Threads}]
           /\ \A i \in Threads : script[i] \in Scripts(i)
           /\ pc = [i \in Threads |-> "idle"] /\ out = [i \in Threads |-> <<>>]
           /\ lock = 0 /\ stopped = [o \in Obs |-> FALSE] /\ choice = 0 /\ wid = 1

Init == MonInit /\ MdlInit

TagObs(tag)  == IF tag \in {"sN", "sE", "sC", "open"} THEN 0 ELSE wid
TagKind(tag) == CASE tag \in {"sN", "wN", "open"} -> "N" [] tag \in {"sE", "wE"} -> "E" [] tag \in {"sC", "wC"} -> "C"

Start(i) == /\ pc[i] = "idle" /\ script[i] # <<>>
            /\ pc' = [pc EXCEPT ![i] = IF Disc(Role(i), Head(script[i])) = "none" THEN "decide" ELSE "acq"]
            /\ UNCHANGED <<fam, disc, frames, hist, script, out, lock, stopped, choice, wid>>

Acquire(i) == /\ pc[i] = "acq" /\ lock = 0
              /\ lock' = i /\ pc' = [pc EXCEPT ![i] = "decide"]
              /\ UNCHANGED <<fam, disc, frames, hist, script, out, stopped, choice, wid>>

Decide(i) == /\ pc[i] = "decide"
             /\ \E s \in Emits(i, Role(i), Head(script[i])) : out' = [out EXCEPT ![i] = s]
             /\ choice' = IF fam = "amb" /\ choice = 0 THEN i ELSE choice
             /\ lock' = IF Disc(Role(i), Head(script[i])) = "decide" THEN 0 ELSE lock
             /\ pc' = [pc EXCEPT ![i] = "emit"]
             /\ UNCHANGED <<fam, disc, frames, hist, script, stopped, wid>>

\* the auto-detach guard of the target observer: test-and-set of `stopped` is one step, the call is the next
Guard(i) == /\ pc[i] = "emit" /\ out[i] # <<>>
            /\ LET o == TagObs(Head(out[i]))  k == TagKind(Head(out[i])) IN
               IF o \notin Obs \/ stopped[o]
               THEN out' = [out EXCEPT ![i] = Tail(@)] /\ UNCHANGED <<pc, stopped>>            \* dropped
               ELSE /\ stopped' = [stopped EXCEPT ![o] = @ \/ k \in Terminal]
                    /\ pc' = [pc EXCEPT ![i] = "call"] /\ UNCHANGED out
            /\ UNCHANGED <<fam, disc, frames, hist, script, lock, choice, wid>>

DoEnter(i) == /\ pc[i] = "call"
              /\ Enter(i, TagObs(Head(out[i])), TagKind(Head(out[i])))
              /\ pc' = [pc EXCEPT ![i] = "in"]
              /\ UNCHANGED <<fam, disc, script, out, lock, stopped, choice, wid>>

DoExit(i) == /\ pc[i] = "in"
             /\ Exit(i, TagObs(Head(out[i])))
             /\ wid' = IF Head(out[i]) = "open" /\ wid + 1 \in Obs THEN wid + 1 ELSE wid
             /\ out' = [out EXCEPT ![i] = Tail(@)]
             /\ pc' = [pc EXCEPT ![i] = "emit"]
             /\ UNCHANGED <<fam, disc, script, lock, stopped, choice>>

Finish(i) == /\ pc[i] = "emit" /\ out[i] = <<>>
             /\ lock' = IF lock = i THEN 0 ELSE lock
             /\ script' = [script EXCEPT ![i] = Tail(@)]
             /\ pc' = [pc EXCEPT ![i] = "idle"]
             /\ UNCHANGED <<fam, disc, frames, hist, out, stopped, choice, wid>>

Done == \A i \in Threads : pc[i] = "idle" /\ script[i] = <<>>
Terminated == Done /\ UNCHANGED vars     \* so that TLC's deadlock check means: the lock discipline never blocks for good
Next == (\E i \in Threads : Start(i) \/ Acquire(i) \/ Decide(i) \/ Guard(i) \/ DoEnter(i) \/ DoExit(i) \/ Finish(i)) \/ Terminated
Spec == Init /\ [][Next]_vars

(* ---- sanity of the model itself ---- *)
TypeOK == /\ lock \in Threads \cup {0}
          /\ \A i \in Threads : pc[i] \in {"idle", "acq", "decide", "emit", "call", "in"}
          /\ \A i \in DOMAIN frames : frames[i].th \in Threads /\ frames[i].o \in Obs
\* whoever is between Acquire and Finish with an "all" discipline owns the lock (mutual exclusion of the model's lock)
LockOK == \A i \in Threads : (pc[i] \in {"emit", "call", "in"} /\ script[i] # <<>> /\ Disc(Role(i), Head(script[i])) = "all") => lock = i

(* reachability companions (must be VIOLATED - checked as negative controls by the runner): some state has a
   call in progress while another thread is past its guard; some observer has seen a terminal              *)
NeverContended == ~(\E i, j \in Threads : i # j /\ pc[i] = "in" /\ pc[j] = "acq")
NeverTerminal  == \A o \in Obs : \A i \in DOMAIN hist[o] : hist[o][i] \notin Terminal
(* ---- what the design run checks ---- *)
\* the intended discipline satisfies the property on every interleaving
DesignNoOverlap == disc = "intended" => NoOverlap
DesignGrammar   == disc = "intended" => Grammar
(* the other disciplines: per family, is a monitor violation reachable?  Printed once per discipline, family and kind of
   violation (TLC registers 9001..; single worker or deduplicated by the caller), never a TLC error.               *)
FamIdx == CASE fam = "merge" -> 0 [] fam = "merge_outer" -> 1 [] fam = "zip" -> 2 [] fam = "combine_latest" -> 3
            [] fam = "with_latest_from" -> 4 [] fam = "amb" -> 5 [] fam = "window" -> 6
DiscIdx == CASE disc = "implemented" -> 0 [] disc = "before_fix" -> 1 [] OTHER -> 2
ASSUME \A j \in 9001..9060 : TLCSet(j, 0)
Once(reg, what) == TLCGet(reg) = 0 => (TLCSet(reg, 1) /\ PrintT(ToJson([disc |-> disc, predict |-> fam, violates |-> what])))
Predict == /\ (disc # "intended" /\ ~NoOverlap) => Once(9001 + 20 * DiscIdx + 2 * FamIdx, "NoOverlap")
           /\ (disc # "intended" /\ ~Grammar)   => Once(9002 + 20 * DiscIdx + 2 * FamIdx, "Grammar")
================================================================================
