--------------------------- MODULE AsyncIOSchedTrace ---------------------------
(* Binding B for AsyncIOSched.tla: a batch of traces recorded from the real AsyncIOScheduler /
   AsyncIOThreadSafeScheduler on the virtual-time asyncio loop under controlled schedules
   (DetSched) is validated against the MONITOR of AsyncIOSched.tla.  Each trace is the totally
   ordered list of events (one thread runs at a time), every event with the thread `th` it
   happened on and the reading `t` of the loop clock:
       [e |-> "sc", i, k, d]   schedule call for item i on scheduler kind k with delay d (0 = schedule())
       [e |-> "sr", i]         ... returned
       [e |-> "dc", i]         dispose() called on the disposable of item i
       [e |-> "dr", i]         ... returned
       [e |-> "st", i]         the action of item i started
       [e |-> "ls"] [e |-> "lx"]   the loop starts / has stopped running on th
       [e |-> "id"]            the loop is idle: it blocks in select() with no timer pending and nobody has woken
                               it (nothing ready - or, reported once every other thread has finished, handles
                               in the ready queue that nobody announced through the self-pipe)
   Each event is one monitor action; the mechanism variables do not take part (they are frozen at
   a dummy value), so the verdict is property level: a trace is accepted iff the monitor can take
   every event and OnLoopThread, NotEarly, NoStartAfterDisposeReturned, NoLostAction hold in every
   state on the way ("deadlock", "exc", "steplimit" pseudo-events have no action).

   To NAME the failure without a second run, the constraint carries only OnLoopThread, NotEarly,
   NoLostAction; Track keeps two registers per trace: the furthest position reached at all, and
   the furthest position reached with NoStartAfterDisposeReturned still true (the violation flags
   of the monitor are sticky).  A trace is REJECTED when the second one does not reach the end;
   it is additionally reported LATEONLY when the first one does - i.e. the only thing wrong with
   it is an action that started after a covered dispose() had returned.                         *)
EXTENDS AsyncIOSched, TLCExt, IOUtils

CONSTANTS NTraces

VARIABLES tid, l

Traces == JsonDeserialize(IOEnv.TRACE_FILE)

tvars == <<tid, l>>
Ev == Traces[tid][l]
More == l <= Len(Traces[tid])
Step == l' = l + 1 /\ UNCHANGED tid

MechOff == /\ variant = "own" /\ scn = <<>> /\ hs = <<>> /\ ready = <<>> /\ timers = {} /\ hl = <<>> /\ fut = <<>>
           /\ lp = [pc |-> "off", h |-> 0, todo |-> 0, stop |-> FALSE] /\ q = <<>> /\ ex = <<>>
           /\ fwake = <<>> /\ go = FALSE /\ idled = 0 /\ woken = FALSE /\ own = {} /\ busy = 0 /\ pause = 0

TInit == /\ tid \in 1..NTraces /\ l = 1 /\ MonInit /\ MechOff

TSchedCall == More /\ Ev.e = "sc" /\ Step /\ MSchedCall(Ev.i, Ev.th, Ev.k, Ev.d, Ev.t)
TSchedRet  == More /\ Ev.e = "sr" /\ Step /\ MSchedRet(Ev.i, Ev.t)
TDispCall  == More /\ Ev.e = "dc" /\ Step /\ MDispCall(Ev.i, Ev.th, Ev.t)
TDispRet   == More /\ Ev.e = "dr" /\ Step /\ MDispRet(Ev.i, Ev.t)
TStart     == More /\ Ev.e = "st" /\ Step /\ MStart(Ev.i, Ev.th, Ev.t)
TLoopStart == More /\ Ev.e = "ls" /\ Step /\ MLoopStart(Ev.th, Ev.t)
TLoopStop  == More /\ Ev.e = "lx" /\ Step /\ MLoopStop(Ev.th, Ev.t)
TIdle      == More /\ Ev.e = "id" /\ Step /\ MIdle(Ev.th, Ev.t)

Frozen == UNCHANGED mech
TNext == (TSchedCall \/ TSchedRet \/ TDispCall \/ TDispRet \/ TStart \/ TLoopStart \/ TLoopStop \/ TIdle) /\ Frozen

\* registers: tid = furthest position with NoStartAfterDisposeReturned true, NTraces + tid = furthest position
Bump(r) == TLCSet(r, IF TLCGet(r) < l THEN l ELSE TLCGet(r))
Track == /\ Bump(NTraces + tid)
         /\ (NoStartAfterDisposeReturned => Bump(tid))
ASSUME \A j \in 1..(2 * NTraces) : TLCSet(j, 0)

Accepted(j) == TLCGet(j) = Len(Traces[j]) + 1
Post == \A j \in 1..NTraces :
          \/ Accepted(j)
          \/ /\ PrintT(<<"REJECTED", j, TLCGet(j)>>)
             /\ ((TLCGet(NTraces + j) = Len(Traces[j]) + 1) => PrintT(<<"LATEONLY", j>>))
================================================================================
