------------------------------ MODULE OpsSources ------------------------------
(* L3 source factories (C37; raising user callbacks are the C09 dimension).

   A scenario (factory `fac`, parameters `par`, optional downstream take(cut)) is chosen in Init
   and executed in the same behaviour.  Every factory is stated twice:

   * as a scheduler-recursive PRODUCER (the shape of the implementation): `Prod` is the body of
     the one scheduled action; it emits, updates the producer state and says after which delay
     the action runs again (NONE = not rescheduled).  `Act` runs the action that is due, the
     clock jumping to its due time;
   * as a REFERENCE timeline in closed / recursive form: Python's range as a length formula,
     generate as the unrolled while-loop, generate_with_relative_time as the recursive
     "state s is emitted tm[s] after the previous emission (or the subscription)", timers as
     {d + i * p}.
   RefOK: the producer's output equals the reference cut by take(cut) and the horizon.

   Times are ticks relative to the subscription instant.  Untimed factories emit everything
   at tick 0.  Infinite timed factories (timer with period, interval, looping generators with
   non-zero delays) are observed up to `Horizon`, where the subscriber disposes; `never` has no
   action at all, so its observation is empty whatever the horizon.
   Values: range / timer / interval / repeat counts are integers themselves; elements of
   iterables, return_value, throw are tokens 0..NVals-1; generator states are tokens
   0..NStates-1; RAISE in a table = the user callback raises on that argument.                 *)
EXTENDS Integers, Sequences, FiniteSets, TLC, Json

CONSTANTS Facs,      \* factories explored
          RMax,      \* range bounds -RMax..RMax
          SMax,      \* range steps -SMax..SMax without 0
          NStates,   \* generator state space 0..NStates-1
          Delays,    \* relative delays of generate_with_relative_time, zero included
          MaxOut,    \* outputs beyond MaxOut elements are not followed (looping generators need take)
          Horizon,   \* timed factories are observed up to this tick
          Faults,    \* TRUE: tables may contain RAISE / iterables may raise
          Lazy,      \* TRUE: generator tables start undefined; an entry is chosen when the loop first reads it
          NVals, SeqLen, DMax, PMax, NMax

Neg(x)  == 0 - x
Vals    == 0..(NVals - 1)
States  == 0..(NStates - 1)
RAISE   == 77
INF     == 99
NEVER   == 999
NONE    == 0 - 1
FN      == 50          \* error token of a raising user callback
NOBAD   == 88          \* iterable that does not raise
UNDEF   == 66          \* table entry not read so far (Lazy)

VARIABLES fac, par, cut, now, due, st, out, done
vars == <<fac, par, cut, now, due, st, out, done>>

(* ---- parameters ------------------------------------------------------------------------ *)
Steps == {s \in Neg(SMax)..SMax : s # 0}
RB    == Neg(RMax)..RMax
CR    == IF Faults THEN {0, 1, 2} ELSE {0, 1}                 \* condition: false, true, raises
IR    == IF Faults THEN States \cup {RAISE} ELSE States
TR    == IF Faults THEN Delays \cup {RAISE} ELSE Delays
Seqs  == UNION {[1..m -> Vals] : m \in 0..SeqLen}

\* states the generator loop visits (it stops at the first state whose condition is not true)
RECURSIVE Visit(_, _, _, _)
Visit(cond, iter, s, seen) ==
  IF s \in seen \/ s = RAISE THEN seen
  ELSE IF cond[s] # 1 THEN seen \cup {s}
  ELSE Visit(cond, iter, iter[s], seen \cup {s})
\* table entries the loop never reads are irrelevant: keep one representative (all zero)
GenCanon(p, timed) ==
  LET seen == Visit(p.cond, p.iter, p.s0, {})
      live == {s \in seen : p.cond[s] = 1} IN       \* iterate / time mapper are read only here
  /\ \A s \in States \ seen : p.cond[s] = 0
  /\ \A s \in States \ live : p.iter[s] = 0 /\ (timed => p.tm[s] = 0)
  /\ \A s \in live : (timed /\ p.tm[s] = RAISE) => p.iter[s] = 0

ParamsOf(f) ==
  CASE f = "range1" -> [a : RB]
    [] f = "range2" -> [a : RB, b : RB]
    [] f = "range3" -> [a : RB, b : RB, s : Steps]
    [] f = "from_iterable" -> {p \in [xs : Seqs, bad : (IF Faults THEN 0..SeqLen ELSE {}) \cup {NOBAD}] :
                                 p.bad = NOBAD \/ p.bad <= Len(p.xs)}
    [] f \in {"return_value", "throw"} -> [v : Vals]
    [] f = "generate" -> IF Lazy THEN [s0 : States, cond : {[s \in States |-> UNDEF]}, iter : {[s \in States |-> UNDEF]}]
                         ELSE {p \in [s0 : States, cond : [States -> CR], iter : [States -> IR]] : GenCanon(p, FALSE)}
    [] f = "generate_rel" -> IF Lazy THEN [s0 : States, cond : {[s \in States |-> UNDEF]}, iter : {[s \in States |-> UNDEF]},
                                             tm : {[s \in States |-> UNDEF]}]
                             ELSE {p \in [s0 : States, cond : [States -> CR], iter : [States -> IR], tm : [States -> TR]] :
                                     GenCanon(p, TRUE)}
    [] f = "timer1" -> [d : 0..DMax]
    [] f = "timer2" -> [d : 0..DMax, p : 1..PMax]
    [] f = "interval" -> [p : 1..PMax]
    [] f = "repeat_value" -> [v : Vals, n : (0..NMax) \cup {INF}]
    [] OTHER -> {[z |-> 0]}            \* empty, never

CanLoop(f) == f \in {"generate", "generate_rel", "repeat_value"}

(* ---- notifications ----------------------------------------------------------------------- *)
N(v)  == [k |-> "N", v |-> v, e |-> 0]
Cn    == [k |-> "C", v |-> 0, e |-> 0]
En(e) == [k |-> "E", v |-> 0, e |-> e]
Stamp(x, at) == [at |-> at, k |-> x.k, v |-> x.v, e |-> x.e]
NCount(o) == Len(SelectSeq(o, LAMBDA x : x.k = "N"))
RECURSIVE EmitAll(_, _, _, _)
EmitAll(o, em, at, c) ==
  IF em = <<>> THEN [out |-> o, hit |-> FALSE]
  ELSE LET x == Head(em)  o2 == Append(o, Stamp(x, at)) IN
       IF x.k = "N" /\ c > 0 /\ NCount(o2) = c THEN [out |-> Append(o2, Stamp(Cn, at)), hit |-> TRUE]
       ELSE EmitAll(o2, Tail(em), at, c)

(* ---- producers: the body of the scheduled action ------------------------------------------- *)
\* st = [x : integer cursor / counter, s : generator state, first : first run, has : a result is pending]
R(em, s, nx) == [em |-> em, st |-> s, nx |-> nx]
RStart(f, p) == CASE f = "range1" -> 0 [] f \in {"range2", "range3"} -> p.a [] OTHER -> 0
RStop(f, p)  == IF f = "range1" THEN p.a ELSE p.b
RStep(f, p)  == IF f = "range3" THEN p.s ELSE 1
St0(f, p) == [x |-> RStart(f, p), s |-> 0, first |-> TRUE, has |-> FALSE]
Due0(f, p) == CASE f = "never" -> NEVER
                [] f \in {"timer1", "timer2"} -> p.d
                [] f = "interval" -> p.p
                [] OTHER -> 0

Prod(f, p, s) ==
  CASE f \in {"range1", "range2", "range3"} ->      \* Python's range as an iterator: one element per action
         (LET stop == RStop(f, p)  step == RStep(f, p) IN
          IF (step > 0 /\ s.x < stop) \/ (step < 0 /\ s.x > stop)
          THEN R(<<N(s.x)>>, [s EXCEPT !.x = @ + step], 0) ELSE R(<<Cn>>, s, NONE))
    [] f = "from_iterable" ->                          \* one action drains the iterator
         (LET m == IF p.bad = NOBAD THEN Len(p.xs) ELSE p.bad IN
          R([i \in 1..(m + 1) |-> IF i <= m THEN N(p.xs[i]) ELSE IF p.bad = NOBAD THEN Cn ELSE En(FN)], s, NONE))
    [] f = "return_value" -> R(<<N(p.v), Cn>>, s, NONE)
    [] f = "empty" -> R(<<Cn>>, s, NONE)
    [] f = "throw" -> R(<<En(p.v)>>, s, NONE)
    [] f = "generate" ->
         (LET s2 == IF s.first THEN p.s0 ELSE p.iter[s.s] IN
          IF s2 = RAISE THEN R(<<En(FN)>>, s, NONE)
          ELSE CASE p.cond[s2] = 2 -> R(<<En(FN)>>, s, NONE)
                 [] p.cond[s2] = 1 -> R(<<N(s2)>>, [s EXCEPT !.s = s2, !.first = FALSE], 0)
                 [] OTHER -> R(<<Cn>>, s, NONE))
    [] f = "generate_rel" ->                           \* the pending state is emitted when its timer fires
         (LET em == IF s.has THEN <<N(s.s)>> ELSE <<>>
              s2 == IF s.first THEN p.s0 ELSE p.iter[s.s] IN
          IF s2 = RAISE THEN R(em \o <<En(FN)>>, s, NONE)
          ELSE CASE p.cond[s2] = 2 -> R(em \o <<En(FN)>>, s, NONE)
                 [] p.cond[s2] = 0 -> R(em \o <<Cn>>, s, NONE)
                 [] OTHER -> IF p.tm[s2] = RAISE THEN R(em \o <<En(FN)>>, s, NONE)
                             ELSE R(em, [s EXCEPT !.s = s2, !.first = FALSE, !.has = TRUE], p.tm[s2]))
    [] f = "timer1" -> R(<<N(0), Cn>>, s, NONE)
    [] f \in {"timer2", "interval"} -> R(<<N(s.x)>>, [s EXCEPT !.x = @ + 1], p.p)
    [] f = "repeat_value" ->
         IF p.n = INF \/ s.x < p.n THEN R(<<N(p.v)>>, [s EXCEPT !.x = @ + 1], 0) ELSE R(<<Cn>>, s, NONE)
    [] OTHER -> R(<<>>, s, NONE)

(* ---- the runner -------------------------------------------------------------------------------- *)
Init == /\ fac \in Facs
        /\ par \in ParamsOf(fac)
        /\ cut \in (IF CanLoop(fac) THEN {0, MaxOut} ELSE {0})
        /\ now = 0 /\ due = Due0(fac, par) /\ st = St0(fac, par) /\ out = <<>> /\ done = FALSE

\* Lazy tables (DESIGN 2.2, "programs are enumerated lazily"): before the generator's action runs, the entries it is
\* about to read are chosen if they are still undefined - first iterate[current], then condition[next], then the
\* delay of next.  Every reachable table is therefore defined exactly on what the loop read (no GenCanon needed),
\* and -simulate can sample generators over state spaces whose tables could not be enumerated in Init.
IsGen == fac \in {"generate", "generate_rel"}
NeedIter == IsGen /\ ~st.first /\ par.iter[st.s] = UNDEF
NextS == IF st.first THEN par.s0 ELSE par.iter[st.s]
NeedCond == IsGen /\ ~NeedIter /\ NextS # RAISE /\ par.cond[NextS] = UNDEF
NeedTm == fac = "generate_rel" /\ ~NeedIter /\ NextS # RAISE /\ par.cond[NextS] = 1 /\ par.tm[NextS] = UNDEF
Ready == ~Lazy \/ ~(NeedIter \/ NeedCond \/ NeedTm)
Running == ~done /\ due # NEVER /\ due <= Horizon /\ (CanLoop(fac) => NCount(out) <= MaxOut)
Extend == /\ Lazy /\ Running
          /\ \/ /\ NeedIter /\ \E x \in IR : par' = [par EXCEPT !.iter[st.s] = x]
             \/ /\ NeedCond /\ \E x \in CR : par' = [par EXCEPT !.cond[NextS] = x]
             \/ /\ NeedTm /\ \E x \in TR : par' = [par EXCEPT !.tm[NextS] = x]
          /\ UNCHANGED <<fac, cut, now, due, st, out, done>>

Act == /\ Running /\ Ready
       /\ LET r == Prod(fac, par, st)
              em == EmitAll(out, r.em, due, cut)
              fin == em.hit \/ (em.out # <<>> /\ em.out[Len(em.out)].k # "N") IN
          /\ now' = due /\ out' = em.out /\ st' = r.st /\ done' = fin
          /\ due' = IF fin \/ r.nx = NONE THEN NEVER ELSE due + r.nx
       /\ UNCHANGED <<fac, par, cut>>

Next == Act \/ Extend
Spec == Init /\ [][Next]_vars

Overrun == ~done /\ CanLoop(fac) /\ NCount(out) > MaxOut               \* a loop that needs take: not followed, not exported
Final == done \/ due = NEVER \/ (due > Horizon /\ ~Overrun)      \* (a state waiting for Extend has due <= Horizon: not final)

(* ---- properties of the model ------------------------------------------------------------------- *)
Grammar == \A j \in 1..Len(out) : out[j].k # "N" => j = Len(out)
Causal  == \A j \in 1..(Len(out) - 1) : out[j].at <= out[j + 1].at
Untimed == (fac \notin {"generate_rel", "timer1", "timer2", "interval"}) => \A j \in 1..Len(out) : out[j].at = 0
NeverSilent == (fac = "never") => (out = <<>> /\ ~done)
Terminated == (done /\ cut = 0) <=> (out # <<>> /\ out[Len(out)].k # "N" /\ cut = 0)

(* ---- references -------------------------------------------------------------------------------------- *)
CeilDiv(x, y) == IF x <= 0 THEN 0 ELSE (x + y - 1) \div y          \* y > 0
PyRangeLen(a, b, s) == IF s > 0 THEN CeilDiv(b - a, s) ELSE CeilDiv(a - b, Neg(s))
PyRange(a, b, s) == [i \in 1..PyRangeLen(a, b, s) |-> a + (i - 1) * s]
Timed(vs, at) == [i \in 1..Len(vs) |-> Stamp(N(vs[i]), at)]
Fuel == MaxOut + 2 * RMax + 2
\* generate: the while-loop `s = s0; while cond(s): yield s; s = iterate(s)` unrolled
RECURSIVE GenRef(_, _, _)
GenRef(p, s, fuel) ==
  IF fuel = 0 \/ s = UNDEF THEN <<>>           \* (UNDEF: the run was cut before this entry was ever read)
  ELSE IF s # RAISE /\ p.cond[s] = UNDEF THEN <<>>
  ELSE IF s = RAISE \/ p.cond[s] = 2 THEN <<Stamp(En(FN), 0)>>
  ELSE IF p.cond[s] = 0 THEN <<Stamp(Cn, 0)>>
  ELSE <<Stamp(N(s), 0)>> \o GenRef(p, p.iter[s], fuel - 1)
\* generate_with_relative_time: state s is emitted tm[s] after the previous emission (t)
RECURSIVE GenRelRef(_, _, _, _)
GenRelRef(p, s, t, fuel) ==
  IF fuel = 0 \/ s = UNDEF THEN <<>>
  ELSE IF s # RAISE /\ p.cond[s] = UNDEF THEN <<>>
  ELSE IF s = RAISE \/ p.cond[s] = 2 THEN <<Stamp(En(FN), t)>>
  ELSE IF p.cond[s] = 0 THEN <<Stamp(Cn, t)>>
  ELSE IF p.tm[s] = UNDEF THEN <<>>
  ELSE IF p.tm[s] = RAISE THEN <<Stamp(En(FN), t)>>
  ELSE <<Stamp(N(s), t + p.tm[s])>> \o GenRelRef(p, p.iter[s], t + p.tm[s], fuel - 1)
Ticks(d, p) == LET n == IF d > Horizon THEN 0 ELSE (Horizon - d) \div p + 1 IN [i \in 1..n |-> Stamp(N(i - 1), d + (i - 1) * p)]
RefFull ==
  CASE fac = "range1" -> Append(Timed(PyRange(0, par.a, 1), 0), Stamp(Cn, 0))
    [] fac = "range2" -> Append(Timed(PyRange(par.a, par.b, 1), 0), Stamp(Cn, 0))
    [] fac = "range3" -> Append(Timed(PyRange(par.a, par.b, par.s), 0), Stamp(Cn, 0))
    [] fac = "from_iterable" -> IF par.bad = NOBAD THEN Append(Timed(par.xs, 0), Stamp(Cn, 0))
                                ELSE Append(Timed(SubSeq(par.xs, 1, par.bad), 0), Stamp(En(FN), 0))
    [] fac = "return_value" -> <<Stamp(N(par.v), 0), Stamp(Cn, 0)>>
    [] fac = "empty" -> <<Stamp(Cn, 0)>>
    [] fac = "never" -> <<>>
    [] fac = "throw" -> <<Stamp(En(par.v), 0)>>
    [] fac = "generate" -> GenRef(par, par.s0, Fuel)
    [] fac = "generate_rel" -> GenRelRef(par, par.s0, 0, Fuel)
    [] fac = "timer1" -> <<Stamp(N(0), par.d), Stamp(Cn, par.d)>>
    [] fac = "timer2" -> Ticks(par.d, par.p)
    [] fac = "interval" -> Ticks(par.p, par.p)
    [] fac = "repeat_value" -> (LET n == IF par.n = INF THEN Fuel ELSE par.n IN
                                Timed([i \in 1..n |-> par.v], 0) \o (IF par.n = INF THEN <<>> ELSE <<Stamp(Cn, 0)>>))
    [] OTHER -> <<>>
\* the subscriber's view of a timeline: up to the horizon, through take(cut)
InHorizon(tl) == SelectSeq(tl, LAMBDA x : x.at <= Horizon)
CutAt(tl) == LET ns == {i \in 1..Len(tl) : tl[i].k = "N" /\ NCount(SubSeq(tl, 1, i)) = cut} IN
             IF cut = 0 \/ ns = {} THEN tl
             ELSE LET i == CHOOSE i \in ns : TRUE IN Append(SubSeq(tl, 1, i), Stamp(Cn, tl[i].at))
RefOK == Final => out = CutAt(InHorizon(RefFull))
\* second statement of range: membership form of Python's range
RangeOK == (fac \in {"range1", "range2", "range3"} /\ Final) =>
             LET a == RStart(fac, par)  b == RStop(fac, par)  s == RStep(fac, par)
                 vs == {out[j].v : j \in {i \in 1..Len(out) : out[i].k = "N"}} IN
             /\ vs = {x \in (Neg(RMax) - SMax)..(RMax + SMax) :
                        /\ (x - a) % (IF s > 0 THEN s ELSE Neg(s)) = 0
                        /\ IF s > 0 THEN a <= x /\ x < b ELSE b < x /\ x <= a}
             /\ \A j \in 1..(Len(out) - 2) : out[j + 1].v - out[j].v = s

(* ---- export -------------------------------------------------------------------------------------------- *)
\* with take: only the scenarios in which the take actually cuts (the others duplicate cut = 0)
Export == (Final /\ (cut = 0 \/ NCount(out) = cut)) =>
            PrintT(ToJson([scn |-> [fac |-> fac, par |-> par, cut |-> cut, hz |-> Horizon],
                           obs |-> [out |-> out, done |-> done]]))
================================================================================
