------------------------------ MODULE CatchSched ------------------------------
(* L0: CatchScheduler(handler) wrapped around a virtual-time scheduler (C42).

   Programs are TREES enumerated lazily: the top level schedules root actions through the
   outer CatchScheduler; whenever an action body runs, the next command is chosen from a
   bounded menu - schedule a child (immediate / relative / absolute / periodic) THROUGH THE
   SCHEDULER THE ACTION WAS HANDED, cancel a node, raise one of two exception tokens, end -
   and appended to `body`, which is the script the replayer performs on the real scheduler.
   The handler is a table verdict \in [Exc -> BOOLEAN] chosen in Init.

   The machine is implementation shaped at the grain the property talks about: the inner
   scheduler's loop picks the (due, seq)-minimal entry (LoopPick), the body runs command by
   command, a raise starts an unwinding (exc # 0) that the catch layer of THAT entry turns
   into a handler call (ACatch) and then either swallows (loop continues) or lets escape
   from the inner scheduler's driver call (drive ends with `esc`, the replayer resumes).
   The property is stated a second time, declaratively, over the logs `ran`, `raises`,
   `handler`, `drives` (the invariants below); TLC checks the machine against them in every
   reachable state.

   Periodic nodes exist only under the advance_to driver (start() never returns while a
   periodic action is alive).  A periodic node's action gets no scheduler; per tick it may
   cancel a node, then returns state+1 or raises.                                          *)
EXTENDS Integers, Sequences, FiniteSets, TLC, Json

CONSTANTS Profiles    \* names of the bound profiles this run enumerates (one TLC run covers them all)

(* A profile fixes the bounds of one slice of the program space:
     nodes   nodes of the tree (schedule calls; a periodic schedule is one node)
     roots   schedule calls at top level          body    commands per action invocation
     raises  raises per program                   cancels cancel commands per program
     rel/abs relative / absolute due times offered; per: periods offered
     horizon advance_to target of the first drive (each resume adds 1)
     drivers subset of {"start", "adv"}                                                        *)
Prof(nm, nd, rt, bd, ra, ca, rl, ab, pe, hz, dr) ==
    [name |-> nm, nodes |-> nd, roots |-> rt, body |-> bd, raises |-> ra, cancels |-> ca, rel |-> rl, abs |-> ab,
     per |-> pe, horizon |-> hz, drivers |-> dr]
Both == {"start", "adv"}
RetProfiles == {"q_ret", "t_ret", "sim"}
Neg1 == 0 - 1     \* a negative relative due time: due before the current clock, runs at the current clock, sorts first
AllProfiles == {
    \* quick: one-shot trees to depth 2 under both drivers; periodic roots with cancels; periodic children
    Prof("q_trees",    3, 1, 2, 2, 0, {1}, {2}, {}, 4, Both),
    Prof("q_periodic", 2, 2, 1, 2, 1, {1}, {2}, {2}, 4, {"adv"}),
    Prof("q_mixed",    3, 1, 1, 2, 1, {1}, {}, {2}, 4, {"adv"}),
    \* cancels under start(): the only place where discarding a cancelled entry shows in the clock (two allowed outcomes)
    \* relative due times of exactly 0 and below 0 (with raises and both verdicts, siblings at one instant)
    Prof("q_zero",     3, 1, 2, 2, 0, {0, Neg1}, {}, {}, 4, {"adv"}),
    \* actions that return a child's handle; the outer handle is disposed by a sibling (cancel) afterwards
    Prof("q_ret",      3, 2, 1, 0, 1, {1}, {2}, {}, 4, {"adv"}),
    Prof("t_ret",      4, 2, 1, 1, 1, {1}, {2}, {2}, 4, {"adv"}),
    Prof("q_cancel",   3, 2, 1, 0, 1, {1}, {2}, {}, 4, {"start"}),
    \* thorough
    Prof("t_trees",    4, 1, 2, 2, 0, {1}, {2}, {}, 4, Both),
    Prof("t_forest",   3, 2, 2, 2, 0, {1}, {0, 2}, {}, 4, Both),
    Prof("t_periodic", 3, 2, 1, 2, 1, {1}, {2}, {2}, 4, {"adv"}),
    Prof("t_mixed",    3, 2, 2, 2, 1, {1}, {}, {2}, 5, {"adv"}),
    \* simulation only
    Prof("sim",        6, 2, 3, 3, 2, {Neg1, 0, 1, 3}, {0, 2, 5}, {1, 2, 3}, 6, Both) }

Exc == {1, 2}
Max(a, b) == IF a >= b THEN a ELSE b
Cmd(c, a, b) == [c |-> c, a |-> a, b |-> b]
NoEntry == [id |-> 0, due |-> 0, k |-> 0, st |-> 0, seq |-> 0, b |-> 0]
\* the clock the final start() returns with is outside the asserted projection: a periodic node that
\* was cancelled or failed during its own tick may leave a cancelled entry behind, and whether
\* discarding it moves the clock is not C42's (nor C28's) business
NoClock == 99999
Remove(s, p) == SubSeq(s, 1, p - 1) \o SubSeq(s, p + 1, Len(s))

VARIABLES prof,       \* the bounds of this scenario
          verdict,    \* the handler
          drv,        \* driver of this scenario
          clock, queue, cancelled, nseq,            \* the inner scheduler
          mode, target, draining, cur, left, exc,   \* control
          nextId, nkind, nper, depth, due0,         \* the tree
          top, body,                                \* the script (history)
          ran, meta, raises, handler, drives, amb,  \* the logs (observation)
          rleft, cleft,
          retc        \* retc[i] = the child whose handle action i RETURNED (0 = it returned nothing)

cfgv == <<prof, verdict, drv>>
tree == <<nextId, nkind, nper, depth, due0>>
runl == <<ran, meta>>
excl == <<raises, handler>>
vars == <<cfgv, retc, clock, queue, cancelled, nseq, mode, target, draining, cur, left, exc, tree, top, body,
          runl, excl, drives, amb, rleft, cleft>>

Verdicts == [Exc -> BOOLEAN]

Init == /\ prof \in {q \in AllProfiles : q.name \in Profiles}
        \* without raises the handler is never consulted: one table is enough
        /\ verdict \in (IF prof.raises = 0 THEN {[e \in Exc |-> TRUE]} ELSE Verdicts) /\ drv \in prof.drivers
        /\ clock = 0 /\ queue = <<>> /\ cancelled = {} /\ nseq = 1
        /\ mode = "setup" /\ target = prof.horizon /\ draining = FALSE /\ cur = NoEntry /\ left = 0 /\ exc = 0
        /\ nextId = 1 /\ nkind = [i \in 1..prof.nodes |-> "none"] /\ nper = [i \in 1..prof.nodes |-> 0]
        /\ depth = [i \in 1..prof.nodes |-> 0] /\ due0 = [i \in 1..prof.nodes |-> 0]
        /\ top = <<>> /\ body = [i \in 1..prof.nodes |-> <<>>]
        /\ ran = <<>> /\ meta = <<>> /\ raises = <<>> /\ handler = <<>> /\ drives = <<>> /\ amb = FALSE
        /\ rleft = prof.raises /\ cleft = prof.cancels
        /\ retc = [i \in 1..prof.nodes |-> 0]

(* ---- scheduling through a catch layer: delegates to the inner scheduler unchanged ------ *)
\* start() runs everything; advance_to(target) only what is due at or before the target
Unbounded == drv = "start" \/ draining

Kinds == {<<"imm", 0>>} \cup {<<"rel", d>> : d \in prof.rel} \cup {<<"abs", t>> : t \in prof.abs}
         \cup (IF ~Unbounded THEN {<<"per", p>> : p \in prof.per} ELSE {})

\* a periodic schedule's first tick is one period after the call
DueOf(kd, d) == CASE kd = "imm" -> clock [] kd = "abs" -> d [] OTHER -> clock + d
\* the state argument: a token per node, so that a lost or mixed-up state is visible
InitSt(kd, id) == IF kd = "per" THEN 10 * id ELSE 100 + id

Enqueue(kd, d, dep) ==
    /\ nextId <= prof.nodes
    /\ queue' = Append(queue, [id |-> nextId, due |-> DueOf(kd, d), k |-> 1, st |-> InitSt(kd, nextId),
                               seq |-> nseq, b |-> Len(ran)])
    /\ nseq' = nseq + 1
    /\ nkind' = [nkind EXCEPT ![nextId] = IF kd = "per" THEN "per" ELSE "one"]
    /\ nper' = [nper EXCEPT ![nextId] = IF kd = "per" THEN d ELSE 0]
    /\ depth' = [depth EXCEPT ![nextId] = dep]
    /\ due0' = [due0 EXCEPT ![nextId] = DueOf(kd, d)]
    /\ nextId' = nextId + 1

(* ---- top level -------------------------------------------------------------------------- *)
TSched == \E kd \in Kinds :
            /\ mode = "setup" /\ Len(top) < prof.roots /\ Enqueue(kd[1], kd[2], 0)
            /\ top' = Append(top, Cmd("sched_" \o kd[1], kd[2], nextId))
            /\ UNCHANGED <<cfgv, retc, clock, cancelled, mode, target, draining, cur, left, exc, body, runl, excl,
                           drives, amb, rleft, cleft>>

TGo == /\ mode = "setup" /\ Len(top) >= 1 /\ mode' = "run"
       /\ UNCHANGED <<cfgv, retc, clock, queue, cancelled, nseq, target, draining, cur, left, exc, tree, top, body,
                      runl, excl, drives, amb, rleft, cleft>>

\* after an exception escaped the driver call, the replayer calls stop() and drives again
TResume == /\ mode = "top" /\ mode' = "run" /\ target' = target + 1
           /\ UNCHANGED <<cfgv, retc, clock, queue, cancelled, nseq, draining, cur, left, exc, tree, top, body,
                          runl, excl, drives, amb, rleft, cleft>>

(* ---- the inner scheduler's run loop ---------------------------------------------------- *)
Eligible == {p \in 1..Len(queue) : Unbounded \/ queue[p].due <= target}
NextPos  == CHOOSE p \in Eligible : \A q \in Eligible :
                queue[p].due < queue[q].due \/ (queue[p].due = queue[q].due /\ p <= q)

LoopPick == /\ mode = "run" /\ cur.id = 0 /\ Eligible # {}
            /\ LET p == NextPos  e == queue[p] IN
               /\ queue' = Remove(queue, p)
               /\ IF e.id \in cancelled
                  THEN \* discarding a cancelled entry: whether that moves the clock is the inner
                       \* scheduler's business (C28 leaves it open); it shows in the clock start() returns with
                       \* (advance_to ends at its target; the clock after the final start() is not asserted)
                       /\ IF drv = "start"
                          THEN clock' \in {clock, Max(clock, e.due)} /\ amb' = (amb \/ e.due > clock)
                          ELSE clock' = Max(clock, e.due) /\ UNCHANGED amb
                       /\ UNCHANGED <<runl, cur, left, body>>
                  ELSE /\ clock' = Max(clock, e.due)
                       /\ ran' = Append(ran, <<e.id, e.k, Max(clock, e.due), e.st>>)
                       /\ meta' = Append(meta, <<e.due, e.seq, e.b>>)
                       /\ cur' = e /\ left' = prof.body
                       /\ body' = [body EXCEPT ![e.id] = Append(@, <<>>)]   \* a new invocation
                       /\ UNCHANGED amb
            /\ UNCHANGED <<cfgv, retc, cancelled, nseq, mode, target, draining, exc, tree, top, excl, drives, rleft, cleft>>

\* when advance_to(target) has returned and no periodic node is alive any more ("periodic work
\* stops"), the replayer finally calls start(): it must return, having run whatever was left
AllPerDead == \A i \in 1..prof.nodes : nkind[i] = "per" => i \in cancelled
LoopExit == /\ mode = "run" /\ cur.id = 0 /\ Eligible = {}
            /\ IF ~Unbounded /\ AllPerDead
               THEN draining' = TRUE /\ UNCHANGED mode
               ELSE mode' = "done" /\ UNCHANGED draining
            /\ clock' = IF Unbounded THEN clock ELSE Max(clock, target)
            /\ drives' = Append(drives, [clock |-> IF draining THEN NoClock ELSE clock', n |-> Len(ran), esc |-> 0])
            /\ UNCHANGED <<cfgv, retc, queue, cancelled, nseq, target, cur, left, exc, tree, top, body, runl, excl,
                           amb, rleft, cleft>>

(* ---- what a running action does -------------------------------------------------------- *)
Running == mode = "run" /\ cur.id # 0 /\ exc = 0
AddCmd(c) == body' = [body EXCEPT ![cur.id][cur.k] = Append(@, c)]

\* only one-shot actions are handed a scheduler; the child is one level deeper in the tree
ASched == \E kd \in Kinds :
            /\ Running /\ left > 0 /\ nkind[cur.id] = "one"
            /\ Enqueue(kd[1], kd[2], depth[cur.id] + 1)
            /\ AddCmd(Cmd("sched_" \o kd[1], kd[2], nextId)) /\ left' = left - 1
            /\ UNCHANGED <<cfgv, retc, clock, cancelled, mode, target, draining, cur, exc, top, runl, excl, drives, amb,
                           rleft, cleft>>

\* disposing the handle of an action that has already run disposes what that action returned - the
\* handle of a child - and so on down the chain (that is the wrapped scheduler's behaviour, and the catch
\* layer must hand the returned disposable through)
RECURSIVE Chain(_)
Chain(j) == IF j = 0 THEN {} ELSE {j} \cup Chain(retc[j])

ACancel == \E j \in 1..(nextId - 1) :
            /\ Running /\ left > 0 /\ cleft > 0
            /\ cancelled' = cancelled \cup Chain(j)
            /\ AddCmd(Cmd("cancel", j, 0)) /\ left' = left - 1 /\ cleft' = cleft - 1
            /\ UNCHANGED <<cfgv, retc, clock, queue, nseq, mode, target, draining, cur, exc, tree, top, runl, excl,
                           drives, amb, rleft>>

\* the two tokens are interchangeable, so the first raise of a program uses token 1
ARaise == \E e \in Exc :
            /\ Running /\ rleft > 0
            /\ (e = 1 \/ \E i \in 1..Len(raises) : raises[i][3] = 1)
            /\ exc' = e /\ raises' = Append(raises, <<cur.id, cur.k, e>>)
            /\ AddCmd(Cmd("raise", e, 0)) /\ rleft' = rleft - 1 /\ left' = 0
            /\ UNCHANGED <<cfgv, retc, clock, queue, cancelled, nseq, mode, target, draining, cur, tree, top, runl,
                           handler, drives, amb, cleft>>

\* normal return; a periodic action returned state+1 and its next tick is one period after this one
AEnd == /\ Running
        /\ IF nkind[cur.id] = "per" /\ cur.id \notin cancelled
           THEN /\ queue' = Append(queue, [id |-> cur.id, due |-> cur.due + nper[cur.id], k |-> cur.k + 1,
                                           st |-> cur.st + 1, seq |-> nseq, b |-> Len(ran)])
                /\ nseq' = nseq + 1
           ELSE UNCHANGED <<queue, nseq>>
        /\ cur' = NoEntry /\ left' = 0
        /\ UNCHANGED <<cfgv, retc, clock, cancelled, mode, target, draining, exc, tree, top, body, runl, excl, drives,
                       amb, rleft, cleft>>

\* `return scheduler.schedule_xxx(...)`: a one-shot action whose last command scheduled a child returns
\* that child's handle (offered in the profiles named in RetProfiles, which all have cancels - otherwise
\* nothing can observe it);
\* if the action's own handle was disposed while it ran, the returned handle is disposed at once
IsSched(c) == c.c \in {"sched_imm", "sched_rel", "sched_abs", "sched_per"}
AEndRet == /\ Running /\ nkind[cur.id] = "one" /\ prof.cancels > 0 /\ prof.name \in RetProfiles
           /\ LET cs == body[cur.id][cur.k] IN
              /\ Len(cs) > 0 /\ IsSched(cs[Len(cs)])
              /\ LET c == cs[Len(cs)].b IN
                 /\ retc' = [retc EXCEPT ![cur.id] = c]
                 /\ cancelled' = IF cur.id \in cancelled THEN cancelled \cup {c} ELSE cancelled
                 /\ AddCmd(Cmd("ret", c, 0))
           /\ cur' = NoEntry /\ left' = 0
           /\ UNCHANGED <<cfgv, clock, queue, nseq, mode, target, draining, exc, tree, top, runl, excl, drives,
                          amb, rleft, cleft>>

\* the catch layer around the running entry sees the exception: handler call, then verdict
ACatch == /\ mode = "run" /\ cur.id # 0 /\ exc # 0
          /\ handler' = Append(handler, <<cur.id, cur.k, exc>>)
          /\ cancelled' = IF nkind[cur.id] = "per" THEN cancelled \cup {cur.id} ELSE cancelled  \* periodic work stops
          /\ IF verdict[exc]
             THEN UNCHANGED <<mode, drives>>                      \* swallowed: the loop goes on
             ELSE /\ mode' = "top"                                \* propagates out of start()/advance_to()
                  /\ drives' = Append(drives, [clock |-> clock, n |-> Len(ran), esc |-> Len(raises)])
          /\ cur' = NoEntry /\ left' = 0 /\ exc' = 0
          /\ UNCHANGED <<cfgv, retc, clock, queue, nseq, target, draining, tree, top, body, runl, raises, amb, rleft, cleft>>

Next == TSched \/ TGo \/ TResume \/ LoopPick \/ LoopExit \/ ASched \/ ACancel \/ ARaise \/ AEnd \/ AEndRet \/ ACatch

Spec == Init /\ [][Next]_vars

(* ---- the property, declaratively, over the logs (C42) ------------------------------------ *)
TypeOK == /\ clock \in Nat /\ cur.id \in 0..prof.nodes /\ exc \in {0} \cup Exc /\ rleft \in 0..prof.raises
          /\ Len(meta) = Len(ran)

Escapes == {drives[i].esc : i \in 1..Len(drives)} \ {0}

\* every raise - at any depth of the tree, one-shot or periodic - reaches the handler EXACTLY ONCE, in
\* order, with the exception that was raised (while an unwinding is in flight the last raise is still on
\* its way): one catch layer per scheduled action, however it was scheduled
EveryRaiseSeenByHandler ==
    handler = IF exc # 0 THEN SubSeq(raises, 1, Len(raises) - 1) ELSE raises
\* verdict TRUE: the driver call does not end with that exception
SwallowedIffTrue   == \A i \in 1..Len(handler) : verdict[handler[i][3]] => i \notin Escapes
\* verdict FALSE: it ends the driver call, and nothing else ever does
PropagatesIffFalse == /\ \A i \in 1..Len(handler) : ~verdict[handler[i][3]] => i \in Escapes
                      /\ \A i \in Escapes : i \in 1..Len(raises) /\ ~verdict[raises[i][3]]
                      /\ \A i, j \in 1..Len(drives) : (i < j /\ drives[i].esc # 0) => drives[i].esc < drives[j].esc \/ drives[j].esc = 0
\* a periodic node ticks exactly at (first due) + (k-1)*period with the threaded state, with no gap,
\* and never again after a tick raised (whatever the verdict) or after it was cancelled
PeriodicTicks ==
    \A i \in 1..Len(ran) : nkind[ran[i][1]] = "per" =>
        LET id == ran[i][1]  k == ran[i][2] IN
        /\ ran[i][3] = due0[id] + (k - 1) * nper[id]
        /\ ran[i][4] = 10 * id + (k - 1)
        /\ k > 1 => \E j \in 1..(i - 1) : ran[j][1] = id /\ ran[j][2] = k - 1
PeriodicStopsAfterRaise ==
    \A r \in 1..Len(raises) : nkind[raises[r][1]] = "per" =>
        /\ \A i \in 1..Len(ran) : ran[i][1] = raises[r][1] => ran[i][2] <= raises[r][2]
        /\ (exc = 0 \/ r < Len(raises)) =>
              \A p \in 1..Len(queue) : queue[p].id = raises[r][1] => queue[p].id \in cancelled
\* the inner scheduler's own guarantees (C28) hold for the wrapped run: never early, one clock,
\* (due, seq) order among entries that were pending together, one-shot nodes run at most once
NotEarly == \A i \in 1..Len(ran) : ran[i][3] >= meta[i][1]
RunClocksSorted == \A i \in 1..(Len(ran) - 1) : ran[i][3] <= ran[i + 1][3]
RunOnce == \A i, j \in 1..Len(ran) : (i # j /\ ran[i][1] = ran[j][1]) => (nkind[ran[i][1]] = "per" /\ ran[i][2] # ran[j][2])
Fifo == \A i, j \in 1..Len(ran) :
          (i < j /\ meta[j][2] < meta[i][2]) => meta[j][1] > meta[i][1]
\* an entry with a smaller due time runs later only if it was enqueued after the other had started
DueOrder == \A i, j \in 1..Len(ran) :
          (i < j /\ meta[j][1] < meta[i][1]) => meta[j][3] >= i
\* a disposed handle takes the returned handle with it
ReturnedHandleCancels == \A j \in 1..prof.nodes : (j \in cancelled /\ retc[j] # 0) => retc[j] \in cancelled
\* state passing: a one-shot action receives the state it was scheduled with
StatePassed == \A i \in 1..Len(ran) : nkind[ran[i][1]] = "one" => ran[i][4] = 100 + ran[i][1]
\* no raise: the catch layer is invisible - no handler call, one driver call that returns normally
\* (and the order/clock laws above are exactly the inner scheduler's; the replayer performs every
\* quiet program on the bare inner scheduler as well and requires the same observation)
TransparentWhenQuiet == raises = <<>> => handler = <<>> /\ Escapes = {} /\ Len(drives) <= 2
\* a completed drive leaves nothing runnable behind
DriveComplete == mode = "done" => IF Unbounded THEN queue = <<>> ELSE \A p \in 1..Len(queue) : queue[p].due > target

(* ---- export ---------------------------------------------------------------------------------- *)
Export == mode = "done" =>
            PrintT(ToJson([scn |-> [verdict |-> verdict, drv |-> drv, horizon |-> prof.horizon, prof |-> prof.name, top |-> top, body |-> body,
                                    n |-> nextId - 1, kind |-> nkind, depth |-> depth, drain |-> draining],
                           obs |-> [ran |-> ran, handler |-> handler, drives |-> drives, amb |-> amb]]))
================================================================================
