------------------------------ MODULE AsyncIOSched ------------------------------
(* L0 / C33: AsyncIOScheduler and AsyncIOThreadSafeScheduler over an asyncio event loop.

   Two layers that share their actions.

   MONITOR (property level).  The abstract object is the set of scheduled items with what the
   property speaks about: the schedule call and its return, the dispose() call on the returned
   disposable and ITS RETURN, the start of the action (thread, loop clock), the loop starting
   and stopping on a thread, the loop becoming idle (nothing ready, no timer).  The monitor
   actions M* record facts; the invariants are the property:
       OnLoopThread                  an action starts only on the thread that is running the loop
       NotEarly                      ... and not before its due time (clock at the schedule call + delay)
       NoStartAfterDisposeReturned   once a COVERED dispose() has returned the action does not start.
                                     Covered = called on the loop thread, or on another thread while
                                     the loop is running (thread-safe scheduler only), or while the
                                     loop is not running - and the loop neither started nor stopped
                                     between the call and its return
       NoLostAction                  the loop does not become idle while an action whose schedule call
                                     returned, and that nobody disposed, has not started
   The statement is strict ("once dispose() has returned the action does not start"): there is no
   silent commit point as for the thread-based schedulers (DESIGN 3.3) - cancellation is supposed
   to be marshalled onto the loop, so the order of the two logged events decides.

   MECHANISM (design level).  asyncio as far as the schedulers use it - ready FIFO, timer set,
   per-handle cancelled flag, the self-pipe; _run_once = drop cancelled timers at the head of the
   heap, poll or block in select(), drain the self-pipe, move due timers, take ntodo handles, test
   the flag, run; call_soon_threadsafe = append to the ready FIFO, THEN wake the selector (two
   steps; a plain call_soon does not wake a sleeping loop) - and the schedulers' closures
   at line granularity: schedule = create the handle(s); the thread-safe relative schedule in two
   stages (stage 1 posts stage2 to the loop and appends the handle to the closure's list, stage 2
   - on the loop - calls call_later and appends the timer handle); dispose = decide direct vs
   marshalled, direct: pop/cancel/pop/cancel on the list, marshalled: post cancel_handle to the
   loop and block on a future.  The variable `variant` (chosen in Init, constant afterwards) selects
   the decision:
       "own"     direct iff the scheduler's OWN loop is not running or the caller is its thread
                 (what the docstring of _on_self_loop_or_not_running says)
       "caller"  as the pinned code reads: get_running_loop() in the CALLER's thread decides, a
                 thread without a running loop is told to cancel directly (a foreign thread that
                 runs ANOTHER event loop - scenario variable `own` - is told to marshal)
       "spent"   dispose() of a thread-safe relative schedule, called while the loop is not running, cancels only
                 the first handle of the list (negative control of NoStartAfterDisposeReturned in the scenarios
                 where the loop has run, stopped, and is run again)
       "impatient"  the marshalled dispose() waits for the loop with a timeout and swallows it (negative
                 control of NoStartAfterDisposeReturned in the scenarios with a BUSY loop)
       "early" / "lose" / "nowake" / "inline"   single faults used as negative controls of NotEarly,
                 NoLostAction (stage 2 forgets the timer; the thread-safe schedule appends to the
                 ready queue without waking the selector), OnLoopThread (each must be refuted by
                 TLC - non-vacuity)
   Mechanism steps perform the monitor actions, so TLC checks the property invariants over every
   interleaving of the loop thread and the foreign threads for every scenario of the family chosen
   in Init.  A scenario says per item: scheduler kind, delay (0 = schedule(), > 0 =
   schedule_relative), who schedules ("pre" = thread F before the loop starts / a foreign thread
   while it runs / "L" = the loop thread in a callback / "no" = the item is absent), who disposes
   (nobody / "pre" / a foreign thread while the loop runs / "L" = a loop-thread callback) and how
   long after the schedule returned.  The scenario and the scripts derived from it are exported;
   the replayer performs them on the real code.

   AsyncIOSchedMC.tla   chooses variant / scenario in Init (families, design invariants, negative controls);
   AsyncIOSchedTrace.tla constrains the MONITOR actions by recorded events (Binding B, verdicts);
   AsyncIOSchedMech.tla  matches recorded events against monitor + mechanism (model drift only).   *)
EXTENDS Integers, Sequences, FiniteSets, TLC, Json

CONSTANTS Items,        \* 1..N
          Foreign       \* foreign thread names; "F" is one of them (it also runs the part before the loop starts)
\* (the variants, the scenario families and the sets of foreign threads with a loop of their own are chosen by
\*  the Init of AsyncIOSchedMC.tla; the trace modules fix them per trace)

LT == "L"       \* the thread that runs the loop
FT == "F"       \* the first foreign thread
NoTh == "-"
Threads == {LT} \cup Foreign

VARIABLES loopTh,   \* monitor: thread running the loop now, or NoTh
          gen,      \* monitor: number of loop starts and stops so far
          now,      \* the loop clock (= the controlled clock)
          it,       \* monitor: item -> facts
          lost,     \* monitor: an idle point was reached with an undisposed, scheduled, unstarted item
          variant,  \* which cancellation decision / fault the mechanism has (constant during a behaviour)
          scn,      \* the scenario (constant during a behaviour)
          hs,       \* mechanism: handle table, Seq of [k, i, when, c]
          ready,    \* mechanism: loop._ready (Seq of handle ids)
          timers,   \* mechanism: loop._scheduled (set of handle ids)
          hl,       \* mechanism: item -> the closure's handle list
          fut,      \* mechanism: item -> "none" | "wait" | "set"   (the future a marshalled dispose blocks on)
          lp,       \* mechanism: loop thread control [pc, h, todo, stop]  (stop = loop.stop() was called: _stopping)
          q,        \* mechanism: thread -> remaining ops (F: its script; L: ops of the running callback)
          ex,       \* mechanism: thread -> the scheduler call in progress [op, i, step, tmp]
          fwake,    \* mechanism: thread -> it sleeps until the clock reaches this (the loop thread: inside a callback)
          go,       \* mechanism: F asked the loop to start
          idled,    \* mechanism: 0 = nothing reported since the last iteration, 1 = idle reported, 2 = asleep-with-work reported
          woken,    \* mechanism: the self-pipe has data (_write_to_self was called since select() last returned)
          own,      \* scenario: the foreign threads that have a running event loop of their own (another loop)
          busy,     \* scenario: the loop's first callback (the driver) begins by sleeping that long on the clock (0 = not)
          pause     \* scenario: at that clock reading a loop callback calls loop.stop() (0 = never); thread F disposes the
                    \*           "stp" items while the loop is stopped-after-running and then runs it again

mon  == <<loopTh, gen, now, it, lost>>
mech == <<variant, scn, hs, ready, timers, hl, fut, lp, q, ex, fwake, go, idled, woken, own, busy, pause>>
vars == <<loopTh, gen, now, it, lost, variant, scn, hs, ready, timers, hl, fut, lp, q, ex, fwake, go, idled, woken, own, busy, pause>>

(* ======================================= MONITOR ======================================== *)
NewItem == [ss |-> "new", k |-> "-", due |-> 0, ds |-> "none", dm |-> "-", dg |-> 0, cov |-> FALSE,
            n |-> 0, late |-> FALSE, early |-> FALSE, off |-> FALSE]

MonInit == /\ loopTh = NoTh /\ gen = 0 /\ now = 0 /\ lost = FALSE
           /\ it = [i \in Items |-> NewItem]

\* every monitor action carries the clock reading t of the event (monotone)
MSchedCall(i, th, k, d, t) ==
    /\ t >= now /\ it[i].ss = "new"
    /\ now' = t
    /\ it' = [it EXCEPT ![i] = [@ EXCEPT !.ss = "call", !.k = k, !.due = t + d]]
    /\ UNCHANGED <<loopTh, gen, lost>>

MSchedRet(i, t) ==
    /\ t >= now /\ it[i].ss = "call"
    /\ now' = t
    /\ it' = [it EXCEPT ![i] = [@ EXCEPT !.ss = "ret"]]
    /\ UNCHANGED <<loopTh, gen, lost>>

\* which clause of the statement a dispose() call falls under, decided at the call
DMode(i, th) == CASE loopTh = NoTh     -> "idle"        \* the loop is not running
                  [] th = loopTh       -> "loop"        \* on the loop thread
                  [] it[i].k = "ts"    -> "foreign"     \* another thread, loop running, thread-safe scheduler
                  [] OTHER             -> "unc"         \* AsyncIOScheduler from a foreign thread: not promised

MDispCall(i, th, t) ==
    /\ t >= now /\ it[i].ss = "ret" /\ it[i].ds = "none"
    /\ now' = t
    /\ it' = [it EXCEPT ![i] = [@ EXCEPT !.ds = "call", !.dm = DMode(i, th), !.dg = gen]]
    /\ UNCHANGED <<loopTh, gen, lost>>

MDispRet(i, t) ==
    /\ t >= now /\ it[i].ds = "call"
    /\ now' = t
    /\ it' = [it EXCEPT ![i] = [@ EXCEPT !.ds = "ret", !.cov = (it[i].dm # "unc" /\ it[i].dg = gen)]]
    /\ UNCHANGED <<loopTh, gen, lost>>

MStart(i, th, t) ==
    /\ t >= now /\ it[i].ss # "new"
    /\ now' = t
    /\ it' = [it EXCEPT ![i] = [@ EXCEPT !.n = @ + 1,
                                         !.late  = @ \/ (it[i].ds = "ret" /\ it[i].cov),
                                         !.early = @ \/ (t < it[i].due),
                                         !.off   = @ \/ (loopTh = NoTh \/ th # loopTh)]]
    /\ UNCHANGED <<loopTh, gen, lost>>

MLoopStart(th, t) ==
    /\ t >= now /\ loopTh = NoTh
    /\ now' = t /\ loopTh' = th /\ gen' = gen + 1
    /\ UNCHANGED <<it, lost>>

MLoopStop(th, t) ==
    /\ t >= now /\ loopTh = th
    /\ now' = t /\ loopTh' = NoTh /\ gen' = gen + 1
    /\ UNCHANGED <<it, lost>>

Unserved(i) == it[i].ss = "ret" /\ it[i].ds = "none" /\ it[i].n = 0

MIdle(th, t) ==
    /\ t >= now /\ loopTh = th
    /\ now' = t
    /\ lost' = (lost \/ \E i \in Items : Unserved(i))
    /\ UNCHANGED <<loopTh, gen, it>>

(* ---- the property ----------------------------------------------------------------------- *)
OnLoopThread                == \A i \in Items : ~it[i].off
NotEarly                    == \A i \in Items : ~it[i].early
NoStartAfterDisposeReturned == \A i \in Items : ~it[i].late
NoLostAction                == ~lost
\* not stated by C33 (checked on the design only): an action starts at most once
AtMostOnce                  == \A i \in Items : it[i].n <= 1

(* ====================================== SCENARIOS ======================================= *)
\* <<who schedules, who disposes>>.  AsyncIOScheduler is not thread-safe: only "pre" and "L" touch it.
AioCombos == {<<"pre", "none">>, <<"pre", "pre">>, <<"pre", "L">>, <<"L", "none">>, <<"L", "L">>}
TsCombos  == AioCombos \cup {<<"pre", f>> : f \in Foreign} \cup {<<"L", f>> : f \in Foreign}
                       \cup {<<f, "none">> : f \in Foreign} \cup {<<f, "L">> : f \in Foreign}
                       \cup (Foreign \X Foreign)

\* ... disposed by thread F while the loop is STOPPED after having run (it is run again afterwards)
AioStp == {<<"pre", "stp">>, <<LT, "stp">>}
TsStp  == AioStp \cup {<<f, "stp">> : f \in Foreign}
PauseAt == 1
PauseOf(s) == IF \E i \in Items : s[i].dw = "stp" THEN PauseAt ELSE 0

Min(S) == CHOOSE x \in S : \A y \in S : x <= y

\* item scenarios over scheduler kinds K, delays D, waits W and pairs C
ItemScn(K, D, W, C) ==
    { s \in [k : K, d : D, sw : {"pre", LT} \cup Foreign, dw : {"none", "pre", "stp", LT} \cup Foreign, w : W] :
        /\ <<s.sw, s.dw>> \in C
        /\ <<s.sw, s.dw>> \in (IF s.k = "aio" THEN AioCombos \cup AioStp ELSE TsCombos \cup TsStp)
        /\ (s.dw = "none" => s.w = Min(W)) }
Absent == [k |-> "ts", d |-> 0, sw |-> "no", dw |-> "none", w |-> 0]

Op(o, i, w) == [op |-> o, i |-> i, w |-> w]
N == Cardinality(Items)

RECURSIVE CatUpTo(_, _)
CatUpTo(f, n) == IF n = 0 THEN <<>> ELSE CatUpTo(f, n - 1) \o f[n]      \* f[1] \o ... \o f[n]

\* thread F before the loop starts
PreOps(s, i) == IF s[i].sw # "pre" THEN <<>>
                ELSE <<Op("sched", i, 0)>> \o
                     (IF s[i].dw = "pre" THEN <<Op("sleep", i, s[i].w), Op("disp", i, 0)>> ELSE <<>>)
\* foreign thread th while the loop runs (an item scheduled "pre" and disposed on the loop is posted by F)
RunOps(s, i, th) ==
    (IF s[i].sw = th THEN <<Op("sched", i, 0)>> ELSE <<>>) \o
    (CASE s[i].dw = th -> <<Op("await", i, 0), Op("sleep", i, s[i].w), Op("disp", i, 0)>>
       [] s[i].dw = LT /\ (s[i].sw = th \/ (s[i].sw = "pre" /\ th = FT)) -> <<Op("sleep", i, s[i].w), Op("post", i, 0)>>
       [] OTHER -> <<>>)
\* the driver callback on the loop thread
DrvOps(s, i) == IF s[i].sw # LT THEN <<>>
                ELSE <<Op("sched", i, 0)>> \o (IF s[i].dw = LT THEN <<Op("post", i, s[i].w)>> ELSE <<>>)

\* ("up" w: F goes on only once the loop has been started for the w-th time - a dispose() that races the START of the loop is outside the statement)
StpOps(s, i) == IF s[i].dw = "stp" THEN <<Op("sleep", i, s[i].w), Op("disp", i, 0)>> ELSE <<>>
\* ("down": F waits until the loop has stopped; it disposes the "stp" items and runs the loop again)
Script(s, th) == IF th = FT
                 THEN CatUpTo([i \in Items |-> PreOps(s, i)], N) \o <<Op("go", 0, 0), Op("up", 0, 1)>> \o CatUpTo([i \in Items |-> RunOps(s, i, th)], N)
                      \o (IF PauseOf(s) > 0
                          THEN <<Op("down", 0, 0)>> \o CatUpTo([i \in Items |-> StpOps(s, i)], N) \o <<Op("go", 0, 0), Op("up", 0, 2)>>
                          ELSE <<>>)
                 ELSE CatUpTo([i \in Items |-> RunOps(s, i, th)], N)
\* the driver callback: optionally a long sleep first (the loop thread is BUSY: handles queue up behind it)
LScript(s, b) == (IF b > 0 THEN <<Op("sleep", 0, b)>> ELSE <<>>) \o CatUpTo([i \in Items |-> DrvOps(s, i)], N)

(* ====================================== MECHANISM ======================================= *)
NoOp == [op |-> "none", i |-> 0, step |-> 0, tmp |-> 0]
H(k, i, when) == [k |-> k, i |-> i, when |-> when, c |-> FALSE]
TsRel(i) == scn[i].k = "ts" /\ scn[i].d > 0

MechInitFor(v, s, o, b) ==
            /\ variant = v /\ scn = s /\ own = o /\ busy = b /\ pause = PauseOf(s)
            /\ LET drv == IF LScript(s, b) = <<>> THEN <<>> ELSE <<H("drv", 0, 0)>>        \* loop.call_soon(driver) before the start
                   stp == IF PauseOf(s) = 0 THEN <<>> ELSE <<H("stp", 0, PauseOf(s))>>      \* loop.call_at(pause, loop.stop)
               IN /\ hs = drv \o stp
                  /\ ready = IF drv = <<>> THEN <<>> ELSE <<1>>
                  /\ timers = IF stp = <<>> THEN {} ELSE {Len(drv) + 1}
            /\ hl = [i \in Items |-> <<>>]
            /\ fut = [i \in Items |-> "none"]
            /\ lp = [pc |-> "off", h |-> 0, todo |-> 0, stop |-> FALSE]
            /\ q = [t \in Threads |-> IF t = LT THEN <<>> ELSE Script(s, t)]
            /\ ex = [t \in Threads |-> NoOp]
            /\ fwake = [t \in Threads |-> 0] /\ go = FALSE /\ idled = 0 /\ woken = FALSE


Busy(th) == ex[th].op # "none"
NextH == Len(hs) + 1
Last(s) == s[Len(s)]
Front(s) == SubSeq(s, 1, Len(s) - 1)
SetEx(th, r) == ex' = [ex EXCEPT ![th] = r]
StepTo(th, n) == ex' = [ex EXCEPT ![th].step = n]

\* a thread may make a step of its own code: F always, the other foreign threads once the loop runs,
\* L only inside a callback
MayRun(th) == IF th = LT THEN lp.pc = "cb" ELSE (th = FT \/ loopTh # NoTh \/ lp.pc = "end")

(* ---- fetching the next op of a script ------------------------------------------------------- *)
NextOp(th) ==
    /\ MayRun(th) /\ ~Busy(th) /\ q[th] # <<>> /\ now >= fwake[th]
    /\ LET o == Head(q[th]) IN
       /\ q' = [q EXCEPT ![th] = Tail(@)]
       /\ CASE o.op = "go"    -> go' = TRUE /\ UNCHANGED <<ex, fwake>>
            [] o.op = "sleep" -> fwake' = [fwake EXCEPT ![th] = now + o.w] /\ UNCHANGED <<ex, go>>
            [] o.op = "await" -> it[o.i].ss = "ret" /\ UNCHANGED <<ex, fwake, go>>       \* blocks until the item was scheduled
            [] o.op = "up"    -> gen >= 2 * o.w - 1 /\ UNCHANGED <<ex, fwake, go>>       \* blocks until the loop has been started w times
            [] o.op = "down"  -> lp.pc = "off" /\ gen >= 2 /\ UNCHANGED <<ex, fwake, go>>  \* blocks until the loop has run and stopped
            [] OTHER          -> SetEx(th, [op |-> o.op, i |-> o.i, step |-> 0, tmp |-> o.w]) /\ UNCHANGED <<fwake, go>>
    /\ UNCHANGED <<mon, variant, scn, hs, ready, timers, hl, fut, lp, idled, woken, own, busy, pause>>

(* ---- schedule / schedule_relative ------------------------------------------------------------- *)
SchedCall(th) ==
    /\ MayRun(th) /\ ex[th].op = "sched" /\ ex[th].step = 0
    /\ LET i == ex[th].i IN
       /\ MSchedCall(i, th, scn[i].k, scn[i].d, now)
       /\ StepTo(th, IF variant = "inline" /\ scn[i].d = 0 /\ th # LT THEN 5 ELSE 1)
    /\ UNCHANGED <<variant, scn, hs, ready, timers, hl, fut, lp, q, fwake, go, idled, woken, own, busy, pause>>

\* fault "inline": an immediate schedule from a foreign thread runs the action on the caller
SchedInline(th) ==
    /\ MayRun(th) /\ ex[th].op = "sched" /\ ex[th].step = 5
    /\ MStart(ex[th].i, th, now) /\ StepTo(th, 3)
    /\ UNCHANGED <<variant, scn, hs, ready, timers, hl, fut, lp, q, fwake, go, idled, woken, own, busy, pause>>

\* call_soon / call_soon_threadsafe / call_later: the handle exists and is queued.
\* call_soon_threadsafe = append to the ready queue, THEN wake the selector (_write_to_self) - two steps: the loop
\* may take the handle before the wake-up arrives (which then wakes it for nothing), never the other way round
SchedEnqueue(th) ==
    /\ MayRun(th) /\ ex[th].op = "sched" /\ ex[th].step = 1
    /\ LET i == ex[th].i  d == scn[i].d IN
       CASE TsRel(i) ->           \* stage 1, first half: post stage2 to the loop
              /\ hs' = Append(hs, H("s2", i, 0)) /\ ready' = Append(ready, NextH)
              /\ ex' = [ex EXCEPT ![th].step = 6, ![th].tmp = NextH] /\ UNCHANGED <<timers, hl>>
         [] ~TsRel(i) /\ d = 0 ->
              /\ hs' = Append(hs, H("iv", i, 0)) /\ ready' = Append(ready, NextH)
              /\ hl' = [hl EXCEPT ![i] = <<NextH>>] /\ StepTo(th, IF scn[i].k = "ts" THEN 7 ELSE 3) /\ UNCHANGED timers
         [] OTHER ->                \* AsyncIOScheduler.schedule_relative: call_later on the caller's thread
              /\ hs' = Append(hs, H("iv", i, now + d)) /\ timers' = timers \cup {NextH}
              /\ hl' = [hl EXCEPT ![i] = <<NextH>>] /\ StepTo(th, 3) /\ UNCHANGED ready
    /\ UNCHANGED <<mon, variant, scn, fut, lp, q, fwake, go, idled, woken, own, busy, pause>>

\* the second half of call_soon_threadsafe: _write_to_self()
Wake(th) ==
    /\ MayRun(th)
    /\ \/ ex[th].op = "sched" /\ ex[th].step \in {6, 7}
       \/ ex[th].op = "disp" /\ ex[th].step = 12
       \/ ex[th].op = "post" /\ ex[th].step = 1
    /\ woken' = (woken \/ ~(variant = "nowake" /\ ex[th].op = "sched"))
    /\ CASE ex[th].op = "sched" -> StepTo(th, IF ex[th].step = 6 THEN 2 ELSE 3)
         [] ex[th].op = "disp"  -> ex' = [ex EXCEPT ![th].step = 11, ![th].tmp = now + 1]
         [] OTHER               -> SetEx(th, NoOp)
    /\ UNCHANGED <<mon, variant, scn, hs, ready, timers, hl, fut, lp, q, fwake, go, idled, own, busy, pause>>

\* stage 1, second half: handle.append(...)
SchedAssign(th) ==
    /\ MayRun(th) /\ ex[th].op = "sched" /\ ex[th].step = 2
    /\ hl' = [hl EXCEPT ![ex[th].i] = Append(@, ex[th].tmp)] /\ StepTo(th, 3)
    /\ UNCHANGED <<mon, variant, scn, hs, ready, timers, fut, lp, q, fwake, go, idled, woken, own, busy, pause>>

SchedRet(th) ==
    /\ MayRun(th) /\ ex[th].op = "sched" /\ ex[th].step = 3
    /\ MSchedRet(ex[th].i, now) /\ SetEx(th, NoOp)
    /\ UNCHANGED <<variant, scn, hs, ready, timers, hl, fut, lp, q, fwake, go, idled, woken, own, busy, pause>>

(* ---- dispose -------------------------------------------------------------------------------- *)
Direct(i, th) == \/ scn[i].k = "aio"                         \* AsyncIOScheduler: handle.cancel() wherever it is called
                 \/ loopTh = NoTh                            \* not self._loop.is_running()
                 \/ th = LT                                  \* the caller's running loop is self._loop
                 \/ (variant = "caller" /\ th \notin own)   \* pinned code: no running loop in the CALLER's thread => True
                                                            \* (a caller inside another running loop is told to marshal)

DispCall(th) ==
    /\ MayRun(th) /\ ex[th].op = "disp" /\ ex[th].step = 0
    /\ MDispCall(ex[th].i, th, now)
    /\ StepTo(th, CASE variant = "spent" /\ TsRel(ex[th].i) /\ loopTh = NoTh -> 20
                     [] Direct(ex[th].i, th) -> 1
                     [] OTHER -> 10)
    /\ UNCHANGED <<variant, scn, hs, ready, timers, hl, fut, lp, q, fwake, go, idled, woken, own, busy, pause>>

\* fault "spent": "the loop is not running" is taken for "the loop has never run" - only handle[0] is cancelled
CancelFirstOnly(th) ==
    /\ MayRun(th) /\ ex[th].op = "disp" /\ ex[th].step = 20
    /\ hs' = [hs EXCEPT ![hl[ex[th].i][1]].c = TRUE] /\ StepTo(th, 9)
    /\ UNCHANGED <<mon, variant, scn, ready, timers, hl, fut, lp, q, fwake, go, idled, woken, own, busy, pause>>

\* handle.pop() (IndexError is swallowed: the rest of do_cancel_handles is skipped)
CancelPop(th) ==
    /\ MayRun(th) /\ ex[th].op \in {"disp", "cxl"} /\ ex[th].step \in {1, 3}
    /\ LET i == ex[th].i IN
       IF hl[i] = <<>> THEN StepTo(th, 9) /\ UNCHANGED hl
       ELSE /\ hl' = [hl EXCEPT ![i] = Front(@)]
            /\ ex' = [ex EXCEPT ![th].step = @ + 1, ![th].tmp = Last(hl[i])]
    /\ UNCHANGED <<mon, variant, scn, hs, ready, timers, fut, lp, q, fwake, go, idled, woken, own, busy, pause>>

\* .cancel()
CancelSet(th) ==
    /\ MayRun(th) /\ ex[th].op \in {"disp", "cxl"} /\ ex[th].step \in {2, 4}
    /\ hs' = [hs EXCEPT ![ex[th].tmp].c = TRUE]
    /\ StepTo(th, IF ex[th].step = 2 /\ TsRel(ex[th].i) /\ variant # "lose" THEN 3 ELSE 9)
    /\ UNCHANGED <<mon, variant, scn, ready, timers, hl, fut, lp, q, fwake, go, idled, woken, own, busy, pause>>

\* self._loop.call_soon_threadsafe(cancel_handle)
DispMarshal(th) ==
    /\ MayRun(th) /\ ex[th].op = "disp" /\ ex[th].step = 10
    /\ hs' = Append(hs, H("cx", ex[th].i, 0)) /\ ready' = Append(ready, NextH)
    /\ fut' = [fut EXCEPT ![ex[th].i] = "wait"] /\ StepTo(th, 12)
    /\ UNCHANGED <<mon, variant, scn, timers, hl, lp, q, fwake, go, idled, woken, own, busy, pause>>

\* future.result()
DispAwait(th) ==
    /\ MayRun(th) /\ ex[th].op = "disp" /\ ex[th].step = 11 /\ fut[ex[th].i] = "set"
    /\ StepTo(th, 9)
    /\ UNCHANGED <<mon, variant, scn, hs, ready, timers, hl, fut, lp, q, fwake, go, idled, woken, own, busy, pause>>

\* fault "impatient": future.result(timeout=1) with the timeout swallowed - dispose() returns although the loop
\* has not processed the cancellation (the deadline was noted in tmp when the wait began)
DispGiveUp(th) ==
    /\ variant = "impatient"
    /\ MayRun(th) /\ ex[th].op = "disp" /\ ex[th].step = 11 /\ now >= ex[th].tmp
    /\ StepTo(th, 9)
    /\ UNCHANGED <<mon, variant, scn, hs, ready, timers, hl, fut, lp, q, fwake, go, idled, woken, own, busy, pause>>

DispRet(th) ==
    /\ MayRun(th) /\ ex[th].op = "disp" /\ ex[th].step = 9
    /\ MDispRet(ex[th].i, now) /\ SetEx(th, NoOp)
    /\ UNCHANGED <<variant, scn, hs, ready, timers, hl, fut, lp, q, fwake, go, idled, woken, own, busy, pause>>

\* cancel_handle on the loop: future.set_result(0)
CancelDone(th) ==
    /\ MayRun(th) /\ ex[th].op = "cxl" /\ ex[th].step = 9
    /\ fut' = [fut EXCEPT ![ex[th].i] = "set"] /\ SetEx(th, NoOp)
    /\ UNCHANGED <<mon, variant, scn, hs, ready, timers, hl, lp, q, fwake, go, idled, woken, own, busy, pause>>

\* the scenario's way of disposing on the loop thread: post a callback that calls dispose()
\* (a foreign thread with call_soon_threadsafe - append, then Wake; the loop thread with call_soon / call_later)
PostDispose(th) ==
    /\ MayRun(th) /\ ex[th].op = "post" /\ ex[th].step = 0
    /\ LET i == ex[th].i  w == ex[th].tmp IN
       IF th = LT /\ w > 0
       THEN hs' = Append(hs, H("dl", i, now + w)) /\ timers' = timers \cup {NextH} /\ UNCHANGED ready
       ELSE hs' = Append(hs, H("dl", i, 0)) /\ ready' = Append(ready, NextH) /\ UNCHANGED timers
    /\ IF th = LT THEN SetEx(th, NoOp) ELSE StepTo(th, 1)
    /\ UNCHANGED <<mon, variant, scn, hl, fut, lp, q, fwake, go, idled, woken, own, busy, pause>>

(* ---- callbacks that exist only on the loop ------------------------------------------------------ *)
\* interval(): invoke_action
RunInterval ==
    /\ lp.pc = "cb" /\ ex[LT].op = "iv"
    /\ MStart(ex[LT].i, LT, now) /\ SetEx(LT, NoOp)
    /\ UNCHANGED <<variant, scn, hs, ready, timers, hl, fut, lp, q, fwake, go, idled, woken, own, busy, pause>>

\* stage2(), first half: self._loop.call_later(seconds, interval)
Stage2Timer ==
    /\ lp.pc = "cb" /\ ex[LT].op = "s2" /\ ex[LT].step = 0
    /\ IF variant = "lose" THEN UNCHANGED <<hs, timers>> /\ SetEx(LT, NoOp)
       ELSE /\ hs' = Append(hs, H("iv", ex[LT].i, now + scn[ex[LT].i].d)) /\ timers' = timers \cup {NextH}
            /\ ex' = [ex EXCEPT ![LT].step = 1, ![LT].tmp = NextH]
    /\ UNCHANGED <<mon, variant, scn, ready, hl, fut, lp, q, fwake, go, idled, woken, own, busy, pause>>

\* stage2(), second half: handle.append(...)
Stage2Assign ==
    /\ lp.pc = "cb" /\ ex[LT].op = "s2" /\ ex[LT].step = 1
    /\ hl' = [hl EXCEPT ![ex[LT].i] = Append(@, ex[LT].tmp)] /\ SetEx(LT, NoOp)
    /\ UNCHANGED <<mon, variant, scn, hs, ready, timers, fut, lp, q, fwake, go, idled, woken, own, busy, pause>>

(* ---- the loop thread: run_forever / _run_once ----------------------------------------------------- *)
DueBound == IF variant = "early" THEN now + 1 ELSE now
Due == {h \in timers : hs[h].when <= DueBound}
Before(a, b) == hs[a].when < hs[b].when \/ (hs[a].when = hs[b].when /\ a <= b)
\* _run_once first drops the cancelled timers at the HEAD of the heap (those no live timer precedes)
HeadCancelled == {h \in timers : hs[h].c /\ \A g \in timers : ~hs[g].c => Before(h, g)}
RECURSIVE Ordered(_)
Ordered(S) == IF S = {} THEN <<>>
              ELSE LET m == CHOOSE x \in S : \A y \in S : Before(x, y) IN <<m>> \o Ordered(S \ {m})

LoopStart ==
    /\ lp.pc = "off" /\ go
    /\ lp' = [lp EXCEPT !.pc = "top"]
    /\ MLoopStart(LT, now)
    /\ UNCHANGED <<variant, scn, hs, ready, timers, hl, fut, q, ex, fwake, go, idled, woken, own, busy, pause>>

\* top of _run_once with nothing ready and no timer due: the loop blocks in select()
Poll ==
    /\ lp.pc = "top" /\ ready = <<>> /\ Due \ HeadCancelled = {}
    /\ lp' = [lp EXCEPT !.pc = "sel"]
    /\ timers' = timers \ HeadCancelled
    /\ UNCHANGED <<mon, variant, scn, hs, ready, hl, fut, q, ex, fwake, go, idled, woken, own, busy, pause>>

\* one iteration: select() returns at once (something is ready), or it was woken through the self-pipe, or a timer
\* is due; the self-pipe is drained; due timers join the ready queue; ntodo = len(ready)
RunOnce ==
    /\ \/ lp.pc = "top" /\ (ready # <<>> \/ Due \ HeadCancelled # {})
       \/ lp.pc = "sel" /\ (woken \/ Due # {})
    /\ LET drop == IF lp.pc = "top" THEN HeadCancelled ELSE {}       \* (the purge precedes select())
           due  == Due \ drop IN
       /\ ready' = ready \o Ordered(due) /\ timers' = (timers \ drop) \ due
       /\ lp' = [lp EXCEPT !.pc = "iter", !.todo = Len(ready) + Cardinality(due)]
    /\ idled' = 0 /\ woken' = FALSE
    /\ UNCHANGED <<mon, variant, scn, hs, hl, fut, q, ex, fwake, go, own, busy, pause>>

\* handle = ready.popleft(); if handle._cancelled: continue
Pop ==
    /\ lp.pc = "iter" /\ lp.todo > 0
    /\ ready' = Tail(ready)
    /\ lp' = IF hs[Head(ready)].c THEN [lp EXCEPT !.todo = @ - 1]
             ELSE [lp EXCEPT !.pc = "enter", !.h = Head(ready), !.todo = @ - 1]
    /\ UNCHANGED <<mon, variant, scn, hs, timers, hl, fut, q, ex, fwake, go, idled, woken, own, busy, pause>>

IterEnd ==
    /\ lp.pc = "iter" /\ lp.todo = 0 /\ ~lp.stop
    /\ lp' = [lp EXCEPT !.pc = "top"]
    /\ UNCHANGED <<mon, variant, scn, hs, ready, timers, hl, fut, q, ex, fwake, go, idled, woken, own, busy, pause>>

\* handle._run(): the callback is read now (a cancel() in between has cleared it: nothing runs)
Enter ==
    /\ lp.pc = "enter"
    /\ LET h == hs[lp.h] IN
       IF h.c THEN lp' = [lp EXCEPT !.pc = "iter"] /\ UNCHANGED <<q, ex>>
       ELSE /\ lp' = [lp EXCEPT !.pc = "cb", !.stop = (@ \/ h.k = "stp")]          \* loop.stop(): _stopping = True
            /\ CASE h.k = "stp" -> UNCHANGED <<q, ex>>
                 [] h.k = "drv" -> q' = [q EXCEPT ![LT] = LScript(scn, busy)] /\ UNCHANGED ex
                 [] h.k = "iv"  -> SetEx(LT, [op |-> "iv", i |-> h.i, step |-> 0, tmp |-> 0]) /\ UNCHANGED q
                 [] h.k = "s2"  -> SetEx(LT, [op |-> "s2", i |-> h.i, step |-> 0, tmp |-> 0]) /\ UNCHANGED q
                 [] h.k = "cx"  -> SetEx(LT, [op |-> "cxl", i |-> h.i, step |-> 1, tmp |-> 0]) /\ UNCHANGED q
                 [] h.k = "dl"  -> SetEx(LT, [op |-> "disp", i |-> h.i, step |-> 0, tmp |-> 0]) /\ UNCHANGED q
    /\ UNCHANGED <<mon, variant, scn, hs, ready, timers, hl, fut, fwake, go, idled, woken, own, busy, pause>>

CbEnd ==
    /\ lp.pc = "cb" /\ ~Busy(LT) /\ q[LT] = <<>> /\ now >= fwake[LT]
    /\ lp' = [lp EXCEPT !.pc = "iter"]
    /\ UNCHANGED <<mon, variant, scn, hs, ready, timers, hl, fut, q, ex, fwake, go, idled, woken, own, busy, pause>>

\* run_forever: the iteration in which loop.stop() was called is completed, then the loop stops - with whatever is
\* still in the ready queue and the timer heap; it can be run again (LoopStart)
LoopPause ==
    /\ lp.pc = "iter" /\ lp.todo = 0 /\ lp.stop
    /\ lp' = [lp EXCEPT !.pc = "off", !.stop = FALSE]
    /\ go' = FALSE
    /\ MLoopStop(LT, now)
    /\ UNCHANGED <<variant, scn, hs, ready, timers, hl, fut, q, ex, fwake, idled, woken, own, busy, pause>>

FDone == \A f \in Foreign : q[f] = <<>> /\ ~Busy(f)
Asleep == lp.pc = "sel" /\ ~woken /\ Due = {}

\* select() with no timeout: nothing ready, no timer, no wake-up pending
LoopIdle ==
    /\ Asleep /\ timers = {} /\ idled = 0 /\ ready = <<>>
    /\ MIdle(LT, now) /\ idled' = 1
    /\ UNCHANGED <<variant, scn, hs, ready, timers, hl, fut, lp, q, ex, fwake, go, woken, own, busy, pause>>

\* handles are in the ready queue but nobody woke the selector, and nobody is left who could: for the property this
\* is an idle loop as well (reported once, when every other thread has finished)
LoopAsleepWithWork ==
    /\ Asleep /\ timers = {} /\ idled \in {0, 1} /\ FDone /\ ready # <<>>
    /\ MIdle(LT, now) /\ idled' = 2
    /\ UNCHANGED <<variant, scn, hs, ready, timers, hl, fut, lp, q, ex, fwake, go, woken, own, busy, pause>>

\* the harness stops the loop at quiescence (asleep, no timer, every other thread finished)
LoopStop ==
    /\ Asleep /\ timers = {} /\ FDone /\ (IF ready = <<>> THEN idled = 1 ELSE idled = 2)
    /\ lp' = [lp EXCEPT !.pc = "end"]
    /\ MLoopStop(LT, now)
    /\ UNCHANGED <<variant, scn, hs, ready, timers, hl, fut, q, ex, fwake, go, idled, woken, own, busy, pause>>

\* Time passes only while nobody can run on it: the loop thread is outside an iteration or asleep inside a callback.
\* Discrete-event rule (that of the controlled clock): the clock JUMPS to the earliest instant somebody waits for.
Waits == {hs[h].when : h \in timers} \cup {fwake[t] : t \in Threads}
         \cup {ex[t].tmp : t \in {u \in Threads : variant = "impatient" /\ ex[u].op = "disp" /\ ex[u].step = 11}}
Later == {w \in Waits : w > now}
Tick ==
    /\ (lp.pc \in {"off", "end", "sel"} \/ (lp.pc = "cb" /\ now < fwake[LT]))
    /\ Later # {}
    /\ now' = Min(Later)
    /\ UNCHANGED <<loopTh, gen, it, lost, mech>>

AllDone == lp.pc = "end" /\ FDone
Finished == AllDone /\ UNCHANGED vars

ThreadStep(th) == \/ NextOp(th) \/ SchedCall(th) \/ SchedInline(th) \/ SchedEnqueue(th) \/ SchedAssign(th) \/ SchedRet(th)
                  \/ DispCall(th) \/ CancelFirstOnly(th) \/ CancelPop(th) \/ CancelSet(th) \/ DispMarshal(th) \/ DispAwait(th) \/ DispGiveUp(th) \/ DispRet(th)
                  \/ CancelDone(th) \/ PostDispose(th) \/ Wake(th)

Next == \/ \E th \in Threads : ThreadStep(th)
        \/ RunInterval \/ Stage2Timer \/ Stage2Assign
        \/ LoopStart \/ Poll \/ RunOnce \/ Pop \/ IterEnd \/ Enter \/ CbEnd \/ LoopIdle \/ LoopAsleepWithWork \/ LoopStop \/ LoopPause
        \/ Tick \/ Finished

(* ---- model-level sanity --------------------------------------------------------------------------- *)
TypeOK == /\ loopTh \in {NoTh, LT} /\ gen \in 0..4 /\ now \in 0..40
          /\ lp.pc \in {"off", "top", "sel", "iter", "enter", "cb", "end"} /\ idled \in 0..2 /\ woken \in BOOLEAN
          /\ \A h \in 1..Len(hs) : hs[h].k \in {"drv", "iv", "s2", "cx", "dl", "stp"}
          /\ timers \subseteq 1..Len(hs)
\* a future that somebody waits for is eventually set: no behaviour gets stuck (CHECK_DEADLOCK TRUE + Finished)
\* at the end every disposed item whose dispose was covered and returned before a start did not start;
\* and every item nobody disposed has started exactly once
\* a handle never sits in the ready queue of a loop that sleeps without a wake-up being there or on its way
WakeComing == \E th \in Threads : \/ ex[th].op = "sched" /\ ex[th].step \in {6, 7}
                                  \/ ex[th].op = "disp" /\ ex[th].step = 12
                                  \/ ex[th].op = "post" /\ ex[th].step = 1
NoMissedWakeup == (lp.pc = "sel" /\ ready # <<>> /\ ~woken) => WakeComing
EndOK == AllDone => \A i \in Items : ((it[i].ss = "ret" /\ it[i].ds = "none") => it[i].n = 1)

(* ---- export of the scenario family (Binding A half: the scenarios the replayer performs) ----------- *)
NoNext == FALSE /\ UNCHANGED vars
ExportScn == PrintT(ToJson([scn |-> scn, f |-> [t \in Foreign |-> Script(scn, t)], l |-> LScript(scn, busy), own |-> own, busy |-> busy,
                            pause |-> pause]))
================================================================================
