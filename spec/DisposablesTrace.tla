--------------------------- MODULE DisposablesTrace ---------------------------
(* Binding B for Disposables.tla: a batch of traces recorded from the real classes under
   controlled schedules (DetSched) is validated against the abstract objects.  Each trace is
   the totally ordered event list:
       [e |-> "call", th, op, arg]   [e |-> "disp", th, item]   [e |-> "ret", th, res]
   Call / Effect / Ret consume one event each; Lin is silent (one per call; two for a refcount handle: take, release), so a
   trace is accepted iff some placement of the linearization points explains it - and every
   invariant of Disposables.tla is evaluated in every state on the way.
   Acceptance is per trace: the furthest position reached is kept in a TLC register.      *)
EXTENDS Disposables, TLCExt, IOUtils

CONSTANTS NTraces      \* all traces of one batch are of class Kind

Traces == JsonDeserialize(IOEnv.TRACE_FILE)

VARIABLES tid, l

tvars == <<tid, l>>
Ev == Traces[tid][l]
More == l <= Len(Traces[tid])
Step == l' = l + 1 /\ UNCHANGED tid

TInit == /\ tid \in 1..NTraces /\ l = 1 /\ Init

TCall == /\ More /\ Ev.e = "call" /\ Step
         /\ Call(Ev.th, Ev.op, Ev.arg)

TEffect == /\ More /\ Ev.e = "disp" /\ Step
           /\ Effect(Ev.th, Ev.item)

\* the logged result must be the one the linearization produced ("-" = not logged)
TRet == /\ More /\ Ev.e = "ret" /\ Step
        /\ (Ev.res = "-" \/ pend[Ev.th].res = Ev.res)
        /\ Ret(Ev.th)

TLin == \E th \in Threads : Lin(th) /\ UNCHANGED tvars

TNext == TCall \/ TEffect \/ TRet \/ TLin

\* furthest position reached per trace (register tid); registers are initialised by the ASSUME
Track == TLCSet(tid, IF TLCGet(tid) < l THEN l ELSE TLCGet(tid))
ASSUME \A j \in 1..NTraces : TLCSet(j, 0)

Accepted(j) == TLCGet(j) = Len(Traces[j]) + 1
Post == \A j \in 1..NTraces : Accepted(j) \/ PrintT(<<"REJECTED", j, TLCGet(j)>>)

(* the invariants of Disposables.tla (AtMostOnce, NeverWhileHeld, SingleHoldsOne, RefCountInv) are listed in
   the cfg and so evaluated in every state of every accepted prefix; at the end of a trace also: *)
ExactlyOnceAtEnd == (l = Len(Traces[tid]) + 1) => ExactlyOnce
================================================================================
