-------------------------------- MODULE OpsTime --------------------------------
(* L3, time operators (C15 time shifting, C16 rate limiting, C17 time windows).

   Runner with REAL INTEGER VIRTUAL TIME.  The subscriber subscribes at instant 0.  The
   agenda consists of lanes:
     - the source lane      (timeline `src` of element times, terminal `term` at `tT`);
     - the auxiliary lane   (timeline `aux`: the sampler observable of `sample`);
     - the fallback lane    (timeline `aux` again, cold, relative to the switch instant of
                             `timeout(d, other)`);
     - the operator's timers `tm` (one lane per timer, or one FIFO lane - see Fifo);
     - the subscriber's dispose (strictly between two instants: after every event of
       instant `dsp`, before instant `dsp + 1`).
   A step fires the head of ONE lane whose due time is the minimum due time (DESIGN 3.2):
   order inside a lane and causal order are fixed, order between lanes at equal due time
   is nondeterministic.  A reaction an operator performs "through the scheduler" (an
   `empty()` delay, a zero due time) is a timer due `now`: a hop that may fall before or
   after the other lanes' events of that instant.

   The operator, its parameters, the timelines and the dispose instant are chosen in Init;
   every operator is stated twice: as a transducer (handlers Start/Nx/Tm/Ti/Ax returning
   the new state, the emissions, the new timers and a control word) and as a reference
   over the TIMES of the timeline (Ref...): for every tie-free timeline the reference
   determines the output completely, at exact coincidences it gives the envelope
   (must / may) the property allows.  TLC checks RefOK at every terminal state.

   Element i of the source carries the value token i - 1 (values are irrelevant to the
   timing rules; the codec maps tokens to Python values, falsy ones included); emissions
   carry the index of the element they come from (`i`), fallback elements 100 + j.      *)
EXTENDS Integers, Sequences, FiniteSets, TLC, Json

CONSTANTS Ops,       \* operator names explored
          MaxLen,    \* source elements 0..MaxLen
          MaxT,      \* source / aux event times Lo..MaxT (aux offsets 0..MaxT for fallbacks)
          Lo,        \* 1, or 0: a (cold) source may also notify at its very subscription instant
          Small, MaxLenS, MaxTS,   \* operators in Small use these two bounds instead (one TLC run covers groups of different cost)
          Ds,        \* durations offered to the d parameter (relative forms), naturals
          AbsLo,     \* absolute forms: targets range over -AbsLo .. max(Ds) (relative to the subscription instant)
          Terms,     \* subset of {"C","E","U"}: how the source ends (U = never)
          AuxLen,    \* aux timeline: 0..AuxLen elements
          SpecKs,    \* per-element delay/throttle/timeout observables: first notification kinds, subset of {"N","C","E","U"}
                     \* (U = never notifies), and "X": the mapper function raises instead of returning an observable,
                     \* and "S": the observable fires SYNCHRONOUSLY, inside the subscribe call the operator makes on it (a
                     \* BehaviorSubject / ReplaySubject, a value delivered on the immediate scheduler ...): no hop, the reaction
                     \* belongs to the arrival of the element itself (offered to throttle_with_mapper only)
          SpecTs,    \* ... and its offset
          Hz,        \* horizon: the run is observed through instant Hz (inclusive)
          DispOps,   \* for these operators the dispose instant ranges over 0..Hz-1 as well as "never" ...
          DispLen,   \* ... on timelines of at most this many elements
          EchoOps,   \* feedback: for these operators (emission driven by a timer / the sampler, not by the source) the sink,
          EchoKs     \* on receiving its k-th element (k in EchoKs), synchronously pushes ONE more element into the (hot) source

VARIABLES op, par, src, term, tT, hot, aux, aterm, aT, dsp, fbk, ctk,   \* the scenario (ctk: resolution of a silence of the statement)
          fbx,    \* what the sink feeds back: "N" one more element; "E" / "C": it TERMINATES the (hot) source from inside its on_next
          now, i, subAt, closed, unsub, j, swAt, tm, st, out, done,
          echoAt, \* instant at which the sink pushed the feedback element (index n + 1) into the source; -1: not (yet)
          amb     \* history: some step so far had a choice between lanes (a simulated behaviour is then ONE of several)

scnvars == <<op, par, src, term, tT, hot, aux, aterm, aT, dsp, fbk, ctk, fbx>>
vars == <<op, par, src, term, tT, hot, aux, aterm, aT, dsp, fbk, ctk, fbx, now, i, subAt, closed, unsub, j, swAt, tm, st, out, done, echoAt, amb>>

Max2(a, b) == IF a >= b THEN a ELSE b
Min2(a, b) == IF a <= b THEN a ELSE b
NEVER == 9999                      \* "no such instant"; all real instants are <= Hz < NEVER
NOSUB == 0 - 1
n == Len(src)
MaxD == LET S == Ds \cup {0} IN CHOOSE d \in S : \A e \in S : d >= e
\* the references below speak about instants up to MaxT + the largest shift (twice for a delayed subscription
\* followed by per-element delays): the horizon must cover them
MaxShift == LET S == Ds \cup SpecTs \cup {0} IN CHOOSE d \in S : \A e \in S : d >= e

(* ---- operator families ------------------------------------------------------------------ *)
AbsOps   == {"delay_abs", "delay_subscription_abs", "take_until_abs", "skip_until_abs", "timeout_abs"}
DelayOps == {"delay", "delay_abs"}
DSubOps  == {"delay_subscription", "delay_subscription_abs"}
DMapOps  == {"delay_with_mapper", "delay_with_mapper_sub"}
TakeOps  == {"take_with_time", "take_until_with_time", "take_until_abs"}
SkipOps  == {"skip_with_time", "skip_until_with_time", "skip_until_abs"}
ToOps    == {"timeout", "timeout_other", "timeout_abs", "timeout_abs_other", "timeout_with_mapper", "timeout_with_mapper_other"}
FbOps    == {"timeout_other", "timeout_abs_other", "timeout_with_mapper_other"}     \* aux = fallback timeline
AuxOps   == {"sample_obs"} \cup FbOps
HotOps   == DSubOps \cup {"delay_with_mapper_sub"}     \* the source kind matters: it is subscribed later than 0
MapOps   == {"delay_with_mapper", "delay_with_mapper_sub", "throttle_with_mapper", "timeout_with_mapper", "timeout_with_mapper_other"}
\* timers of these operators form ONE lane (the statement fixes their mutual order)
Fifo(o)  == o \in DelayOps \cup DSubOps

MinSpecT == CHOOSE d \in SpecTs : \A e \in SpecTs : d <= e
Specs    == {sp \in [k : SpecKs \ {"S"}, t : SpecTs] : sp.k \in {"U", "X"} => sp.t = MinSpecT}   \* no offset to speak of for U and X
SyncSpec == [k |-> "S", t |-> 0]
TSpecs   == Specs \cup (IF "S" \in SpecKs THEN {SyncSpec} ELSE {})     \* throttle observables: also the synchronous one
FSpecs   == {sp \in Specs : sp.k # "X"}          \* the subscription delay / first timeout is an observable, not a mapper
AbsDs    == (0 - AbsLo)..MaxD
PosDs    == Ds \ {0}

ParamsOf(o, len) ==
  CASE o \in {"delay", "delay_subscription", "debounce", "take_with_time", "take_until_with_time", "skip_with_time",
              "skip_until_with_time", "take_last_with_time", "skip_last_with_time", "timeout", "timeout_other"}
                                            -> [d : Ds]
    [] o \in {"throttle_first", "sample"}   -> [d : PosDs]
    [] o \in AbsOps \cup {"timeout_abs_other"} -> [d : AbsDs]
    [] o = "delay_with_mapper"              -> [m : [1..len -> Specs]]
    [] o = "throttle_with_mapper"           -> [m : [1..len -> TSpecs]]
    [] o \in {"delay_with_mapper_sub", "timeout_with_mapper", "timeout_with_mapper_other"}
                                            -> [m : [1..len -> Specs], f : FSpecs]
    [] OTHER                                -> {[z |-> 0]}

\* effective duration / boundary, relative to the subscription instant
D == IF op \in AbsOps \cup {"timeout_abs_other"} THEN Max2(par.d, 0) ELSE IF "d" \in DOMAIN par THEN par.d ELSE 0

(* ---- records ------------------------------------------------------------------------------ *)
S0 == [a |-> 0, b |-> FALSE, q |-> <<>>]
T(due, tg, ix) == [due |-> due, tg |-> tg, i |-> ix]
N(ix, x) == [k |-> "N", i |-> ix, x |-> x, e |-> ""]
Cn       == [k |-> "C", i |-> 0, x |-> 0, e |-> ""]
Er(e)    == [k |-> "E", i |-> 0, x |-> 0, e |-> e]
R(s, em, fin, t, ctl) == [st |-> s, em |-> em, fin |-> fin, tm |-> t, ctl |-> ctl]
RemoveAt(s, k) == [h \in 1..(Len(s) - 1) |-> IF h < k THEN s[h] ELSE s[h + 1]]
\* timer for a per-element observable with first notification `sp`, subscribed at `at`
SpecTimer(sp, at, ok, err, ix) == CASE sp.k \in {"N", "C"} -> <<T(at + sp.t, ok, ix)>>
                                    [] sp.k = "E"          -> <<T(at + sp.t, err, ix)>>
                                    [] OTHER               -> <<>>
Pending(t) == \E h \in 1..Len(t) : t[h].tg \in {"dl", "dlerr"}

(* ---- transducers ------------------------------------------------------------------------------ *)
\* at the subscription instant (0); ctl = "nosub": the source is not subscribed yet
Start(o, p) ==
  CASE o \in DSubOps                -> R(S0, <<>>, FALSE, <<T(D, "sub", 0)>>, "nosub")
    [] o = "delay_with_mapper_sub"  -> R(S0, <<>>, FALSE, SpecTimer(p.f, 0, "sub", "dlerr", 0), "nosub")
    [] o \in TakeOps                -> R(S0, <<>>, FALSE, <<T(D, "end", 0)>>, "")
    [] o \in SkipOps                -> R(S0, <<>>, FALSE, <<T(D, "open", 0)>>, "")
    [] o \in {"timeout", "timeout_other", "timeout_abs", "timeout_abs_other"}
                                    -> R(S0, <<>>, FALSE, <<T(D, "to", 0)>>, "")
    [] o \in {"timeout_with_mapper", "timeout_with_mapper_other"}
                                    -> R(S0, <<>>, FALSE, SpecTimer(p.f, 0, "to", "dlerr", 0), "")
    [] o = "sample"                 -> R(S0, <<>>, FALSE, <<T(p.d, "tick", 0)>>, "")
    [] OTHER                        -> R(S0, <<>>, FALSE, <<>>, "")

Aged(q, t, d)  == SelectSeq(q, LAMBDA x : t - src[x] >= d)      \* not younger than d at instant t
Young(q, t, d) == SelectSeq(q, LAMBDA x : t - src[x] < d)
Ns(q, lo) == [h \in 1..Len(q) |-> N(q[h], IF lo THEN src[q[h]] + D ELSE 0)]

\* source element ix arrives at instant t
Nx(o, p, s, t0, t, ix) ==
  CASE o \in DelayOps -> R(s, <<>>, FALSE, Append(t0, T(t + D, "dl", ix)), "")
    [] o \in DSubOps  -> R(s, <<>>, FALSE, Append(t0, T(t, "dl", ix)), "")            \* delivered through an empty() delay: a hop
    [] o \in DMapOps  -> CASE p.m[ix].k = "U" -> R([s EXCEPT !.a = s.a + 1], <<>>, FALSE, t0, "")
                           [] p.m[ix].k = "X" -> R(s, <<Er("fn")>>, TRUE, <<>>, "")
                           [] OTHER -> R(s, <<>>, FALSE, t0 \o SpecTimer(p.m[ix], t, "dl", "dlerr", ix), "")
    [] o = "timestamp"     -> R(s, <<N(ix, t)>>, FALSE, t0, "")
    [] o = "time_interval" -> R([s EXCEPT !.a = t], <<N(ix, t - s.a)>>, FALSE, t0, "")
    [] o = "debounce"      -> R([s EXCEPT !.a = ix], <<>>, FALSE, <<T(t + D, "db", ix)>>, "")
    \* a throttle observable that fires inside its own subscription: the element is pending and its throttle fires - emitted
    \* there and then (the superseded element's timer is cancelled as for every arrival)
    [] o = "throttle_with_mapper" -> CASE p.m[ix].k = "X" -> R(s, <<Er("fn")>>, TRUE, <<>>, "")
                                       [] p.m[ix].k = "S" -> R([s EXCEPT !.a = 0], <<N(ix, 0)>>, FALSE, <<>>, "")
                                       [] OTHER -> R([s EXCEPT !.a = ix], <<>>, FALSE, SpecTimer(p.m[ix], t, "db", "dlerr", ix), "")
    [] o = "throttle_first" -> IF ~s.b \/ t - s.a >= D THEN R([s EXCEPT !.a = t, !.b = TRUE], <<N(ix, 0)>>, FALSE, t0, "")
                               ELSE R(s, <<>>, FALSE, t0, "")
    [] o \in {"sample", "sample_obs"} -> R([s EXCEPT !.a = ix], <<>>, FALSE, t0, "")
    [] o \in TakeOps -> R(s, <<N(ix, 0)>>, FALSE, t0, "")
    [] o \in SkipOps -> IF s.b THEN R(s, <<N(ix, 0)>>, FALSE, t0, "") ELSE R(s, <<>>, FALSE, t0, "")
    \* implementation-shaped: the queue is trimmed on every arrival (an element that is not younger than
    \* d now will not be younger at completion either)
    [] o = "take_last_with_time" -> R([s EXCEPT !.q = Young(Append(s.q, ix), t, D)], <<>>, FALSE, t0, "")
    [] o = "skip_last_with_time" -> (LET q2 == Append(s.q, ix) IN
                                     R([s EXCEPT !.q = Young(q2, t, D)], Ns(Aged(q2, t, D), TRUE), FALSE, t0, ""))
    [] o \in {"timeout", "timeout_other"} -> R(s, <<N(ix, 0)>>, FALSE, <<T(t + D, "to", ix)>>, "")
    \* absolute due time: every element re-arms the timer for the same absolute instant
    [] o \in {"timeout_abs", "timeout_abs_other"} -> R(s, <<N(ix, 0)>>, FALSE, <<T(Max2(D, t), "to", ix)>>, "")
    [] o \in {"timeout_with_mapper", "timeout_with_mapper_other"}
                     -> IF p.m[ix].k = "X" THEN R(s, <<N(ix, 0), Er("fn")>>, TRUE, <<>>, "")
                        ELSE R(s, <<N(ix, 0)>>, FALSE, SpecTimer(p.m[ix], t, "to", "dlerr", ix), "")
    [] OTHER -> R(s, <<N(ix, 0)>>, FALSE, t0, "")

\* the source's terminal k ("C" / "E") arrives at instant t
Tm(o, p, s, t0, t, k) ==
  IF k = "E" THEN R(s, <<Er("src")>>, TRUE, <<>>, "")
  ELSE
  CASE o \in DelayOps -> R(s, <<>>, FALSE, Append(t0, T(t + D, "dl", n + 1)), "")
    [] o \in DSubOps \cup DMapOps -> IF Pending(t0) \/ s.a > 0 THEN R([s EXCEPT !.b = TRUE], <<>>, FALSE, t0, "")
                                     ELSE R(s, <<Cn>>, TRUE, <<>>, "")
    [] o \in {"debounce", "throttle_with_mapper"} -> R(s, (IF s.a > 0 THEN <<N(s.a, 0)>> ELSE <<>>) \o <<Cn>>, TRUE, <<>>, "")
    [] o \in {"sample", "sample_obs"} -> R([s EXCEPT !.b = TRUE], <<>>, FALSE, t0, "")
    [] o = "take_last_with_time" -> R(s, Ns(Young(s.q, t, D), FALSE) \o <<Cn>>, TRUE, <<>>, "")
    [] o = "skip_last_with_time" -> R(s, Ns(Aged(s.q, t, D), TRUE) \o <<Cn>>, TRUE, <<>>, "")
    [] OTHER -> R(s, <<Cn>>, TRUE, <<>>, "")

\* the sampler ticks
Tick(s, t0) == R([s EXCEPT !.a = 0], (IF s.a > 0 THEN <<N(s.a, 0)>> ELSE <<>>) \o (IF s.b THEN <<Cn>> ELSE <<>>), s.b, t0, "")

\* timer x fired at instant t (t0: the remaining timers)
Ti(o, p, s, t0, t, x) ==
  CASE x.tg = "dl" /\ o \in DelayOps -> IF x.i = n + 1 THEN R(s, <<Cn>>, TRUE, <<>>, "") ELSE R(s, <<N(x.i, 0)>>, FALSE, t0, "")
    [] x.tg = "dl" -> IF s.b /\ ~Pending(t0) /\ s.a = 0 THEN R(s, <<N(x.i, 0), Cn>>, TRUE, <<>>, "")
                      ELSE R(s, <<N(x.i, 0)>>, FALSE, t0, "")
    [] x.tg = "dlerr" -> R(s, <<Er("dly")>>, TRUE, <<>>, "")
    [] x.tg = "sub"   -> R(s, <<>>, FALSE, t0, "sub")
    [] x.tg = "db"    -> R([s EXCEPT !.a = 0], <<N(x.i, 0)>>, FALSE, t0, "")
    [] x.tg = "tick"  -> (LET r == Tick(s, t0) IN [r EXCEPT !.tm = IF r.fin THEN <<>> ELSE <<T(t + p.d, "tick", 0)>>])
    [] x.tg = "end"   -> R(s, <<Cn>>, TRUE, <<>>, "")
    [] x.tg = "open"  -> R([s EXCEPT !.b = TRUE], <<>>, FALSE, t0, "")
    [] x.tg = "to"    -> IF o \in FbOps THEN R([s EXCEPT !.b = TRUE], <<>>, FALSE, <<>>, "switch")
                         ELSE R(s, <<Er("to")>>, TRUE, <<>>, "")
    [] OTHER -> R(s, <<>>, FALSE, t0, "")

\* aux lane: the sampler's notification k at instant t; ctk resolves whether the sampler's completion samples
Ax(o, p, s, t0, t, k) ==
  CASE k = "N" -> Tick(s, t0)
    [] k = "C" -> IF ctk THEN Tick(s, t0) ELSE R(s, <<>>, FALSE, t0, "")
    [] OTHER   -> R(s, <<Er("aux")>>, TRUE, <<>>, "")

(* ---- the runner -------------------------------------------------------------------------------- *)
Sorted(s) == \A h \in 1..(Len(s) - 1) : s[h] <= s[h + 1]
LenOf(o) == IF o \in Small THEN MaxLenS ELSE MaxLen
TOf(o)   == IF o \in Small THEN MaxTS ELSE MaxT
ASSUME HorizonOK == \A o \in Ops : Hz >= TOf(o) + MaxShift + (IF o = "delay_with_mapper_sub" THEN MaxShift ELSE 0)
TimeSeqs(len, lo, hi) == {s \in UNION {[1..m -> lo..hi] : m \in 0..len} : Sorted(s)}
LastOf(s, lo) == IF Len(s) = 0 THEN lo ELSE s[Len(s)]
Stamp(em, t) == [h \in 1..Len(em) |-> [t |-> t, k |-> em[h].k, i |-> em[h].i, x |-> em[h].x, e |-> em[h].e]]

Init == /\ op \in Ops
        /\ src \in TimeSeqs(LenOf(op), Lo, TOf(op))
        /\ term \in Terms
        /\ tT \in (IF term = "U" THEN {0} ELSE LastOf(src, Lo)..TOf(op))
        \* feedback on timelines that leave room for one more element (which needs its own throttle-observable spec);
        \* not combined with the dispose dimension
        \* (delay: what is fed back is the source's terminal, which needs no room; k-th delivery: there must be one)
        /\ fbk \in (IF op \in EchoOps /\ (IF op \in DelayOps THEN TRUE ELSE Len(src) < LenOf(op))
                    THEN {k \in EchoKs : op \in DelayOps => k <= Len(src)} ELSE {}) \cup {0}
        /\ fbx \in (IF fbk > 0 /\ op \in DelayOps THEN {"E", "C"} ELSE {"N"})
        /\ par \in ParamsOf(op, Len(src) + (IF fbk > 0 /\ op \in MapOps THEN 1 ELSE 0))
        \* the feedback dimension counts emissions driven by a timer lane: with it only the fed-back element itself may have a
        \* synchronously firing throttle observable (an emission made inside the source's own on_next is not a feedback point here)
        /\ (fbk > 0 /\ op = "throttle_with_mapper") => \A ix \in 1..Len(src) : par.m[ix].k # "S"
        /\ hot \in (IF op \in HotOps THEN BOOLEAN ELSE {FALSE})
        \* sampler timelines start at 1; fallback timelines are cold and may start at offset 0
        /\ aux \in (IF op = "sample_obs" THEN TimeSeqs(AuxLen, 1, TOf(op)) ELSE IF op \in FbOps THEN TimeSeqs(AuxLen, 0, TOf(op)) ELSE {<<>>})
        /\ aterm \in (IF op \in AuxOps THEN Terms ELSE {"U"})
        /\ aT \in (IF aterm = "U" THEN {0} ELSE LastOf(aux, IF op = "sample_obs" THEN 1 ELSE 0)..TOf(op))
        /\ dsp \in (IF op \in DispOps /\ Len(src) <= DispLen /\ fbk = 0 THEN 0..(Hz - 1) ELSE {}) \cup {NEVER}
        /\ ctk \in (IF op = "sample_obs" /\ aterm = "C" THEN BOOLEAN ELSE {TRUE})
        /\ LET r == Start(op, par) IN
           /\ st = r.st /\ tm = r.tm /\ out = Stamp(r.em, 0) /\ done = r.fin
           /\ subAt = IF r.ctl = "nosub" THEN NOSUB ELSE 0
        /\ now = 0 /\ i = 0 /\ j = 0 /\ closed = FALSE /\ unsub = NEVER /\ swAt = NOSUB /\ echoAt = NOSUB
        /\ amb = (op = "sample_obs" /\ aterm = "C")

SrcLen == n + (IF term = "U" THEN 0 ELSE 1)
AuxN   == Len(aux) + (IF aterm = "U" THEN 0 ELSE 1)
SrcT(h) == IF h <= n THEN src[h] ELSE tT
AuxT(h) == IF h <= Len(aux) THEN aux[h] ELSE aT
\* a hot source runs whether or not it is subscribed; a cold one starts at the subscription instant
SrcOn  == ~closed /\ i < SrcLen /\ (hot \/ subAt >= 0)
SrcDue == (IF hot THEN 0 ELSE subAt) + SrcT(i + 1)
AuxOn  == j < AuxN /\ (op = "sample_obs" \/ (op \in FbOps /\ swAt >= 0))
AuxDue == (IF op = "sample_obs" THEN 0 ELSE swAt) + AuxT(j + 1)
Dues   == (IF SrcOn THEN {SrcDue} ELSE {}) \cup (IF AuxOn THEN {AuxDue} ELSE {}) \cup {tm[h].due : h \in 1..Len(tm)}
MinDue == IF Dues = {} THEN NEVER ELSE CHOOSE d \in Dues : \A e \in Dues : d <= e
\* the subscriber disposes after every event of instant dsp
Live(md) == ~done /\ md <= Hz /\ md <= dsp

Apply(r, t) == /\ st' = r.st /\ tm' = r.tm /\ out' = out \o Stamp(r.em, t) /\ done' = r.fin /\ now' = t

\* Feedback.  The reaction r of a timer / sampler lane hands the sink its fbk-th element; the sink, inside that very call,
\* pushes element n + 1 into the source (ignored if the source already terminated or is not subscribed).  The element
\* arrives at the same instant, causally AFTER the emission that provoked it and before anything else.
EchoHit(r) == /\ fbk > 0 /\ echoAt < 0 /\ ~closed /\ subAt >= 0 /\ ~r.fin
              /\ \E h \in 1..Len(r.em) : r.em[h].k = "N"
              /\ Len(SelectSeq(out, LAMBDA x : x.k = "N")) + 1 = fbk
WithEcho(r, t) == IF EchoHit(r)
                  THEN LET r2 == IF fbx = "N" THEN Nx(op, par, r.st, r.tm, t, n + 1) ELSE Tm(op, par, r.st, r.tm, t, fbx)
                       IN [r EXCEPT !.st = r2.st, !.tm = r2.tm, !.em = r.em \o r2.em, !.fin = r2.fin]
                  ELSE r

FireSrc(md) ==
           /\ SrcOn /\ SrcDue = md
           /\ i' = i + 1
           /\ IF subAt < 0
              THEN \* a hot source's event before the operator subscribed: missed
                   /\ now' = md /\ UNCHANGED <<subAt, closed, unsub, j, swAt, tm, st, out, done>>
              ELSE LET r == IF i + 1 <= n THEN Nx(op, par, st, tm, md, i + 1) ELSE Tm(op, par, st, tm, md, term) IN
                   /\ Apply(r, md)
                   /\ closed' = (i + 1 > n \/ r.fin)
                   /\ unsub' = IF i + 1 > n \/ r.fin THEN md ELSE unsub
                   /\ UNCHANGED <<subAt, j, swAt>>
           /\ UNCHANGED echoAt /\ UNCHANGED scnvars

FireAux(md) ==
           /\ AuxOn /\ AuxDue = md
           /\ j' = j + 1
           /\ LET k == IF j + 1 <= Len(aux) THEN "N" ELSE aterm
                  r0 == IF op = "sample_obs" THEN Ax(op, par, st, tm, md, k)
                       ELSE \* the fallback's notifications pass through
                            CASE k = "N" -> R(st, <<N(100 + j + 1, 0)>>, FALSE, tm, "")
                              [] k = "C" -> R(st, <<Cn>>, TRUE, <<>>, "")
                              [] OTHER   -> R(st, <<Er("aux")>>, TRUE, <<>>, "")
                  r == WithEcho(r0, md) IN
              /\ Apply(r, md)
              /\ echoAt' = IF EchoHit(r0) THEN md ELSE echoAt
              /\ closed' = (closed \/ r.fin)
              /\ unsub' = IF ~closed /\ r.fin THEN md ELSE unsub
           /\ UNCHANGED <<i, subAt, swAt>> /\ UNCHANGED scnvars

FireTimer(md) == \E h \in 1..Len(tm) :
           /\ tm[h].due = md
           /\ Fifo(op) => \A g \in 1..(h - 1) : tm[g].due # md
           /\ LET r0 == Ti(op, par, st, RemoveAt(tm, h), md, tm[h])
                  r == WithEcho(r0, md) IN
              /\ Apply(r, md)
              /\ echoAt' = IF EchoHit(r0) THEN md ELSE echoAt
              /\ subAt' = IF r.ctl = "sub" THEN md ELSE subAt
              /\ swAt' = IF r.ctl = "switch" THEN md ELSE swAt
              \* (a terminal fed back by the sink ends the source there and then)
              /\ closed' = (closed \/ r.fin \/ r.ctl = "switch" \/ (EchoHit(r0) /\ fbx # "N"))
              /\ unsub' = IF ~closed /\ subAt >= 0 /\ (r.fin \/ r.ctl = "switch" \/ (EchoHit(r0) /\ fbx # "N")) THEN md ELSE unsub
           /\ UNCHANGED <<i, j>> /\ UNCHANGED scnvars

Dispose(md) ==
           /\ ~done /\ dsp # NEVER /\ md > dsp
           /\ done' = TRUE /\ closed' = TRUE
           /\ unsub' = IF ~closed /\ subAt >= 0 THEN dsp ELSE unsub
           /\ UNCHANGED <<now, i, subAt, j, swAt, tm, st, out, echoAt, amb>> /\ UNCHANGED scnvars

\* number of lanes that may move at instant md
Choices(md) == (IF SrcOn /\ SrcDue = md THEN 1 ELSE 0) + (IF AuxOn /\ AuxDue = md THEN 1 ELSE 0)
               + (LET c == Cardinality({h \in 1..Len(tm) : tm[h].due = md}) IN IF Fifo(op) /\ c > 1 THEN 1 ELSE c)
Next == LET md == MinDue IN
        \/ (Live(md) /\ (FireSrc(md) \/ FireAux(md) \/ FireTimer(md)) /\ amb' = (amb \/ Choices(md) > 1))
        \/ Dispose(md)
Spec == Init /\ [][Next]_vars
Final == done \/ (MinDue > Hz /\ dsp = NEVER)

(* ---- properties of the model ------------------------------------------------------------------ *)
OutN == SelectSeq(out, LAMBDA x : x.k = "N")
mN == Len(OutN)
LastOut == out[Len(out)]
HasTerm(k) == Len(out) > 0 /\ LastOut.k = k
NoTerm == \A h \in 1..Len(out) : out[h].k = "N"
EmSet == {OutN[h].i : h \in 1..mN}
InOrder == \A h \in 1..(mN - 1) : OutN[h].i < OutN[h + 1].i
Once == \A g, h \in 1..mN : g # h => OutN[g].i # OutN[h].i
AtOf(ix) == (CHOOSE h \in 1..mN : OutN[h].i = ix)
TimeOf(ix) == OutN[AtOf(ix)].t
TermAt(k, t) == HasTerm(k) /\ LastOut.t = t

\* C01: elements, then at most one terminal
Grammar == \A h \in 1..Len(out) : out[h].k # "N" => h = Len(out)
\* virtual time never runs backwards in the output
Causal == \A h \in 1..(Len(out) - 1) : out[h].t <= out[h + 1].t
\* nothing is emitted before the element it comes from arrived, or after the subscriber disposed
NotEarly == \A h \in 1..mN : /\ (OutN[h].i <= n => OutN[h].t >= (IF hot \/ subAt < 0 THEN 0 ELSE subAt) + src[OutN[h].i])
                              /\ (OutN[h].i = n + 1 => (echoAt >= 0 /\ OutN[h].t >= echoAt))
Silent == \A h \in 1..Len(out) : out[h].t <= dsp
\* C02/C03: once the sink terminated or disposed, the source subscription is closed
Released == done => (subAt < 0 \/ closed)
TypeOK == /\ i \in 0..SrcLen /\ j \in 0..AuxN /\ now \in 0..Hz
          /\ \A h \in 1..Len(tm) : tm[h].due >= now

(* ---- reference semantics: what the property statements say, in terms of the times ----------------- *)
\* time of the next source-lane event after element ix (ix = 0: the subscription)
NextEv(ix) == IF ix < n THEN src[ix + 1] ELSE IF term # "U" THEN tT ELSE NEVER
SrcTermPasses == CASE term = "C" -> TermAt("C", tT) [] term = "E" -> TermAt("E", tT) [] OTHER -> NoTerm
ErrPasses == term = "E" => TermAt("E", tT)

\* C15 delay: every element and the completion exactly d later, in order; an error at once, pending dropped
RefDelay ==
  /\ mN <= n /\ \A h \in 1..mN : OutN[h].i = h /\ OutN[h].t = src[h] + D
  /\ CASE term = "C" -> mN = n /\ TermAt("C", tT + D)
       [] term = "E" -> /\ TermAt("E", tT)
                        /\ \A ix \in 1..n : (src[ix] + D < tT => ix <= mN) /\ (ix <= mN => src[ix] + D <= tT)
       [] OTHER -> mN = n /\ NoTerm

\* C15 delay_subscription: the source is subscribed at D; what it emits from then on is passed on
RefDelaySub ==
  LET ts(x) == IF hot THEN x ELSE D + x IN
  /\ subAt = D
  /\ \E s0 \in 1..(n + 1) : \E tseen \in BOOLEAN :
       /\ \A ix \in 1..n : (ix < s0 => hot /\ src[ix] <= D) /\ (ix >= s0 => (~hot \/ src[ix] >= D))
       /\ term = "U" => ~tseen
       /\ term # "U" => (tseen => (~hot \/ tT >= D)) /\ (~tseen => (hot /\ tT <= D /\ s0 = n + 1))
       /\ s0 + mN - 1 <= n
       /\ \A h \in 1..mN : OutN[h].i = s0 + h - 1 /\ OutN[h].t = ts(src[s0 + h - 1])
       /\ IF tseen /\ term = "C" THEN s0 + mN - 1 = n /\ TermAt("C", ts(tT))
          ELSE IF tseen /\ term = "E"
          THEN TermAt("E", ts(tT)) /\ \A ix \in s0..n : ts(src[ix]) < ts(tT) => ix <= s0 + mN - 1
          ELSE s0 + mN - 1 = n /\ NoTerm

\* C15 delay_with_mapper (no subscription delay, no failing delay observable): element ix is delivered when its
\* delay observable first notifies (src[ix] + m[ix].t), never if it never notifies; completion once the source
\* completed and nothing is pending
MapFaultFree == \A ix \in 1..n : par.m[ix].k \notin {"E", "X"}
RefDelayMap ==
  LET due(ix) == src[ix] + par.m[ix].t
      fin(ix) == par.m[ix].k # "U"
      AllDue == {due(ix) : ix \in {x \in 1..n : fin(x)}} IN
  /\ Once /\ \A h \in 1..mN : OutN[h].i \in 1..n /\ fin(OutN[h].i) /\ OutN[h].t = due(OutN[h].i)
  /\ CASE term = "E" -> /\ TermAt("E", tT)
                        /\ \A ix \in 1..n : fin(ix) => (due(ix) < tT => ix \in EmSet) /\ (ix \in EmSet => due(ix) <= tT)
       [] term = "C" -> /\ \A ix \in 1..n : fin(ix) => ix \in EmSet
                        /\ IF \A ix \in 1..n : fin(ix)
                           THEN TermAt("C", CHOOSE t \in AllDue \cup {tT} : \A u \in AllDue \cup {tT} : t >= u)
                           ELSE NoTerm
       [] OTHER -> (\A ix \in 1..n : fin(ix) => ix \in EmSet) /\ NoTerm

\* C15 delay_with_mapper with a subscription delay: the source is subscribed when the subscription-delay observable
\* first notifies (never if it never does; its failure fails the result); then as above
RefDelayMapSub ==
  LET B == par.f.t
      ts(x) == IF hot THEN x ELSE B + x IN
  IF par.f.k = "U" THEN out = <<>> /\ subAt < 0
  ELSE IF par.f.k = "E" THEN Len(out) = 1 /\ TermAt("E", B) /\ LastOut.e = "dly" /\ subAt < 0
  ELSE
  /\ subAt = B
  /\ MapFaultFree => \E s0 \in 1..(n + 1) : \E tseen \in BOOLEAN :
       /\ \A ix \in 1..n : (ix < s0 => hot /\ src[ix] <= B) /\ (ix >= s0 => (~hot \/ src[ix] >= B))
       /\ term = "U" => ~tseen
       /\ term # "U" => (tseen => (~hot \/ tT >= B)) /\ (~tseen => (hot /\ tT <= B /\ s0 = n + 1))
       /\ LET due(ix) == ts(src[ix]) + par.m[ix].t
              fin(ix) == par.m[ix].k # "U"
              AllDue == {due(ix) : ix \in {x \in s0..n : fin(x)}} IN
          /\ Once /\ \A h \in 1..mN : OutN[h].i \in s0..n /\ fin(OutN[h].i) /\ OutN[h].t = due(OutN[h].i)
          /\ IF tseen /\ term = "E"
             THEN /\ TermAt("E", ts(tT))
                  /\ \A ix \in s0..n : fin(ix) => (due(ix) < ts(tT) => ix \in EmSet) /\ (ix \in EmSet => due(ix) <= ts(tT))
             ELSE /\ \A ix \in s0..n : fin(ix) => ix \in EmSet
                  /\ IF tseen /\ term = "C" /\ \A ix \in s0..n : fin(ix)
                     THEN TermAt("C", CHOOSE t \in AllDue \cup {ts(tT)} : \A u \in AllDue \cup {ts(tT)} : t >= u)
                     ELSE NoTerm

\* C15 timestamp / time_interval
RefStamp == /\ mN = n /\ \A h \in 1..mN : OutN[h].i = h /\ OutN[h].t = src[h]
                      /\ OutN[h].x = (IF op = "timestamp" THEN src[h] ELSE src[h] - (IF h = 1 THEN 0 ELSE src[h - 1]))
            /\ SrcTermPasses

\* C16 debounce: an element is emitted d after its arrival iff no newer element arrives within d (at exactly d:
\* either); the pending element is flushed on completion; an error drops it
RefDebounce ==
  /\ InOrder /\ EmSet \subseteq 1..n
  /\ \A ix \in 1..n :
       LET due == src[ix] + D IN
       IF ix < n THEN (due < src[ix + 1] => ix \in EmSet) /\ (due > src[ix + 1] => ix \notin EmSet)
       ELSE CASE term = "E" -> (due < tT => ix \in EmSet) /\ (due > tT => ix \notin EmSet)
              [] OTHER -> ix \in EmSet
  /\ \A h \in 1..mN : OutN[h].t = (IF OutN[h].i = n /\ term = "C" THEN Min2(tT, src[n] + D) ELSE src[OutN[h].i] + D)
  /\ SrcTermPasses

\* C16 throttle_first: emitted iff at least the window has passed since the last EMITTED element
ThrottleSet[k \in 0..n] == IF k = 0 THEN {}
                           ELSE IF \A g \in ThrottleSet[k - 1] : src[k] - src[g] >= D THEN ThrottleSet[k - 1] \cup {k}
                           ELSE ThrottleSet[k - 1]
RefThrottleFirst == /\ InOrder /\ EmSet = ThrottleSet[n] /\ \A h \in 1..mN : OutN[h].t = src[OutN[h].i]
                    /\ SrcTermPasses

\* C16 throttle_with_mapper (no failing throttle observable): the pending element is emitted when its throttle
\* observable first notifies, if no newer element arrived before (same instant: either); flushed on completion
RefThrottleMap ==
  LET fin(ix) == par.m[ix].k # "U"
      due(ix) == IF fin(ix) THEN src[ix] + par.m[ix].t ELSE NEVER IN
  /\ InOrder /\ EmSet \subseteq 1..n
  /\ \A ix \in 1..n :
       IF ix < n THEN (due(ix) < src[ix + 1] => ix \in EmSet) /\ (due(ix) > src[ix + 1] => ix \notin EmSet)
       ELSE CASE term = "E" -> (due(ix) < tT => ix \in EmSet) /\ (due(ix) > tT => ix \notin EmSet)
              [] term = "C" -> ix \in EmSet
              [] OTHER -> (ix \in EmSet) = fin(ix)
  /\ \A h \in 1..mN : OutN[h].t = (IF OutN[h].i = n /\ term = "C" THEN Min2(tT, due(n)) ELSE due(OutN[h].i))
  \* a throttle observable that fires synchronously, while it is being subscribed, fires before anything newer can arrive: no
  \* race, not even with events of the same instant - the element is emitted, at its own arrival instant (due = src)
  /\ \A ix \in 1..n : par.m[ix].k = "S" => ix \in EmSet
  /\ SrcTermPasses

\* C16 sample: at each sampler tick the latest element not yet sampled.  Ticks: the period's multiples, or the
\* sampler's elements; whether the sampler's COMPLETION samples is not stated (may, never must).  The result's
\* completion instant is not stated either: only that nothing is emitted after the source failed.
TicksMust == IF op = "sample" THEN {k * par.d : k \in 1..Hz} \cap 1..Hz ELSE {aux[h] : h \in 1..Len(aux)} \cap 0..Hz
TicksMay  == TicksMust \cup (IF op = "sample_obs" /\ aterm = "C" /\ aT <= Hz THEN {aT} ELSE {})
SamplerFails == op = "sample_obs" /\ aterm = "E"
\* the result is certainly still live at tick u / may still be live
LiveMust(u) == /\ term = "E" => u < tT
               /\ term = "C" => ~\E w \in TicksMay : w < u /\ w >= tT
               /\ SamplerFails => u < aT
LiveMay(u)  == /\ term = "E" => u <= tT
               /\ term = "C" => ~\E w \in TicksMust : w < u /\ w > tT
               /\ SamplerFails => u <= aT
SampleMay(ix, u) == /\ u \in TicksMay /\ u >= src[ix] /\ LiveMay(u)
                    /\ ~\E w \in TicksMust : src[ix] < w /\ w < u
                    /\ \A jx \in (ix + 1)..n : src[jx] >= u
SampleMust(ix, u) == /\ u \in TicksMust /\ u > src[ix] /\ LiveMust(u)
                     /\ ~\E w \in TicksMay : src[ix] <= w /\ w < u
                     /\ \A jx \in (ix + 1)..n : src[jx] > u
RefSample == /\ InOrder /\ EmSet \subseteq 1..n
             /\ \A h \in 1..mN : SampleMay(OutN[h].i, OutN[h].t)
             /\ \A ix \in 1..n : \A u \in TicksMust : SampleMust(ix, u) => ix \in EmSet /\ TimeOf(ix) = u
             /\ term = "E" /\ ~SamplerFails => TermAt("E", tT)
             /\ ~HasTerm("E") \/ term = "E" \/ SamplerFails

\* C17 take_with_time / take_until_with_time: exactly the elements before the boundary B (at B: either), completion at B
RefTake ==
  /\ mN <= n /\ \A h \in 1..mN : OutN[h].i = h /\ OutN[h].t = src[h]
  /\ \A ix \in 1..n : (src[ix] < D => ix <= mN) /\ (ix <= mN => src[ix] <= D)
  /\ IF term # "U" /\ tT < D THEN SrcTermPasses /\ mN = n
     ELSE IF term # "U" /\ tT = D THEN (TermAt("C", D) \/ (SrcTermPasses /\ mN = n))
     ELSE TermAt("C", D)

\* C17 skip_with_time / skip_until_with_time: exactly the elements after the boundary (at it: either); terminal unchanged
RefSkip ==
  /\ \A h \in 1..mN : OutN[h].i = n - mN + h /\ OutN[h].t = src[n - mN + h]
  /\ mN <= n /\ \A ix \in 1..n : (src[ix] > D => ix > n - mN) /\ (ix > n - mN => src[ix] >= D)
  /\ SrcTermPasses

\* C17 take_last_with_time: at completion exactly the elements YOUNGER than d.  The verdict on an element is a
\* function of its own arrival time, the completion time and d (BoundaryIndependent)
Younger(ti, tc, d) == tc - ti < d
RefTakeLast ==
  CASE term = "C" -> /\ InOrder /\ EmSet = {ix \in 1..n : Younger(src[ix], tT, D)}
                     /\ \A h \in 1..mN : OutN[h].t = tT
                     /\ TermAt("C", tT)
    [] term = "E" -> mN = 0 /\ TermAt("E", tT)
    [] OTHER -> out = <<>>
\* C17 skip_last_with_time: exactly the elements NOT younger than d at completion, none before it is d old
RefSkipLast ==
  /\ InOrder /\ \A h \in 1..mN : OutN[h].i = h /\ OutN[h].t >= src[h] + D /\ OutN[h].x = src[h] + D
  /\ CASE term = "C" -> EmSet = {ix \in 1..n : ~Younger(src[ix], tT, D)} /\ TermAt("C", tT)
       [] term = "E" -> EmSet \subseteq {ix \in 1..n : ~Younger(src[ix], tT, D)} /\ TermAt("E", tT)
       [] OTHER -> EmSet \subseteq {ix \in 1..n : ~Younger(src[ix], Hz, D)} /\ NoTerm
BoundaryIndependent ==
  (Final /\ dsp = NEVER /\ term = "C" /\ op \in {"take_last_with_time", "skip_last_with_time"}) =>
     \A ix \in 1..n : (ix \in EmSet) = (IF op = "take_last_with_time" THEN Younger(src[ix], tT, D) ELSE ~Younger(src[ix], tT, D))

\* C17 timeout (relative): switches / fails exactly when the time since the subscription or the last element
\* reaches d (a source event at that very instant: either), never after the source terminated.
\* Gap(ix): the due time armed by event ix (0 = subscription); NEVER = no timer
FallbackOK(w, from) ==   \* out[from..] is the fallback's timeline shifted to the switch instant w
  LET rest == SubSeq(out, from, Len(out))
      want == Len(aux) + (IF aterm = "U" THEN 0 ELSE 1)
      seen == Cardinality({h \in 1..want : w + AuxT(h) <= Hz}) IN
  /\ Len(rest) = seen
  /\ \A h \in 1..seen : /\ rest[h].t = w + AuxT(h)
                        /\ IF h <= Len(aux) THEN rest[h].k = "N" /\ rest[h].i = 100 + h
                           ELSE rest[h].k = aterm /\ (aterm = "E" => rest[h].e = "aux")
RefTimeoutGen(Gap(_), errs) ==
  \E k \in 0..(n + 1) :
     /\ \A ix \in 0..n : ix < k => Gap(ix) >= NextEv(ix)          \* no earlier timer was certain to fire
     /\ \A h \in 1..Min2(k, n) : out[h].k = "N" /\ out[h].i = h /\ out[h].t = src[h]
     /\ IF k = n + 1 THEN mN = n /\ SrcTermPasses
        ELSE /\ Gap(k) <= NextEv(k) /\ Gap(k) # NEVER
             /\ IF k \in errs THEN Len(out) = k + 1 /\ TermAt("E", Gap(k)) /\ LastOut.e = "dly"
                ELSE IF op \in FbOps THEN FallbackOK(Gap(k), k + 1)
                ELSE Len(out) = k + 1 /\ TermAt("E", Gap(k)) /\ LastOut.e = "to"
RefTimeout == LET G(ix) == (IF ix = 0 THEN 0 ELSE src[ix]) + D IN RefTimeoutGen(G, {})
\* C17 timeout (absolute): the timer is due at the absolute instant D whatever arrives
RefTimeoutAbs == LET G(ix) == Max2(D, IF ix = 0 THEN 0 ELSE src[ix]) IN RefTimeoutGen(G, {})
RefTimeoutMap ==
  LET sp(ix) == IF ix = 0 THEN par.f ELSE par.m[ix]
      G(ix) == IF sp(ix).k = "U" THEN NEVER ELSE (IF ix = 0 THEN 0 ELSE src[ix]) + sp(ix).t IN
  RefTimeoutGen(G, {ix \in 0..n : sp(ix).k = "E"})

Ref ==
  CASE op \in DelayOps -> RefDelay
    [] op \in DSubOps  -> RefDelaySub
    [] op = "delay_with_mapper" -> (MapFaultFree => RefDelayMap)
    [] op = "delay_with_mapper_sub" -> RefDelayMapSub
    [] op \in {"timestamp", "time_interval"} -> RefStamp
    [] op = "debounce" -> RefDebounce
    [] op = "throttle_first" -> RefThrottleFirst
    [] op = "throttle_with_mapper" -> (MapFaultFree => RefThrottleMap)
    [] op \in {"sample", "sample_obs"} -> RefSample
    [] op \in TakeOps -> RefTake
    [] op \in SkipOps -> RefSkip
    [] op = "take_last_with_time" -> RefTakeLast
    [] op = "skip_last_with_time" -> RefSkipLast
    [] op \in {"timeout", "timeout_other"} -> RefTimeout
    [] op \in {"timeout_abs", "timeout_abs_other"} -> RefTimeoutAbs
    [] op \in {"timeout_with_mapper", "timeout_with_mapper_other"} -> ((\A ix \in 1..n : par.m[ix].k # "X") => RefTimeoutMap)
    [] OTHER -> TRUE
\* (the references speak about the timeline's own elements: they are checked on the behaviours without a feedback element;
\*  what must happen to the feedback element is EchoOK)
RefOK == (Final /\ dsp = NEVER /\ echoAt < 0) => Ref

\* ---- feedback element: pushed at instant te = echoAt, causally after the emission of that instant ---------------------
Echo == n + 1
\* sample: it has not been sampled yet, so the NEXT tick must emit it - unless a newer element arrives first, or the source
\* fails / the result ends first.  Several sampler notifications at te itself, or source elements at te (they may have
\* arrived before the tick or after the feedback), leave it open.
TicksAt(t) == IF op = "sample" THEN 1
              ELSE Cardinality({h \in 1..Len(aux) : aux[h] = t}) + (IF aterm = "C" /\ aT = t THEN 1 ELSE 0)
EchoSampleMust(u) == /\ u \in TicksMust /\ u > echoAt /\ TicksAt(echoAt) = 1 /\ LiveMust(u)
                     /\ ~\E w \in TicksMay : echoAt < w /\ w < u
                     /\ \A jx \in 1..n : src[jx] >= echoAt => src[jx] > u
                     /\ (term # "U" => tT > echoAt)
EchoSampleMay(u)  == /\ u \in TicksMay /\ u >= echoAt /\ LiveMay(u)
                     /\ ~\E w \in TicksMust : echoAt < w /\ w < u
                     /\ \A jx \in 1..n : src[jx] > echoAt => src[jx] >= u
\* debounce / throttle_with_mapper: emitted dd after the push iff nothing newer arrives within dd; flushed by a completion
EchoDelayMust(dd) == IF \A jx \in 1..n : src[jx] < echoAt
                     THEN CASE term = "U" -> echoAt + dd
                            [] term = "C" /\ tT > echoAt -> Min2(tT, echoAt + dd)
                            [] term = "E" /\ tT > echoAt + dd -> echoAt + dd
                            [] OTHER -> NEVER
                     ELSE NEVER
EchoDebounceMust == EchoDelayMust(D)
EchoThrottleMust == CASE par.m[Echo].k \in {"N", "C"} -> EchoDelayMust(par.m[Echo].t)
                      [] par.m[Echo].k = "S" -> echoAt          \* fires inside the push itself: nothing can come first
                      [] OTHER -> NEVER
\* delay: the sink, inside the delivery of its fbk-th element (instant te = src[fbk] + D), terminates the source.
\* "delivers an error immediately, dropping pending elements": the error is the very next thing the sink sees, at te -
\* not even an element due at te itself (still pending: its delivery had not started) comes between.  A completion is
\* shifted like everything else: the elements that had arrived by te (at te itself: either) at their own due times, C at te + D.
EchoDelayOK == /\ echoAt = src[fbk] + D
               /\ \A h \in 1..mN : OutN[h].i = h /\ OutN[h].t = src[h] + D
               /\ IF fbx = "E" THEN mN = fbk /\ TermAt("E", echoAt) /\ LastOut.e = "src"
                  ELSE /\ mN >= fbk /\ mN <= n
                       /\ \A ix \in 1..n : (src[ix] < echoAt => ix <= mN) /\ (ix <= mN => src[ix] <= echoAt)
                       /\ IF echoAt + D <= Hz THEN TermAt("C", echoAt + D) ELSE NoTerm
EchoOK == (Final /\ dsp = NEVER /\ echoAt >= 0) =>
            /\ Once
            /\ (op \in DelayOps => EchoDelayOK)
            /\ (op \in {"sample", "sample_obs"} =>
                 /\ \A u \in TicksMust : EchoSampleMust(u) => (Echo \in EmSet /\ TimeOf(Echo) = u)
                 /\ (Echo \in EmSet => EchoSampleMay(TimeOf(Echo))))
            /\ (op = "debounce" =>
                 /\ (EchoDebounceMust <= Hz => (Echo \in EmSet /\ TimeOf(Echo) = EchoDebounceMust))     \* (NEVER > Hz)
                 /\ (Echo \in EmSet => TimeOf(Echo) \in {echoAt + D} \cup (IF term = "C" THEN {tT} ELSE {})))
            /\ (op = "throttle_with_mapper" =>
                 /\ (EchoThrottleMust <= Hz => (Echo \in EmSet /\ TimeOf(Echo) = EchoThrottleMust))
                 /\ (Echo \in EmSet => TimeOf(Echo) \in {echoAt + par.m[Echo].t} \cup (IF term = "C" THEN {tT} ELSE {})))

(* ---- export ------------------------------------------------------------------------------------------ *)
Export == Final => PrintT(ToJson([scn |-> [op |-> op, par |-> par, src |-> src, term |-> term, tT |-> tT, hot |-> hot,
                                           aux |-> aux, aterm |-> aterm, aT |-> aT, dsp |-> dsp, fbk |-> fbk, fbx |-> fbx],
                                  obs |-> [out |-> out, subAt |-> subAt, unsub |-> unsub, swAt |-> swAt, echoAt |-> echoAt, amb |-> amb]]))
================================================================================
