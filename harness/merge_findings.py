"""Fold the per-bundle fragments known_findings.d/*.json into the single committed known_findings.json
(status "known" entries -> findings; "fixed" lines and fixed-status records -> fixed) and remove the fragments.
Run by the integrator only (never by a check):  python -m harness.merge_findings"""
import glob
import json
import os

ROOT = os.path.dirname(os.path.dirname(os.path.abspath(__file__)))


def main():
    path = os.path.join(ROOT, "known_findings.json")
    base = json.load(open(path))
    have = {e["id"] for e in base["findings"]}
    fixed_seen = set(base.get("fixed", []))
    commits = {w for line in base.get("fixed", []) for w in line.split() if len(w) == 7 and all(c in "0123456789abcdef" for c in w)}
    for f in sorted(glob.glob(os.path.join(ROOT, "known_findings.d", "*.json"))):
        d = json.load(open(f))
        bundle = os.path.basename(f)[:-5]
        for e in d.get("findings", []):
            if e.get("status") == "known":
                if e["id"] not in have:
                    e = dict(e)
                    e.setdefault("bundle", bundle)
                    base["findings"].append(e)
                    have.add(e["id"])
            else:   # a record of a repaired defect kept by a bundle: becomes a fixed line unless the commit is already listed
                c = str(e.get("commit", e.get("fixed_by", "")))[:7]
                line = f"fixed: property={e.get('property', '?')} {c} {e.get('summary', e.get('id', ''))}"
                if c not in commits and line not in fixed_seen:
                    base.setdefault("fixed", []).append(line)
                    fixed_seen.add(line)
        for line in d.get("fixed", []):
            if isinstance(line, dict):
                line = f"fixed: property={line.get('property', '?')} {str(line.get('commit', ''))[:7]} {line.get('summary', line.get('what', line.get('id', '')))}"
            words = line.split()
            c = next((w for w in words if len(w) == 7 and all(ch in "0123456789abcdef" for ch in w)), None)
            if c and c in commits:
                continue
            if line not in fixed_seen:
                base.setdefault("fixed", []).append(line)
                fixed_seen.add(line)
        os.remove(f)
    with open(path, "w") as fh:
        json.dump(base, fh, indent=1)
        fh.write("\n")
    print(len(base["findings"]), "known findings;", len(base.get("fixed", [])), "fixed records")


if __name__ == "__main__":
    main()
