"""setup_cmd: parse every module of the suite with SANY (nothing is compiled from /repo: the checks import
the library from its working tree at run time).  A module that does not parse fails the setup only if a
REGISTERED check needs it (modules of bundles still being built are reported, not fatal)."""
import glob
import os
import re
import shutil
import subprocess
import sys
import tempfile
from concurrent.futures import ThreadPoolExecutor

from harness import tlc

ROOT = os.path.dirname(os.path.dirname(os.path.abspath(__file__)))


def _needed_modules():
    try:
        reg = [l.strip() for l in open(os.path.join(ROOT, "REGISTERED")) if l.strip() and not l.startswith("#")]
    except FileNotFoundError:
        reg = []
    todo = [os.path.join(ROOT, "props", r + ".py") for r in reg]
    seen, text = set(), ""
    while todo:
        p = todo.pop()
        if p in seen or not os.path.exists(p):
            continue
        seen.add(p)
        s = open(p).read()
        text += s
        for m in re.findall(r"from props import ([\w, ]+)", s):
            for name in m.split(","):
                todo.append(os.path.join(ROOT, "props", name.strip().split(" as ")[0] + ".py"))
        for m in re.findall(r"import props\.(\w+)|from props\.(\w+) import", s):
            todo.append(os.path.join(ROOT, "props", (m[0] or m[1]) + ".py"))
        for m in re.findall(r"from harness import ([\w, ]+)", s):
            for name in m.split(","):
                todo.append(os.path.join(ROOT, "harness", name.strip().split(" as ")[0] + ".py"))
    specs = {os.path.basename(f)[:-4]: f for f in glob.glob(os.path.join(tlc.SPEC_DIR, "*.tla"))}
    need = {n for n in specs if re.search(r"\b" + re.escape(n) + r"\b", text)}
    changed = True
    while changed:   # modules extended / instantiated by needed modules
        changed = False
        for n in list(need):
            s = open(specs[n]).read()
            for m in specs:
                if m not in need and re.search(r"\b" + re.escape(m) + r"\b", s):
                    need.add(m)
                    changed = True
    return need


def main() -> int:
    files = sorted(glob.glob(os.path.join(tlc.SPEC_DIR, "*.tla")))
    bad = []

    def one(p):
        try:
            tlc.sany(p)
            return None
        except Exception as e:
            return str(e)

    with ThreadPoolExecutor(8) as ex:
        for p, r in zip(files, ex.map(one, files)):
            if r:
                bad.append((os.path.basename(p)[:-4], r))
    # typed modules for Apalache live in spec/apalache (they EXTEND Apalache, which SANY alone does not know)
    for p in sorted(glob.glob(os.path.join(tlc.SPEC_DIR, "apalache", "*.tla"))):
        out = tempfile.mkdtemp(prefix="vapa_")
        try:
            r = subprocess.run(["apalache-mc", "typecheck", f"--out-dir={out}", p], cwd=out, capture_output=True, text=True, timeout=600)
            files.append(p)
            if r.returncode != 0:
                bad.append((os.path.basename(p)[:-4], f"apalache typecheck failed on {p}:\n{r.stdout[-2000:]}"))
        finally:
            shutil.rmtree(out, ignore_errors=True)
    need = _needed_modules() | {"RefCountInd"}
    fatal = [b for b in bad if b[0] in need]
    for name, msg in bad:
        print(("FATAL " if name in need else "not needed by a registered check: ") + name)
        print(msg[-1500:])
    print(f"setup: {len(files)} modules parsed, {len(bad)} failed ({len(fatal)} needed by registered checks)")
    return 1 if fatal else 0
