"""setup_cmd: parse every module of the suite with SANY (nothing is compiled from /repo)."""
import glob
import os
import sys
from concurrent.futures import ThreadPoolExecutor

from harness import tlc


def main() -> int:
    files = sorted(glob.glob(os.path.join(tlc.SPEC_DIR, "*.tla")))
    bad = []

    def one(p):
        try:
            tlc.sany(p)
            return None
        except Exception as e:
            return str(e)

    with ThreadPoolExecutor(8) as ex:
        for p, r in zip(files, ex.map(one, files)):
            if r:
                bad.append(r)
    for b in bad:
        print(b)
    print(f"setup: {len(files)} modules parsed, {len(bad)} failed")
    return 1 if bad else 0
