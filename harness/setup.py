"""setup_cmd: parse every module of the suite with SANY (nothing is compiled from /repo)."""
import glob
import os
import sys
from concurrent.futures import ThreadPoolExecutor

from harness import tlc


def main() -> int:
    files = sorted(glob.glob(os.path.join(tlc.SPEC_DIR, "*.tla")))
    bad = []

    def one(p):
        try:
            tlc.sany(p)
            return None
        except Exception as e:
            return str(e)

    with ThreadPoolExecutor(8) as ex:
        for p, r in zip(files, ex.map(one, files)):
            if r:
                bad.append(r)
    # typed modules for Apalache live in spec/apalache (they EXTEND Apalache, which SANY alone does not know)
    import shutil
    import subprocess
    import tempfile
    for p in sorted(glob.glob(os.path.join(tlc.SPEC_DIR, "apalache", "*.tla"))):
        out = tempfile.mkdtemp(prefix="vapa_")
        try:
            r = subprocess.run(["apalache-mc", "typecheck", f"--out-dir={out}", p], cwd=out, capture_output=True, text=True, timeout=600)
            files.append(p)
            if r.returncode != 0:
                bad.append(f"apalache typecheck failed on {p}:\n{r.stdout[-2000:]}")
        finally:
            shutil.rmtree(out, ignore_errors=True)
    for b in bad:
        print(b)
    print(f"setup: {len(files)} modules parsed, {len(bad)} failed")
    return 1 if bad else 0
