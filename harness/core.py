"""Check context: accumulates coverage, judges failures against known findings, writes evidence."""
from __future__ import annotations

import hashlib
import json
import os
import sys
import time
from typing import Any, Callable, Dict, List, Optional

ROOT = os.path.dirname(os.path.dirname(os.path.abspath(__file__)))
EVID = os.environ.get("VERIF_EVIDENCE_DIR") or os.path.join(ROOT, "evidence")
REPLAYS = os.environ.get("VERIF_REPLAY_DIR") or os.path.join(ROOT, "replays")
FINDINGS = os.path.join(ROOT, "known_findings.json")
REPO = os.environ.get("VERIF_REPO", "/repo")


def env_seed() -> int:
    try:
        return int(os.environ.get("VERIF_SEED", "0"))
    except ValueError:
        return 0


def load_findings() -> List[Dict[str, Any]]:
    import glob
    out: List[Dict[str, Any]] = []
    # known_findings.json is the committed list; known_findings.d/*.json holds fragments of the
    # same shape while a bundle is being integrated (also committed, never written at run time)
    for path in [FINDINGS] + sorted(glob.glob(os.path.join(ROOT, "known_findings.d", "*.json"))):
        try:
            with open(path) as f:
                data = json.load(f)
        except FileNotFoundError:
            continue
        out += [e for e in data.get("findings", []) if e.get("status") == "known"]
    return out


def _match(entry: Dict[str, Any], rec: Dict[str, Any]) -> bool:
    """Conjunction over the failure record: every key of entry['match'] must agree.
    A list value means 'one of'; a dict {"contains": x} tests membership in a list field."""
    for k, want in entry.get("match", {}).items():
        have = rec.get(k)
        if isinstance(want, dict):
            if "contains" in want:
                if not isinstance(have, (list, tuple, str)) or want["contains"] not in have:
                    return False
            elif "subset_of" in want:
                if not isinstance(have, (list, tuple)) or not set(map(str, have)) <= set(map(str, want["subset_of"])) or not have:
                    return False
            elif "lt" in want:
                if have is None or not have < want["lt"]:
                    return False
            elif "ge" in want:
                if have is None or not have >= want["ge"]:
                    return False
            else:
                return False
        elif isinstance(want, list):
            if have not in want:
                return False
        else:
            if have != want:
                return False
    return True


class Check:
    def __init__(self, pid: str, tier: str, level: str = "model_checking"):
        self.pid = pid
        self.tier = tier
        self.seed = env_seed()
        self.level = level
        self.t0 = time.time()
        self.states = 0
        self.transitions = 0
        self.impl = 0  # traces validated / scenarios replayed against the implementation
        self.nontrivial = 0
        self.samples: List[Any] = []
        self.violations: List[Dict[str, Any]] = []
        self.known_hits: Dict[str, int] = {}
        self.extra: Dict[str, Any] = {}
        self.assumptions: List[str] = []
        self.rule = ""
        self.exhaustive: Optional[bool] = None
        self.model_drift: List[str] = []
        self.findings = [e for e in load_findings() if e.get("property") == pid]
        self._printed_known = set()
        self.tlc_runs: List[Dict[str, Any]] = []

    # ---- accounting -------------------------------------------------------------------
    def add_tlc(self, res, label: str = "") -> None:
        # simulation runs do not deduplicate states: count them as transitions only
        self.states += res.distinct
        self.transitions += res.generated
        self.tlc_runs.append({"label": label, "distinct": res.distinct, "generated": res.generated,
                              "depth": res.depth, "wall_s": round(res.wall_s, 2), "exported": len(res.lines), "sim_traces": getattr(res, "sim_traces", 0)})

    def sample(self, x: Any, cap: int = 6) -> None:
        if len(self.samples) < cap:
            self.samples.append(x)

    def note(self, key: str, val: Any) -> None:
        self.extra[key] = val

    def count(self, key: str, n: int = 1) -> None:
        self.extra[key] = self.extra.get(key, 0) + n

    # ---- verdicts ---------------------------------------------------------------------
    def fail(self, rec: Dict[str, Any]) -> None:
        """A property-level failure observed on the real code. rec is the failure record
        (must be JSON-serialisable); matched against known findings first."""
        rec = dict(rec)
        rec.setdefault("property", self.pid)
        for e in self.findings:
            if _match(e, rec):
                self.known_hits[e["id"]] = self.known_hits.get(e["id"], 0) + 1
                if e["id"] not in self._printed_known:
                    self._printed_known.add(e["id"])
                    print(f"KNOWN-FINDING: property={self.pid} {e['summary']}", flush=True)
                return
        self.violations.append(rec)
        if len(self.violations) <= 10:
            os.makedirs(os.path.join(REPLAYS, self.pid), exist_ok=True)
            blob = json.dumps(rec, sort_keys=True, default=str)
            h = hashlib.sha1(blob.encode()).hexdigest()[:12]
            path = os.path.join(REPLAYS, self.pid, h + ".json")
            with open(path, "w") as f:
                f.write(blob)
            print(f"VIOLATION property={self.pid} replay={path}", flush=True)
            brief = {k: rec[k] for k in list(rec)[:12]}
            print("  " + json.dumps(brief, default=str)[:1200], flush=True)

    def drift(self, msg: str) -> None:
        if len(self.model_drift) < 20:
            self.model_drift.append(msg)

    # ---- finish -----------------------------------------------------------------------
    def finish(self) -> int:
        cov: Dict[str, Any] = {
            "states": self.states,
            "transitions": self.transitions,
            "traces_validated_against_impl": self.impl,
            "samples": self.samples or ["(none)"],
            "evaluations": self.impl,
            "distinct_nontrivial": self.nontrivial,
            "rule": self.rule,
            "tlc_runs": self.tlc_runs,
            "known_findings_hit": self.known_hits,
            "model_drift": self.model_drift,
        }
        if self.exhaustive is not None:
            cov["exhaustive"] = self.exhaustive
        cov.update(self.extra)
        ev = {
            "property_id": self.pid,
            "tier": self.tier,
            "seed": self.seed,
            "level": self.level,
            "coverage": cov,
            "assumptions": self.assumptions,
            "wall_s": round(time.time() - self.t0, 2),
            "violations": len(self.violations),
        }
        os.makedirs(EVID, exist_ok=True)
        with open(os.path.join(EVID, self.pid + ".json"), "w") as f:
            json.dump(ev, f, indent=1, default=str)
            f.write("\n")
        print(f"[{self.pid}] tier={self.tier} states={self.states} transitions={self.transitions} "
              f"impl_runs={self.impl} nontrivial={self.nontrivial} violations={len(self.violations)} "
              f"known={sum(self.known_hits.values())} wall={ev['wall_s']}s", flush=True)
        if self.states < 1 or self.transitions < 1:
            print(f"[{self.pid}] machinery failure: no model states explored", flush=True)
            return 2
        return 1 if self.violations else 0


def parallel_map(fn: Callable, items: List[Any], procs: int = 14, chunk: int = 200) -> List[Any]:
    """Fork-based parallel map (fn must be picklable at module level)."""
    import multiprocessing as mp
    if len(items) < 2 * chunk or procs <= 1:
        return [fn(x) for x in items]
    ctx = mp.get_context("fork")
    with ctx.Pool(procs) as pool:
        return pool.map(fn, items, chunksize=chunk)


def group_allowed(lines: List[Dict[str, Any]]):
    """Group exported [scn, obs] records: scenario -> list of allowed observations."""
    groups: Dict[str, Any] = {}
    for ln in lines:
        k = json.dumps(ln["scn"], sort_keys=True)
        g = groups.get(k)
        if g is None:
            groups[k] = (ln["scn"], [ln["obs"]])
        elif ln["obs"] not in g[1]:
            g[1].append(ln["obs"])
    return list(groups.values())
