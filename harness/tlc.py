"""Thin runner around TLC: private metadir, timeout, JSON-line export parsing, stats."""
from __future__ import annotations

import json
import os
import re
import shutil
import subprocess
import tempfile
import time
from dataclasses import dataclass, field
from typing import Any, Dict, List, Optional

JAR = "/opt/veriftools/tla/tla2tools.jar"
DEPS = "/opt/veriftools/tla/CommunityModules-deps.jar"
SPEC_DIR = os.path.join(os.path.dirname(os.path.dirname(os.path.abspath(__file__))), "spec")


class TLCFailure(Exception):
    """Machinery failure (parse error, timeout, crash) - never a property verdict."""


@dataclass
class TLCResult:
    ok: bool  # no invariant/property violation reported by TLC
    generated: int = 0
    distinct: int = 0
    depth: int = 0
    lines: List[Any] = field(default_factory=list)  # decoded PrintT(ToJson(..)) records
    raw: str = ""
    wall_s: float = 0.0
    violated: Optional[str] = None
    coverage: Dict[str, int] = field(default_factory=dict)
    cmd: str = ""
    sim_traces: int = 0


_STATS = re.compile(r"(\d+) states generated, (\d+) distinct states found")
_DEPTH = re.compile(r"depth of the complete state graph search is (\d+)")
_VIOL = re.compile(r"Error: (Invariant|Action property|Temporal properties|Deadlock|Property) ?(\S+)? ?(is|were)? ?violated|Error: Deadlock reached|Error: Temporal properties were violated")
_COV = re.compile(r"^<(\w+) line \d+, col \d+ to line \d+, col \d+ of module (\w+)>: (\d+):(\d+)")


def cfg_text(
    constants: Dict[str, Any],
    init: str = "Init",
    next_: str = "Next",
    spec: Optional[str] = None,
    invariants: List[str] = (),
    properties: List[str] = (),
    constraints: List[str] = (),
    action_constraints: List[str] = (),
    view: Optional[str] = None,
    deadlock: bool = False,
    postcondition: Optional[str] = None,
    symmetry: Optional[str] = None,
) -> str:
    out = []
    if spec:
        out.append(f"SPECIFICATION {spec}")
    else:
        out.append(f"INIT {init}")
        out.append(f"NEXT {next_}")
    if constants:
        out.append("CONSTANTS")
        for k, v in constants.items():
            out.append(f"  {k} = {tla_const(v)}")
    for i in invariants:
        out.append(f"INVARIANT {i}")
    for p in properties:
        out.append(f"PROPERTY {p}")
    for c in constraints:
        out.append(f"CONSTRAINT {c}")
    for c in action_constraints:
        out.append(f"ACTION_CONSTRAINT {c}")
    if view:
        out.append(f"VIEW {view}")
    if postcondition:
        out.append(f"POSTCONDITION {postcondition}")
    if symmetry:
        out.append(f"SYMMETRY {symmetry}")
    out.append(f"CHECK_DEADLOCK {'TRUE' if deadlock else 'FALSE'}")
    return "\n".join(out) + "\n"


def tla_const(v: Any) -> str:
    """Literal usable in a TLC cfg file."""
    if isinstance(v, bool):
        return "TRUE" if v else "FALSE"
    if isinstance(v, int):
        if v < 0:
            raise ValueError("cfg files reject negative literals; encode in the module")
        return str(v)
    if isinstance(v, str):
        if v.startswith("<-"):
            return v  # substitution, caller writes "K <- Def" form via raw
        return '"' + v + '"'
    if isinstance(v, (set, frozenset, list, tuple)):
        items = sorted(v, key=lambda x: (str(type(x)), x)) if isinstance(v, (set, frozenset)) else list(v)
        return "{" + ", ".join(tla_const(x) for x in items) + "}"
    raise TypeError(type(v))


def run(
    module: str,
    cfg: str,
    *,
    workers: int = 1,
    timeout: int = 300,
    simulate: Optional[str] = None,
    depth: Optional[int] = None,
    seed: Optional[int] = None,
    coverage: bool = False,
    xmx: str = "3g",
    env_extra: Optional[Dict[str, str]] = None,
    extra_args: List[str] = (),
    dfs: bool = False,
    keep: bool = False,
    spec_dir: Optional[str] = None,
    allow_violation: bool = True,
) -> TLCResult:
    """Run TLC on spec/<module>.tla with the given cfg text. Export lines are PrintT(ToJson(x))."""
    spec_dir = spec_dir or SPEC_DIR
    work = tempfile.mkdtemp(prefix="vtlc_")
    try:
        cfg_path = os.path.join(work, module + ".cfg")
        with open(cfg_path, "w") as f:
            f.write(cfg)
        # small single-worker runs dominate: keep the JVM's own thread count low (GC and JIT threads of a dozen
        # concurrent JVMs on 16 cores cost more than they give)
        if workers <= 2:
            jopts = [f"-Xmx{xmx}", "-XX:+UseSerialGC", "-XX:CICompilerCount=2", "-Xshare:auto"]
        else:
            jopts = [f"-Xmx{xmx}", "-XX:+UseParallelGC", f"-XX:ParallelGCThreads={min(workers, 8)}"]
        if dfs:
            jopts.append("-Dtlc2.tool.queue.IStateQueue=StateDeque")
        cmd = ["java", *jopts, "-cp", f"{JAR}:{DEPS}", "tlc2.TLC",
               "-workers", str(workers), "-metadir", os.path.join(work, "meta"),
               "-noGenerateSpecTE", "-config", cfg_path]
        if simulate:
            cmd += ["-simulate", simulate]
        if depth is not None:
            cmd += ["-depth", str(depth)]
        if seed is not None:
            cmd += ["-seed", str(seed)]
        if coverage:
            cmd += ["-coverage", "1"]
        cmd += list(extra_args)
        cmd.append(os.path.join(spec_dir, module + ".tla"))
        env = dict(os.environ)
        env.pop("JAVA_TOOL_OPTIONS", None)
        if env_extra:
            env.update(env_extra)
        t0 = time.time()
        try:
            p = subprocess.run(cmd, cwd=work, env=env, stdout=subprocess.PIPE, stderr=subprocess.STDOUT,
                               timeout=timeout, text=True, errors="replace")
        except subprocess.TimeoutExpired as e:
            raise TLCFailure(f"TLC timeout after {timeout}s on {module}") from e
        wall = time.time() - t0
        raw = p.stdout
        res = TLCResult(ok=True, raw=raw, wall_s=wall, cmd=" ".join(cmd))
        lines = []
        for ln in raw.splitlines():
            if ln.startswith('"{') or ln.startswith('"['):
                try:
                    lines.append(json.loads(json.loads(ln)))
                except Exception as e:  # pragma: no cover
                    raise TLCFailure(f"unparsable export line: {ln[:200]}") from e
            elif coverage:
                m = _COV.match(ln)
                if m:
                    res.coverage[m.group(1)] = res.coverage.get(m.group(1), 0) + int(m.group(4))
        res.lines = lines
        for m in _STATS.finditer(raw):
            res.generated, res.distinct = int(m.group(1)), int(m.group(2))
        ms = re.search(r"The number of states generated: (\d+)", raw)
        if ms and simulate:
            res.generated = int(ms.group(1))
            mt = re.search(r"(\d+) traces generated", raw)
            res.distinct = 0  # simulation does not deduplicate; reported separately
            res.sim_traces = int(mt.group(1)) if mt else 0
        m = _DEPTH.search(raw)
        if m:
            res.depth = int(m.group(1))
        if "Error:" in raw:
            mv = re.search(r"Error: Invariant (\S+) is violated", raw)
            if mv:
                res.ok, res.violated = False, mv.group(1)
            elif re.search(r"Error: Action property (\S+)", raw):
                res.ok, res.violated = False, re.search(r"Error: Action property (\S+)", raw).group(1)
            elif "Temporal properties were violated" in raw:
                res.ok, res.violated = False, "temporal"
            elif "Deadlock reached" in raw:
                res.ok, res.violated = False, "deadlock"
            elif "Postcondition" in raw or "postcondition" in raw:
                res.ok, res.violated = False, "postcondition"
            else:
                tail = "\n".join(raw.splitlines()[-40:])
                raise TLCFailure(f"TLC error on {module}:\n{tail}")
        elif simulate is None and "Model checking completed" not in raw and p.returncode != 0:
            tail = "\n".join(raw.splitlines()[-40:])
            raise TLCFailure(f"TLC did not complete on {module} (rc={p.returncode}):\n{tail}")
        if not res.ok and not allow_violation:
            tail = "\n".join(raw.splitlines()[-60:])
            raise TLCFailure(f"design model {module} violates {res.violated}:\n{tail}")
        return res
    finally:
        if not keep:
            shutil.rmtree(work, ignore_errors=True)


def sany(path: str) -> None:
    cmd = ["java", "-cp", f"{JAR}:{DEPS}", "tla2sany.SANY", path]
    p = subprocess.run(cmd, cwd=os.path.dirname(path), stdout=subprocess.PIPE, stderr=subprocess.STDOUT, text=True)
    if p.returncode != 0 or "Semantic errors" in p.stdout or "Parse Error" in p.stdout or "Fatal errors" in p.stdout or "*** Errors" in p.stdout:
        raise TLCFailure(f"SANY failed on {path}:\n{p.stdout[-3000:]}")
