"""Regenerates MANIFEST.json from the table below (run: ./check manifest is not needed; python -m harness.manifest)."""
import json
import os

ROOT = os.path.dirname(os.path.dirname(os.path.abspath(__file__)))

BASE = ("cd /repo && /venv/bin/python -m pytest -ra -q -p no:cacheprovider --timeout=900 "
        "--continue-on-collection-errors")

def load_meta():
    """props/<id>.py declares META = dict(technique=..., level=..., note=..., ref=...[, category=...]) as a literal."""
    import ast
    import glob
    out = {}
    for path in sorted(glob.glob(os.path.join(ROOT, "props", "C[0-9][0-9].py"))):
        pid = os.path.basename(path)[:-3]
        try:
            tree = ast.parse(open(path).read())
        except SyntaxError:
            continue
        for node in tree.body:
            if isinstance(node, ast.Assign) and any(isinstance(t, ast.Name) and t.id == "META" for t in node.targets):
                try:
                    out[pid] = ast.literal_eval(node.value)
                except Exception:
                    pass
    return out


def load_na():
    try:
        return json.load(open(os.path.join(ROOT, "not_applicable.json")))
    except FileNotFoundError:
        return {}


def build():
    props = [json.loads(l)["id"] for l in open(os.path.join(ROOT, "properties.jsonl"))]
    checks, na = [], []
    META = load_meta()
    NA = load_na()
    # only checks the integrator has vetted are claimed: one property id per line in REGISTERED
    try:
        reg = {l.strip() for l in open(os.path.join(ROOT, "REGISTERED")) if l.strip() and not l.startswith("#")}
    except FileNotFoundError:
        reg = set(META)
    META = {k: v for k, v in META.items() if k in reg}
    for pid in props:
        if pid in META and pid not in NA:
            m = META[pid]
            tech, text, note, ref = m["technique"], m["level"], m["note"], m.get("ref", "DESIGN.md 6 " + pid)
            checks.append({
                "property_id": pid,
                "quick_cmd": f"./check {pid} --tier quick",
                "thorough_cmd": f"./check {pid} --tier thorough",
                "evidence_file": f"/verif/evidence/{pid}.json",
                "replay_cmd_template": f"./check {pid} --replay {{path}}",
                "engine": "tla-binding",
                "level_claimed": {"category": m.get("category", "model_checking"), "text": text, "design_ref": ref},
                "level_note": note,
                "technique": tech,
            })
        else:
            na.append({"property_id": pid, "reason": NA.get(pid, "check not built yet (planned in DESIGN.md section 6); not claimed")})
    man = {
        "version": 1,
        "setup_cmd": "./check setup",
        "hooks": {
            "guard": "REACTIVEX_RXPY_VERIF",
            "enable": "no source hooks: checks import /repo's working tree (PYTHONPATH=/repo) and observe through public API, "
                      "module-attribute patching and sys.settrace",
            "baseline_off_cmd": BASE,
            "source_commits": [],
            "add_only": True,
        },
        "engines": [
            {"name": "tla-binding", "path": "/verif/harness", "serves_properties": [c["property_id"] for c in checks],
             "kind_free_text": "TLA+ specifications under /verif/spec checked with TLC; bound to the code by replaying "
                               "TLC-exported behaviours into the library (Binding A), validating recorded traces against "
                               "trace specs (Binding B) and controlled thread schedules (Binding C)"},
        ],
        "checks": checks,
        "not_applicable": na,
        "notes": "One entry point: ./check <id> [--tier quick|thorough] [--replay path]. See DESIGN.md.",
    }
    with open(os.path.join(ROOT, "MANIFEST.json"), "w") as f:
        json.dump(man, f, indent=1)
        f.write("\n")
    return man


if __name__ == "__main__":
    m = build()
    print(len(m["checks"]), "checks;", len(m["not_applicable"]), "not claimed")
