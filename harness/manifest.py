"""Regenerates MANIFEST.json from the table below (run: ./check manifest is not needed; python -m harness.manifest)."""
import json
import os

ROOT = os.path.dirname(os.path.dirname(os.path.abspath(__file__)))

BASE = ("cd /repo && /venv/bin/python -m pytest -ra -q -p no:cacheprovider --timeout=900 "
        "--continue-on-collection-errors")

# pid -> (technique, level text, level note, design_ref)
META = {
    "C28": ("TLC-enumerated call histories of VirtualTime.tla replayed stepwise on the three real virtual-time schedulers",
            "TLC checks order/clock/advance invariants on every state of the bounded history space of VirtualTime.tla and exports "
            "every history with its allowed observations; each is performed on VirtualTimeScheduler, TestScheduler and "
            "HistoricalScheduler and the per-command clock and run log must be one the spec allows. Exhaustive up to the stated "
            "command budget, simulated beyond it.",
            "TLC 1.8; the replayer's command codec; tick = 1 s", "DESIGN.md 6 C28, D.4"),
    "C29": ("TLC liveness check of the run loop (VirtualTime.tla with the spin nudge, Spin.tla) + exported histories and at-scale same-instant batches performed on the real schedulers under a watchdog",
            "TLC checks <>[](driver returned) under weak fairness on the run-loop model with the clock nudge enabled, and on Spin.tla "
            "(n = k*limit+delta same-instant actions, self-rescheduling, restart); every exported history is performed with the spin "
            "limit patched to 1 and every Spin scenario with limits 1, 2 and the real 100 on numeric and datetime clocks; a driver "
            "call that does not return within the watchdog (confirmed by a longer retry) is a violation.",
            "TLC 1.8; watchdog = wall clock (5 s, confirmed with 20-40 s); MAX_SPINNING patched as a module attribute for the small variants", "DESIGN.md 6 C29"),
}


def build():
    props = [json.loads(l)["id"] for l in open(os.path.join(ROOT, "properties.jsonl"))]
    checks, na = [], []
    for pid in props:
        if pid in META and os.path.exists(os.path.join(ROOT, "props", pid + ".py")):
            tech, text, note, ref = META[pid]
            checks.append({
                "property_id": pid,
                "quick_cmd": f"./check {pid} --tier quick",
                "thorough_cmd": f"./check {pid} --tier thorough",
                "evidence_file": f"/verif/evidence/{pid}.json",
                "replay_cmd_template": f"./check {pid} --replay {{path}}",
                "engine": "tla-binding",
                "level_claimed": {"category": "model_checking", "text": text, "design_ref": ref},
                "level_note": note,
                "technique": tech,
            })
        else:
            na.append({"property_id": pid, "reason": "check not built yet in this round (planned in DESIGN.md section 6); not claimed"})
    man = {
        "version": 1,
        "setup_cmd": "./check setup",
        "hooks": {
            "guard": "REACTIVEX_RXPY_VERIF",
            "enable": "no source hooks: checks import /repo's working tree (PYTHONPATH=/repo) and observe through public API, "
                      "module-attribute patching and sys.settrace",
            "baseline_off_cmd": BASE,
            "source_commits": [],
            "add_only": True,
        },
        "engines": [
            {"name": "tla-binding", "path": "/verif/harness", "serves_properties": [c["property_id"] for c in checks],
             "kind_free_text": "TLA+ specifications under /verif/spec checked with TLC; bound to the code by replaying "
                               "TLC-exported behaviours into the library (Binding A), validating recorded traces against "
                               "trace specs (Binding B) and controlled thread schedules (Binding C)"},
        ],
        "checks": checks,
        "not_applicable": na,
        "notes": "One entry point: ./check <id> [--tier quick|thorough] [--replay path]. See DESIGN.md.",
    }
    with open(os.path.join(ROOT, "MANIFEST.json"), "w") as f:
        json.dump(man, f, indent=1)
        f.write("\n")
    return man


if __name__ == "__main__":
    m = build()
    print(len(m["checks"]), "checks;", len(m["not_applicable"]), "not claimed")
