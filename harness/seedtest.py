"""Apply a seeded change to /repo, run the named checks, undo it. Usage:
   python -m harness.seedtest <patch.diff> <pid> [<pid>...]   (run from /verif)"""
import subprocess
import sys


def main():
    patch, pids = sys.argv[1], sys.argv[2:]
    st = subprocess.run(["git", "-C", "/repo", "status", "--porcelain", "--untracked-files=no"], capture_output=True, text=True).stdout
    if st.strip():
        print("refusing: /repo has local modifications")
        return 2
    r = subprocess.run(["git", "-C", "/repo", "apply", patch])
    if r.returncode != 0:
        print("patch does not apply")
        return 2
    try:
        for pid in pids:
            p = subprocess.run(["./check", pid, "--tier", "quick"], capture_output=True, text=True)
            lines = p.stdout.splitlines()
            viol = [l for l in lines if l.startswith("VIOLATION")]
            print(f"{pid}: exit={p.returncode} violations={len(viol)} :: {lines[-1] if lines else ''}")
            if viol:
                i = lines.index(viol[0])
                print("   ", (lines[i + 1] if i + 1 < len(lines) else "")[:600])
            if p.returncode == 2:
                print("\n".join(lines[-15:]), p.stderr[-1500:])
    finally:
        subprocess.run(["git", "-C", "/repo", "checkout", "--", "."])
        subprocess.run(["git", "-C", "/verif", "checkout", "--", "evidence"], capture_output=True)
    return 0


if __name__ == "__main__":
    sys.exit(main())
