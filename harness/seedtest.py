"""Judge a seeded change without touching /repo: make a scratch worktree of /repo's HEAD, apply the
patch there, run the named quick checks with VERIF_REPO pointing at it (evidence and replays go
to a scratch directory), remove the worktree.
Usage:  python -m harness.seedtest <patch.diff> <pid> [<pid>...]     (run from /verif)
        python -m harness.seedtest --all          every seeded/<name>/ against the properties in its meta.json
Exit 0 when every named check reported a VIOLATION (exit 1) for the change."""
import json
import os
import shutil
import subprocess
import sys
import tempfile

ROOT = os.path.dirname(os.path.dirname(os.path.abspath(__file__)))


def sh(cmd, cwd=None, env=None, timeout=3600):
    p = subprocess.run(cmd, cwd=cwd, env=env, capture_output=True, text=True, timeout=timeout)
    return p.returncode, p.stdout + p.stderr


def judge(patch, pids, tier="quick", verbose=True):
    wt = tempfile.mkdtemp(prefix="seedwt_")
    os.rmdir(wt)
    scratch = tempfile.mkdtemp(prefix="seedev_")
    rc, out = sh(["git", "-C", "/repo", "worktree", "add", "-q", "--detach", wt, "HEAD"])
    if rc != 0:
        print("cannot create worktree:", out)
        return None
    res = {}
    try:
        rc, out = sh(["git", "apply", os.path.abspath(patch)], cwd=wt)
        if rc != 0:
            print("patch does not apply:", out[-500:])
            return None
        env = dict(os.environ, VERIF_REPO=wt, VERIF_EVIDENCE_DIR=os.path.join(scratch, "ev"),
                   VERIF_REPLAY_DIR=os.path.join(scratch, "rp"))
        for pid in pids:
            rc, out = sh([os.path.join(ROOT, "check"), pid, "--tier", tier], cwd=ROOT, env=env)
            lines = out.splitlines()
            viol = [l for l in lines if l.startswith("VIOLATION")]
            res[pid] = {"exit": rc, "violation_lines": len(viol)}
            if verbose:
                summ = [l for l in lines if l.startswith("[" + pid + "]")]
                print(f"{pid}: exit={rc} violations={len(viol)} :: {summ[-1] if summ else (lines[-1] if lines else '')}")
                if viol:
                    i = lines.index(viol[0])
                    print("   ", (lines[i + 1] if i + 1 < len(lines) else "")[:500])
                if rc == 2:
                    print("\n".join(lines[-15:]))
    finally:
        sh(["git", "-C", "/repo", "worktree", "remove", "--force", wt])
        shutil.rmtree(wt, ignore_errors=True)
        shutil.rmtree(scratch, ignore_errors=True)
        sh(["git", "-C", "/repo", "worktree", "prune"])
    return res


def update(name, pids):
    """re-judge a kept seeded change and record the result in its meta.json"""
    d = os.path.join(ROOT, "seeded", name)
    meta = json.load(open(os.path.join(d, "meta.json")))
    res = judge(os.path.join(d, "patch.diff"), pids)
    if res is None:
        return 2
    meta.setdefault("check_results", {}).update(res)
    meta["detected_by"] = sorted(p for p, r in meta["check_results"].items() if r["exit"] == 1)
    meta.setdefault("ran", []).extend(f"./check {p} --tier quick with change (re-judged): exit {r['exit']}, {r['violation_lines']} VIOLATION lines"
                                      for p, r in res.items())
    json.dump(meta, open(os.path.join(d, "meta.json"), "w"), indent=1)
    return 0


def main():
    if sys.argv[1] == "--update":
        return update(sys.argv[2], sys.argv[3:])
    if sys.argv[1] == "--all":
        bad = 0
        for name in sorted(os.listdir(os.path.join(ROOT, "seeded"))):
            d = os.path.join(ROOT, "seeded", name)
            try:
                meta = json.load(open(os.path.join(d, "meta.json")))
            except FileNotFoundError:
                continue
            pids = meta.get("detected_by") or [meta["breaks_property"]]
            res = judge(os.path.join(d, "patch.diff"), pids, verbose=False)
            ok = res is not None and any(r["exit"] == 1 for r in res.values())
            print(f"{name}: {'caught' if ok else 'MISSED'} {res}")
            bad += 0 if ok else 1
        return 1 if bad else 0
    patch, pids = sys.argv[1], sys.argv[2:]
    res = judge(patch, pids)
    if res is None:
        return 2
    return 0 if all(r["exit"] == 1 for r in res.values()) else 1


if __name__ == "__main__":
    sys.exit(main())
