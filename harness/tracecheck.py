"""Binding B: validate a batch of recorded traces against a <Module>Trace.tla with TLC.

The trace module must define: Traces == JsonDeserialize(IOEnv.TRACE_FILE), variables tid and l,
TInit/TNext, a state predicate `Track` (updates TLC register tid with the furthest l) and the
POSTCONDITION `Post` printing <<"REJECTED", j, furthest>> for every trace that did not reach its
end.  Invariants are conjoined *before* Track in the constraint, so a state that violates one
is neither counted nor extended: a trace is accepted iff some behaviour of the specification
that satisfies every invariant in every state explains all of its events.
"""
from __future__ import annotations

import json
import os
import re
import tempfile
from typing import Any, Dict, List, Optional, Sequence, Tuple

from harness import tlc

_REJ = re.compile(r'<<"REJECTED", (\d+), (\d+)>>')


def validate(module: str, consts: Dict[str, Any], traces: Sequence[Any], invariants: Sequence[str] = (),
             timeout: int = 600, chunk: int = 1500, dfs: bool = True, extra_constraint: Optional[str] = None,
             init: str = "TInit", next_: str = "TNext") -> Tuple[List[Tuple[int, int]], List[tlc.TLCResult]]:
    """Returns ([(trace index (0-based), furthest event index reached (0-based = number of events consumed))], results).
    An empty list means every trace was accepted."""
    rejected: List[Tuple[int, int]] = []
    results = []
    # the constraint is a definition in a tiny wrapper module so that the invariants are evaluated before Track
    for base in range(0, len(traces), chunk):
        part = list(traces[base:base + chunk])
        if not part:
            continue
        work = tempfile.mkdtemp(prefix="vtrace_")
        try:
            path = os.path.join(work, "traces.json")
            with open(path, "w") as f:
                json.dump(part, f)
            wrapper = f"{module}_W"
            conj = " /\\ ".join(list(invariants) + ([extra_constraint] if extra_constraint else []) + ["Track"])
            with open(os.path.join(work, wrapper + ".tla"), "w") as f:
                f.write(f"---- MODULE {wrapper} ----\nEXTENDS {module}\nTrackOK == {conj}\n====\n")
            # the wrapper extends the module in spec/: copy the needed modules next to it
            for fn in os.listdir(tlc.SPEC_DIR):
                if fn.endswith(".tla"):
                    os.symlink(os.path.join(tlc.SPEC_DIR, fn), os.path.join(work, fn))
            c = dict(consts)
            c["NTraces"] = len(part)
            cfg = tlc.cfg_text(c, init=init, next_=next_, constraints=["TrackOK"], postcondition="Post", deadlock=False)
            res = tlc.run(wrapper, cfg, workers=1, timeout=timeout, env_extra={"TRACE_FILE": path}, dfs=dfs,
                          spec_dir=work, allow_violation=True)
            results.append(res)
            for m in _REJ.finditer(res.raw):
                rejected.append((base + int(m.group(1)) - 1, int(m.group(2)) - 1))
            if not res.ok and res.violated != "postcondition":
                raise tlc.TLCFailure(f"trace validation of {module} failed: {res.violated}\n" + "\n".join(res.raw.splitlines()[-30:]))
        finally:
            import shutil
            shutil.rmtree(work, ignore_errors=True)
    return rejected, results


def dedupe(traces: Sequence[Any]) -> Tuple[List[Any], List[int]]:
    """Distinct traces and their multiplicities (controlled schedules often repeat a trace)."""
    seen: Dict[str, int] = {}
    out: List[Any] = []
    mult: List[int] = []
    for t in traces:
        k = json.dumps(t, sort_keys=True)
        i = seen.get(k)
        if i is None:
            seen[k] = len(out)
            out.append(t)
            mult.append(1)
        else:
            mult[i] += 1
    return out, mult
