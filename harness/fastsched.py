"""FastDetSched - DetSched with the controller run inline by the thread that holds the baton.

`detsched.DetSched` hands control back to a controller thread at every switch point (two OS context
switches per traced line).  On an oversubscribed box that costs 0.3-1 ms per switch point.  This
subclass makes exactly the same decisions in exactly the same order (same `choose` calls, same
`decisions` list, same clock rule, same step accounting - `Explorer` works unchanged), but the
decision is computed by the logical thread that reached the switch point; a real context switch
happens only when a *different* thread is picked.  The controller thread sleeps until the run ends.

Nothing in detsched.py / shims.py is changed; `run_execution` below is `shims.run_execution` with the
class replaced.  Equivalence with DetSched (same schedules -> same traces) is asserted by
`python -m harness.fastsched` on a small EventLoopScheduler scenario.
"""
from __future__ import annotations

import sys
from typing import Callable, List, Optional, Sequence

from harness import detsched, shims
from harness.detsched import Abort, LThread, _real_get_ident, _real_Thread


class _Carrier:
    """a parked real thread that carries one logical thread at a time (thread creation costs 5-12 ms on this box)"""

    def __init__(self):
        self.sem = detsched._real_Semaphore(0)
        self.job = None
        self.thread = _real_Thread(target=self._loop, name="carrier", daemon=True)
        self.thread.start()

    def _loop(self):
        while True:
            self.sem.acquire()
            job, self.job = self.job, None
            try:
                job()
            finally:
                _IDLE.append(self)


_IDLE: List["_Carrier"] = []
_POOL_PID = [0]


def _carrier() -> "_Carrier":
    import os
    if _POOL_PID[0] != os.getpid():      # carriers do not survive fork()
        del _IDLE[:]
        _POOL_PID[0] = os.getpid()
    return _IDLE.pop() if _IDLE else _Carrier()


class FastDetSched(detsched.DetSched):
    """reuse_threads=True: logical threads run on pooled real threads.  Thread-local state then survives from one
    execution to the next - only for code under test that keeps none (the thread-based schedulers do not)."""

    def __init__(self, *a, reuse_threads: bool = False, **k):
        super().__init__(*a, **k)
        self._cur = -1
        self._ended = False
        self.reuse_threads = reuse_threads

    # ---- the decision, run by whoever holds the baton (mirrors DetSched.run, one iteration) -------------
    def _pick(self) -> Optional[LThread]:
        """next thread to run, or None when the run is over (quiescence / deadlock / step limit)"""
        while True:
            live = [t for t in self.threads if t.started and not t.done]
            if not any(not t.daemon_like for t in live):
                en = [t.index for t in live if t.enabled()]
                if not en:
                    return None
            en = [t.index for t in live if t.enabled()]
            if not en:
                waits = [t.deadline for t in live if t.deadline is not None]
                if waits:
                    self.clock = max(self.clock, min(waits))
                    continue
                self.deadlocked = True
                return None
            self.steps += 1
            if self.steps > self.max_steps:
                self.step_limit_hit = True
                return None
            cur = self._cur
            cur_enabled = cur in en
            can_preempt = cur_enabled and self.threads[cur].realisable
            if len(en) == 1:
                pick = en[0]
            elif cur_enabled and not can_preempt:
                pick = cur
            else:
                pick = self.choose(en, cur if cur_enabled else -1, can_preempt)
                self.decisions.append((tuple(en), pick, cur if cur_enabled else -1, can_preempt))
            self._cur = pick
            return self.threads[pick]

    def _handoff(self, t: Optional[LThread]) -> None:
        """called by the thread giving up the baton (t is that thread, or None for a finished thread)"""
        nxt = self._pick()
        if nxt is None:
            self._ended = True
            self.ctrl.release()          # wake the controller: the run is over
            return
        self.current = nxt
        nxt.sem.release()

    # ---- switch points ------------------------------------------------------------------------------------
    def switch_point(self, realisable: bool = True) -> None:
        t = self.me()
        if t is None or t is not self.current:
            return
        if self.aborting:
            raise Abort()
        t.realisable = realisable
        nxt = self._pick()
        if nxt is t:
            return
        if nxt is None:
            self._ended = True
            self.ctrl.release()
        else:
            self.current = nxt
            nxt.sem.release()
        t.sem.acquire()
        if self.aborting:
            raise Abort()

    def block(self, pred: Callable[[], bool], deadline: Optional[float] = None, what: str = "") -> bool:
        t = self.me()
        if t is None:
            raise RuntimeError("block() outside a logical thread")
        if self.aborting:
            raise Abort()
        t.pred, t.deadline, t.waiting_on = pred, deadline, what
        t.realisable = True
        nxt = self._pick()
        if nxt is not t:
            if nxt is None:
                self._ended = True
                self.ctrl.release()
            else:
                self.current = nxt
                nxt.sem.release()
            t.sem.acquire()
        ok = pred()
        t.pred, t.deadline, t.waiting_on = None, None, ""
        if self.aborting:
            raise Abort()
        return ok

    # ---- threads --------------------------------------------------------------------------------------------
    def start_thread(self, t: LThread) -> None:
        if t.started:
            return
        t.started = True

        def boot():
            t.ident = _real_get_ident()
            self.by_ident[t.ident] = t
            t.sem.acquire()
            try:
                if self.aborting:
                    raise Abort()
                sys.settrace(self._tracer_for(t))
                try:
                    t.fn()
                finally:
                    sys.settrace(None)
            except Abort:
                pass
            except BaseException as e:  # noqa: BLE001 - recorded, reported by the caller
                t.exc = e
            finally:
                t.done = True
                if self.aborting:
                    self.ctrl.release()
                else:
                    self._handoff(None)

        if self.reuse_threads:
            c = _carrier()
            c.job = boot
            c.sem.release()
        else:
            t.real = _real_Thread(target=boot, name=t.name, daemon=True)
            t.real.start()

    # ---- the controller ---------------------------------------------------------------------------------------
    def run(self) -> None:
        first = self._pick()
        if first is not None:
            self.current = first
            first.sem.release()
            self.ctrl.acquire()          # until some thread reports the end of the run
        self.teardown()


def run_execution(build, choose, focus, max_steps=20000, granularity="gil", reuse_threads: bool = False) -> FastDetSched:
    """shims.run_execution with FastDetSched"""
    ds = FastDetSched(choose, focus=focus, max_steps=max_steps, granularity=granularity, reuse_threads=reuse_threads)
    shims.CUR = ds
    shims.Thread._n = 0
    try:
        build(ds)
        ds.run()
    finally:
        shims.CUR = None
    return ds


class LevelExplorer:
    """Preemption-bounded stateless exploration, level by level: level k = schedules that deviate from the
    default (non-preemptive, lowest index) schedule at k decisions.  `detsched.Explorer` is depth-first, so a cap
    on the number of schedules leaves only deviations near the END of an execution; here each level that exceeds
    its budget is subsampled evenly over the whole execution (deterministically), which spreads a small budget
    over early and late races alike.  Then seeded random schedules, as Explorer.  Same `run_one(choose)` protocol,
    same preemption accounting (a switch away from an enabled current thread costs 1, any other choice is free)."""

    def __init__(self, bound: int = 2, per_level: Sequence[int] = (1, 60, 60, 30), random_schedules: int = 0, seed: int = 0):
        self.bound = bound
        self.per_level = tuple(per_level)
        self.random_schedules = random_schedules
        self.seed = seed
        self.executed = 0
        self.truncated = False
        self.level_sizes: List[int] = []

    @staticmethod
    def _chooser(prefix):
        pos = [0]

        def choose(en, cur, can_preempt):
            i = pos[0]
            pos[0] += 1
            if i < len(prefix) and prefix[i] in en:
                return prefix[i]
            return cur if cur in en else en[0]
        return choose

    def explore(self, run_one):
        import random as _random
        level: List[List[int]] = [[]]
        seen = set()
        for depth, budget in enumerate(self.per_level):
            if not level:
                break
            self.level_sizes.append(len(level))
            if len(level) > budget:
                self.truncated = True
                step = len(level) / float(budget)
                off = (self.seed % 7) / 7.0
                idx = sorted({min(len(level) - 1, int((k + off) * step)) for k in range(budget)})
                chosen = [level[i] for i in idx]
            else:
                chosen = level
            nxt: List[List[int]] = []
            for prefix in chosen:
                ds = run_one(self._chooser(prefix))
                self.executed += 1
                yield ds
                dec = ds.decisions
                pre = 0
                counts = []
                for (en, pick, cur, can) in dec:
                    if cur != -1 and pick != cur:
                        pre += 1
                    counts.append(pre)
                for i in range(len(prefix), len(dec)):
                    en, pick, cur, can = dec[i]
                    before = counts[i - 1] if i > 0 else 0
                    for alt in en:
                        if alt == pick:
                            continue
                        cost = 1 if (cur != -1 and alt != cur) else 0
                        if before + cost > self.bound:
                            continue
                        child = [d[1] for d in dec[:i]] + [alt]
                        key = tuple(child)
                        if key in seen:
                            continue
                        seen.add(key)
                        nxt.append(child)
            level = nxt
        rnd = _random.Random(self.seed)
        for _ in range(self.random_schedules):
            def choose(en, cur, can_preempt):
                if cur in en and rnd.random() < 0.7:
                    return cur
                return rnd.choice(en)
            ds = run_one(choose)
            self.executed += 1
            yield ds


# ---- self-test: same decisions, same traces as DetSched ------------------------------------------------------
def _selftest(n: int = 150) -> int:
    import json
    import time

    focus = ("reactivex/scheduler/eventloopscheduler.py",)

    def make(runner):
        def run_one(choose):
            def build(ds):
                from reactivex.scheduler import EventLoopScheduler
                S = EventLoopScheduler(thread_factory=lambda target: shims.Thread(target=target, daemon=True), exit_if_empty=True)

                def act(i):
                    return lambda s, st: ds.log(e="run", item=i, t=ds.clock)

                def t1():
                    S.schedule_relative(2, act(1))
                    S.schedule(act(2))

                def t2():
                    d = S.schedule(act(3))
                    d.dispose()
                ds.spawn("T1", t1)
                ds.spawn("T2", t2)
                ds.spawn("TK", lambda: shims.sleep(5))
            return runner(build, choose, focus, 5000)
        return run_one

    ext = {"reactivex.scheduler.eventloopscheduler": {"threading": shims.threading_ns},
           "reactivex.scheduler.scheduler": {"default_now": shims.now}}
    out = []
    with shims.patched(extra=ext):
        def reuse(build, choose, focus, max_steps):
            return run_execution(build, choose, focus, max_steps, reuse_threads=True)
        for runner in (shims.run_execution, run_execution, reuse):
            t0 = time.time()
            ex = detsched.Explorer(bound=2, max_schedules=n, random_schedules=20, seed=1)
            rows = [(json.dumps(ds.trace), ds.decisions, ds.steps, ds.clock) for ds in ex.explore(make(runner))]
            out.append((rows, time.time() - t0))
    same = out[0][0] == out[1][0] == out[2][0]
    print(f"DetSched {out[0][1]:.2f}s  FastDetSched {out[1][1]:.2f}s  with pooled threads {out[2][1]:.2f}s  "
          f"executions {len(out[0][0])}  identical={same}")
    return 0 if same else 1


if __name__ == "__main__":
    sys.exit(_selftest())
