"""Confirm a seeded change in a scratch worktree (suite passes with it, demo fails with it and
passes without), run the named checks against it in /repo (apply, run, undo), and keep it under
/verif/seeded/<name>/.   Usage: python -m harness.seedkeep <dir with patch.diff demo.py notes.md> <name> <breaks-pid> <needs text> <pid>..."""
import json
import os
import shutil
import subprocess
import sys
import tempfile

PY = "/venv/bin/python"


def sh(cmd, cwd=None, timeout=1800):
    env = dict(os.environ)
    if cwd:
        env["PYTHONPATH"] = cwd      # the scratch worktree, not the editable install of /repo
    p = subprocess.run(cmd, cwd=cwd, capture_output=True, text=True, timeout=timeout, env=env)
    return p.returncode, p.stdout + p.stderr


def main():
    src, name, breaks, needs, pids = sys.argv[1], sys.argv[2], sys.argv[3], sys.argv[4], sys.argv[5:]
    patch = os.path.join(src, "patch.diff")
    wt = tempfile.mkdtemp(prefix="seedwt_")
    os.rmdir(wt)
    ran = []
    rc, out = sh(["git", "-C", "/repo", "worktree", "add", "-q", "--detach", wt, "HEAD"])
    assert rc == 0, out
    try:
        os.makedirs(os.path.join(wt, "MUTATION", "x"))
        shutil.copy(os.path.join(src, "demo.py"), os.path.join(wt, "MUTATION", "x", "demo.py"))
        rc0, out0 = sh([PY, "MUTATION/x/demo.py"], cwd=wt, timeout=300)
        ran.append(f"demo on unchanged tree: exit {rc0}")
        rc, out = sh(["git", "apply", patch], cwd=wt)
        if rc != 0:
            print("patch does not apply to current HEAD:", out)
            return 2
        rc1, out1 = sh([PY, "MUTATION/x/demo.py"], cwd=wt, timeout=300)
        ran.append(f"demo with change: exit {rc1}")
        rct, outt = sh([PY, "-m", "pytest", "-q", "-p", "no:cacheprovider", "--timeout=900", "-n", "8"], cwd=wt)
        tail = outt.strip().splitlines()[-1] if outt.strip() else ""
        ran.append(f"test suite with change: {tail}")
        if rct != 0:
            # wall-clock tests fail spuriously on a loaded machine: rerun the failed ones alone
            failed = [l.split()[1] for l in outt.splitlines() if l.startswith("FAILED ")]
            if failed and len(failed) <= 6:
                rc2, out2 = sh([PY, "-m", "pytest", "-q", "-p", "no:cacheprovider", "--timeout=900", *failed], cwd=wt)
                t2 = out2.strip().splitlines()[-1] if out2.strip() else ""
                ran.append(f"failed tests rerun alone ({', '.join(failed)}): {t2}")
                if rc2 == 0:
                    rct = 0
                    tail += " (load-sensitive failures pass when rerun alone)"
        ok = rc0 == 0 and rc1 != 0 and rct == 0
        print(f"confirm: demo_clean={rc0} demo_mutant={rc1} suite={tail} -> {'OK' if ok else 'REJECTED'}")
        if not ok:
            return 1
    finally:
        sh(["git", "-C", "/repo", "worktree", "remove", "--force", wt])
        shutil.rmtree(wt, ignore_errors=True)
    # run the checks against it (scratch worktree + VERIF_REPO; /repo itself is not touched)
    from harness import seedtest
    results = seedtest.judge(patch, pids) or {}
    for pid, r in results.items():
        ran.append(f"./check {pid} --tier quick with change (VERIF_REPO=scratch worktree): exit {r['exit']}, {r['violation_lines']} VIOLATION lines")
    dst = os.path.join("/verif/seeded", name)
    os.makedirs(dst, exist_ok=True)
    for f in ("patch.diff", "demo.py", "notes.md"):
        if os.path.exists(os.path.join(src, f)):
            shutil.copy(os.path.join(src, f), os.path.join(dst, f))
    meta = {"breaks_property": breaks, "needs_to_manifest": needs, "ran": ran, "check_results": results,
            "detected_by": [p for p, r in results.items() if r["exit"] == 1],
            "base_commit": sh(["git", "-C", "/repo", "log", "--format=%h", "-1"])[1].strip()}
    with open(os.path.join(dst, "meta.json"), "w") as f:
        json.dump(meta, f, indent=1)
    return 0


if __name__ == "__main__":
    sys.exit(main())
