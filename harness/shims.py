"""Cooperative replacements for threading primitives, patched into the *module namespaces* of
the code under test (DESIGN Appendix B).  Every operation is a switch point of the current
DetSched; blocking is a predicate the controller evaluates.  Outside a logical thread (set-up
code on the main thread, CUR is None) the shims behave like uncontended primitives."""
from __future__ import annotations

import contextlib
import importlib
import threading as _th
from datetime import datetime, timedelta, timezone
from typing import Any, Callable, Dict, List, Optional

from harness import detsched

CUR: Optional[detsched.DetSched] = None       # the execution in progress
EPOCH = datetime(2020, 1, 1, tzinfo=timezone.utc)


def _me():
    return CUR.me() if CUR is not None else None


def _sp():
    if CUR is not None and CUR.me() is not None:
        CUR.switch_point(True)


class Lock:
    reentrant = False

    def __init__(self):
        self.owner = None
        self.depth = 0
        self.contended = 0

    def acquire(self, blocking: bool = True, timeout: float = -1):
        me = _me()
        if me is None:
            self.owner, self.depth = "main", self.depth + 1
            return True
        _sp()
        if self.owner is me and self.reentrant:
            self.depth += 1
            return True
        if self.owner is me and not self.reentrant:
            # self-deadlock on a non-reentrant lock: block forever (the controller reports the deadlock)
            CUR.block(lambda: False, what="self-deadlock")
        if self.owner is not None:
            if not blocking:
                return False
            self.contended += 1
            deadline = None if timeout is None or timeout < 0 else CUR.clock + timeout
            ok = CUR.block(lambda: self.owner is None, deadline, what="lock")
            if not ok:
                return False
        self.owner, self.depth = me, 1
        return True

    def release(self):
        me = _me()
        if me is None:
            self.depth -= 1
            if self.depth <= 0:
                self.owner, self.depth = None, 0
            return
        if self.owner is not me:
            raise RuntimeError("release of a lock the thread does not own")
        self.depth -= 1
        if self.depth == 0:
            self.owner = None
        _sp()

    def locked(self):
        return self.owner is not None

    def __enter__(self):
        self.acquire()
        return self

    def __exit__(self, *a):
        self.release()

    # used by Condition
    def _release_all(self):
        d, self.depth, self.owner = self.depth, 0, None
        return d

    def _reacquire(self, me, d):
        if self.owner is not None:
            CUR.block(lambda: self.owner is None, what="relock")
        self.owner, self.depth = me, d


class RLock(Lock):
    reentrant = True


class Condition:
    def __init__(self, lock=None):
        self.lock = lock if lock is not None else RLock()
        self.waiters: List[Dict[str, Any]] = []
        self.acquire = self.lock.acquire
        self.release = self.lock.release

    def __enter__(self):
        self.lock.acquire()
        return self

    def __exit__(self, *a):
        self.lock.release()

    def wait(self, timeout: Optional[float] = None):
        me = _me()
        if me is None:
            raise RuntimeError("Condition.wait on the set-up thread")
        if self.lock.owner is not me:
            raise RuntimeError("cannot wait on un-acquired lock")
        w = {"notified": False}
        self.waiters.append(w)
        d = self.lock._release_all()
        deadline = None if timeout is None else CUR.clock + max(0.0, float(timeout))
        ok = CUR.block(lambda: w["notified"], deadline, what="cond")
        if not ok and w in self.waiters:
            self.waiters.remove(w)
        self.lock._reacquire(me, d)
        return ok

    def wait_for(self, predicate, timeout=None):
        end = None if timeout is None else CUR.clock + timeout
        r = predicate()
        while not r:
            left = None if end is None else end - CUR.clock
            if left is not None and left <= 0:
                break
            self.wait(left)
            r = predicate()
        return r

    def notify(self, n: int = 1):
        for w in self.waiters[:n]:
            w["notified"] = True
        del self.waiters[:n]
        _sp()

    def notify_all(self):
        self.notify(len(self.waiters))


class Event:
    def __init__(self):
        self.flag = False

    def is_set(self):
        return self.flag

    def set(self):
        self.flag = True
        _sp()

    def clear(self):
        self.flag = False

    def wait(self, timeout: Optional[float] = None):
        me = _me()
        if me is None:
            return self.flag
        _sp()
        if self.flag:
            return True
        deadline = None if timeout is None else CUR.clock + max(0.0, float(timeout))
        return CUR.block(lambda: self.flag, deadline, what="event")


class Thread:
    """threading.Thread look-alike whose body runs as a DetSched logical thread."""
    _n = 0

    def __init__(self, group=None, target=None, name=None, args=(), kwargs=None, daemon=None):
        Thread._n += 1
        self.target, self.args, self.kwargs = target, args, kwargs or {}
        self.name = name or f"shim-{Thread._n}"
        self.daemon = bool(daemon)
        self.lt: Optional[detsched.LThread] = None
        self.ident = None

    def run(self):
        if self.target:
            self.target(*self.args, **self.kwargs)

    def start(self):
        if CUR is None:
            raise RuntimeError("shim Thread started outside an execution")
        n = sum(1 for t in CUR.threads if t.name.startswith("W"))
        self.lt = CUR.spawn(f"W{n + 1}", self.run, daemon_like=self.daemon)
        _sp()

    def is_alive(self):
        return self.lt is not None and not self.lt.done

    def join(self, timeout=None):
        if self.lt is None:
            return
        deadline = None if timeout is None else CUR.clock + timeout
        CUR.block(lambda: self.lt.done, deadline, what="join")


class Timer(Thread):
    def __init__(self, interval, function, args=None, kwargs=None):
        super().__init__()
        self.interval, self.function = float(interval), function
        self.fargs, self.fkwargs = args or (), kwargs or {}
        self.finished = Event()
        self.daemon = True

    def cancel(self):
        self.finished.set()

    def run(self):
        self.finished.wait(self.interval)
        if not self.finished.is_set():
            self.function(*self.fargs, **self.fkwargs)
        self.finished.flag = True


class _ThreadingNS:
    """stands in for the `threading` module inside a patched module"""
    Lock = Lock
    RLock = RLock
    Condition = Condition
    Event = Event
    Thread = Thread
    Timer = Timer
    local = _th.local
    current_thread = staticmethod(_th.current_thread)
    get_ident = staticmethod(_th.get_ident)
    main_thread = staticmethod(_th.main_thread)

    @staticmethod
    def Semaphore(*a, **k):  # pragma: no cover - not used by the anchored modules
        raise NotImplementedError


threading_ns = _ThreadingNS()


def now():
    """controlled clock as the aware-UTC datetime `default_now` would return"""
    return EPOCH + timedelta(seconds=CUR.clock if CUR is not None else 0.0)


def sleep(seconds: float):
    if CUR is not None and CUR.me() is not None:
        CUR.sleep_until(CUR.clock + max(0.0, seconds))


# ---- patching ------------------------------------------------------------------------------------
PATCHES = {
    # module: {attribute: replacement}
    "reactivex.disposable.disposable": {"RLock": RLock},
    "reactivex.disposable.booleandisposable": {"RLock": RLock},
    "reactivex.disposable.compositedisposable": {"RLock": RLock},
    "reactivex.disposable.serialdisposable": {"RLock": RLock},
    "reactivex.disposable.singleassignmentdisposable": {"RLock": RLock},
    "reactivex.disposable.multipleassignmentdisposable": {"RLock": RLock},
    "reactivex.disposable.refcountdisposable": {"RLock": RLock},
    "reactivex.disposable.scheduleddisposable": {"RLock": RLock},
}


@contextlib.contextmanager
def patched(extra: Optional[Dict[str, Dict[str, Any]]] = None, only: Optional[List[str]] = None):
    """Patch module attributes for the duration of the block (set-up, runs and tear-down of one scenario family)."""
    table = dict(PATCHES)
    if extra:
        for m, d in extra.items():
            table[m] = {**table.get(m, {}), **d}
    saved = []
    try:
        for m, d in table.items():
            if only is not None and m not in only:
                continue
            mod = importlib.import_module(m)
            for k, v in d.items():
                saved.append((mod, k, getattr(mod, k)))
                setattr(mod, k, v)
        yield
    finally:
        for mod, k, v in reversed(saved):
            setattr(mod, k, v)


def run_execution(build: Callable[[detsched.DetSched], None], choose, focus, max_steps=20000, granularity="gil") -> detsched.DetSched:
    """Create a DetSched, let `build(ds)` construct the objects and spawn the logical threads, run it."""
    global CUR
    ds = detsched.DetSched(choose, focus=focus, max_steps=max_steps, granularity=granularity)
    CUR = ds
    Thread._n = 0
    try:
        build(ds)
        ds.run()
    finally:
        CUR = None
    return ds
