"""Markdown table of the seeded changes kept under /verif/seeded (python -m harness.seeded_table)."""
import json
import os

ROOT = os.path.dirname(os.path.dirname(os.path.abspath(__file__)))


def main():
    rows = []
    for name in sorted(os.listdir(os.path.join(ROOT, "seeded"))):
        p = os.path.join(ROOT, "seeded", name, "meta.json")
        if not os.path.exists(p):
            continue
        m = json.load(open(p))
        res = m.get("check_results", {})
        caught = sorted(k for k, v in res.items() if v["exit"] == 1)
        missed = sorted(k for k, v in res.items() if v["exit"] == 0)
        if m.get("obsolete"):
            name += " (obsolete)"
        if m.get("language_level_only"):
            name += " (language level only)"
        rows.append((name, m.get("breaks_property", "?"), m.get("needs_to_manifest", "")[:160].replace("|", "/"),
                     ", ".join(caught) or "-", ", ".join(missed) or "-"))
    print("| seeded change | breaks | needs to manifest | caught by (quick) | run but silent |")
    print("|---|---|---|---|---|")
    for r in rows:
        print("| " + " | ".join(r) + " |")
    n = len(rows)
    own = sum(1 for r in rows if r[1] in r[3].split(", "))
    anyc = sum(1 for r in rows if r[3] != "-")
    print(f"\n{n} seeded changes; {own} caught by the check of the property they break, {anyc} caught by at least one check.")


if __name__ == "__main__":
    main()
