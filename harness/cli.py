from __future__ import annotations

import argparse
import importlib
import json
import os
import sys
import traceback


def main() -> int:
    ap = argparse.ArgumentParser()
    ap.add_argument("pid")
    ap.add_argument("--tier", default=os.environ.get("VERIF_TIER", "quick"), choices=["quick", "thorough"])
    ap.add_argument("--replay", default=None)
    a = ap.parse_args()
    if a.pid == "setup":
        from harness import setup
        return setup.main()
    if a.pid == "selftest":
        from harness import selftest
        return selftest.main(a.tier)
    try:
        mod = importlib.import_module("props." + a.pid)
    except ModuleNotFoundError:
        print(f"no check registered for {a.pid}")
        return 2
    try:
        if a.replay:
            with open(a.replay) as f:
                rec = json.load(f)
            return mod.replay(rec)
        return mod.run(a.tier)
    except SystemExit:
        raise
    except BaseException:
        traceback.print_exc()
        print(f"[{a.pid}] machinery failure (exit 2)")
        return 2


if __name__ == "__main__":
    sys.exit(main())
