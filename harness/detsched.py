"""DetSched - deterministic scheduling of real threads (Binding C).

Logical threads are real `threading.Thread`s (so thread-locals, current_thread() and the
per-thread trampoline behave as in production), each gated by its own semaphore; exactly one
runs at a time.  Switch points are (a) `sys.settrace` line events inside a focus set of files
and (b) every operation of the cooperative shims (Lock/RLock/Condition/Event/Timer/sleep) that
the harness patches into the modules under test.  Blocking is cooperative: a blocked thread
publishes a predicate, the controller resumes it only when the predicate holds.  A controlled
clock advances only when no thread is runnable and some thread waits with a deadline
(discrete-event rule), so "never early" is checked without sleeping.

Exploration is stateless depth-first search over scheduling decisions with a preemption
bound (CHESS style), then seeded random schedules.  Preemptions are taken only at points
that are realisable on the pinned GIL interpreter: the thread's previous traced line
contained a call instruction, or a function was just entered / returned from, or a backward
jump happened, or the point is a shim operation (a call).  That is a subset of the
interleavings the language allows, so every schedule found is realisable.
"""
from __future__ import annotations

import dis
import random
import sys
import threading as _th
import time as _time
from typing import Any, Callable, Dict, List, Optional, Sequence, Tuple

_real_Semaphore = _th.Semaphore
_real_Thread = _th.Thread
_real_get_ident = _th.get_ident


class Abort(BaseException):
    """raised inside logical threads when a run is torn down (deadlock / step limit)"""


class Deadlock(Exception):
    pass


class LThread:
    def __init__(self, sched: "DetSched", name: str, fn: Callable[[], Any], daemon_like: bool = False):
        self.sched = sched
        self.name = name
        self.fn = fn
        self.sem = _real_Semaphore(0)
        self.done = False
        self.started = False
        self.exc: Optional[BaseException] = None
        self.pred: Optional[Callable[[], bool]] = None   # blocked until pred() holds
        self.deadline: Optional[float] = None            # ... or until the clock reaches it
        self.timed_out = False
        self.realisable = True                           # may the thread be preempted at its current point?
        self.daemon_like = daemon_like                   # does not keep the run alive (loop threads)
        self.index = -1
        self.real: Optional[_th.Thread] = None
        self.ident: Optional[int] = None
        self.last_line_has_call = True
        self.waiting_on = ""

    def enabled(self) -> bool:
        if self.done or not self.started:
            return False
        if self.pred is None:
            return True
        if self.pred():
            return True
        return self.deadline is not None and self.sched.clock >= self.deadline


_CALL_OPS = {"CALL", "CALL_FUNCTION_EX", "CALL_KW", "CALL_INTRINSIC_1", "CALL_INTRINSIC_2", "SEND", "YIELD_VALUE",
             "FOR_ITER", "BINARY_SUBSCR", "STORE_SUBSCR", "DELETE_SUBSCR", "BINARY_OP", "COMPARE_OP", "CONTAINS_OP",
             "LOAD_ATTR", "STORE_ATTR", "GET_ITER", "BEFORE_WITH", "UNPACK_SEQUENCE", "RAISE_VARARGS", "RERAISE"}
# Only CALL* (and backward jumps / function entry) poll the eval breaker on 3.12; the wider set above is used in
# "line" granularity only.  _GIL_OPS is the conservative set used for the default granularity.
_GIL_OPS = {"CALL", "CALL_FUNCTION_EX", "CALL_KW"}
_call_lines_cache: Dict[Any, set] = {}


def _call_lines(code) -> set:
    s = _call_lines_cache.get(code)
    if s is None:
        s = set()
        for ins in dis.get_instructions(code):
            if ins.opname in _GIL_OPS and ins.positions is not None and ins.positions.lineno is not None:
                s.add(ins.positions.lineno)
        _call_lines_cache[code] = s
    return s


class DetSched:
    """One execution. `choose(enabled_indices, current_index, can_preempt) -> index` decides."""

    def __init__(self, choose: Callable[[List[int], int, bool], int], focus: Sequence[str] = (),
                 max_steps: int = 20000, granularity: str = "gil", start_clock: float = 0.0):
        self.choose = choose
        self.focus = tuple(focus)
        self.max_steps = max_steps
        self.granularity = granularity
        self.threads: List[LThread] = []
        self.ctrl = _real_Semaphore(0)
        self.current: Optional[LThread] = None
        self.clock = float(start_clock)
        self.steps = 0
        self.trace: List[Any] = []          # totally ordered event log (only one thread runs at a time)
        self.aborting = False
        self.deadlocked = False
        self.step_limit_hit = False
        self.by_ident: Dict[int, LThread] = {}
        self._focus_cache: Dict[str, bool] = {}
        self.decisions: List[Tuple[Tuple[int, ...], int, int, bool]] = []  # (enabled, chosen, current, can_preempt)
        self.seq = 0

    # ---- thread management ------------------------------------------------------------------
    def spawn(self, name: str, fn: Callable[[], Any], daemon_like: bool = False, start: bool = True) -> LThread:
        t = LThread(self, name, fn, daemon_like)
        t.index = len(self.threads)
        self.threads.append(t)
        if start:
            self.start_thread(t)
        return t

    def start_thread(self, t: LThread) -> None:
        if t.started:
            return
        t.started = True

        def boot():
            t.ident = _real_get_ident()
            self.by_ident[t.ident] = t
            t.sem.acquire()
            try:
                if self.aborting:
                    raise Abort()
                sys.settrace(self._tracer_for(t))
                try:
                    t.fn()
                finally:
                    sys.settrace(None)
            except Abort:
                pass
            except BaseException as e:  # noqa: BLE001 - recorded, reported by the caller
                t.exc = e
            finally:
                t.done = True
                self.ctrl.release()

        t.real = _real_Thread(target=boot, name=t.name, daemon=True)
        t.real.start()

    def me(self) -> Optional[LThread]:
        return self.by_ident.get(_real_get_ident())

    # ---- event log ---------------------------------------------------------------------------
    def log(self, **ev: Any) -> None:
        t = self.me()
        ev["th"] = t.name if t else "main"
        ev["seq"] = self.seq
        self.seq += 1
        self.trace.append(ev)

    # ---- switch points -------------------------------------------------------------------------
    def _is_focus(self, filename: str) -> bool:
        r = self._focus_cache.get(filename)
        if r is None:
            r = any(filename.endswith(f) for f in self.focus)
            self._focus_cache[filename] = r
        return r

    def _tracer_for(self, t: LThread):
        sched = self

        prev: Dict[int, int] = {}

        def local(frame, event, arg):
            if event == "line":
                ln = frame.f_lineno
                p = prev.get(id(frame))
                back = p is not None and ln <= p
                realisable = t.last_line_has_call or back or sched.granularity == "line"
                prev[id(frame)] = ln
                t.last_line_has_call = ln in _call_lines(frame.f_code)
                sched.switch_point(realisable)
            elif event == "return":
                prev.pop(id(frame), None)
                t.last_line_has_call = True
            return local

        def glob(frame, event, arg):
            if event == "call":
                t.last_line_has_call = True   # function entry polls the eval breaker
                if sched._is_focus(frame.f_code.co_filename):
                    return local
            return None
        return glob

    def switch_point(self, realisable: bool = True) -> None:
        """Called by the running logical thread: give the controller the chance to run somebody else."""
        t = self.me()
        if t is None or t is not self.current:
            return
        if self.aborting:
            raise Abort()
        t.realisable = realisable
        self.ctrl.release()
        t.sem.acquire()
        if self.aborting:
            raise Abort()

    def block(self, pred: Callable[[], bool], deadline: Optional[float] = None, what: str = "") -> bool:
        """Block the calling logical thread until pred() holds (returns True) or the controlled clock
        reaches `deadline` (returns False)."""
        t = self.me()
        if t is None:
            raise RuntimeError("block() outside a logical thread")
        if self.aborting:
            raise Abort()
        t.pred, t.deadline, t.waiting_on = pred, deadline, what
        t.realisable = True
        self.ctrl.release()
        t.sem.acquire()
        ok = pred()
        t.pred, t.deadline, t.waiting_on = None, None, ""
        if self.aborting:
            raise Abort()
        return ok

    def sleep_until(self, when: float) -> None:
        self.block(lambda: False, deadline=when, what="sleep")

    # ---- the controller ----------------------------------------------------------------------------
    def run(self) -> None:
        """Run to quiescence: every non-daemon-like thread done, or deadlock, or step limit."""
        cur = -1
        while True:
            live = [t for t in self.threads if t.started and not t.done]
            if not any(not t.daemon_like for t in live):
                # only loop threads left: let them run while they are enabled without the clock moving
                en = [t.index for t in live if t.enabled()]
                if not en:
                    break
            en = [t.index for t in live if t.enabled()]
            if not en:
                waits = [t.deadline for t in live if t.deadline is not None]
                if waits:
                    self.clock = max(self.clock, min(waits))
                    continue
                self.deadlocked = True
                break
            self.steps += 1
            if self.steps > self.max_steps:
                self.step_limit_hit = True
                break
            cur_enabled = cur in en
            can_preempt = cur_enabled and self.threads[cur].realisable
            if len(en) == 1:
                pick = en[0]
            elif cur_enabled and not can_preempt:
                pick = cur
            else:
                pick = self.choose(en, cur if cur_enabled else -1, can_preempt)
                self.decisions.append((tuple(en), pick, cur if cur_enabled else -1, can_preempt))
            cur = pick
            t = self.threads[pick]
            self.current = t
            t.sem.release()
            self.ctrl.acquire()
        self.teardown()

    def teardown(self) -> None:
        self.aborting = True
        for t in self.threads:
            if t.started and not t.done:
                self.current = t
                t.sem.release()
                self.ctrl.acquire()
        for t in self.threads:
            if t.real is not None:
                t.real.join(timeout=2.0)


# ---- exploration ---------------------------------------------------------------------------------------
class Explorer:
    """Stateless DFS with a preemption bound, then seeded random schedules.

    `make_run(sched_factory)` must build the scenario: it receives a function that creates the DetSched for
    this execution and returns whatever the caller wants collected (usually the trace).
    """

    def __init__(self, bound: int = 2, max_schedules: int = 2000, random_schedules: int = 0, seed: int = 0):
        self.bound = bound
        self.max_schedules = max_schedules
        self.random_schedules = random_schedules
        self.seed = seed
        self.executed = 0
        self.truncated = False

    def explore(self, run_one: Callable[[Callable[[List[int], int, bool], int]], DetSched]):
        """run_one(choose) executes the scenario once and returns the finished DetSched.
        Yields each finished DetSched."""
        stack: List[List[int]] = [[]]
        seen_prefixes = set()
        while stack:
            if self.executed >= self.max_schedules:
                self.truncated = True
                break
            prefix = stack.pop()
            pos = [0]

            def choose(en, cur, can_preempt, prefix=prefix, pos=pos):
                i = pos[0]
                pos[0] += 1
                if i < len(prefix) and prefix[i] in en:
                    return prefix[i]
                return cur if cur in en else en[0]   # default: no preemption, lowest index otherwise

            ds = run_one(choose)
            self.executed += 1
            yield ds
            # children: deviate at one decision at or after the prefix
            dec = ds.decisions
            pre = 0
            counts = []
            for (en, pick, cur, can) in dec:
                if cur != -1 and pick != cur:
                    pre += 1
                counts.append(pre)
            for i in range(len(dec) - 1, len(prefix) - 1, -1):
                en, pick, cur, can = dec[i]
                before = counts[i - 1] if i > 0 else 0
                for alt in en:
                    if alt == pick:
                        continue
                    cost = 1 if (cur != -1 and alt != cur) else 0
                    if before + cost > self.bound:
                        continue
                    child = [d[1] for d in dec[:i]] + [alt]
                    key = tuple(child)
                    if key in seen_prefixes:
                        continue
                    seen_prefixes.add(key)
                    stack.append(child)
        rnd = random.Random(self.seed)
        for _ in range(self.random_schedules):
            def choose(en, cur, can_preempt):
                if cur in en and rnd.random() < 0.7:
                    return cur
                return rnd.choice(en)
            ds = run_one(choose)
            self.executed += 1
            yield ds
