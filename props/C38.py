"""C38 - marble diagrams mean what the documented syntax says.
Spec: Marbles.tla (character-consuming tokenizer / frame counter restricted to the documented grammar,
checked at every prefix against the reference 'time = index of the starting character, ignoring
spaces; grouped marbles at the opening position; nothing after a terminal when asked').
Binding A: every exported string x parameter point is given to the real parse(), reactivex.from_marbles
/ cold, reactivex.hot (two subscribers from the start and a late one) and the marbles_testing context
(cold / hot / exp through start()) on TestScheduler."""
from __future__ import annotations

import json
import random

from harness import core, tlc
from props import misc_c38 as mc

INVS = ["TypeOK", "RefOK", "Monotone", "FrameIsIndex", "Verdict"]
NOWIDE = dict(WideChars=set(), WideLen=1, WideChars2=set(), WideLen2=1)
QUICK = dict(ValChars={"1", "a", "."}, Digits={"1"}, MaxLen=5, MaxSpaces=1, SpaceMaxLen=4, AllParams=False)
THOROUGH = dict(ValChars={"0", "1", "a", "."}, Digits={"0", "1"}, MaxLen=6, MaxSpaces=1, SpaceMaxLen=6, AllParams=False)
SIM = dict(ValChars={"0", "1", "2", "a", "b", "."}, Digits={"0", "1", "2"}, MaxLen=12, MaxSpaces=3, SpaceMaxLen=12, AllParams=False)
for _c in (QUICK, THOROUGH, SIM):
    _c.update(NOWIDE)
# wide digits: '8' stands for a 16-digit block, '9' for a 19-digit block (decoded by the codec to numerals of integers
# beyond 2**53); no '0' and no '.' so that numeral <-> integer is one-to-one and no float marble equals an integer key
WIDE_QUICK = dict(ValChars={"1", "8", "9", "a"}, Digits={"1", "8", "9"}, MaxLen=4, MaxSpaces=1, SpaceMaxLen=3, AllParams=False,
                  WideChars={"8"}, WideLen=16, WideChars2={"9"}, WideLen2=19)
WIDE_THOROUGH = dict(WIDE_QUICK, MaxLen=5, SpaceMaxLen=4, AllParams=True)

# (unit, timespan given as timedelta, falsy lookup values, error object given, HistoricalScheduler instead of TestScheduler)
# the third variant's lookup maps its keys TO the strings "|" / "#" (and has the terminal characters as keys)
VARIANTS = [(1.0, False, False, True, False, False), (0.5, True, True, False, True, False), (2.0, False, False, True, False, True)]


def _job(ln):
    out = []
    n = 0
    for unit, td, falsy, we, hist, term in VARIANTS:
        n += 1
        out += mc.judge(ln["scn"], ln["obs"], unit=unit, as_timedelta=td, falsy=falsy, with_error=we, hist=hist, term=term,
                        wide_profile=n - 1)
    return n, out


def _pmap(fn, items):
    # measured on the loaded box: a fork pool is SLOWER than a plain loop for these sub-millisecond replays
    # until there are some 10^5 of them (14 500 programs: 8 s serial, 17-67 s with 2-8 processes)
    if len(items) < 60000:
        return [fn(x) for x in items]
    return core.parallel_map(fn, items, procs=8, chunk=2000)


def run(tier: str) -> int:
    ck = core.Check("C38", tier)
    consts = QUICK if tier == "quick" else THOROUGH
    ck.rule = ("every string of the documented marble grammar up to the stated length over the alphabet '-', value characters "
               "(digits, a letter, '.'; multi-character values; wide digits = blocks of 16 / 19 digit characters decoded to numerals of integers "
               "beyond 2**53, as elements and as integer lookup keys), '(' ')' ',' ' ' '|' '#', enumerated character by character by TLC on "
               "Marbles.tla, x parameter points (timespan, shift, lookup keys, raise_stopped); each given to parse, "
               "from_marbles/cold, hot and the marbles_testing context under three codec variants (time unit 1 / 0.5 / 2 s, float or "
               "timedelta, plain or falsy lookup values, error object given or defaulted, TestScheduler or HistoricalScheduler with an "
               "absolute datetime due time for hot); non-trivial = the string has a group, a "
               "multi-character value, a space, or a marble after a terminal")
    res = tlc.run("Marbles", tlc.cfg_text(consts, invariants=INVS + ["Export"]), workers=1, timeout=3000, xmx="3g",
                  allow_violation=False)
    ck.add_tlc(res, "exhaustive " + json.dumps({k: sorted(v) if isinstance(v, set) else v for k, v in consts.items()}))
    lines = list(res.lines)
    wconsts = WIDE_QUICK if tier == "quick" else WIDE_THOROUGH
    wres = tlc.run("Marbles", tlc.cfg_text(wconsts, invariants=INVS + ["Export"]), workers=1, timeout=3000, xmx="3g",
                   allow_violation=False)
    ck.add_tlc(wres, "exhaustive, wide digits " + json.dumps({k: sorted(v) if isinstance(v, set) else v for k, v in wconsts.items()}))
    lines += wres.lines
    ck.exhaustive = True
    n_sim = 20000   # walks; every complete prefix of a walk is exported, so this is ~10^5 strings
    if tier != "quick":
        sim = tlc.run("Marbles", tlc.cfg_text(SIM, invariants=INVS + ["Export"]), workers=1, timeout=2400, simulate=f"num={n_sim}",
                      depth=20, seed=ck.seed + 5, xmx="2g", allow_violation=False)
        ck.add_tlc(sim, "simulate (strings up to 12 characters)")
        lines += sim.lines    # the model is deterministic per (string, parameter point): a simulated line is the whole allowed set
    # one line per (string, parameter point); duplicates (simulation) removed
    seen = {}
    for ln in lines:
        seen.setdefault(json.dumps(ln["scn"], sort_keys=True), ln)
    lines = list(seen.values())
    strings = {mc.text(ln["scn"]["s"]) for ln in lines}
    ck.note("strings", len(strings))
    ck.note("scenarios", len(lines))
    ck.note("longest_string", max(len(s) for s in strings))

    def nontrivial(ln):
        s = mc.text(ln["scn"]["s"])
        return "(" in s or " " in s or ln["obs"]["rejected"] or any(len(m["v"][1]) > 1 for m in ln["obs"]["msgs"])
    vac = {
        "groups": sum(1 for s in strings if "(" in s),
        "group_with_terminal": sum(1 for s in strings if "(" in s and ("|" in s[s.index("("):] or "#" in s[s.index("("):])),
        "spaces": sum(1 for s in strings if " " in s),
        "multi_char_values": sum(1 for ln in lines if any(len(m["v"][1]) > 1 for m in ln["obs"]["msgs"])),
        "int_values": sum(1 for ln in lines if any(m["v"][0] == "int" for m in ln["obs"]["msgs"])),
        "float_values": sum(1 for ln in lines if any(m["v"][0] == "float" for m in ln["obs"]["msgs"])),
        "wide_int_values": sum(1 for ln in lines if any(m["v"][0] == "int" and set(m["v"][1]) & {"8", "9"} for m in ln["obs"]["msgs"])
                               and ln["scn"]["wide"]["a"]),
        "wide_int_in_group": sum(1 for ln in lines if ln["scn"]["wide"]["a"] and "(" in ln["scn"]["s"] and any(
            m["v"][0] in ("int", "nlk") and set(m["v"][1]) & {"8", "9"} for m in ln["obs"]["msgs"])),
        "wide_int_looked_up": sum(1 for ln in lines if any(m["v"][0] == "nlk" for m in ln["obs"]["msgs"])),
        "wide_int_key_not_matching": sum(1 for ln in lines if ln["scn"]["par"]["nk"] and any(
            m["v"][0] == "int" and set(m["v"][1]) & {"8", "9"} for m in ln["obs"]["msgs"])),
        "looked_up": sum(1 for ln in lines if any(m["v"][0] == "lk" for m in ln["obs"]["msgs"])),
        "rejected": sum(1 for ln in lines if ln["obs"]["rejected"]),
        "after_terminal_kept": sum(1 for ln in lines if not ln["scn"]["par"]["rs"] and any(
            m["k"] in "CE" for m in ln["obs"]["msgs"][:-1])),
    }
    ck.note("vacuity", vac)
    if not all(vac.values()):
        raise RuntimeError(f"vacuous model run: {vac}")
    n_impl = 0
    by_api: dict = {}
    for n, fails in _pmap(_job, lines):
        n_impl += n
        for f in fails:
            by_api[f["api"]] = by_api.get(f["api"], 0) + 1
            ck.fail(f)
    ck.impl = n_impl
    ck.note("failures_by_api_including_known", by_api)
    ck.nontrivial = sum(1 for ln in lines if nontrivial(ln))
    rnd = random.Random(ck.seed)
    for ln in rnd.sample(lines, min(5, len(lines))):
        ck.sample({"string": mc.text(ln["scn"]["s"]), "par": ln["scn"]["par"], "expected": ln["obs"]})
    ck.assumptions = [
        "asserted domain = the documented grammar only: no unbalanced/nested parentheses, no '-' inside a group, no ',' outside a group, no empty "
        "group or empty group element, '|'/'#' inside a group only as whole elements, no space between two value characters",
        "lookup keys are texts that are not numerals (the documentation's examples), and - wide-digit run only - integers (the lookup is "
        "typed Mapping[str | float, Any] and converts 'an element', which for a numeral marble is the number): a numeral marble is looked up "
        "by its integer only; that run's alphabet has no '0' and no '.', so no two numerals write the same number",
        "time units are binary fractions so that index*timespan+shift is exact in floating point",
        "marbles_testing().hot: a marble at the first character is documented to be skipped (it is due at the subscription instant); skipped or "
        "delivered are both accepted; exp() is compared for integral timespans only (it truncates times to int - noted, outside the statement)",
        "from_marbles/cold/hot/context are exercised for the raise_stopped=True parameter points only (they always parse that way); cold ones with shift 0",
        "TestScheduler runs actions in due order (C28)",
    ]
    return ck.finish()


def replay(rec) -> int:
    api = rec["api"].split(".")[0]
    fails = mc.judge(rec["scn"], rec["expected"], unit=rec.get("unit", 1.0), as_timedelta=rec.get("as_timedelta", False),
                     falsy=rec.get("falsy", False), with_error=rec.get("with_error", True), hist=rec.get("hist", False), term=rec.get("term", False),
                     wide_profile=rec.get("wide_profile", 0), apis=(api,))
    fails = [f for f in fails if f["api"] == rec["api"]]
    print(json.dumps(fails[0], default=str)[:2000] if fails else "replay: observation allowed by the spec")
    return 1 if fails else 0


META = {
    'technique': 'TLC-enumerated strings of the documented marble grammar (Marbles.tla: tokenizer/frame counter checked at every prefix against a reference function of the string) given to the real parse, from_marbles/cold, hot and the marbles_testing context',
    'level': 'TLC enumerates every grammatical string up to the bound character by character, checks the tokenizer against the documented meaning (time = index of the starting character ignoring spaces, groups at their opening position, multi-character values, int/float casting classes, rejection of anything after a terminal) at every prefix, and exports the expected messages per parameter point; the real parse() must return exactly those (times, kinds, value types and values, the given error object, ValueError iff rejected), and from_marbles/cold, hot (two initial subscribers and a late one) and the testing context must deliver exactly those notifications at those times on TestScheduler. Exhaustive for the stated length; longer strings sampled in the thorough tier.',
    'note': "TLC 1.8; codec of props/misc_c38.py (numerals via int()/float(), time unit scaling); TestScheduler (C28); strings outside the documented grammar are not judged",
    'ref': 'DESIGN.md 6 C38',
}
