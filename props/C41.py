"""C41 - future, callback and blocking bridges keep their contracts.
Spec: Bridges.tla - four machines: from_future/start_async over a future state machine
(concurrent.futures and asyncio flavours, lazily enumerated histories), start/to_async over an
AsyncSubject-backed invocation table, from_callback, and the to_future/await/run() fold.
Binding A: every exported history is performed on the real objects (real
concurrent.futures.Future, asyncio futures on a manually stepped loop, TestScheduler /
ImmediateScheduler, run() also on its default thread scheduler) and compared snapshot by snapshot."""
from __future__ import annotations

import json
import random
from concurrent.futures import ThreadPoolExecutor

from harness import core, tlc
from props import res_common as rc


JVM = {"JAVA_TOOL_OPTIONS": "-XX:TieredStopAtLevel=1 -XX:ParallelGCThreads=2"}   # short runs on a shared box: C1 only, few GC threads


def export(ck, runs, label, simulate=None, seed=None, depth=None, timeout=900):
    """runs: list of constant dicts (each one TLC invocation, run side by side)"""
    def one(c):
        return tlc.run("Bridges", tlc.cfg_text(c, invariants=rc.C41_INVS + ["Export"]), workers=1, timeout=timeout, xmx="2g",
                       allow_violation=False, simulate=simulate, seed=seed, depth=depth, env_extra=JVM)
    lines = []
    with ThreadPoolExecutor(4) as ex:
        for c, res in zip(runs, ex.map(one, runs)):
            ck.add_tlc(res, f"{label} " + json.dumps({k: sorted(v) if isinstance(v, set) else v for k, v in c.items()}, sort_keys=True))
            lines += res.lines
    return lines


def run(tier: str) -> int:
    ck = core.Check("C41", tier)
    base = dict(MaxSubs=2, MaxCalls=2, NVals=rc.C41_NVALS, MaxLen=2, CmdsFF=5, CmdsST=4, CmdsCB=3, Flavors={"cf", "aio"})
    if tier == "quick":
        runs = [dict(base, Parts={"ff"}), dict(base, Parts={"ff", "st", "cb", "tf"}, Flavors={"task"})]
    else:
        big = dict(base, CmdsFF=6, CmdsST=6, CmdsCB=5, MaxLen=3)
        runs = [dict(big, Parts={"ff"}), dict(big, Parts={"ff"}, Flavors={"task"}), dict(big, Parts={"st"}), dict(big, Parts={"cb"}),
                dict(big, Parts={"tf"})]
    lines = export(ck, runs, "exhaustive")
    ck.exhaustive = True
    if tier != "quick":
        deep = dict(base, CmdsFF=9, CmdsST=9, MaxSubs=3, MaxCalls=3, Flavors={"cf", "aio", "task"})
        sim = export(ck, [dict(deep, Parts={"ff"}), dict(deep, Parts={"st"})], "simulate", simulate="num=6000", seed=ck.seed + 11, depth=12)
        lines += sim    # ff and st histories are deterministic in the model: one behaviour = the whole allowed set
    groups = core.group_allowed(lines)
    ck.rule = ("ff: histories subscribe/resolve/fail/cancel/set_running/dispose(k)/step over a future (concurrent.futures future, asyncio "
               "future and asyncio Task flavours; from_future, start_async, start_async whose function raises), <= 2 subscribers; st: histories "
               "call/run/subscribe(c)/dispose(k) over start and to_async (function returns / raises, 0-2 arguments, virtual or immediate "
               "scheduler); cb: from_callback configurations (0-2 function arguments, 0-3 callback arguments, no mapper / mapper / "
               "raising mapper, callback invoked inside the function or later, once or twice, function raising) x histories "
               "subscribe/fire(k)/dispose(k); tf: timelines of 0..MaxLen elements ending in completion, error or nothing, folded by "
               "to_future (asyncio and concurrent futures; cancelled after j events) and by run()/Observable.run()/await; all enumerated by "
               "TLC on Bridges.tla; non-trivial = the history has a dispose, a cancel, a second subscriber, a fault or an empty/erroring timeline")
    jobs = [(gi, scn, allowed, tier) for gi, (scn, allowed) in enumerate(groups)]
    total = 0
    rc.preload()
    for n, fails in core.parallel_map(rc.job41, jobs, procs=8 if len(jobs) > 20000 else 1, chunk=400):
        total += n
        for f in fails:
            rc.report(ck, groups, f, rc.judge41)
    ck.impl = total

    def nontriv(scn):
        cmds = [c["c"] for c in scn["hist"]]
        if scn["part"] == "tf":
            return scn["cfg"]["term"] != "C" or not scn["cfg"]["src"] or scn["cfg"]["cancel"] != rc.NEVER
        return "dispose" in cmds or "cancel" in cmds or cmds.count("subscribe") > 1 or "fail" in cmds or \
            scn["cfg"].get("mapper") == "raises" or scn["cfg"].get("fn") == "raise" or scn["cfg"].get("mode") == "start_async_raises"
    ck.nontrivial = sum(1 for scn, _ in groups if nontriv(scn))
    ck.note("scenarios", len(groups))
    ck.note("scenarios_by_part", {p: sum(1 for g in groups if g[0]["part"] == p) for p in ("ff", "st", "cb", "tf")})
    ck.note("scenarios_with_choice", sum(1 for g in groups if len(g[1]) > 1))
    ck.note("model_invariants", rc.C41_INVS)
    ck.note("apis_exercised", ["from_future (concurrent.futures.Future, asyncio future, asyncio Task)", "start_async", "start", "to_async "
                               "(TestScheduler, VirtualTimeScheduler, HistoricalScheduler, ImmediateScheduler, default TimeoutScheduler threads)",
                               "from_callback (with / without mapper)", "ops.to_future(ctor) / to_future() / Observable.to_future(ctor)",
                               "run(source, scheduler) / Observable.run() (Immediate, CurrentThread, default NewThreadScheduler)",
                               "await observable / await observable.pipe(to_future())"])
    rnd = random.Random(ck.seed)
    for p in ("ff", "st", "cb", "tf"):
        gp = [g for g in groups if g[0]["part"] == p]
        if gp:
            g = rnd.choice(gp)
            ck.sample({"scn": g[0], "allowed": g[1][:2]})
    ck.assumptions = [
        "asyncio futures are driven on a private event loop stepped one iteration at a time (call_soon(stop); run_forever()); "
        "concurrent.futures.Future objects are resolved by the harness thread; no real sleeping except run() on its default "
        "NewThreadScheduler (real threads, 30 s watchdog)",
        "asserted projection: future state after every command; every subscriber's notifications (kind, value identity, error identity "
        "/ cancellation type) after every command; number and arguments of function invocations (start/to_async, from_callback); the "
        "value returned / exception raised by run()/await; the source's unsubscription instant for to_future",
        "from_callback with zero callback arguments and no mapper: the element may be the empty list or None (the statement says "
        "'the callback arguments'); a list or a tuple is accepted for the argument list",
        "the to_future/run/await fold is compared on final outcomes; intermediate future states only for timed sources",
    ]
    return ck.finish()


replay = rc.replay41


META = {
    'technique': 'TLC-enumerated call histories of Bridges.tla (future state machine, AsyncSubject-backed invocations, from_callback, fold) performed stepwise on real futures, event loop, schedulers and run()',
    'level': 'Bridges.tla models a future (pending/running/result/exception/cancelled, synchronous concurrent.futures callbacks or loop-queued asyncio callbacks), the from_future/start_async subscribers over it, the start/to_async invocation table, from_callback and the to_future/await/run fold, each next to a reference computed from the history by positions; TLC checks on every reachable state that they agree and that subscribers get result-then-completion or the exception/cancellation, that unsubscribing a pending future cancels it, that nothing arrives after dispose, that the function runs exactly once per call, that from_callback yields exactly one element then completion with the original arguments per subscription. Every history up to the stated length is performed on the real objects and compared after every command. Exhaustive for the stated bounds; longer histories simulated in the thorough tier.',
    'note': 'TLC 1.8; command codec in props/res_common.py; CPython asyncio/concurrent.futures semantics of done-callbacks',
    'ref': 'DESIGN.md 6 C41',
}
