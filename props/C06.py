"""C06 - aggregating operators match their reference semantics (Ops1.tla, Binding A)."""
from harness import core
from props import ops1_common as oc


def variants(scn):
    s = len(str(scn)) % 2
    return [dict(hot=h, tmap=t, profile="plain", salt=(s + i) % 2, form="pipe")
            for i, (h, t) in enumerate([(True, "spread"), (False, "spread"), (True, "bunched"), (False, "same")])] + [
        dict(hot=bool(s), tmap="spread", profile="falsy", salt=len(str(scn)) % 8, form="pipe"),   # seeds/defaults/elements incl. None (all rotations: C08)
        dict(hot=not bool(s), tmap="spread", profile="frac", salt=0, form="pipe")]   # min/max family over reals closer together than 1


def run(tier):
    ck = core.Check("C06", tier)
    k, n = (2, 3) if tier == "quick" else (3, 4)
    consts = dict(NVals=k, MaxLen=n, Terms={"C", "E", "U"}, Disposes=False, Faults=False, IdentSrc=False)
    groups = oc.export_groups(ck, oc.AGGREGATES, consts, "export")
    ck.exhaustive = True
    ck.rule = (f"every timeline over {k} value tokens of length 0..{n} (completion / error / unterminated) x every parameter "
               "(accumulator codes, seeds, predicate tables, comparer codes, defaults, the iterable form of sequence_equal) of "
               "38 aggregate forms, enumerated by TLC on Ops1.tla; replayed hot and cold under 3 time maps; non-trivial = "
               "the emitted value list differs from the input")
    oc.replay_groups(ck, groups, variants, k)
    ck.nontrivial = sum(1 for g in groups if oc.nontrivial(*g))
    ck.note("scenarios", len(groups))
    ck.note("operators", sorted({g[0]["op"] for g in groups}))
    _base_nontrivial = ck.nontrivial
    # sequence_equal with an OBSERVABLE second argument: the two-lane model of OpsCombine.tla (all tie orders, 5 comparer codes)
    from props import combine_common
    se = combine_common.sequence_equal_observable(ck, tier, procs=1)
    ck.note("sequence_equal_observable_form", se)
    ck.nontrivial = _base_nontrivial + int(se.get("nontrivial", 0))
    for g in groups[:: max(1, len(groups) // 5)][:5]:
        ck.sample({"scn": g[0], "allowed": g[1]})
    ck.assumptions = ["exception types are compared, not messages", "numeric profile: token t is the number t"]
    return ck.finish()


replay = oc.generic_replay


META = {
    'technique': 'TLC-enumerated timelines x parameters of Ops1.tla aggregate transducers replayed on the real operators on TestScheduler',
    'level': 'As C05 for the aggregate operators (sequence_equal in both argument kinds: the iterable form in Ops1.tla, the observable form as a two-source model in OpsCombine.tla with every same-instant order): value(s), terminal kind, exception type and emission instant (short-circuit at the deciding element, folds at completion) of every enumerated scenario are compared with the real operator, hot and cold. Exhaustive for the stated bounds.',
    'note': 'TLC 1.8; codec; numeric aggregates on small integers',
    'ref': 'DESIGN.md 6 C06, App. C',
}
