"""C39 - fluent operator methods equal their piped operators.
Every Ops1.tla scenario is run through source.pipe(ops.op(args)) and through source.op(args); both must be an
allowed observation of the same exported scenario."""
from harness import core
from props import ops1_common as oc
from props import ops1_ext as ox

META = {
    "technique": "each TLC-exported Ops1.tla scenario replayed through both call forms (fluent method and piped operator) against the same allowed set; method table introspected at run time",
    "level": "For every fluent method whose operator has a model in Ops1.tla (element-wise, aggregate, slicing) every enumerated scenario - with arguments chosen by TLC so that every parameter takes non-default values and positions are distinguishable (tables, counts, defaults, comparers) - is run through both forms on the same virtual-time timeline; both must match the model's expected observation, so a method that drops, reorders or re-defaults an argument is a mismatch and a method that rejects the operator's arguments is reported as a signature failure. Methods whose operator is modelled elsewhere are compared by those modules; methods with no model are listed in the evidence as uncovered, not as held.",
    "note": "TLC 1.8; methods are discovered by introspection of reactivex.Observable",
    "ref": "DESIGN.md 6 C39",
}
K = [2]


def variants(scn):
    s = len(str(scn)) % 2
    return [dict(mode="forms", hot=bool(s), tmap="spread", profile="plain", k=K[0], salt=s)]


def run(tier):
    from reactivex import Observable
    ck = core.Check("C39", tier)
    k, n = (2, 3) if tier == "quick" else (3, 4)
    K[0] = k
    consts = dict(NVals=k, MaxLen=n, Terms={"C", "E"}, Disposes=False, Faults=False, IdentSrc=False)
    groups = oc.export_groups(ck, oc.ELEMENTWISE + oc.AGGREGATES, consts, "export")
    sl = oc.export_groups(ck, [["slice"]], dict(NVals=3, MaxLen=3, Terms={"C"}, Disposes=False, Faults=False, IdentSrc=True), "export(slice)")
    K[0] = k
    ck.exhaustive = True
    ox.replay_groups(ck, groups, variants)
    K[0] = 3
    ox.replay_groups(ck, sl, variants)
    methods = sorted(m for m in dir(Observable) if not m.startswith("_") and callable(getattr(Observable, m))
                     and m not in ("pipe", "subscribe", "run"))
    cod = None
    covered = set()
    for kk, grp in ((k, groups), (3, sl)):
      for scn, _ in grp:
        c = oc.Codec(scn["op"], scn["par"], "plain", kk, 0)
        if c.vals is not None:
            covered.add(oc.build(scn["op"], scn["par"], c)[0])
    covered &= set(methods)
    ck.rule = (f"every Ops1.tla scenario ({k} tokens, length 0..{n}; slices over length 0..3) through the fluent method and the piped "
               "operator; non-trivial = output differs from the input")
    ck.nontrivial = sum(1 for g in groups + sl if oc.nontrivial(*g))
    ck.note("fluent_methods_total", len(methods))
    ck.note("fluent_methods_compared_here", sorted(covered))
    ck.note("fluent_methods_not_compared_here", sorted(set(methods) - covered))
    for g in groups[:: max(1, len(groups) // 4)][:4]:
        ck.sample({"scn": g[0], "allowed": g[1], "forms": ["pipe", "fluent"]})
    ck.assumptions = ["a method is compared only if its operator has a model; the rest are listed as not compared"]
    return ck.finish()


replay = ox.generic_replay
