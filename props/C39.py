"""C39 - fluent operator methods equal their piped operators.
Every Ops1.tla scenario is run through source.pipe(ops.op(args)) and through source.op(args); both must be an
allowed observation of the same exported scenario."""
from harness import core
from props import ops1_common as oc
from props import ops1_ext as ox
from props import diff_common

META = {
    "technique": "each TLC-exported Ops1.tla scenario replayed through both call forms (fluent method and piped operator) against the same allowed set; method table introspected at run time",
    "level": "For every fluent method whose operator has a model in Ops1.tla (element-wise, aggregate, slicing) every enumerated scenario - with arguments chosen by TLC so that every parameter takes non-default values and positions are distinguishable (tables, counts, defaults, comparers) - is run through both forms on the same virtual-time timeline; both must match the model's expected observation, so a method that drops, reorders or re-defaults an argument is a mismatch and a method that rejects the operator's arguments is reported as a signature failure. In addition every fluent method that has a catalogue entry (126 of them) is compared differentially: the same seeded scenario (generic arguments, logged sources) is run through both forms, both executions are validated by TLC against the Lifecycle.tla monitor and their event sequences (kinds, virtual times, element renderings, user-function invocations, source subscription intervals) must be identical - this part is differential in nature and counted separately in the evidence. Methods compared neither way are listed as uncovered, not as held.",
    "note": "TLC 1.8; methods are discovered by introspection of reactivex.Observable",
    "ref": "DESIGN.md 6 C39",
}
K = [2]


def variants(scn):
    s = len(str(scn)) % 2
    return [dict(mode="forms", hot=bool(s), tmap="spread", profile="plain", k=K[0], salt=s)]


def run(tier):
    from reactivex import Observable
    ck = core.Check("C39", tier)
    k, n = (2, 3) if tier == "quick" else (3, 4)
    K[0] = k
    consts = dict(NVals=k, MaxLen=n, Terms={"C", "E"}, Disposes=False, Faults=False, IdentSrc=False)
    groups = oc.export_groups(ck, oc.ELEMENTWISE + oc.AGGREGATES, consts, "export")
    sl = oc.export_groups(ck, [["slice"]], dict(NVals=3, MaxLen=3, Terms={"C"}, Disposes=False, Faults=False, IdentSrc=True), "export(slice)")
    K[0] = k
    ck.exhaustive = True
    ox.replay_groups(ck, groups, variants)
    K[0] = 3
    ox.replay_groups(ck, sl, variants)
    methods = sorted(m for m in dir(Observable) if not m.startswith("_") and callable(getattr(Observable, m))
                     and m not in ("pipe", "subscribe", "run"))
    cod = None
    covered = set()
    for kk, grp in ((k, groups), (3, sl)):
      for scn, _ in grp:
        c = oc.Codec(scn["op"], scn["par"], "plain", kk, 0)
        if c.vals is not None:
            covered.add(oc.build(scn["op"], scn["par"], c)[0])
    covered &= set(methods)
    # differential part: every catalogue operator that exists as a method, same seeded scenario through both forms
    df = diff_common.forms_pass(ck, ck.seed + 91, 4 if tier == "quick" else 40)
    ck.note("differential_forms_pass", df)
    ck.note("differential_fluent_resubscription_pass", diff_common.resub_pass(ck, ck.seed + 95, 2 if tier == "quick" else 20, form="fluent"))
    ck.note("differential_connectable_forms_pass", diff_common.conn_forms_pass(ck, ck.seed + 93, 12 if tier == "quick" else 150))
    ck.rule = (f"every Ops1.tla scenario ({k} tokens, length 0..{n}; slices over length 0..3) through the fluent method and the piped "
               "operator; non-trivial = output differs from the input")
    ck.nontrivial = sum(1 for g in groups + sl if oc.nontrivial(*g))
    ck.note("fluent_methods_total", len(methods))
    ck.note("fluent_methods_compared_here", sorted(covered))
    ck.note("fluent_methods_not_compared_against_a_model", sorted(set(methods) - covered))
    ck.note("fluent_methods_compared_neither_way", sorted(set(methods) - covered - set(df["methods_compared"])))
    for g in groups[:: max(1, len(groups) // 4)][:4]:
        ck.sample({"scn": g[0], "allowed": g[1], "forms": ["pipe", "fluent"]})
    ck.assumptions = ["a method is compared only if its operator has a model; the rest are listed as not compared"]
    return ck.finish()


def replay(rec):
    if rec.get("engine") == "forms-diff" and rec.get("conn"):
        spec, out = diff_common._conn_job(rec["spec"])
        same = out["pipe"][1:] == out["fluent"][1:] and out["fluent"][0] == "ok"
        print("replay:", "the two forms behave identically" if same else f"forms differ: {out}")
        return 0 if same else 1
    if rec.get("engine") == "forms-diff":
        import json
        spec, out = diff_common._forms_job(rec["spec"])
        p, f = out["pipe"], out["fluent"]
        if p["trace"] is None or f["trace"] is None:
            print("replay:", p.get("skip"), f.get("skip"))
            return 1 if f["trace"] is None and p["trace"] is not None else 2
        d = diff_common._first_diff(diff_common._proj(p["trace"]["ev"]), diff_common._proj(f["trace"]["ev"]))
        print("replay:", d or "the two forms behave identically")
        return 1 if d else 0
    return ox.generic_replay(rec)
