"""Binding B for Lifecycle.tla: arbitrary pipelines from the operator catalogue are run on TestScheduler over
logged sources; the execution is projected to monitor events and validated in batch by TLC against
LifecycleTrace.tla.  Serves C01 (grammar), C02 (release at termination), C03 (dispose), C09 (faults)."""
from __future__ import annotations

import random
import signal
from typing import Any, Dict, List, Optional, Tuple

from harness import core, tlc, tracecheck
from props import catalogue as cat

HORIZON = 3000


def _show(v) -> str:
    """a printable, address-free rendering of an element (for comparing two runs of the same scenario)"""
    import re
    try:
        return re.sub(r" at 0x[0-9a-f]+", "", repr(v))[:120]
    except Exception:
        return type(v).__name__


class _Hang(BaseException):
    pass


def _alarm(signum, frame):
    raise _Hang()


def run_pipeline(spec: Dict[str, Any]) -> Dict[str, Any]:
    """spec = {seed, names, hot, dispose_at (virtual time or None), dispose_groups, fault_at, junk}
    -> {"trace": {...} | None, "skip": reason | None, ...}"""
    import reactivex
    from reactivex import Observable
    from reactivex.testing import ReactiveTest as R
    ctx = cat.Ctx(spec["seed"], spec.get("fault_at"), spec.get("hot", False) or bool(spec.get("poke")), spec.get("fault_kind"))
    s = ctx.s
    ctx.obs_raise_at = spec.get("obs_raise_at")
    try:
        ys, flags = cat.build_pipeline(ctx, spec["names"], spec.get("form", "pipe"))
    except Exception as e:
        return {"trace": None, "skip": f"build:{type(e).__name__}:{e}"[:200]}
    if spec.get("junk"):
        # a non-conforming main source: goes on after its terminal notification
        main = ctx.sources[0]
        last = max([m.time for m in main.messages] + [0])
        extra = [R.on_next(last + 5, 1), R.on_completed(last + 10), R.on_next(last + 15, 2), R.on_error(last + 20, Exception("late"))]
        main.messages.extend(extra[: spec["junk"]])
    groups: List[Any] = []
    gsubs: Dict[int, Any] = {}
    gdone = set()
    holder: Dict[str, Any] = {}

    def on_next(v):
        if isinstance(v, Observable) and not spec.get("ignore_groups"):
            g = len(groups) + 1
            groups.append(v)
            ctx.ev(e="gout", g=g)
            def gend(g=g):
                ctx.ev(e="gend", g=g)
                gdone.add(g)
            d = v.subscribe(on_next=lambda x, g=g: ctx.ev(e="gnext", g=g), on_error=lambda err: gend(),
                            on_completed=lambda: gend(), scheduler=s)
            if g not in gdone:
                gsubs[g] = d
        else:
            ctx.ev(e="sink", k="N", v=_show(v))

    def poke():
        """the subscriber's terminal callback makes every hot source that still has observers emit once more, synchronously
        (a branch that is still alive while the terminal notification is being delivered: before the tear-down)"""
        if not spec.get("poke"):
            return
        for xs in list(ctx.sources):
            kind = getattr(xs, "_kind", None)
            if kind in ("num", "any", "tuple", "dict"):
                for o in list(getattr(xs, "observers", ())):
                    try:
                        o.on_next({"num": 2, "any": 2, "tuple": (2, 9), "dict": {"k": 2, "j": 9}}[kind])
                    except cat.Fault:
                        raise
                    except Exception:
                        pass       # the operator cannot take an element now: not the subscriber's concern

    class SinkRaise(Exception):
        """the subscriber's own terminal callback raises (its exception is the subscriber's business; release is not)"""

    def on_error(e):
        ctx.ev(e="sink", k="E", err=type(e).__name__)
        poke()
        if spec.get("sink_raise"):
            raise SinkRaise()

    def on_completed():
        ctx.ev(e="sink", k="C")
        poke()
        if spec.get("sink_raise"):
            raise SinkRaise()

    def subscribe(_s=None, _st=None):
        holder["d"] = ys.subscribe(on_next=on_next, on_error=on_error, on_completed=on_completed, scheduler=s)

    def dispose(_s=None, _st=None):
        if "d" in holder:
            holder["d"].dispose()
            ctx.ev(e="dispose")
            if spec.get("dispose_groups"):
                for g, d in list(gsubs.items()):
                    if g not in gdone:
                        d.dispose()
                        ctx.ev(e="gend", g=g)
                        gdone.add(g)

    s.schedule_absolute(200, subscribe)
    if spec.get("dispose_at") is not None:
        s.schedule_absolute(spec["dispose_at"], dispose)
    foreign: Optional[BaseException] = None
    old = signal.signal(signal.SIGALRM, _alarm)
    signal.setitimer(signal.ITIMER_REAL, 4.0)
    try:
        for _ in range(30):
            try:
                s.advance_to(HORIZON)
                break
            except (SinkRaise, cat.ObsRaise):
                s._is_enabled = False       # an exception out of the run loop leaves the virtual-time scheduler "enabled"
                continue                    # the subscriber's own exception came back out of the scheduler: go on
            except cat.Fault:
                s._is_enabled = False
                ctx.ev(e="escape")          # an injected callback exception propagated into the emitter / scheduler
            except Exception as e:           # not ours: the catalogue fed the operator something it cannot take ...
                if ctx.fault_raised and not spec.get("_nofault_probe") and _clean_without_fault(spec):
                    # ... unless it only happens once a user function has raised (the same scenario without the injected
                    # fault runs clean): then it is the operator's handling of the failure that lets an exception out
                    s._is_enabled = False
                    ctx.ev(e="escape")
                    continue
                foreign = e
                break
    except _Hang:
        return {"trace": None, "skip": "watchdog"}
    finally:
        signal.setitimer(signal.ITIMER_REAL, 0)
        signal.signal(signal.SIGALRM, old)
    if foreign is not None:
        return {"trace": None, "skip": f"foreign:{type(foreign).__name__}:{foreign}"[:200]}
    # ---- assemble the monitor trace ---------------------------------------------------------------------------
    raw: List[Tuple[float, int, int, Dict[str, Any]]] = []      # (time, phase, seq, event); phase 0 opens, 1 live, 2 closes
    sid = 0
    for xs in ctx.sources:
        for sub in xs.subscriptions:
            sid += 1
            raw.append((sub.subscribe, 0, sid, {"e": "open", "id": sid, "role": xs._role}))
            if sub.unsubscribe < 10 ** 9:
                raw.append((sub.unsubscribe, 2, sid, {"e": "close", "id": sid}))
    for (t, seq, e) in ctx.events:
        raw.append((t, 1, seq, e))
    raw.sort(key=lambda x: (x[0], x[1], x[2]))
    ev: List[Dict[str, Any]] = []
    times: List[float] = []
    last_t = None
    rank = 0
    for (t, ph, sq, e) in raw:
        if last_t is not None and t != last_t:
            rank += 1
            ev.append({"e": "tick", "t": rank})
        last_t = t
        times.append(t)
        ev.append(dict(e, vt=t))
    ev.append({"e": "tick", "t": rank + 1})
    ev.append({"e": "end"})
    strict = "recover" not in flags and not any("recover_upstream" in cat.CATALOGUE[n][2] for n in spec["names"][1:])
    # the pipeline is one window/group operator and the sink subscribes to what it hands out: a fault is the operator's own
    own = len(spec["names"]) == 1 and "obs_out" in flags and not spec.get("ignore_groups")
    solo = len(spec["names"]) == 1 and "queued" not in flags
    return {"trace": {"strict": strict, "own": own, "solo": solo, "ev": ev}, "skip": None, "flags": sorted(flags), "nsubs": sid,
            "ngroups": len(groups), "ncb": ctx.ncb}


def _clean_without_fault(spec) -> bool:
    probe = dict(spec, fault_at=None, _nofault_probe=True)
    probe.pop("fault_kind", None)
    try:
        r = run_pipeline(probe)
    except Exception:
        return False
    return r.get("trace") is not None


def attribute(ev: List[Dict[str, Any]], upto: int, strict: bool) -> Tuple[str, str]:
    """Which guard refused the event at position `upto` (bookkeeping only; the verdict is TLC's)."""
    stopped = disposed = faulted = False
    live = set()
    opened = set()
    for e in ev[:upto]:
        k = e["e"]
        if k == "tick":
            continue
        if k == "sink" and e["k"] != "N":
            stopped = True
        elif k == "gout":
            live.add(e["g"])
        elif k == "gend":
            live.discard(e["g"])
        elif k == "dispose":
            disposed = True
        elif k == "cb" and e["r"] and strict:
            faulted = True
        elif k == "open":
            opened.add(e["id"])
        elif k == "close":
            opened.discard(e["id"])
    if upto >= len(ev):
        return ("?", "end of trace")
    e = ev[upto]
    k = e["e"]
    if k == "escape":
        return ("C09", "a user function's exception propagated into the emitter / scheduler")
    if k in ("sink", "gout"):
        if faulted and not stopped and not disposed and (k == "gout" or e.get("k") != "E"):   # only judged for solo pipelines
            return ("C09", "after a user function raised the subscriber was given something other than the error")
        if stopped:
            return ("C01", "notification after the terminal one")
        if disposed:
            return ("C03", "notification after dispose() returned")
    if k in ("tick", "end"):
        if stopped and faulted and live:
            return ("C09", f"windows/groups {sorted(live)} handed out by the failed operator never received a terminal notification")
        if stopped and not live:
            return ("C02", f"source subscriptions {sorted(opened)} still open after termination")
        if disposed and not live:
            return ("C03", f"source subscriptions {sorted(opened)} still open after dispose()")
    if k == "cb":
        if faulted and not live:
            return ("C09", "a user function was invoked after the pipeline had failed")
        if disposed and not live:
            return ("C03", "a user function was invoked after dispose() returned")
    if k in ("gnext", "gend"):
        return ("C01", "window/group notification after its terminal one")
    return ("?", f"event {k} has no enabled action")


def _job(spec):
    try:
        return spec, run_pipeline(spec)
    except Exception as e:   # harness-level problem with this pipeline: never a verdict
        return spec, {"trace": None, "skip": f"harness:{type(e).__name__}:{e}"[:200]}


CONSTS = dict(Subs=set(range(1, 4)), Groups={1, 2}, MaxT=100000, MaxEv=0)


def validate(ck, pid: str, specs: List[Dict[str, Any]], label: str) -> Dict[str, int]:
    results = core.parallel_map(_job, specs, procs=10, chunk=50)
    good = [(sp, r) for sp, r in results if r["trace"] is not None]
    skips: Dict[str, int] = {}
    for sp, r in results:
        if r["trace"] is None:
            key = r["skip"].split(":")[0] + ":" + "+".join(sp["names"])
            skips[key] = skips.get(key, 0) + 1
    traces = [{"strict": r["trace"]["strict"], "own": r["trace"].get("own", False), "solo": r["trace"].get("solo", False), "ev": [{k: v for k, v in e.items() if k in ("e", "id", "k", "g", "r", "o", "t")} for e in r["trace"]["ev"]]}
              for sp, r in good]
    rejected, ress = tracecheck.validate("LifecycleTrace", CONSTS, traces, timeout=900)
    for r in ress:
        ck.add_tlc(r, f"{label}: {len(traces)} traces")
    for idx, upto in rejected:
        sp, r = good[idx]
        belongs, why = attribute(r["trace"]["ev"], upto, r["trace"]["strict"])
        evs = r["trace"]["ev"]
        dvt = [e.get("vt") for e in evs[:upto] if e["e"] == "dispose"]
        nxt = evs[upto] if upto < len(evs) else {}
        ck.fail({"has_subscribe_on": "subscribe_on" in sp["names"], "next_kind": nxt.get("e"),
                 "same_instant_as_dispose": bool(dvt) and nxt.get("vt") == dvt[-1],"engine": "lifecycle", "ops": sp["names"], "op": "+".join(sp["names"]), "spec": sp, "trace": r["trace"]["ev"],
                 "rejected_at": upto, "next_event": r["trace"]["ev"][upto] if upto < len(r["trace"]["ev"]) else None,
                 "belongs_to": belongs, "why": why, "failure": why.split(" ")[0] if belongs == "?" else belongs,
                 "hot": sp.get("hot", False), "dispose_at": sp.get("dispose_at"), "fault_at": sp.get("fault_at")})
    ck.impl += len(traces)
    ck.count("pipelines_skipped", len(results) - len(good))
    if skips:
        top = sorted(skips.items(), key=lambda kv: -kv[1])[:12]
        prev = ck.extra.get("skip_reasons", {})
        prev.update(dict(top))
        ck.note("skip_reasons", prev)
    return {"run": len(results), "validated": len(traces), "rejected": len(rejected)}


def specs_single(seed: int, per_op: int, **dims) -> List[Dict[str, Any]]:
    """every catalogue operator alone, `per_op` random scenarios each"""
    rnd = random.Random(seed)
    out = []
    for name in sorted(cat.CATALOGUE):
        for j in range(per_op):
            out.append(dict(seed=rnd.randrange(10 ** 9), names=[name], hot=rnd.random() < 0.5, **_dims(rnd, dims)))
    return out


def specs_depth(seed: int, n: int, depth: int, **dims) -> List[Dict[str, Any]]:
    rnd = random.Random(seed * 7 + depth)
    firsts = sorted(cat.CATALOGUE)
    out = []
    for _ in range(n):
        names = [rnd.choice(firsts)] + [rnd.choice(cat.SAFE_SECOND) for _ in range(depth - 1)]
        if dims.get("early") and rnd.random() < 0.6:
            names[-1] = rnd.choice(["take", "first", "take_while", "element_at", "take_until", "some", "is_empty"])
        if any("multi" in cat.CATALOGUE[x][2] for x in names[:-1]):
            pass
        out.append(dict(seed=rnd.randrange(10 ** 9), names=names, hot=rnd.random() < 0.5, **_dims(rnd, dims)))
    return out


def specs_groups_early(seed: int, per_combo: int, **dims) -> List[Dict[str, Any]]:
    """window/group operators followed by an early-terminating consumer; the subscriber either subscribes to the
    windows/groups handed to it or ignores them (then nothing but the pipeline itself may hold a source)"""
    rnd = random.Random(seed * 13 + 5)
    outs = sorted(n for n, (k, b, f) in cat.CATALOGUE.items() if "obs_out" in f)
    early = ["take", "first", "take_while", "element_at", "take_until", "is_empty"]
    out = []
    for n in outs:
        for e in early:
            for _ in range(per_combo):
                out.append(dict(seed=rnd.randrange(10 ** 9), names=[n, e], hot=rnd.random() < 0.5,
                                ignore_groups=rnd.random() < 0.6, **_dims(rnd, dims)))
    return out


def _dims(rnd, dims):
    d = {}
    if dims.get("dispose"):
        d["dispose_at"] = rnd.choice([200, 201, 205, 210, 212, 215, 220, 225, 230, 240, 260, 300])
        d["dispose_groups"] = rnd.random() < 0.5
    if dims.get("fault"):
        d["fault_at"] = rnd.choice([1, 1, 2, 3])
        if dims.get("fault") == "stop":
            d["fault_kind"] = "stop"
    if dims.get("junk"):
        d["junk"] = rnd.choice([1, 2, 3, 4])
    if dims.get("sink_raise"):
        d["sink_raise"] = True
    if dims.get("poke"):
        d["poke"] = True
    return d


def design_check(ck):
    """the bounded generator run of Lifecycle.tla: bookkeeping invariants + non-vacuity witnesses"""
    consts = dict(Subs={1, 2}, Groups={1}, MaxT=2, MaxEv=6)
    res = tlc.run("Lifecycle", tlc.cfg_text(consts, invariants=["TypeOK", "LeakFreezesTime", "SinkSilent"]), workers=4, timeout=900,
                  allow_violation=False, coverage=True)
    ck.add_tlc(res, "monitor generator: all event sequences of length <= 6")
    for witness in ("SomeLeakState", "SomeTickAfterRelease"):
        r = tlc.run("Lifecycle", tlc.cfg_text(consts, invariants=[witness]), workers=4, timeout=900)
        if r.ok:
            raise tlc.TLCFailure(f"vacuity: witness state for {witness} is unreachable in the monitor model")
    return res


def replay(rec) -> int:
    import json
    r = run_pipeline(rec["spec"])
    if r["trace"] is None:
        print("replay: pipeline skipped:", r["skip"])
        return 2
    tr = {"strict": r["trace"]["strict"], "own": r["trace"].get("own", False), "solo": r["trace"].get("solo", False), "ev": [{k: v for k, v in e.items() if k in ("e", "id", "k", "g", "r", "o", "t")} for e in r["trace"]["ev"]]}
    rejected, _ = tracecheck.validate("LifecycleTrace", CONSTS, [tr])
    for e in r["trace"]["ev"]:
        print("  ", e)
    if rejected:
        print("rejected at event", rejected[0][1], attribute(r["trace"]["ev"], rejected[0][1], r["trace"]["strict"]))
        return 1
    print("replay: trace accepted by LifecycleTrace.tla")
    return 0
