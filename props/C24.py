"""C24 - multicasting shares one source subscription per connection.
Spec: Connectable.tla with one application (lazy enumeration of subscribe / unsubscribe / connect /
disconnect histories at model-chosen instants, cold and hot sources, both same-instant orders).
Binding A: every exported history is performed on the real operators in every construction the
library offers for the variant; source-subscription intervals and every subscriber's timed stream
must equal the model's."""
from __future__ import annotations

import json
import random
import time
from concurrent.futures import ThreadPoolExecutor

from harness import core, tlc
from props import connect_common as cc

INVS = ["Grammar", "OnePerConnection", "OnlyWhileConnected", "RefCountEdges", "AutoRule", "MapperRule", "RefOK"]
JVM = None   # harness/tlc.py keeps the JVM thread count low itself
ALLSK = {"plain", "behavior", "replay"}
BOTH = {True, False}
TIES = {"src", "cmd"}


def _c(**kw):
    base = dict(NApps=1, NSubs=2, MaxSteps=3, TEnd=4, MaxGap=1, SKs=ALLSK, Bs={1, 99}, Ws={99}, Wrs={"none"}, Ns={0},
                Mps={"none"}, SrcIds={1, 3}, GenLen=0, Hots=BOTH, Ties=TIES, ReUnsub=False, StaleDisc=False, Modes={"all"}, MinLen=0)
    base.update(kw)
    return base


def plan(tier: str, seed: int):
    """[(label, constants, simulate-or-None, depth)]"""
    deep = dict(NSubs=3, MaxSteps=6 if tier == "quick" else 8, TEnd=5, MaxGap=2, Wrs={"none", "ref_count", "auto"},
                Ns={0, 1, 2, 3}, Mps={"none", "id", "dup", "take1"}, SrcIds=set(range(1, 11)), ReUnsub=True, StaleDisc=True,
                Modes={"all", "once", "spawn"}, MinLen=4)
    d = deep["MaxSteps"] + 2
    if tier == "quick":
        return [("raw connectables, 3 steps", _c(SrcIds={1}), None, None),
                ("ref_count/auto_connect (+ re-entrant subscribers), 3 steps",
                 _c(Wrs={"ref_count", "auto"}, Ns={0, 1, 2}, SrcIds={3}, Modes={"all", "spawn"}), None, None),
                ("mapper forms, 3 steps", _c(Mps={"id", "dup", "take1"}, SrcIds={1}), None, None),
                ("synchronously emitting cold sources (+ re-entrant connect), 3 steps",
                 _c(Wrs={"none", "ref_count", "auto"}, Ns={1, 2}, Mps={"none", "id", "take1"}, SrcIds={11, 12}, Hots={False},
                    Bs={1}, Modes={"all", "reconnect"}), None, None),
                ("simulate all variants", _c(Bs={0, 1, 2, 99}, Ws={1, 2, 99}, **deep), "num=500", d)]
    nsim = 4000
    gen = dict(deep, SrcIds=set(), GenLen=3, TEnd=4)
    return [("raw connectables, 4 steps", _c(MaxSteps=4, NSubs=2, SrcIds={1, 3}, StaleDisc=True), None, None),
            ("ref_count/auto_connect, 5 steps", _c(Wrs={"ref_count", "auto"}, Ns={0, 1, 2, 3}, MaxSteps=5, NSubs=3, SrcIds={1}),
             None, None),
            ("self-unsubscribing subscribers, 3 steps", _c(Wrs={"none", "ref_count", "auto"}, Ns={1, 2}, SrcIds={4, 1},
                                                          Modes={"all", "once"}), None, None),
            ("re-entrant subscribers, 3 steps", _c(Wrs={"none", "ref_count", "auto"}, Ns={1, 2}, SrcIds={1}, NSubs=3,
                                                    Modes={"all", "spawn"}), None, None),
            ("mapper forms, 4 steps", _c(Mps={"id", "dup", "take1"}, MaxSteps=4, NSubs=3, SrcIds={1, 3, 5}), None, None),
            ("replay windows, 4 steps", _c(SKs={"replay"}, Bs={0, 2, 99}, Ws={1, 2}, Wrs={"none", "ref_count"}, MaxSteps=4,
                                           SrcIds={1, 7}, Ties={"src"}), None, None),
            ("simulate plain/behavior", _c(SKs={"plain", "behavior"}, **deep), f"num={nsim}", d),
            ("simulate replay (buffer, window)", _c(SKs={"replay"}, Bs={0, 1, 2, 99}, Ws={1, 2, 99}, **deep), f"num={nsim}", d),
            ("simulate generated timelines", _c(SKs=ALLSK, Bs={1, 99}, Ws={2, 99}, **gen), f"num={nsim}", d)]


def variants(scn, idx: int, every_form: bool):
    """Constructions of the variant (all of them, or two in rotation in the quick tier) with plain values
    and stride 10, plus one rotating extra: falsy values / stride 3 / HistoricalScheduler (datetime clock) / subscribe(scheduler=...)."""
    forms = cc.forms_for(scn["kind"], scn["tie"], 1, cc.has_once(scn))
    use = forms if every_form or len(forms) <= 2 else [forms[idx % len(forms)], forms[(idx + 1) % len(forms)]]
    vs = [dict(form=f, profile="plain", salt=idx % 2, stride=10) for f in use]
    extra = idx % 4
    f0 = forms[(idx + 2) % len(forms)]
    if extra == 0:
        vs.append(dict(form=f0, profile="falsy", salt=idx % 5, stride=10))
    elif extra == 1:
        vs.append(dict(form=f0, profile="plain", salt=1, stride=3))
    elif extra == 2:
        vs.append(dict(form=f0, profile="plain", salt=idx % 2, stride=10, clock="hist"))   # HistoricalScheduler: datetime clock
    elif scn["kind"]["mp"] == "none":
        vs.append(dict(form=f0, profile="plain", salt=0, stride=10, sub_sched=True))
    return vs


def _job(args):
    idx, scn, allowed, every_form = args
    out, n = [], 0
    for v in variants(scn, idx, every_form):
        n += 1
        f = cc.judge(scn, allowed, **v)
        if f:
            out.append(f)
    return n, out


def nontrivial(scn, allowed) -> bool:
    obs = allowed[0]
    return any(len(cc.seq(r)) > 0 for r in cc.seq(obs["subs"])) and any(len(cc.seq(o)) > 0 for o in cc.seq(obs["out"]))


def run(tier: str) -> int:
    ck = core.Check("C24", tier)
    ck.rule = ("histories of subscribe/unsubscribe/connect/disconnect at model-chosen instants (commands may share an instant "
               "with each other and with source events, both orders) over cold and hot logged sources, for publish / "
               "publish_value / replay(buffer, window) connectables, ref_count / share, auto_connect(0..3), subscribers that "
               "unsubscribe themselves from inside their first delivery (take(1)), subscribers that subscribe another "
               "observer from inside their first delivery (re-entrant subscribe), cold sources that emit synchronously inside "
               "subscribe (i.e. during connect()) with subscribers that call connect() again from inside their first delivery "
               "(re-entrant connect), and the mapper "
               "forms of publish / publish_value / replay / multicast(subject_factory); enumerated lazily by TLC on "
               "Connectable.tla, each performed on every construction the library offers for the variant; non-trivial = "
               "at least one source subscription and one non-empty subscriber stream")
    jobs = plan(tier, ck.seed)

    def one(j):
        label, consts, sim, depth = j
        return tlc.run("Connectable", tlc.cfg_text(consts, invariants=INVS + ["Export"]), workers=1,
                       timeout=900 if tier == "quick" else 3000, simulate=sim, depth=depth,
                       seed=(ck.seed + 11) if sim else None, xmx="2g", env_extra=JVM, allow_violation=False)
    lines = []
    t0 = time.time()
    with ThreadPoolExecutor(4) as ex:
        for j, res in zip(jobs, ex.map(one, jobs)):
            ck.add_tlc(res, j[0] + (" [simulation]" if j[2] else " [exhaustive]"))
            lines += res.lines
    ck.exhaustive = False   # exhaustive up to the stated step bounds, simulated beyond
    t1 = time.time()
    groups = core.group_allowed(lines)
    ck.note("scenarios", len(groups))
    ck.note("scenarios_with_choice", sum(1 for g in groups if len(g[1]) > 1))
    total = 0
    for n, fails in core.parallel_map(_job, [(i, s, a, tier != "quick") for i, (s, a) in enumerate(groups)], procs=cc.pool_procs(tier), chunk=100):
        total += n
        for f in fails:
            ck.fail(f)
    ck.impl = total
    ck.note("phase_seconds", {"tlc": round(t1 - t0, 1), "replay": round(time.time() - t1, 1)})
    ck.nontrivial = sum(1 for g in groups if nontrivial(*g))
    by = {}
    for s, _ in groups:
        k = s["kind"]
        key = f"{k['sk']}/{k['wr']}{k['n'] if k['wr'] == 'auto' else ''}/{k['mp']}"
        by[key] = by.get(key, 0) + 1
    ck.note("scenarios_by_variant", by)
    ck.note("history_lengths", {str(n): sum(1 for s, _ in groups if len(cc.seq(s["hist"])) == n) for n in range(0, 9)})
    rnd = random.Random(ck.seed)
    for g in rnd.sample(groups, min(5, len(groups))):
        ck.sample({"scn": g[0], "allowed": g[1]})
    ck.assumptions = [
        "TestScheduler runs actions in (due, seq) order (checked separately: C28); the replayer realises the scenario's "
        "same-instant order by the order in which it queues commands and creates sources",
        "source events live at instants >= 1 relative to a cold subscription (TestScheduler cold observables never emit "
        "inside subscribe), except the offset-0 events of SrcTab rows 11-13, which the codec's SyncCold source delivers inside subscribe",
        "the handle returned by a connect() call made re-entrantly while the outer connect() is still subscribing the source is not compared",
        "zero-length source subscriptions (connected and disconnected within one call) are outside the asserted projection",
        "auto_connect(n) is read as the docstring says: the connection is made when the n-th subscription ever occurs",
        "a windowed replay is only driven with the subject on the TestScheduler and under the 'src' order (deliveries are "
        "same-instant hops; commands wait for them)",
    ]
    return ck.finish()


def replay(rec) -> int:
    f = cc.replay_record(rec)
    print(json.dumps({k: f[k] for k in ("reason", "form", "tie", "sk", "wr", "mp")}, default=str)[:2000] if f
          else "replay: observation allowed by the spec")
    return 1 if f else 0


META = {
    'technique': 'TLC-enumerated subscribe/unsubscribe/connect/disconnect histories of Connectable.tla replayed on the real multicasting operators on TestScheduler',
    'level': 'Connectable.tla states connectables, ref_count/share, auto_connect and the mapper forms as a pure step function over one application state; TLC checks on every state of the bounded history space that there is exactly one source subscription per effective connect and only while connected, that ref_count is connected exactly while it has subscribers, that auto_connect(n) is connected from the n-th subscription on, and that every subscriber stream equals the declarative slice of what the shared subject received (plus current / replayed values); every history is exported with its observation and performed on each real construction (publish, publish_value, replay, multicast(subject), ConnectableObservable, share, ref_count, auto_connect, mapper forms) with cold and hot sources and both same-instant orders; source-subscription intervals and timed per-subscriber streams must be equal. Exhaustive for the short step bounds stated in the evidence, simulated beyond.',
    'note': 'TLC; the codec of props/connect_common.py (instants, value tokens, constructions, same-instant order); TestScheduler (C28)',
    'ref': 'DESIGN.md 6 C24, D.9',
}
