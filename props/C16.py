"""C16 - rate-limiting operators follow their timing rules (OpsTime.tla, Binding A).
debounce / throttle_with_timeout, throttle_first, throttle_with_mapper, sample(period), sample(sampler observable)."""
from harness import core
from props import time_common as tc

BASE = dict(MaxLen=3, MaxT=4, Lo=1, Small=set(), MaxLenS=2, MaxTS=3, Ds={0, 1, 2}, AbsLo=1, Terms={"C", "E", "U"}, AuxLen=2,
            SpecKs={"N", "C", "E", "U", "X"}, SpecTs={0, 1, 2}, Hz=7, DispOps=set(), DispLen=1, EchoOps=set(), EchoKs=set())

# EchoOps / EchoKs: feedback - the sink, on its k-th element, pushes one more element into the (hot) source from inside on_next
QUICK = [(["debounce", "throttle_first", "sample"], dict(DispOps={"debounce"}, EchoOps={"sample", "debounce"}, EchoKs={1})),
         (["throttle_with_mapper", "sample_obs"],
          dict(MaxLen=2, MaxT=3, SpecTs={0, 2}, SpecKs={"N", "C", "E", "U", "X", "S"}, Terms={"C", "E"}, Small={"sample_obs"}, MaxLenS=2, MaxTS=2, AuxLen=2, Hz=5,
               EchoOps={"sample_obs", "throttle_with_mapper"}, EchoKs={1}))]

THOROUGH = [(["debounce", "throttle_first", "sample"], dict(MaxLen=4, MaxT=6, Ds={0, 1, 2, 3}, Hz=10)),
            (["debounce", "sample", "sample_obs", "throttle_with_mapper"],
             dict(MaxLen=3, MaxT=4, AuxLen=2, SpecTs={0, 2}, Small={"sample_obs", "throttle_with_mapper"}, MaxLenS=2, MaxTS=3, Hz=7,
                  EchoOps={"debounce", "sample", "sample_obs", "throttle_with_mapper"}, EchoKs={1, 2})),
            (["throttle_with_mapper"], dict(MaxLen=3, MaxT=3, SpecTs={0, 2}, Hz=6)),
            (["sample_obs"], dict(MaxLen=3, MaxT=3, AuxLen=2, Hz=5)),
            (["debounce", "throttle_first", "sample", "throttle_with_mapper", "sample_obs"],
             dict(MaxLen=2, MaxT=3, SpecTs={0, 2}, AuxLen=1, Hz=6, DispLen=2,
                  DispOps={"debounce", "throttle_first", "sample", "throttle_with_mapper", "sample_obs"})),
            # a cold source that notifies at its very subscription instant
            (["debounce", "throttle_first", "sample", "throttle_with_mapper", "sample_obs"],
             dict(Lo=0, MaxLen=2, MaxT=2, SpecTs={0, 1}, AuxLen=1, Hz=5))]

SIM = (["debounce", "throttle_first", "sample"], dict(MaxLen=5, MaxT=7, Ds={0, 1, 2, 3, 5}, Hz=13))


def run(tier):
    ck = core.Check("C16", tier)
    groups = tc.run_groups(ck, QUICK if tier == "quick" else THOROUGH, BASE, tier)
    ck.exhaustive = True
    if tier == "thorough":
        nsim = tc.simulate_and_replay(ck, SIM[0], dict(BASE, **SIM[1]), 20000, tier)
        ck.note("simulated_tie_free_scenarios", nsim)
    ck.rule = ("every source timeline (element times 1..MaxT non-decreasing - bursts, gaps below / equal to / above the due time "
               "-, 0..MaxLen elements, ending in completion, error or nothing) x every due time / window / period / throttle-"
               "observable table / sampler timeline, enumerated by TLC on OpsTime.tla with every order of same-instant events; "
               "each scenario run on the real operator with 3-5 source scripts (and sampler scripts) that resolve same-instant "
               "ties differently, on TestScheduler and HistoricalScheduler; non-trivial = the expected output is not the input "
               "unchanged, or the scenario has a same-instant tie")
    ck.nontrivial = sum(1 for g in groups if tc.nontrivial(*g))
    ck.note("scenarios", len(groups))
    ck.note("scenarios_with_ties", sum(1 for g in groups if tc.has_tie(*g)))
    ck.note("operators", sorted({g[0]["op"] for g in groups}))
    ck.note("not_compared", ["sample: whether and when the result completes (the statement gives neither)",
                             "instant at which the source subscription is released (recorded as model_drift only)"])
    for g in groups[:: max(1, len(groups) // 5)][:5]:
        ck.sample({"scn": g[0], "allowed": g[1]})
    ck.assumptions = ["TestScheduler/HistoricalScheduler run actions in due order, FIFO among equals (checked separately: C28)",
                      "a newer element (or the source's terminal) arriving at exactly the due time races the timer: both outcomes "
                      "allowed; an element arriving at exactly a sampler tick may be sampled by that tick or the next",
                      "whether the sampler's completion samples is not stated: both allowed",
                      "1 model tick = 1, 7 or 60 virtual seconds"]
    return ck.finish()


replay = tc.generic_replay


META = {
    'technique': 'TLC-enumerated timed scenarios of OpsTime.tla (lane/tie runner, transducer checked against a time-level reference) replayed on the real operators on TestScheduler and HistoricalScheduler',
    'level': 'OpsTime.tla states debounce, throttle_first, throttle_with_mapper and sample (period and sampler observable) twice (timer-lane transducer and a must/may reference over the timeline\'s times; TLC checks agreement, grammar, causality and not-early invariants on every enumerated timeline and every order of same-instant events) and exports each scenario with its allowed observations; each is run on the real operator with several source and sampler scripts that drive same-instant ties differently, on a float and on a datetime virtual clock, with number / float / timedelta arguments and falsy element values, and must match on values, instants and terminal (elements and errors only for sample). Exhaustive for the stated bounds, sampled beyond them in the thorough tier.',
    'note': 'TLC 1.8; codec of props/time_common.py (scripted sources, spec observables); virtual-time schedulers (verified by C28)',
    'ref': 'DESIGN.md 6 C16, 3.2, App. C',
}
