"""C12 - switching forwards only the latest inner sequence (OpsMerge.tla, Binding A)."""
from harness import core
from props import merge_common as mc

# quick tier: the fixed parameter slices q12_* of OpsMerge.tla (SliceOf), two TLC processes
QUICK = [
    ("slices q12_switch", dict(Slices={"q12_switch"})),
    ("slices q12_short q12_fb q12_mapped q12_hot q12_dispose q12_excl q12_take",
     dict(Slices={"q12_short", "q12_fb", "q12_mapped", "q12_hot", "q12_dispose", "q12_excl", "q12_take"})),
]

THOROUGH = [
    ("switch_latest", dict(Ops={"switch_latest"}, Tabs={"plain", "short", "error", "never"}, Flavours={"cold", "sync"}, RG=False)),
    ("switch_latest hot", dict(Ops={"switch_latest"}, Tabs={"pair", "error"}, Flavours={"hot"})),
    ("long table, 4 inners", dict(Ops={"switch_latest"}, Tabs={"long"}, Flavours={"cold", "sync"}, MaxOuter=4, OTimes={1, 2, 4},
                                 OTermTimes={2, 4, 9})),
    ("mapped + every mapper table", dict(Ops={"switch_map", "switch_map_indexed", "flat_map_latest"}, Tabs={"error"},
                                         Flavours={"cold", "sync"}, Faults=True, FAll=True, MaxOuter=2)),
    ("mapped + faults", dict(Ops={"switch_map", "switch_map_indexed", "flat_map_latest"}, Tabs={"plain", "never"},
                             Flavours={"cold", "sync"}, Faults=True)),
    ("dispose instants", dict(Ops={"switch_latest", "switch_map"}, Tabs={"plain", "error"}, Flavours={"cold", "sync"},
                              DspTicks={0, 1, 2, 3, 4, 5}, OTermTimes={2, 5})),
    ("outer events at the subscription instant", dict(Ops={"switch_latest", "flat_map_latest"}, Tabs={"short", "error"},
                                                      Flavours={"cold", "sync"}, OTimes={0, 1, 2}, OTermTimes={0, 1, 3})),
    ("generated tables", dict(Ops={"switch_latest"}, Tabs={"gen"}, Flavours={"cold", "sync"}, MaxOuter=3, OTimes={1, 2},
                              OTermTimes={1, 2, 4}, GenN=2, GenLen=2, GenTimes={0, 1})),
    ("exclusive (growth)", dict(Ops={"exclusive"}, Tabs={"plain", "error", "never"}, Flavours={"cold", "sync", "hot"})),
    ("cut by take(k) in the middle of a notification",
     dict(Ops={"switch_latest", "switch_map", "exclusive"}, Tabs={"short", "error"}, Flavours={"sync", "cold"}, RG=False,
          OTimes={0, 1, 2}, OTermTimes={2, 5}, OTerms={"C", "U"}, Takes={1, 2})),
    ("mapper returning a list", dict(Ops={"switch_map", "switch_map_indexed", "flat_map_latest"}, Tabs={"zero"}, Flavours={"cold"},
                                     Faults=True)),
]
SIM = ("simulate: generated tables, 3 inners",
       dict(Ops={"switch_latest", "switch_map", "switch_map_indexed", "flat_map_latest", "exclusive"}, Tabs={"gen"},
            Flavours={"cold", "sync", "hot"}, MaxOuter=4, OTimes={1, 2, 3, 4}, OTermTimes={1, 2, 3, 4, 6, 8}, GenN=3, GenLen=3,
            GenTimes={0, 1, 2, 3}, RG=False, Faults=True, DspTicks={1, 3, 5}, Takes={2, 3}))


def run(tier):
    ck = core.Check("C12", tier)
    runs = QUICK if tier == "quick" else THOROUGH
    lines = mc.export_runs(ck, runs, par=4, named=(tier != "quick"), timeout=(600 if tier == "quick" else 3000))
    groups = core.group_allowed(lines)
    ck.exhaustive = True
    ck.note("scenarios_exhaustive", len(groups))
    ck.note("scenarios_with_tie_choice", sum(1 for g in groups if len(g[1]) > 1))
    if tier != "quick":
        sim = mc.export_runs(ck, [(SIM[0], SIM[1], (60000, 40, ck.seed + 12))], par=1, named=True, timeout=2400)
        det = mc.deterministic_only(sim)
        ck.note("simulated_scenarios", len(sim))
        ck.note("simulated_scenarios_tie_free_compared", len(det))
        groups += core.group_allowed(det)
    mc.replay_groups(ck, groups, ("plain", "falsy", "str"), light=(tier != "quick"))
    mc.binding_selftest(ck, groups)
    ck.nontrivial = sum(1 for g in groups if mc.nontrivial(*g))
    ck.rule = ("outer timelines (<= 3-4 inner arrivals, ending in completion, error or nothing) x tables of inner timelines (shape "
               "classes: overlapping lifetimes, over before the next arrives, erroring while current / after being replaced, never "
               "terminating; thorough: every table within bounds) x inner flavour (cold, emitting synchronously at subscription, hot) "
               "x mapper tables with a raising entry x dispose instants, enumerated by TLC on OpsMerge.tla with all same-instant "
               "orders between lanes; each replayed with a hot and a cold (or synchronous) outer source and plain/falsy values; "
               "non-trivial = at least two inner subscriptions (one replaced or followed by another)")
    ck.note("operators", sorted({g[0]["op"] for g in groups}))
    ck.note("model_invariants", mc.MODEL_INVS + mc.MODEL_PROPS)
    step = max(1, len(groups) // 5)
    for g in groups[::step][:5]:
        ck.sample({"scn": g[0], "allowed": g[1][:3]})
    ck.assumptions = [
        "TestScheduler/VirtualTimeScheduler run actions in due order (checked separately: C28)",
        "an inner element or error due at the very instant the next inner arrives may or may not be seen (different lanes, DESIGN 3.2)",
        "the subscriber disposes strictly between two instants (half a tick after the chosen one)",
        "the closed-form reference covers cold and synchronously-emitting inners; hot inners: transducer + state invariants",
        "exclusive (not named by the property) is checked against its transducer and the state invariants only",
        "simulated (non-exhaustive) scenarios are compared only when no two lanes coincide",
    ]
    return ck.finish()


replay = mc.generic_replay

META = {
    'technique': 'TLC-enumerated outer/inner timelines of OpsMerge.tla (lanes with free same-instant order; transducer checked against a closed-form statement of the property in the model) replayed on the real switch operators on TestScheduler',
    'level': 'OpsMerge.tla states switch_latest / switch_map / switch_map_indexed / flat_map_latest twice: as a handler-level transducer (latest, hasLatest, outerDone) and as a closed predicate on (scenario, output, subscription log) - an inner element is forwarded iff it is due before the next inner arrives, the previous inner is unsubscribed at the arrival of the next, errors of replaced inners are ignored and errors of the current inner or the outer terminate, completion exactly when the outer and the last inner completed. TLC checks the first against the second, the action property that every forwarded element comes from the latest inner, and grammar / released / at-most-one-subscription invariants in every state, and exports every scenario with all outcomes the tie policy allows; each is run on the real operator with cold, hot and synchronously-emitting test sources and must equal one allowed outcome on output stream with times, terminal, per-inner subscription intervals and outer subscription interval. Exhaustive for the stated bounds, simulated beyond.',
    'note': 'TLC; codec of props/merge_common.py; TestScheduler (verified by C28); single thread - a stale inner that keeps emitting after being unsubscribed is outside this binding',
    'ref': 'DESIGN.md 6 C12, App. A.7, App. C',
}
