"""Binding A for OpsSeq.tla (C10, resubscription dimension of C04) and OpsSources.tla (C37).

Only the codec lives here: tokens <-> Python values, ticks <-> virtual times, operator name +
form -> the real reactivex call, and the projection of a real run to the record the model
exports.  Which source is subscribed when, what is emitted and how many subscriptions are made
is decided by the TLA+ modules alone.

C10 observation (asserted projection): the recorded notifications (kind, instant, value
identity / error identity), the subscription intervals of every cold source read from
`ColdObservable.subscriptions` (per source, in order), the total number of subscriptions, the
arguments of user-callback calls, and - with the probe wrapper - that a source is opened only
after the previous one delivered its terminal.

Second replay configuration (run_sync / judge_sync): the same scenarios WITHOUT virtual time - hand-driven
and library sources that deliver their offset-0 events inside subscribe(), the result subscribed with
scheduler=ImmediateScheduler() (the hand-over to the next source runs inline, re-entrantly) or with the
default trampoline - judged against the same exported expectations minus the instants.
"""
from __future__ import annotations

import json
import signal
import sys
from typing import Any, Dict, List, Optional, Tuple

NEVER_T = sys.maxsize
NEVER = 999
INF = 99
FN = 50
T0 = 200          # subscription instant on TestScheduler
TICK = 10         # one model tick
HALF = 5          # dispose happens half a tick after instant dsp

LIST_OPS = ("concat", "for_in", "catch", "oern", "oern_f")
RUN_OPS = ("repeat", "retry", "while_do", "do_while")
CB_OPS = ("for_in", "oern_f", "catch_handler", "while_do", "do_while")
ALL_OPS = LIST_OPS + RUN_OPS + ("start_with", "catch_handler")
SEQ_INVS = ["Grammar", "Causal", "Silent", "NoOverlap", "InOrder", "Continuation", "OutConcat", "Released",
            "RepeatCount", "RetryCount", "Resub", "RefOK"]


class FnErr(Exception):
    """raised by a scenario's user callback"""


class SrcErr(Exception):
    """a source's on_error value"""


class Hang(BaseException):
    pass


def _alarm(signum, frame):
    raise Hang()


class watchdog:
    """A real run that does not come back is a failure, not a stuck check.  Two timers: CPU time of
    this process (a run spinning at one instant burns CPU; a process merely starved by other work on
    the box does not) and a long wall-clock limit for runs blocked on a lock."""

    def __init__(self, cpu_seconds: float = 10.0, wall_seconds: float = 300.0):
        self.cpu, self.wall = cpu_seconds, wall_seconds

    def __enter__(self):
        self.old = signal.signal(signal.SIGALRM, _alarm)
        self.oldp = signal.signal(signal.SIGPROF, _alarm)
        signal.setitimer(signal.ITIMER_REAL, self.wall)
        signal.setitimer(signal.ITIMER_PROF, self.cpu)

    def __exit__(self, *a):
        signal.setitimer(signal.ITIMER_PROF, 0)
        signal.setitimer(signal.ITIMER_REAL, 0)
        signal.signal(signal.SIGALRM, self.old)
        signal.signal(signal.SIGPROF, self.oldp)
        return False


FALSY = [None, 0, "", (), [], {}, 0.0, False]


def strict_eq(a: Any, b: Any) -> bool:
    if type(a) is not type(b):
        return False
    if isinstance(a, (list, tuple)):
        return len(a) == len(b) and all(strict_eq(x, y) for x, y in zip(a, b))
    return a == b


class SeqCodec:
    def __init__(self, profile: str, salt: int = 0):
        self.profile, self.salt = profile, salt
        self.errs: Dict[int, SrcErr] = {}

    def val(self, j: int, q: int) -> Any:
        if self.profile == "falsy":
            return FALSY[(self.salt + 3 * j + q) % len(FALSY)]
        if self.profile == "ints":
            return 100 * j + q
        return f"s{j}e{q}"

    def err(self, j: int) -> SrcErr:
        if j not in self.errs:
            self.errs[j] = SrcErr(f"src{j}")
        return self.errs[j]


def tick_time(t: int) -> int:
    return T0 + TICK * t


# ---- forms -----------------------------------------------------------------------------------------
def forms_for(scn: Dict[str, Any]) -> List[str]:
    op, K = scn["op"], len(scn["srcs"])
    if op == "concat":
        return ["fn", "iter_list", "iter_gen"] + (["pipe"] if K >= 1 else [])
    if op == "for_in":
        return ["list", "gen"]
    if op == "catch":
        return ["fn", "iter_list", "iter_gen"] + (["pipe"] if K >= 2 else [])
    if op == "oern":
        return ["fn"] + (["pipe"] if K >= 2 else [])
    if op in RUN_OPS:
        return ["script"] + (["direct"] if K == 1 else [])
    if op == "oern_f":
        return ["factories"] + (["mixed"] if K >= 2 and not scn["flt"] else [])
    if op == "catch_handler":
        return ["pipe", "same"]     # same: the handler returns the source it was given (its 2nd run is timeline 2)
    return ["pipe"]


REITERABLE_FORMS = {"fn", "iter_list", "pipe", "list", "direct", "script", "factories", "mixed"}   # forms whose arguments can be iterated again (C04)


class Built:
    """the scenario built on the real library"""
    pass


def _sync_sources(b, srcs, cod: "SeqCodec", lib: bool):
    """Untimed, hand-driven cold sources (no scheduler of their own): every event whose offset from the
    subscription is 0 is delivered INSIDE subscribe(), the later ones one at a time by `drive`.  With lib=True a
    timeline that lies entirely at offset 0 is the library's own synchronous source (from_iterable / throw / never)
    behind a logging wrapper.  Every subscription is logged in b.events / b.subrecs."""
    import reactivex
    from reactivex import Observable
    from reactivex.disposable import CompositeDisposable, Disposable
    out = {}

    def events_of(j, tl):
        evs, t = [], 0
        for q in range(1, tl["n"] + 1):
            t += tl["g"][q - 1]
            evs.append((t, "N", cod.val(j, q)))
        if tl["t"] != "U":
            t += tl["g"][tl["n"]]
            evs.append((t, tl["t"], cod.err(j) if tl["t"] == "E" else None))
        return evs

    def pump(rec, only_sync):
        evs = rec["evs"]
        while rec["pos"] < len(evs) and not rec["disposed"] and not rec["done"]:
            t, k, v = evs[rec["pos"]]
            if only_sync and t > 0:
                return
            rec["pos"] += 1
            if k == "N":
                rec["obs"].on_next(v)
            else:
                rec["done"] = True
                b.events.append(("term", rec["j"]))
                rec["obs"].on_completed() if k == "C" else rec["obs"].on_error(v)
            if not only_sync:
                return
    b.pump = pump

    def manual(j, evs):
        def subscribe(observer, scheduler=None):
            rec = {"j": j, "pos": 0, "obs": observer, "disposed": False, "done": False, "evs": evs}
            b.subrecs.append(rec)
            b.events.append(("open", j))

            def dispose():
                if not rec["disposed"]:
                    rec["disposed"] = True
                    b.events.append(("close", j))
            pump(rec, True)
            return Disposable(dispose)
        return Observable(subscribe)

    def library(j, tl, evs):
        if tl["t"] == "C":
            inner = reactivex.from_iterable([v for _, k, v in evs if k == "N"])
        elif tl["t"] == "E":
            inner = reactivex.throw(cod.err(j))
        else:
            inner = reactivex.never()

        def subscribe(observer, scheduler=None):
            rec = {"j": j, "pos": len(evs), "obs": observer, "disposed": False, "done": False, "evs": evs}
            b.subrecs.append(rec)
            b.events.append(("open", j))

            def dispose():
                if not rec["disposed"]:
                    rec["disposed"] = True
                    b.events.append(("close", j))

            def on_error(e):
                rec["done"] = True
                b.events.append(("term", j))
                observer.on_error(e)

            def on_completed():
                rec["done"] = True
                b.events.append(("term", j))
                observer.on_completed()
            d = inner.subscribe(observer.on_next, on_error, on_completed, scheduler=scheduler)
            return CompositeDisposable(d, Disposable(dispose))
        return Observable(subscribe)

    for j, tl in enumerate(srcs, start=1):
        evs = events_of(j, tl)
        all_sync = all(t == 0 for t, _, _ in evs)
        lib_ok = lib and all_sync and (tl["t"] == "C" or tl["n"] == 0)
        out[j] = library(j, tl, evs) if lib_ok else manual(j, evs)
    return out


def build(scn: Dict[str, Any], s, cod: SeqCodec, form: str, probe: bool, sync: Optional[str] = None, lib: bool = False) -> Built:
    import reactivex
    from reactivex import Observable
    from reactivex import operators as ops
    from reactivex.testing import ReactiveTest
    op, par, srcs, cut, flt = scn["op"], scn["par"], scn["srcs"], scn["cut"], scn["flt"]
    K = len(srcs)
    b = Built()
    b.events = []      # probe log: ("open"|"term"|"close", j)
    b.calls = []       # callback arguments as tokens
    b.base = 0         # len(calls) when the latest subscription started
    b.call_pos = None  # positions of the model's callback calls this form actually makes (None = all)
    b.colds = {}
    b.subrecs = []     # sync mode: one record per source subscription
    for j, tl in enumerate(srcs if sync is None else [], start=1):
        msgs, t = [], 0
        for q in range(1, tl["n"] + 1):
            t += tl["g"][q - 1]
            msgs.append(ReactiveTest.on_next(TICK * t, cod.val(j, q)))
        if tl["t"] != "U":
            t += tl["g"][tl["n"]]
            msgs.append(ReactiveTest.on_completed(TICK * t) if tl["t"] == "C" else ReactiveTest.on_error(TICK * t, cod.err(j)))
        b.colds[j] = s.create_cold_observable(msgs)

    def probed(j: int):
        cold = b.colds[j]

        def subscribe(observer, scheduler=None):
            from reactivex.disposable import CompositeDisposable, Disposable
            b.events.append(("open", j))

            def on_error(e):
                b.events.append(("term", j))
                observer.on_error(e)

            def on_completed():
                b.events.append(("term", j))
                observer.on_completed()
            d = cold.subscribe(observer.on_next, on_error, on_completed, scheduler=scheduler)
            return CompositeDisposable(d, Disposable(lambda: b.events.append(("close", j))))
        return Observable(subscribe)

    if sync is None:
        S = {j: (probed(j) if probe else b.colds[j]) for j in b.colds}
    else:
        S = _sync_sources(b, srcs, cod, lib)
    b.S = S

    def call(arg_tok: int):
        b.calls.append(arg_tok)
        if flt and len(b.calls) == flt:
            raise FnErr("callback")

    def err_tok(e):
        for j, x in cod.errs.items():
            if x is e:
                return j
        return -1

    if op in RUN_OPS:
        if form == "direct":
            src = S[1]
        else:
            runs = [0]

            def subscribe(observer, scheduler=None):
                runs[0] += 1
                return S[min(runs[0], K)].subscribe(observer, scheduler=scheduler)
            src = Observable(subscribe)
        b.src = src

    lst = [S[j] for j in range(1, K + 1)]
    if op == "concat":
        if form == "fn":
            ys = reactivex.concat(*lst)
        elif form == "pipe":
            ys = lst[0].pipe(ops.concat(*lst[1:]))
        elif form == "iter_list":
            ys = reactivex.concat_with_iterable(lst)
        else:
            ys = reactivex.concat_with_iterable(x for x in lst)
    elif op == "for_in":
        vals = [("val", j) for j in range(1, K + 1)]

        def mapper(v):
            call(v[1])
            return S[v[1]]
        ys = reactivex.for_in(vals if form == "list" else (v for v in vals), mapper)
    elif op == "catch":
        if form == "fn":
            ys = reactivex.catch(*lst)
        elif form == "pipe":
            ys = lst[0]
            for nxt in lst[1:]:
                ys = ys.pipe(ops.catch(nxt))
        elif form == "iter_list":
            ys = reactivex.catch_with_iterable(lst)
        else:
            ys = reactivex.catch_with_iterable(x for x in lst)
    elif op == "oern":
        if form == "fn":
            ys = reactivex.on_error_resume_next(*lst)
        else:
            ys = lst[0]
            for nxt in lst[1:]:
                ys = ys.pipe(ops.on_error_resume_next(nxt))
    elif op == "oern_f":
        def factory(j):
            def f(e):
                call(0 if e is None else err_tok(e))
                return S[j]
            return f
        if form == "mixed":     # factories at the odd positions, plain observables at the even ones
            b.call_pos = {j for j in range(1, K + 1) if j % 2 == 1}
            ys = reactivex.on_error_resume_next(*[factory(j) if j % 2 == 1 else S[j] for j in range(1, K + 1)])
        else:
            ys = reactivex.on_error_resume_next(*[factory(j) for j in range(1, K + 1)])
    elif op in ("repeat", "retry"):
        n = par["n"]
        o = getattr(ops, op)
        ys = b.src.pipe(o() if n == INF else o(n))
    elif op in ("while_do", "do_while"):
        script = par["c"]

        def cond(x):
            call(0 if x is b.src else -1)
            i = len(b.calls) - b.base      # the script restarts with every subscription (deterministic callback)
            return i <= len(script) and script[i - 1]
        ys = b.src.pipe(getattr(ops, op)(cond))
    elif op == "start_with":
        ys = S[1].pipe(ops.start_with(*[cod.val(0, i) for i in range(1, par["a"] + 1)]))
    elif op == "catch_handler":
        if form == "same":
            runs = [0]

            def subscribe2(observer, scheduler=None):
                runs[0] += 1
                return S[min(runs[0], 2)].subscribe(observer, scheduler=scheduler)
            first = Observable(subscribe2)
        else:
            first = S[1]

        def handler(e, source):
            call(err_tok(e) if source is first else -1)
            return source if form == "same" else S[2]
        ys = first.pipe(ops.catch(handler))
    else:
        raise ValueError(op)
    if cut:
        ys = ys.pipe(ops.take(cut))
    b.ys = ys
    return b


def run_scenario(scn: Dict[str, Any], *, form: str, probe: bool, profile: str = "plain", salt: int = 0,
                 starts: Tuple[int, ...] = (0,)) -> Dict[str, Any]:
    """Build and run; `starts` are the subscription instants in ticks (several = C04 patterns)."""
    from reactivex.scheduler import VirtualTimeScheduler
    from reactivex.testing import TestScheduler
    s = TestScheduler()
    cod = SeqCodec(profile, salt)
    b = build(scn, s, cod, form, probe)
    recs: List[List[Tuple[float, str, Any]]] = [[] for _ in starts]
    marks: List[int] = []          # len(b.calls) when each subscription starts
    holder: Dict[int, Any] = {}

    def subscriber(i):
        rec = recs[i]

        def go(_s=None, _st=None):
            marks.append(len(b.calls))
            b.base = len(b.calls)
            holder[i] = b.ys.subscribe(on_next=lambda v: rec.append((s.clock, "N", v)),
                                       on_error=lambda e: rec.append((s.clock, "E", e)),
                                       on_completed=lambda: rec.append((s.clock, "C", None)), scheduler=s)
        return go
    for i, st in enumerate(starts):
        s.schedule_absolute(tick_time(st), subscriber(i))
    if scn["dsp"] != NEVER:
        s.schedule_absolute(tick_time(scn["dsp"]) + HALF, lambda *_: holder[0].dispose())
    escaped = None
    try:
        with watchdog():
            VirtualTimeScheduler.start(s)
    except Hang:
        escaped = "hang"
    except Exception as e:  # escaped into the scheduler
        escaped = e
    subs = {j: [(x.subscribe, x.unsubscribe) for x in c.subscriptions] for j, c in b.colds.items()}
    return {"recs": recs, "subs": subs, "calls": list(b.calls), "marks": marks, "events": list(b.events), "cod": cod,
            "escaped": escaped, "call_pos": b.call_pos}


# ---- comparison on the asserted projection ------------------------------------------------------------
def _cmp_out(cod: SeqCodec, out: List[Dict[str, Any]], rec, start_tick: int) -> Optional[str]:
    if len(rec) != len(out):
        return f"count:{len(rec)}!={len(out)}"
    for (t, k, v), e in zip(rec, out):
        if k != e["k"]:
            return f"kind:{k}!={e['k']}"
        if t != tick_time(start_tick + e["at"]):
            return f"time:{t}!={tick_time(start_tick + e['at'])}"
        if k == "N":
            want = cod.val(e["v"][0], e["v"][1])
            if not (v is want or strict_eq(v, want)):
                return f"value:{v!r}!={want!r}"
        if k == "E":
            if e["e"] == FN:
                if not isinstance(v, FnErr):
                    return f"error:{type(v).__name__}"
            elif v is not cod.errs.get(e["e"]):
                return f"error:{v!r} is not the error of source {e['e']}"
    return None


def compare(scn: Dict[str, Any], exp: Dict[str, Any], got: Dict[str, Any]) -> Optional[str]:
    if got["escaped"] is not None:
        return "hang:run did not return" if got["escaped"] == "hang" else f"escaped:{type(got['escaped']).__name__}"
    r = _cmp_out(got["cod"], exp["out"], got["recs"][0], 0)
    if r:
        return r
    want: Dict[int, List[Tuple[int, int]]] = {j: [] for j in got["subs"]}
    for x in exp["subs"]:
        c = NEVER_T if x["c"] == NEVER else tick_time(x["c"]) + (HALF if x["h"] else 0)
        want[x["s"]].append((tick_time(x["o"]), c))
    n_got = sum(len(v) for v in got["subs"].values())
    if n_got != len(exp["subs"]):
        return f"subcount:{n_got} source subscriptions, expected {len(exp['subs'])}"
    for j in sorted(want):
        if got["subs"][j] != want[j]:
            return f"subs:source {j} subscribed {got['subs'][j]} expected {want[j]}"
    want_calls = exp["calls"] if got.get("call_pos") is None else \
        [c for i, c in enumerate(exp["calls"], start=1) if i in got["call_pos"]]
    if got["calls"] != want_calls:
        return f"calls:{got['calls']}!={want_calls}"
    ev = got["events"]
    if ev:
        opens = [i for i, e in enumerate(ev) if e[0] == "open"]
        if [ev[i][1] for i in opens] != [x["s"] for x in exp["subs"]]:
            return f"order:sources opened in order {[ev[i][1] for i in opens]}"
        for a, bb in zip(opens, opens[1:]):
            if ("term", ev[a][1]) not in ev[a:bb]:
                return f"overlap:source {ev[bb][1]} opened before source {ev[a][1]} terminated"
    return None


def describe(got: Dict[str, Any]) -> Dict[str, Any]:
    esc = got["escaped"]
    return {"recs": [[(t, k, repr(v)) for t, k, v in rec] for rec in got["recs"]], "subs": got["subs"], "calls": got["calls"],
            "events": got["events"], "escaped": (esc if isinstance(esc, str) else repr(esc)) if esc is not None else None}


def _confirmed(run):
    """A hang verdict must be reproducible: on an overloaded box the watchdog can expire on a run that is
    merely starved, so a run that did not return is repeated (a real hang is deterministic)."""
    got = run()
    for _ in range(2):
        if got.get("escaped") != "hang":
            break
        got = run()
    return got


def judge(scn, allowed, *, form, probe, profile="plain", salt=0):
    try:
        got = _confirmed(lambda: run_scenario(scn, form=form, probe=probe, profile=profile, salt=salt))
    except Exception as e:  # raised while the pipeline was being built
        got = {"recs": [[]], "subs": {}, "calls": [], "events": [], "cod": SeqCodec(profile, salt), "escaped": e, "marks": []}
    reasons = []
    for exp in allowed:
        r = compare(scn, exp, got)
        if r is None:
            return None
        reasons.append(r)
    return {"engine": "seq", "op": scn["op"], "form": form, "probe": probe, "profile": profile, "salt": salt, "scn": scn,
            "expected": allowed, "observed": describe(got), "reason": reasons[0], "reason_kind": reasons[0].split(":")[0],
            "has_fault": scn["flt"] > 0, "disposed": scn["dsp"] != NEVER, "n_sources": len(scn["srcs"])}


# ---- untimed replay: synchronous sources, inline / trampoline scheduling ----------------------------------
SYNC_KINDS = ("immediate", "default")


SYNC_CUT_OPS = ("concat", "for_in", "start_with", "repeat", "while_do", "do_while", "catch", "retry", "catch_handler",
                "oern", "oern_f")


def sync_applies(scn, allowed=None) -> bool:
    """Without take: every scenario (no dispose instant, no fault).  With take(cut): the dispose-inside-delivery
    dimension - only when the model says the cut-th element arrives at an instant > 0, i.e. after something
    asynchronous, so that the result's disposable had already been returned when the dispose is issued (a dispose
    issued while the outer subscribe() call is still running cannot reach anything yet: C14's subject)."""
    if scn["dsp"] != NEVER or scn["flt"]:
        return False
    if scn["cut"] == 0:
        return True
    if allowed is None or scn["op"] not in SYNC_CUT_OPS:
        return False
    out = allowed[0]["out"]
    ns = [e for e in out if e["k"] == "N"]
    if not (len(ns) == scn["cut"] and out[-1]["k"] == "C" and ns[-1]["at"] > 0):
        return False
    subs = allowed[0]["subs"]
    if scn["op"] == "do_while" and subs and subs[0]["got"] < scn["cut"]:
        # do_while = source.concat(source.while_do(cond)): from the second run on the sources are driven by the INNER
        # concat, whose own subscribe() call must have returned too - something asynchronous after run 2 was opened
        return len(subs) >= 2 and ns[-1]["at"] > subs[1]["o"]
    return True


def run_sync(scn: Dict[str, Any], *, form: str, sync: str, lib: bool, profile: str = "plain", salt: int = 0,
             via: str = "take") -> Dict[str, Any]:
    """The same scenario without virtual time: events at offset 0 happen inside subscribe(), the result is
    subscribed with scheduler=ImmediateScheduler() (scheduled work runs INLINE, re-entrantly) or with no
    scheduler (current-thread trampoline: queued), later events are then delivered by hand one at a time.
    Scenarios with take(cut): via="take" keeps the take operator, via="dispose" replaces it by an explicit
    dispose() of the result issued from inside the delivery of the cut-th element."""
    from reactivex.scheduler import ImmediateScheduler
    cod = SeqCodec(profile, salt)
    explicit = bool(scn["cut"]) and via == "dispose"
    b = build(dict(scn, cut=0) if explicit else scn, None, cod, form, False, sync=sync, lib=lib)
    rec: List[Tuple[int, str, Any]] = []
    box: Dict[str, Any] = {"h": None, "want": False}
    escaped = None

    def on_next(v):
        rec.append((0, "N", v))
        if explicit and len(rec) == scn["cut"]:
            if box["h"] is not None:
                box["h"].dispose()
            else:
                box["want"] = True
    try:
        with watchdog():
            kw = {"scheduler": ImmediateScheduler()} if sync == "immediate" else {}
            box["h"] = b.ys.subscribe(on_next=on_next, on_error=lambda e: rec.append((0, "E", e)),
                                      on_completed=lambda: rec.append((0, "C", None)), **kw)
            if box["want"]:
                box["h"].dispose()
            for _ in range(10000):
                live = [r for r in b.subrecs if not r["disposed"] and not r["done"] and r["pos"] < len(r["evs"])]
                if not live:
                    break
                b.pump(live[-1], False)
    except Hang:
        escaped = "hang"
    except RecursionError as e:
        escaped = e
    except Exception as e:
        escaped = e
    return {"rec": rec, "events": list(b.events), "calls": list(b.calls), "call_pos": b.call_pos, "cod": cod, "escaped": escaped,
            "explicit": explicit,
            "subrecs": [{"j": r["j"], "disposed": r["disposed"], "done": r["done"]} for r in b.subrecs]}


def compare_sync(scn, exp, got) -> Optional[str]:
    """asserted projection without instants: notifications in order, sources opened in the model's order and
    only after the previous one delivered its terminal, every terminated source released, a source the
    model leaves open still subscribed, callback arguments"""
    if got["escaped"] is not None:
        return "hang:run did not return" if got["escaped"] == "hang" else f"escaped:{type(got['escaped']).__name__}"
    cod, rec, out = got["cod"], got["rec"], exp["out"]
    if got.get("explicit"):
        out = out[:-1]          # an explicit dispose() instead of take(cut): the same, without take's on_completed
    if len(rec) != len(out):
        return f"count:{len(rec)}!={len(out)}"
    for (_, k, v), e in zip(rec, out):
        if k != e["k"]:
            return f"kind:{k}!={e['k']}"
        if k == "N":
            want = cod.val(e["v"][0], e["v"][1])
            if not (v is want or strict_eq(v, want)):
                return f"value:{v!r}!={want!r}"
        if k == "E":
            if e["e"] == FN:
                if not isinstance(v, FnErr):
                    return f"error:{type(v).__name__}"
            elif v is not cod.errs.get(e["e"]):
                return f"error:{v!r} is not the error of source {e['e']}"
    ev = got["events"]
    opens = [i for i, e in enumerate(ev) if e[0] == "open"]
    if [ev[i][1] for i in opens] != [x["s"] for x in exp["subs"]]:
        return f"order:sources opened in order {[ev[i][1] for i in opens]} expected {[x['s'] for x in exp['subs']]}"
    for a, bb in zip(opens, opens[1:]):
        if ("term", ev[a][1]) not in ev[a:bb]:
            return f"overlap:source {ev[bb][1]} opened before source {ev[a][1]} terminated"
    for x, r in zip(exp["subs"], got["subrecs"]):
        if x["c"] == NEVER and r["disposed"]:
            return f"released:subscription to source {r['j']} was disposed although it is the one in progress"
        if x["c"] != NEVER and not r["disposed"]:
            return f"leak:subscription to source {r['j']} still open after it terminated"
    want_calls = exp["calls"] if got.get("call_pos") is None else \
        [c for i, c in enumerate(exp["calls"], start=1) if i in got["call_pos"]]
    if got["calls"] != want_calls:
        return f"calls:{got['calls']}!={want_calls}"
    return None


def judge_sync(scn, allowed, *, form, sync, lib, profile="plain", salt=0, via="take"):
    try:
        got = _confirmed(lambda: run_sync(scn, form=form, sync=sync, lib=lib, profile=profile, salt=salt, via=via))
    except Exception as e:
        got = {"rec": [], "events": [], "calls": [], "call_pos": None, "cod": SeqCodec(profile, salt), "escaped": e, "subrecs": []}
    reasons = []
    for exp in allowed:
        r = compare_sync(scn, exp, got)
        if r is None:
            return None
        reasons.append(r)
    esc = got["escaped"]
    return {"engine": "seq-sync", "op": scn["op"], "form": form, "sync": sync, "lib": lib, "profile": profile, "salt": salt,
            "via": via, "dispose_inside_delivery": bool(scn["cut"]), "scn": scn, "expected": allowed,
            "observed": {"rec": [(k, repr(v)) for _, k, v in got["rec"]], "events": got["events"], "calls": got["calls"],
                         "subrecs": got["subrecs"], "escaped": (esc if isinstance(esc, str) else repr(esc)) if esc is not None else None},
            "reason": reasons[0], "reason_kind": reasons[0].split(":")[0], "has_fault": False, "disposed": False,
            "n_sources": len(scn["srcs"])}


# ---- C04 dimension: the same observable object subscribed again ----------------------------------------
RESUB_PATTERNS = ("seq2", "seq3", "overlap2", "overlap3")


def _span(scn, allowed) -> Optional[int]:
    """ticks until everything of one subscription is over; None if it never ends"""
    exp = allowed[0]
    if not exp["out"] or exp["out"][-1]["k"] == "N":
        return None
    return exp["out"][-1]["at"]


def judge_resub(scn, allowed, pattern: str, *, form: str, profile: str = "plain", salt: int = 0):
    """Subscribe the SAME observable object two or three times - one after the other (each after the
    previous one ended) or overlapping (one tick apart) - and require every subscriber's
    notifications, relative to its own start, to be the allowed single-subscription stream.
    Returns "n/a", None (holds) or a failure record (to be reported under C04)."""
    if form not in REITERABLE_FORMS or scn["dsp"] != NEVER or scn["flt"]:
        return "n/a"
    if scn["op"] in RUN_OPS and len(scn["srcs"]) != 1:
        return "n/a"      # a scripted multi-run source is not cold
    span = _span(scn, allowed)
    n = 3 if pattern.endswith("3") else 2
    if pattern.startswith("seq"):
        if span is None:
            return "n/a"
        starts = tuple(i * (span + 2) for i in range(n))
    else:
        if scn["op"] in ("while_do", "do_while"):
            return "n/a"  # the scripted condition cannot tell overlapping subscriptions apart
        starts = tuple(range(n))
    try:
        got = _confirmed(lambda: run_scenario(scn, form=form, probe=False, profile=profile, salt=salt, starts=starts))
    except Exception as e:
        got = {"recs": [[] for _ in starts], "subs": {}, "calls": [], "events": [], "cod": SeqCodec(profile, salt),
               "escaped": e, "marks": []}
    reason, which = None, None
    if got["escaped"] is not None:
        reason = "hang:run did not return" if got["escaped"] == "hang" else f"escaped:{type(got['escaped']).__name__}"
    else:
        for i, st in enumerate(starts):
            rs = [_cmp_out(got["cod"], exp["out"], got["recs"][i], st) for exp in allowed]
            if all(rs):
                reason, which = rs[0], i + 1
                break
    if reason is None:
        return None
    return {"engine": "seq-resub", "property": "C04", "op": scn["op"], "form": form, "pattern": pattern, "scn": scn,
            "expected": allowed, "observed": describe(got), "starts": list(starts), "failing_subscription": which,
            "reason": reason, "reason_kind": reason.split(":")[0], "first_subscription_ok": which != 1}


def resub_consts(tier: str) -> Dict[str, Any]:
    big = tier != "quick"
    return dict(Ops=set(ALL_OPS), NSrc=2, NRun=1, MaxLen=2 if big else 1, Gaps={0, 1}, Uniform=True,
                Terms={"C", "E", "U"}, Counts={0, 1, 2}, Cuts={0, 2}, Disposes=False, DspMax=0, Faults=False, NSubs=2,
                NConds=2, NArgs=1, Build=False, Slim=False)


def resub_scenarios(ck=None, tier: str = "quick"):
    """Scenario groups of OpsSeq.tla executed with NSubs = 2 (the model subscribes twice and checks
    Resub: both subscriptions observe the same); for a C04 check to feed into judge_resub."""
    from harness import core, tlc
    res = tlc.run("OpsSeq", tlc.cfg_text(resub_consts(tier), invariants=SEQ_INVS + ["Export"]), workers=1, timeout=1200,
                  allow_violation=False)
    if ck is not None:
        ck.add_tlc(res, "OpsSeq NSubs=2")
    return core.group_allowed(res.lines)


def _resub_job(args):
    scn, allowed = args
    n, fails = 0, []
    for form in forms_for(scn):
        for pat in RESUB_PATTERNS:
            f = judge_resub(scn, allowed, pat, form=form)
            if f == "n/a":
                continue
            n += 1
            if f:
                fails.append(f)
    return n, fails


def run_resub(tier: str = "quick", procs: int = 6):
    """Standalone driver of the C04 dimension (results go to notes / a later C04 check, not to C10)."""
    from harness import core
    groups = resub_scenarios(None, tier)
    total, fails = 0, []
    for n, fs in core.parallel_map(_resub_job, groups, procs=procs, chunk=50):
        total += n
        fails += fs
    return len(groups), total, fails


# ---- drivers shared by C10 ---------------------------------------------------------------------------------
def seq_export(ck, runs, timeout=900):
    """runs: list of (label, constants). One TLC invocation each (model invariants + export), in parallel."""
    from concurrent.futures import ThreadPoolExecutor
    from harness import core, tlc

    def one(item):
        label, consts, kw = item
        return tlc.run("OpsSeq", tlc.cfg_text(consts, invariants=SEQ_INVS + ["Export"]), workers=1, timeout=timeout,
                       xmx="2g", allow_violation=False, **kw)
    out = {}
    with ThreadPoolExecutor(min(4, len(runs))) as ex:
        for (label, consts, kw), res in zip(runs, ex.map(one, runs)):
            ck.add_tlc(res, label)
            out[label] = core.group_allowed(res.lines)
    return out


def _seq_job(args):
    scn, allowed, variants = args
    fails = []
    for v in variants:
        f = judge_sync(scn, allowed, **v) if "sync" in v else judge(scn, allowed, **v)
        if f:
            fails.append(f)
    return len(variants), fails


def seq_variants(scn, rich: bool, allowed=None):
    """rich: every call form, with and without probe; otherwise two call forms per scenario, rotating with the
    scenario so that every form meets every kind of scenario across the set"""
    h = sum(map(ord, json.dumps(scn, sort_keys=True)))
    forms = forms_for(scn)
    if not rich and len(forms) > 2:
        forms = [forms[h % len(forms)], forms[(h + 1) % len(forms)]]
    out = []
    for i, form in enumerate(forms):
        probe = bool((h + i) % 2)
        profile = ("plain", "falsy", "ints")[(h + i) % 3]
        out.append(dict(form=form, probe=probe, profile=profile, salt=h % 7))
        if rich:
            out.append(dict(form=form, probe=not probe, profile=("plain", "falsy", "ints")[(h + i + 1) % 3], salt=(h + 3) % 7))
    if sync_applies(scn, allowed):
        # untimed replay with synchronous sources: inline (ImmediateScheduler) and queued (default trampoline)
        # hand-over, hand-made and library sources; one call form each (all forms when rich).  Scenarios with
        # take(cut) are the dispose-inside-delivery dimension: once through take, once through an explicit dispose()
        allf = forms_for(scn)
        for i, kind in enumerate(SYNC_KINDS):
            for form in (allf if rich and kind == "immediate" else [allf[(h + i) % len(allf)]]):
                for via in (("take", "dispose") if scn["cut"] and kind == "immediate" else ("take",)):
                    out.append(dict(form=form, sync=kind, lib=bool((h + i) % 2), profile=("plain", "falsy", "ints")[(h + i) % 3],
                                    salt=h % 7, via=via))
    return out


def seq_replay(groups, rich=False, procs=8):
    """groups: (scn, allowed) or (scn, allowed, rich) triples"""
    from harness import core
    jobs = [(g[0], g[1], seq_variants(g[0], g[2] if len(g) > 2 else rich, g[1])) for g in groups]
    total, fails = 0, []
    for n, fs in core.parallel_map(_seq_job, jobs, procs=procs, chunk=100):
        total += n
        fails += fs
    return total, fails


def seq_nontrivial(scn, allowed):
    """more than one source subscription, or a subscription that is cut short / never made"""
    subs = allowed[0]["subs"]
    return len(subs) >= 2 or len(subs) < len(scn["srcs"]) or scn["dsp"] != NEVER


def seq_generic_replay(rec):
    if rec.get("engine") == "seq-sync":
        f = judge_sync(rec["scn"], rec["expected"], form=rec["form"], sync=rec["sync"], lib=rec["lib"], profile=rec["profile"],
                       salt=rec["salt"], via=rec.get("via", "take"))
    elif rec.get("engine") == "seq-resub":
        f = judge_resub(rec["scn"], rec["expected"], rec["pattern"], form=rec["form"])
    else:
        f = judge(rec["scn"], rec["expected"], form=rec["form"], probe=rec["probe"], profile=rec["profile"], salt=rec["salt"])
    print(json.dumps(f, default=str)[:3000] if f else "replay: observation allowed by the spec")
    return 1 if f else 0


# =====================================================================================================
# C37: source factories (OpsSources.tla)
# =====================================================================================================
SRC_INVS = ["Grammar", "Causal", "Untimed", "NeverSilent", "Terminated", "RefOK", "RangeOK"]
ALL_FACS = ("range1", "range2", "range3", "from_iterable", "return_value", "empty", "never", "throw", "generate",
            "generate_rel", "timer1", "timer2", "interval", "repeat_value")
TIMED_FACS = ("generate_rel", "timer1", "timer2", "interval")
FSCHED_FACS = ("range1", "range2", "range3", "from_iterable", "return_value", "empty", "throw", "timer1", "timer2", "interval")
RAISE = 77
NOBAD = 88
UNDEF = 66     # generator table entry the model never read (lazy tables)


class UnreadEntry(Exception):
    """the real generator asked its callback about a state the model's loop never reads"""

SCHED_KINDS = ("test", "hist", "vts")


class Clock:
    """tick <-> the scheduler's own time type"""

    def __init__(self, kind: str):
        from datetime import timedelta
        from reactivex.scheduler import HistoricalScheduler, VirtualTimeScheduler
        from reactivex.scheduler.scheduler import UTC_ZERO
        from reactivex.testing import TestScheduler
        self.kind = kind
        self.dt = kind == "hist"
        if kind == "test":
            self.s = TestScheduler()
        elif kind == "hist":
            self.s = HistoricalScheduler()
        else:
            self.s = VirtualTimeScheduler(0.0)
        self.zero = UTC_ZERO
        self.td = timedelta

    def abs(self, units: float):
        """absolute scheduler time `units` time units after the scheduler's origin"""
        return self.zero + self.td(seconds=units) if self.dt else float(units)

    def abs_datetime(self, units: float):
        return self.zero + self.td(seconds=units)

    def rel(self, units: float, as_td: bool):
        if as_td:
            return self.td(seconds=units)
        return units

    def tick_now(self) -> float:
        c = self.s.clock
        u = (c - self.zero).total_seconds() if self.dt else float(c)
        x = (u - T0) / TICK
        return int(x) if x == int(x) else round(x, 6)


def src_vals(profile: str, salt: int, n: int) -> List[Any]:
    if profile == "falsy":
        pool = [None, 0, "", (), 0.0, False, [], {}]
        return [pool[(salt + i) % len(pool)] for i in range(n)]
    if profile == "ints":
        return [7 + i for i in range(n)]
    return [("tok", i) for i in range(n)]


def _tok(vals: List[Any], x: Any) -> int:
    for i, v in enumerate(vals):
        if v is x:
            return i
    for i, v in enumerate(vals):
        if strict_eq(v, x):
            return i
    return -1


def src_forms(scn: Dict[str, Any]) -> List[str]:
    fac, par = scn["fac"], scn["par"]
    if fac in ("range1", "range2", "range3"):
        return ["pos", "kw"]
    if fac == "from_iterable":
        if par["bad"] != NOBAD:
            return ["gen", "iterclass"]
        return ["list", "tuple", "gen", "iterclass", "of", "from_", "from_list"]
    if fac == "return_value":
        return ["return_value", "just"]
    if fac == "throw":
        return ["exc", "str"]
    if fac == "timer1":
        return ["rel", "abs"]
    if fac == "timer2":
        return ["rel", "abs"]
    if fac == "repeat_value":
        return ["n"] if par["n"] != INF else ["none", "omitted", "minus1"]
    return ["plain"]


def src_build(scn: Dict[str, Any], ck: Clock, form: str, profile: str, salt: int, as_td: bool, fsched: bool):
    """-> (observable, info) ; info carries what compare needs (values, error objects)"""
    import reactivex
    fac, par = scn["fac"], scn["par"]
    info: Dict[str, Any] = {"vals": None, "throw": None, "throw_str": None}
    kw = {"scheduler": ck.s} if (fsched and fac in FSCHED_FACS) else {}
    D = lambda d: ck.rel(d * TICK, as_td)
    if fac == "range1":
        return (reactivex.range(par["a"], **kw) if form == "pos" else reactivex.range(start=par["a"], **kw)), info
    if fac == "range2":
        return (reactivex.range(par["a"], par["b"], **kw) if form == "pos"
                else reactivex.range(start=par["a"], stop=par["b"], **kw)), info
    if fac == "range3":
        return (reactivex.range(par["a"], par["b"], par["s"], **kw) if form == "pos"
                else reactivex.range(start=par["a"], stop=par["b"], step=par["s"], **kw)), info
    if fac in ("from_iterable", "return_value", "repeat_value"):
        vals = src_vals(profile, salt, 4)
        info["vals"] = vals
        if fac == "return_value":
            f = reactivex.return_value if form == "return_value" else reactivex.just
            return f(vals[par["v"]], **kw), info
        if fac == "repeat_value":
            v = vals[par["v"]]
            if form == "n":
                return reactivex.repeat_value(v, par["n"]), info
            if form == "none":
                return reactivex.repeat_value(v, None), info
            if form == "minus1":
                return reactivex.repeat_value(v, -1), info
            return reactivex.repeat_value(v), info
        xs = [vals[t] for t in par["xs"]]
        bad = par["bad"]

        def gen():
            for i, x in enumerate(xs):
                if i == bad:
                    raise FnErr("iterable")
                yield x
            if bad == len(xs):
                raise FnErr("iterable")

        class It:
            def __iter__(self):
                return gen()
        if form == "list":
            return reactivex.from_iterable(list(xs), **kw), info
        if form == "tuple":
            return reactivex.from_iterable(tuple(xs), **kw), info
        if form == "gen":
            return reactivex.from_iterable(gen(), **kw), info
        if form == "iterclass":
            return reactivex.from_iterable(It(), **kw), info
        if form == "of":
            return reactivex.of(*xs), info
        if form == "from_":
            return reactivex.from_(xs, **kw), info
        return reactivex.from_list(xs, **kw), info
    if fac == "empty":
        return reactivex.empty(**kw), info
    if fac == "never":
        return reactivex.never(), info
    if fac == "throw":
        if form == "exc":
            info["throw"] = SrcErr(f"thrown{par['v']}")
            return reactivex.throw(info["throw"], **kw), info
        info["throw_str"] = f"message{par['v']}"
        return reactivex.throw(info["throw_str"], **kw), info
    if fac in ("generate", "generate_rel"):
        n = len(par["cond"])
        vals = src_vals(profile, salt, n)
        info["vals"] = vals

        def cond(x):
            r = par["cond"][str(_tok(vals, x))]
            if r == UNDEF:
                raise UnreadEntry("condition")
            if r == 2:
                raise FnErr("condition")
            return r == 1

        def it(x):
            r = par["iter"][str(_tok(vals, x))]
            if r == UNDEF:
                raise UnreadEntry("iterate")
            if r == RAISE:
                raise FnErr("iterate")
            return vals[r]
        if fac == "generate":
            return reactivex.generate(vals[par["s0"]], cond, it), info

        def tm(x):
            r = par["tm"][str(_tok(vals, x))]
            if r == UNDEF:
                raise UnreadEntry("time_mapper")
            if r == RAISE:
                raise FnErr("time_mapper")
            return D(r)
        return reactivex.generate_with_relative_time(vals[par["s0"]], cond, it, tm), info
    if fac == "timer1":
        if form == "abs":
            return reactivex.timer(ck.abs_datetime(T0 + par["d"] * TICK), **kw), info
        return reactivex.timer(D(par["d"]), **kw), info
    if fac == "timer2":
        if form == "abs":
            return reactivex.timer(ck.abs_datetime(T0 + par["d"] * TICK), D(par["p"]), **kw), info
        return reactivex.timer(D(par["d"]), D(par["p"]), **kw), info
    if fac == "interval":
        return reactivex.interval(D(par["p"]), **kw), info
    raise ValueError(fac)


def src_run(scn: Dict[str, Any], *, kind: str, form: str, profile: str = "plain", salt: int = 0, as_td: bool = False,
            fsched: bool = False, starts: Tuple[int, ...] = (0,), stop_first: Optional[int] = None) -> Dict[str, Any]:
    """`starts`: subscription instants (ticks) of the subscribers of the SAME observable object; every subscriber is
    disposed half a tick after its own horizon, the first one half a tick after instant `stop_first` if given.
    `recs[i]` holds subscriber i's notifications with instants relative to its own subscription."""
    from reactivex import operators as ops
    from reactivex.scheduler import VirtualTimeScheduler
    ck = Clock(kind)
    s = ck.s
    recs: List[List[Tuple[Any, str, Any]]] = [[] for _ in starts]
    holder: Dict[int, Any] = {}
    escaped = None
    info: Dict[str, Any] = {"vals": None, "throw": None, "throw_str": None}
    try:
        ys, info = src_build(scn, ck, form, profile, salt, as_td, fsched)
        if scn["cut"]:
            ys = ys.pipe(ops.take(scn["cut"]))

        def subscriber(i, st):
            rec = recs[i]

            def now():
                t = ck.tick_now() - st
                return int(t) if t == int(t) else t

            def go(_s=None, _st=None):
                kw = {} if fsched and scn["fac"] in FSCHED_FACS else {"scheduler": s}
                holder[i] = ys.subscribe(on_next=lambda v: rec.append((now(), "N", v)),
                                         on_error=lambda e: rec.append((now(), "E", e)),
                                         on_completed=lambda: rec.append((now(), "C", None)), **kw)
            return go
        for i, st in enumerate(starts):
            s.schedule_absolute(ck.abs(T0 + st * TICK), subscriber(i, st))
            end = st + scn["hz"] if not (i == 0 and stop_first is not None) else stop_first
            s.schedule_absolute(ck.abs(T0 + end * TICK + HALF), (lambda i: lambda *_: holder[i].dispose())(i))
        with watchdog():
            VirtualTimeScheduler.start(s)
    except Hang:
        escaped = "hang"
    except Exception as e:
        escaped = e
    return {"rec": recs[0], "recs": recs, "info": info, "escaped": escaped}


def src_compare(scn: Dict[str, Any], exp: Dict[str, Any], got: Dict[str, Any]) -> Optional[str]:
    fac = scn["fac"]
    if got["escaped"] is not None:
        return "hang:run did not return" if got["escaped"] == "hang" else f"escaped:{type(got['escaped']).__name__}"
    rec, out, info = got["rec"], exp["out"], got["info"]
    if len(rec) != len(out):
        return f"count:{len(rec)}!={len(out)}"
    intval = fac in ("range1", "range2", "range3", "timer1", "timer2", "interval")
    for (t, k, v), e in zip(rec, out):
        if k != e["k"]:
            return f"kind:{k}!={e['k']}"
        if t != e["at"]:
            return f"time:{t}!={e['at']}"
        if k == "N":
            if intval:
                if type(v) is not int or v != e["v"]:
                    return f"value:{v!r}!={e['v']}"
            else:
                if not 0 <= e["v"] < len(info["vals"]):
                    return f"value:{v!r} (no such token {e['v']})"
                want = info["vals"][e["v"]]
                if not (v is want or strict_eq(v, want)):
                    return f"value:{v!r}!={want!r}"
        if k == "E":
            if e["e"] == FN:
                if not isinstance(v, FnErr):
                    return f"error:{type(v).__name__}"
            elif info["throw"] is not None:
                if v is not info["throw"]:
                    return f"error:{v!r} is not the thrown object"
            elif not (type(v) is Exception and v.args == (info["throw_str"],)):
                return f"error:{v!r} is not Exception({info['throw_str']!r})"
    return None


def src_has_fault(scn: Dict[str, Any]) -> bool:
    par = scn["par"]
    if scn["fac"] == "from_iterable":
        return par["bad"] != NOBAD
    if scn["fac"] in ("generate", "generate_rel"):
        return (2 in par["cond"].values() or RAISE in par["iter"].values()
                or RAISE in par.get("tm", {}).values())
    return False


def _zero_gap_prefix(exp_out, rec) -> bool:
    """witness for the zero-delay defect: the expected stream has an element at the instant of the
    previous emission (or of the subscription) and the observed stream is exactly what precedes it"""
    prev = 0
    for i, e in enumerate(exp_out):
        if e["k"] == "N" and e["at"] == prev:
            return len(rec) == i and all(r[1] == "N" and r[0] == x["at"] for r, x in zip(rec, exp_out[:i]))
        prev = e["at"]
    return False


def src_judge(scn, allowed, *, kind, form, profile="plain", salt=0, as_td=False, fsched=False):
    got = _confirmed(lambda: src_run(scn, kind=kind, form=form, profile=profile, salt=salt, as_td=as_td, fsched=fsched))
    reasons = []
    for exp in allowed:
        r = src_compare(scn, exp, got)
        if r is None:
            return None
        reasons.append(r)
    esc = got["escaped"]
    return {"engine": "src", "fac": scn["fac"], "form": form, "kind": kind, "profile": profile, "salt": salt, "as_td": as_td,
            "fsched": fsched, "scn": scn, "expected": allowed,
            "observed": {"rec": [(t, k, repr(v)) for t, k, v in got["rec"]],
                         "escaped": (esc if isinstance(esc, str) else repr(esc)) if esc is not None else None},
            "reason": reasons[0], "reason_kind": reasons[0].split(":")[0],
            "escaped_type": type(esc).__name__ if esc is not None and not isinstance(esc, str) else None,
            "has_fault": src_has_fault(scn),
            "zero_delay_prefix": scn["fac"] == "generate_rel" and _zero_gap_prefix(allowed[0]["out"], got["rec"])}


# ---- several subscribers of the same factory object ----------------------------------------------------------
MULTI_PATTERNS = ("overlap1", "overlap2", "redo")
ONE_SHOT_FORMS = {"gen"}        # a generator object handed to from_iterable is legitimately consumed once
ABSOLUTE_FORMS = {"abs"}        # an absolute due time is not relative to the subscription


def multi_applies(scn, form: str) -> bool:
    return form not in ONE_SHOT_FORMS and form not in ABSOLUTE_FORMS


def src_judge_multi(scn, allowed, pattern: str, *, kind, form, profile="plain", salt=0, as_td=False, fsched=False):
    """A second subscriber on the SAME observable object - overlapping the first (1 or 2 ticks later, while the
    first has a value pending) or subscribing one tick after the first was disposed mid-stream (half a tick after
    its first element) - must observe the factory's specified sequence relative to ITS OWN subscription instant;
    the first subscriber must be undisturbed (its expectation is cut at its dispose instant)."""
    exp0 = allowed[0]["out"]
    stop_first = None
    if pattern == "redo":
        firsts = [e["at"] for e in exp0 if e["k"] == "N"]
        stop_first = firsts[0] if firsts else 0
        starts = (0, stop_first + 1)
    else:
        starts = (0, 1 if pattern == "overlap1" else 2)
    got = _confirmed(lambda: src_run(scn, kind=kind, form=form, profile=profile, salt=salt, as_td=as_td, fsched=fsched,
                                     starts=starts, stop_first=stop_first))
    reason, which = None, None
    for i in range(len(starts)):
        rs = []
        for exp in allowed:
            e2 = exp
            if i == 0 and stop_first is not None:
                e2 = dict(exp, out=[e for e in exp["out"] if e["at"] <= stop_first])
            rs.append(src_compare(scn, e2, {"rec": got["recs"][i], "info": got["info"], "escaped": got["escaped"]}))
        if all(rs):
            reason, which = rs[0], i + 1
            break
    if reason is None:
        return None
    esc = got["escaped"]
    return {"engine": "src-multi", "fac": scn["fac"], "form": form, "kind": kind, "profile": profile, "salt": salt, "as_td": as_td,
            "fsched": fsched, "pattern": pattern, "starts": list(starts), "stop_first": stop_first, "failing_subscriber": which,
            "scn": scn, "expected": allowed,
            "observed": {"recs": [[(t, k, repr(v)) for t, k, v in r] for r in got["recs"]],
                         "escaped": (esc if isinstance(esc, str) else repr(esc)) if esc is not None else None},
            "reason": reason, "reason_kind": reason.split(":")[0],
            "escaped_type": type(esc).__name__ if esc is not None and not isinstance(esc, str) else None,
            "has_fault": src_has_fault(scn), "zero_delay_prefix": False}


def src_variants(scn, rich: bool):
    fac = scn["fac"]
    h = sum(map(ord, json.dumps(scn, sort_keys=True)))
    forms = src_forms(scn)
    out = []
    timed = fac in TIMED_FACS
    combos = [("test", False), ("hist", True)] if timed else [("test", False)]
    if rich:
        combos = [("test", False), ("test", True), ("hist", True), ("hist", False), ("vts", False)] if timed else \
                 [("test", False), ("hist", False), ("vts", False)]
    for i, form in enumerate(forms):
        for c, (kind, as_td) in enumerate(combos):
            out.append(dict(kind=kind, form=form, as_td=as_td, profile=("plain", "falsy", "ints")[(h + i + c) % 3],
                            salt=(h + c) % 8, fsched=bool((h + i + c) % 2) and fac in FSCHED_FACS))
    # a second subscriber on the same object: all three patterns for the timed factories, one (rotating) for the others
    mforms = [f for f in forms if multi_applies(scn, f)]
    if mforms:
        pats = MULTI_PATTERNS if timed else (MULTI_PATTERNS[h % 3],)
        for i, pat in enumerate(pats):
            kind, as_td = combos[(h + i) % len(combos)]
            out.append(dict(multi=pat, kind=kind, form=mforms[(h + i) % len(mforms)], as_td=as_td,
                            profile=("plain", "falsy", "ints")[(h + i) % 3], salt=(h + i) % 8,
                            fsched=bool((h + i) % 2) and fac in FSCHED_FACS))
    return out


def _src_job(args):
    scn, allowed, variants = args
    fails = []
    for v in variants:
        if "multi" in v:
            v = dict(v)
            f = src_judge_multi(scn, allowed, v.pop("multi"), **v)
        else:
            f = src_judge(scn, allowed, **v)
        if f:
            fails.append(f)
    return len(variants), fails


def src_replay(groups, rich=False, procs=8):
    """groups: (scn, allowed) or (scn, allowed, rich) triples"""
    from harness import core
    jobs = [(g[0], g[1], src_variants(g[0], g[2] if len(g) > 2 else rich)) for g in groups]
    total, fails = 0, []
    for n, fs in core.parallel_map(_src_job, jobs, procs=procs, chunk=100):
        total += n
        fails += fs
    return total, fails


def src_export(ck, runs, timeout=900):
    from concurrent.futures import ThreadPoolExecutor
    from harness import core, tlc

    def one(item):
        label, consts, kw = item
        return tlc.run("OpsSources", tlc.cfg_text(consts, invariants=SRC_INVS + ["Export"]), workers=1, timeout=timeout,
                       xmx="2g", allow_violation=False, **kw)
    out = {}
    with ThreadPoolExecutor(min(4, len(runs))) as ex:
        for (label, consts, kw), res in zip(runs, ex.map(one, runs)):
            ck.add_tlc(res, label)
            out[label] = core.group_allowed(res.lines)
    return out


def src_generic_replay(rec):
    if rec.get("engine") == "src-multi":
        f = src_judge_multi(rec["scn"], rec["expected"], rec["pattern"], kind=rec["kind"], form=rec["form"], profile=rec["profile"],
                            salt=rec["salt"], as_td=rec["as_td"], fsched=rec["fsched"])
        print(json.dumps(f, default=str)[:3000] if f else "replay: observation allowed by the spec")
        return 1 if f else 0
    f = src_judge(rec["scn"], rec["expected"], kind=rec["kind"], form=rec["form"], profile=rec["profile"], salt=rec["salt"],
                  as_td=rec["as_td"], fsched=rec["fsched"])
    print(json.dumps(f, default=str)[:3000] if f else "replay: observation allowed by the spec")
    return 1 if f else 0


if __name__ == "__main__":
    # python -m props.seq_common resub [quick|thorough]   -> summary of the C04 dimension
    if len(sys.argv) > 1 and sys.argv[1] == "resub":
        ng, total, fails = run_resub(sys.argv[2] if len(sys.argv) > 2 else "quick")
        by: Dict[str, int] = {}
        for f in fails:
            key = f"{f['op']}/{f['form']}/{f['pattern']}/{f['reason_kind']}"
            by[key] = by.get(key, 0) + 1
        print(json.dumps({"scenarios": ng, "runs": total, "failures": len(fails), "by": by}, indent=1))
        for f in fails[:3]:
            print(json.dumps({k: f[k] for k in ("op", "form", "pattern", "scn", "reason", "failing_subscription")}, default=str))
