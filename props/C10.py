"""C10 - sequential composition runs one source at a time, in order (OpsSeq.tla, Binding A)."""
from harness import core
from props import seq_common as sc


def consts(tier):
    if tier == "quick":
        # ONE TLC invocation (a JVM start costs 1 s on a quiet box but a minute on a loaded one): every operator,
        # <= 3 sources / 2 run timelines x <= 1 element, gaps {0,1}, counts 0..2 and unbounded, take(2), dispose
        # instants 0..2; Slim (SlimOK in the module) keeps the expensive dimensions from multiplying
        return [("quick", dict(Ops=set(sc.ALL_OPS), NSrc=3, NRun=2, MaxLen=1, Gaps={0, 1}, Uniform=True, Terms={"C", "E", "U"},
                               Counts={0, 1, 2}, Cuts={0, 2}, Disposes=True, DspMax=2, Faults=False, NSubs=1, NConds=2, NArgs=2,
                               Build=False, Slim=True), {})]
        # (the raising-callback dimension, which belongs to C09, is run in the thorough tier only)
    base = dict(Ops=set(sc.ALL_OPS), NSrc=3, NRun=3, MaxLen=2, Gaps={0, 1}, Uniform=True, Terms={"C", "E", "U"},
                Counts={0, 1, 2, 3}, Cuts={0, 1, 3}, Disposes=False, DspMax=4, Faults=False, NSubs=1, NConds=2, NArgs=2, Build=False, Slim=False)
    free = dict(base, Uniform=False, Gaps={0, 1, 2}, NSrc=2, NRun=2, NConds=2)
    return [
        ("list-a", dict(base, Ops={"concat", "for_in"}), {}),
        ("list-b", dict(base, Ops={"catch", "oern"}, Cuts={0, 3}), {}),
        ("list-c", dict(base, Ops={"oern_f"}, Cuts={0, 3}), {}),
        ("run-a", dict(base, Ops={"repeat", "retry"}), {}),
        ("run-b", dict(base, Ops={"while_do", "do_while", "start_with", "catch_handler"}), {}),
        ("run-c", dict(base, Ops={"repeat", "retry", "while_do", "do_while"}, MaxLen=1, NRun=2, Counts={4, 5}, NConds=3, Cuts={0, 2}), {}),
        ("free-gaps-list", dict(free, Ops=set(sc.LIST_OPS), Cuts={0}), {}),
        ("free-gaps-run", dict(free, Ops=set(sc.RUN_OPS) | {"start_with", "catch_handler"}, MaxLen=1, Cuts={0, 2}), {}),
        ("dispose", dict(base, NSrc=2, NRun=2, MaxLen=1, Disposes=True, Cuts={0}, Counts={2, 3}, NConds=2, NArgs=1), {}),
        ("faults", dict(base, NSrc=3, NRun=2, MaxLen=1, Faults=True, Ops=set(sc.CB_OPS), Cuts={0, 2}), {}),
    ]


def simulate_consts(seed):
    """beyond what finishes exhaustively: 4 sources x 3 elements, free gaps 0..2, every dispose instant (random
    scenarios; each scenario is deterministic, so one simulated behaviour gives its whole allowed set).
    Build mode: the source list is appended one timeline per step, so Init stays small and the simulator samples
    lists that could never be enumerated (280 timelines ^ 4)."""
    c = dict(Ops=set(sc.ALL_OPS), NSrc=4, NRun=3, MaxLen=3, Gaps={0, 1, 2}, Uniform=False, Terms={"C", "E", "U"},
             Counts={0, 1, 2, 3, 4, 5}, Cuts={0, 1, 2, 4}, Disposes=True, DspMax=6, Faults=False, NSubs=1, NConds=3, NArgs=2,
             Build=True, Slim=False)
    return [("simulate-list", dict(c, Ops=set(sc.LIST_OPS) | {"start_with", "catch_handler"}), dict(simulate="num=2500", depth=60, seed=seed)),
            ("simulate-run", dict(c, Ops=set(sc.RUN_OPS)), dict(simulate="num=1500", depth=80, seed=seed + 1))]


def run(tier):
    ck = core.Check("C10", tier)
    runs = consts(tier)
    groups = sc.seq_export(ck, runs, timeout=600 if tier == "quick" else 2400)
    exhaustive_labels = [l for l, _, _ in runs]
    if tier != "quick":
        sims = simulate_consts(ck.seed or 1)
        # Build mode: the source list is appended one timeline per step, so Init stays small and the simulator
        # samples lists that could never be enumerated (280 timelines ^ 4)
        groups.update(sc.seq_export(ck, sims, timeout=2400))
    main, side = [], []
    for label, gs in groups.items():
        for g in gs:
            # the dispose / fault runs also re-export the plain scenarios of their smaller bounds: skip the duplicates
            if (label == "dispose" and g[0]["dsp"] == sc.NEVER) or (label == "faults" and not g[0]["flt"]):
                continue
            rich = tier != "quick" and not (label.startswith("free") or label.startswith("simulate"))
            (side if g[0]["flt"] else main).append((g[0], g[1], rich))
    ck.exhaustive = True
    ck.rule = ("every list of <= NSrc cold source timelines (<= MaxLen elements, gaps from Gaps, terminal completed / error / "
               "none; sources behind a non-continuing one are one representative) x every operator of the family with "
               "every count 0..N and unbounded, condition script, start_with arity, optional take(cut), and every dispose "
               "instant, enumerated by TLC on OpsSeq.tla; each replayed in every call form (function, piped operator, "
               "list / generator iterable, scripted multi-run source) with and without the probe wrapper; non-trivial = "
               "at least two source subscriptions, or a listed source never subscribed, or a dispose")
    # one worker pool for both parts (forking a pool is the expensive step on a loaded box); the C09 dimension
    # (a raising mapper / factory / handler / condition) is judged by the same machinery, but a failure there
    # contradicts C09, not C10 - it is recorded in the evidence and printed as a NOTE
    n_all, all_fails = sc.seq_replay(main + [(g[0], g[1], False) for g in side], procs=8)
    side_fails = [f for f in all_fails if f["has_fault"]]
    n_side = sum(len(sc.seq_variants(g[0], False)) for g in side)
    ck.impl += n_all - n_side
    for f in all_fails:
        if not f["has_fault"]:
            ck.fail(f)
    by = {}
    for f in side_fails:
        key = f"{f['op']}:{f['reason_kind']}"
        by[key] = by.get(key, 0) + 1
    ck.note("c09_dimension", {"scenarios_with_raising_callback": len(side), "runs": n_side, "failures": by,
                              "note": "failures here belong to property C09 and do not affect this check's verdict"})
    for key, n in sorted(by.items()):
        print(f"NOTE: C09-dimension (not a C10 verdict): {key} x{n}", flush=True)
    ck.nontrivial = sum(1 for g in main if sc.seq_nontrivial(g[0], g[1]))
    ck.note("scenarios", len(main))
    ck.note("scenarios_by_operator", _count(main))
    ck.note("exhaustive_runs", exhaustive_labels)
    ck.note("asserted_projection", ["notifications: kind, instant, value identity, error identity",
                                    "per cold source: list of (subscribe, unsubscribe) instants from ColdObservable.subscriptions",
                                    "total number of source subscriptions", "arguments of user-callback calls, in order",
                                    "probe variant: a source is opened only after the previous one delivered its terminal"])
    ck.note("sync_replay", "every scenario without take / dispose / fault is also replayed untimed: sources that deliver their "
            "offset-0 events inside subscribe() (hand-driven observables and from_iterable / throw / never), subscribed with "
            "scheduler=ImmediateScheduler() (re-entrant hand-over) and with the default trampoline; compared on notifications "
            "in order, order of source subscriptions, open-after-terminal, every terminated source released, the source in "
            "progress NOT released, callback arguments; scenarios with take(cut) whose cut-th element arrives after something "
            "asynchronous are the dispose-inside-delivery dimension (through take and through an explicit dispose() in on_next): "
            "no source may be pulled / subscribed and no callback called after the dispose")
    ck.note("not_compared", ["order of unsubscribe(previous) vs subscribe(next) inside one instant",
                             "untimed replay: instants; a dispose issued while the operator's own subscribe() call is still on the stack (C14)"])
    for g in main[:: max(1, len(main) // 5)][:5]:
        ck.sample({"scn": g[0], "allowed": g[1]})
    ck.assumptions = ["TestScheduler/VirtualTimeScheduler run actions in due order, FIFO at equal instants (C28)",
                      "the subscriber disposes strictly between two instants (half a tick after instant dsp), so no tie with a "
                      "source event arises; only one source is open at a time, so the model is deterministic",
                      "a resubscribing operator's source is a scripted observable whose i-th subscription plays timeline i "
                      "(a test double; with one timeline it is the plain ColdObservable)",
                      "the simulated part (thorough) samples scenarios; every sampled scenario is still judged exactly"]
    return ck.finish()


def _count(groups):
    out = {}
    for g in groups:
        out[g[0]["op"]] = out.get(g[0]["op"], 0) + 1
    return out


replay = sc.seq_generic_replay


META = {
    'technique': 'TLC-enumerated lists of cold source timelines x operator parameters executed in OpsSeq.tla (transducer checked against a closed-form reference and the C10 invariants) and replayed on the real operators on TestScheduler',
    'level': 'OpsSeq.tla runs every sequential operator (concat, concat_with_iterable, for_in, start_with, repeat, retry, catch in function / iterable / operator / handler form, on_error_resume_next with observables and factories, while_do, do_while) over every bounded list of cold source timelines, counts 0..N and unbounded (cut by take), every dispose instant; TLC checks NoOverlap, InOrder, Continuation (next source opened at the instant the previous one terminated in the continuing way), OutConcat, RepeatCount (exactly n), RetryCount (at most n) and agreement of the step transducer with a closed-form reference on every state, and exports each scenario with its expected notifications and subscription log; every scenario is run on the real library in every call form and must match on notifications, instants, per-source subscription intervals read from ColdObservable.subscriptions, subscription counts and callback arguments; scenarios without take / dispose are additionally replayed untimed with synchronous sources under ImmediateScheduler (inline, re-entrant hand-over) and the default trampoline and must match on notifications, subscription order, open-after-terminal and release. Exhaustive for the stated bounds, plus simulated larger scenarios in the thorough tier.',
    'note': 'TLC 1.8; codec of props/seq_common.py (tokens to values incl. falsy profile, ticks to virtual time, scripted multi-run source, probe wrapper); TestScheduler (C28)',
    'ref': 'DESIGN.md 6 C10, 3.2, App. C',
}
